(* Proofs/StateWf.v — C03 lemmas. *)
From Pydra Require Import Base.Prelude Model.StateWf Spec.StateWf.
Local Open Scope nat_scope.

(* the property at full strength: on every well-formed workflow of the fragment the model (= the code)
   produces exactly the nested-loop outputs *)
Definition full_statement : Prop :=
  forall wf : workflow, wf_ok wf = true -> model_run wf = Some (spec_run wf).

(* diamond N0 -> N1, N0 -> N2, (N1, N2) -> N3 with N0 split over [1;2;3] *)
Definition diamond : workflow :=
  [ {| n_fields := [BSplit [1; 2; 3]%Z]; n_split := [0]; n_zip := []; n_osel := []; n_comb := [] |};
    {| n_fields := [BUp 0]; n_split := []; n_zip := []; n_osel := []; n_comb := [] |};
    {| n_fields := [BUp 0]; n_split := []; n_zip := []; n_osel := []; n_comb := [] |};
    {| n_fields := [BUp 1; BUp 2]; n_split := []; n_zip := []; n_osel := []; n_comb := [] |} ].

Lemma diamond_wf : wf_ok diamond = true.
Proof. vm_compute. reflexivity. Qed.

Lemma diamond_counts :
  option_map (map (fun v => match v with VList l => List.length l | _ => 0 end)) (model_run diamond) = Some [3; 3; 3; 9]
  /\ spec_njobs diamond = [3; 3; 3; 3].
Proof. split; vm_compute; reflexivity. Qed.

Lemma refuted : ~ full_statement.
Proof.
  intros H. specialize (H diamond diamond_wf). vm_compute in H. discriminate H.
Qed.
