(* Proofs/HashCtx.v — the serializers are parametric in "how a sub-object is hashed" (repr_rel); consequences:
   more fuel never changes a digest (dig_mono), and for values without reference cycles the digest computed
   under any Cache left by earlier hash calls is the digest of the value alone (hs_context_free). *)
From Coq Require Import Sorting.Permutation.
From Pydra Require Import Base.Prelude Base.PySort Model.Hash Proofs.HashSort.
Local Open Scope list_scope.

(* the sub-objects that bytes_repr hands to hash_single *)
Definition key_subs (k : pyval) : list pyval :=
  match k with VList _ l | VTuple _ l | VSet _ l | VFrozenset _ l => l | _ => [] end.
Definition subs (v : pyval) : list pyval :=
  match v with
  | VList _ l | VTuple _ l | VSet _ l | VFrozenset _ l => l
  | VDict _ kvs => flat_map (fun kv : pyval * pyval => key_subs (fst kv) ++ [snd kv]) kvs
  | VObj _ _ ats => map snd ats
  | _ => []
  end.

Lemma sorted_res_in {A} (lt : A -> A -> option bool) l s x :
  sorted_res lt l = Ok s -> In x s -> In x l.
Proof.
  unfold sorted_res. destruct (py_sorted lt l) as [s'|] eqn:E; [|discriminate].
  intros E' Hin. inversion E'; subst. apply py_sorted_perm in E.
  eapply Permutation_in; [symmetry; exact E|exact Hin].
Qed.

Section Rel.
  Context {M1 M2 : Type}.
  Variable rec1 : pyval -> M1 -> res (string * M1).
  Variable rec2 : pyval -> M2 -> res (string * M2).
  Variable I : M1 -> M2 -> Prop.

  Definition rel_on (x : pyval) : Prop :=
    forall m1 m2 d m2', I m1 m2 -> rec2 x m2 = Ok (d, m2') ->
                        exists m1', rec1 x m1 = Ok (d, m1') /\ I m1' m2'.

  Lemma seq_contents_rel : forall l, (forall x, In x l -> rel_on x) ->
    forall m1 m2 s m2', I m1 m2 -> seq_contents rec2 l m2 = Ok (s, m2') ->
                        exists m1', seq_contents rec1 l m1 = Ok (s, m1') /\ I m1' m2'.
  Proof.
    induction l as [|x l IH]; intros Hl m1 m2 s m2' HI E; cbn in E |- *.
    - inversion E; subst. eauto.
    - destruct (rec2 x m2) as [[d m2a]|] eqn:E2; [|discriminate].
      destruct (Hl x (or_introl eq_refl) m1 m2 d m2a HI E2) as (m1a & E1 & HIa). rewrite E1.
      destruct (seq_contents rec2 l m2a) as [[s' m2b]|] eqn:E3; [|discriminate].
      inversion E; subst.
      destruct (IH (fun y Hy => Hl y (or_intror Hy)) m1a m2a s' m2' HIa E3) as (m1b & E1b & HIb).
      rewrite E1b. eauto.
  Qed.

  Lemma repr_flat_rel : forall k, (forall x, In x (key_subs k) -> rel_on x) ->
    forall m1 m2 s m2', I m1 m2 -> repr_flat rec2 k m2 = Ok (s, m2') ->
                        exists m1', repr_flat rec1 k m1 = Ok (s, m1') /\ I m1' m2'.
  Proof.
    intros k Hk m1 m2 s m2' HI E. unfold repr_flat in *.
    destruct (atom_bytes k) as [a|] eqn:Ea.
    - inversion E; subst. eauto.
    - destruct k; try discriminate; cbn [key_subs] in Hk.
      + destruct (seq_contents rec2 l m2) as [[s' m']|] eqn:E2; [|discriminate]. inversion E; subst.
        destruct (seq_contents_rel l Hk m1 m2 s' m2' HI E2) as (m1' & E1 & HI'). rewrite E1. eauto.
      + destruct (seq_contents rec2 l m2) as [[s' m']|] eqn:E2; [|discriminate]. inversion E; subst.
        destruct (seq_contents_rel l Hk m1 m2 s' m2' HI E2) as (m1' & E1 & HI'). rewrite E1. eauto.
      + destruct (sorted_res vlt l) as [sl|] eqn:Es; [|discriminate].
        destruct (seq_contents rec2 sl m2) as [[s' m']|] eqn:E2; [|discriminate]. inversion E; subst.
        destruct (seq_contents_rel sl (fun x Hx => Hk x (sorted_res_in _ _ _ _ Es Hx)) m1 m2 s' m2' HI E2)
          as (m1' & E1 & HI'). rewrite E1. eauto.
      + destruct (sorted_res vlt l) as [sl|] eqn:Es; [|discriminate].
        destruct (seq_contents rec2 sl m2) as [[s' m']|] eqn:E2; [|discriminate]. inversion E; subst.
        destruct (seq_contents_rel sl (fun x Hx => Hk x (sorted_res_in _ _ _ _ Es Hx)) m1 m2 s' m2' HI E2)
          as (m1' & E1 & HI'). rewrite E1. eauto.
  Qed.

  Lemma map_contents_rel : forall kvs,
    (forall kv x, In kv kvs -> In x (key_subs (fst kv) ++ [snd kv]) -> rel_on x) ->
    forall m1 m2 s m2', I m1 m2 -> map_contents rec2 kvs m2 = Ok (s, m2') ->
                        exists m1', map_contents rec1 kvs m1 = Ok (s, m1') /\ I m1' m2'.
  Proof.
    induction kvs as [|[k x] kvs IH]; intros Hl m1 m2 s m2' HI E; cbn in E |- *.
    - inversion E; subst. eauto.
    - destruct (repr_flat rec2 k m2) as [[ks m2a]|] eqn:Ek; [|discriminate].
      assert (Hk : forall y, In y (key_subs k) -> rel_on y).
      { intros y Hy. apply (Hl (k, x) y); [now left|]. apply in_or_app. now left. }
      destruct (repr_flat_rel k Hk m1 m2 ks m2a HI Ek) as (m1a & E1a & HIa).
      rewrite E1a.
      destruct (rec2 x m2a) as [[d m2b]|] eqn:Ex; [|discriminate].
      assert (Hx : rel_on x).
      { apply (Hl (k, x) x); [now left|]. apply in_or_app. right. now left. }
      destruct (Hx m1a m2a d m2b HIa Ex) as (m1b & E1b & HIb).
      rewrite E1b.
      destruct (map_contents rec2 kvs m2b) as [[s' m2c]|] eqn:Er; [|discriminate]. inversion E; subst.
      destruct (IH (fun kv y Hkv Hy => Hl kv y (or_intror Hkv) Hy) m1b m2b s' m2' HIb Er) as (m1c & E1c & HIc).
      rewrite E1c. eauto.
  Qed.

  Lemma mapping_rel : forall kvs,
    (forall kv x, In kv kvs -> In x (key_subs (fst kv) ++ [snd kv]) -> rel_on x) ->
    forall m1 m2 s m2', I m1 m2 -> mapping rec2 kvs m2 = Ok (s, m2') ->
                        exists m1', mapping rec1 kvs m1 = Ok (s, m1') /\ I m1' m2'.
  Proof.
    intros kvs Hl m1 m2 s m2' HI E. unfold mapping in *.
    destruct (sorted_res kvlt kvs) as [sk|] eqn:Es; [|discriminate].
    apply (map_contents_rel sk) with (m2 := m2); auto.
    intros kv x Hkv Hx. apply (Hl kv x); auto. eapply sorted_res_in; eauto.
  Qed.

  Theorem repr_rel : forall v, (forall x, In x (subs v) -> rel_on x) ->
    forall m1 m2 s m2', I m1 m2 -> repr rec2 v m2 = Ok (s, m2') ->
                        exists m1', repr rec1 v m1 = Ok (s, m1') /\ I m1' m2'.
  Proof.
    intros v Hv m1 m2 s m2' HI E.
    destruct v as [ | b | z | bits | s0 | s0 | cls s0 | i l | i l | i l | i l | i kvs | i cls attrs | i cls dt sh data | i src hid | i pre | i ];
      try (apply repr_flat_rel with (m2 := m2); auto; fail); cbn [repr] in *.
    - (* VDict *)
      destruct (mapping rec2 kvs m2) as [[s' m']|] eqn:E2; [|discriminate]. inversion E; subst.
      destruct (mapping_rel kvs) with (m1 := m1) (m2 := m2) (s := s') (m2' := m2') as (m1' & E1 & HI'); auto.
      { intros kv x Hkv Hx. apply Hv. cbn [subs]. apply in_flat_map. exists kv. auto. }
      rewrite E1. eauto.
    - (* VObj *)
      destruct (mapping rec2 (map (fun a : string * pyval => (VStr (fst a), snd a)) attrs) m2) as [[s' m']|] eqn:E2;
        [|discriminate]. inversion E; subst.
      destruct (mapping_rel (map (fun a : string * pyval => (VStr (fst a), snd a)) attrs))
        with (m1 := m1) (m2 := m2) (s := s') (m2' := m2') as (m1' & E1 & HI'); auto.
      { intros kv x Hkv Hx. apply Hv. cbn [subs]. apply in_map_iff in Hkv. destruct Hkv as (a & <- & Ha).
        cbn in Hx. destruct Hx as [<-|[]]. apply in_map_iff. exists a. auto. }
      rewrite E1. eauto.
  Qed.
End Rel.

(* ------------------------------------------------------------------ more fuel, same digest *)
Section Ctx.
  Variable H : string -> string.

  Lemma dig_mono : forall f f' v r, f <= f' -> dig H f v tt = Ok r -> dig H f' v tt = Ok r.
  Proof.
    induction f as [|f IH]; intros f' v r Hle E; [discriminate|].
    destruct f' as [|f']; [lia|]. cbn [dig] in *.
    destruct (repr (dig H f) v tt) as [[s u]|] eqn:Er; [|discriminate].
    destruct (repr_rel (dig H f') (dig H f) (fun _ _ => True) v) with (m1 := tt) (m2 := tt) (s := s) (m2' := u)
      as (u' & E' & _); auto.
    - intros x _ m1 m2 d m2' _ Ex. destruct m1, m2. destruct m2'. exists tt. split; auto. apply (IH f'); auto. lia.
    - rewrite E'. exact E.
  Qed.

  Lemma dig_det : forall f f' v d d', dig H f v tt = Ok (d, tt) -> dig H f' v tt = Ok (d', tt) -> d = d'.
  Proof.
    intros f f' v d d' E E'.
    apply (dig_mono f (Nat.max f f')) in E; [|lia]. apply (dig_mono f' (Nat.max f f')) in E'; [|lia]. congruence.
  Qed.

  (* ---------------------------------------------------------------- values without reference cycles.
     [env] says which object each identity denotes (same id => same sub-tree: aliasing);
     [opened] are the identities of the objects being hashed around the current one. *)
  Variable env : nat -> option pyval.

  Inductive wf (opened : list nat) : pyval -> Prop :=
  | wf_intro v :
      (forall i, v <> VRef i) ->
      (forall i, node_id v = Some i -> env i = Some v /\ ~ In i opened) ->
      (forall x, In x (subs v) ->
                 wf (match node_id v with Some i => i :: opened | None => opened end) x) ->
      wf opened v.

  (* every finished entry of the Cache is the digest of the object it is filed under *)
  Definition good (i : nat) (d : string) : Prop :=
    exists t f, env i = Some t /\ dig H f t tt = Ok (d, tt).
  Definition Inv (opened : list nat) (m : memo) : Prop :=
    forall i d, lookup i m = Some d -> In i opened \/ good i d.

  Lemma Inv_weaken : forall opened i m, Inv opened m -> Inv (i :: opened) m.
  Proof. intros opened i m HI j d Hl. destruct (HI j d Hl); [left; now right|now right]. Qed.

  Theorem hs_context_free : forall f v opened m d,
      wf opened v -> Inv opened m -> dig H f v tt = Ok (d, tt) ->
      exists m', hs H f v m = Ok (d, m') /\ Inv opened m'.
  Proof.
    induction f as [|f IH]; intros v opened m d Hwf HI E; [discriminate|].
    inversion Hwf as [v' Hnr Hid Hsub]; subst v'.
    cbn [dig] in E. destruct (repr (dig H f) v tt) as [[s u]|] eqn:Er; [|discriminate]. inversion E; subst d.
    cbn [hs]. destruct (node_id v) as [i|] eqn:Ei.
    - destruct (Hid i eq_refl) as [Henv Hno].
      destruct (lookup i m) as [d0|] eqn:El.
      + destruct (HI i d0 El) as [Hin|(t & f0 & Ht & Hd)]; [contradiction|].
        rewrite Henv in Ht. inversion Ht; subst t.
        assert (d0 = D H s).
        { eapply dig_det; [exact Hd|]. instantiate (1 := S f). cbn [dig]. rewrite Er. reflexivity. }
        subst d0. exists m. auto.
      + destruct (repr_rel (hs H f) (dig H f) (fun m1 _ => Inv (i :: opened) m1) v)
          with (m1 := (i, placeholder) :: m) (m2 := tt) (s := s) (m2' := u) as (m1' & E1 & HI1); auto.
        * intros x Hx m1 m2 d m2' HIm Ex. destruct m2, m2'.
          destruct (IH x (i :: opened) m1 d (Hsub x Hx) HIm Ex) as (m' & Em & HIm'). eauto.
        * intros j d Hl. cbn [lookup] in Hl. destruct (Nat.eqb j i) eqn:Eji.
          -- apply Nat.eqb_eq in Eji. subst j. left. now left.
          -- destruct (HI j d Hl); [left; now right|now right].
        * rewrite E1. eexists; split; [reflexivity|].
          intros j d Hl. cbn [lookup] in Hl. destruct (Nat.eqb j i) eqn:Eji.
          -- apply Nat.eqb_eq in Eji. subst j. inversion Hl; subst d. right. exists v, (S f). split; auto.
             cbn [dig]. rewrite Er. reflexivity.
          -- destruct (HI1 j d Hl) as [[Hji|Hin]|Hg]; [subst; rewrite Nat.eqb_refl in Eji; discriminate|now left|now right].
    - destruct (repr_rel (hs H f) (dig H f) (fun m1 _ => Inv opened m1) v)
        with (m1 := m) (m2 := tt) (s := s) (m2' := u) as (m1' & E1 & HI1); auto.
      + intros x Hx m1 m2 d m2' HIm Ex. destruct m2, m2'.
        destruct (IH x opened m1 d (Hsub x Hx) HIm Ex) as (m' & Em & HIm'). eauto.
      + rewrite E1. eauto.
  Qed.

  Lemma Inv_nil : Inv [] [].
  Proof. intros i d Hl. discriminate. Qed.

  (* a value that can be hashed, has no reference cycle and whose identities are consistent with [env] *)
  Definition hashable_acyclic (v : pyval) : Prop := wf [] v /\ exists d, digest H v = Ok d.

  (* any sequence of hash_object calls under one shared Cache returns, for each value, its digest alone *)
  Lemma hash_all_alone : forall vs m, Inv [] m -> (forall v, In v vs -> hashable_acyclic v) ->
      hash_all H vs m = map (digest H) vs.
  Proof.
    induction vs as [|v vs IH]; intros m HI Hvs; [reflexivity|].
    destruct (Hvs v (or_introl eq_refl)) as [Hwf [d Hd]].
    cbn [hash_all map]. unfold digest in Hd |- *. unfold hash_object.
    destruct (dig H (S (vdepth v)) v tt) as [[d' []]|] eqn:Ed; [|discriminate]. inversion Hd; subst d'.
    destruct (hs_context_free _ v [] m d Hwf HI Ed) as (m' & Ehs & HI'). rewrite Ehs.
    f_equal. apply IH; auto. intros x Hx. apply Hvs. now right.
  Qed.

  Theorem context_free_acyclic : forall ctx v,
      (forall x, In x (ctx ++ [v]) -> hashable_acyclic x) -> hash_in H ctx v = digest H v.
  Proof.
    intros ctx v Hall. unfold hash_in. rewrite (hash_all_alone _ [] Inv_nil Hall).
    rewrite map_app. cbn [map]. apply last_last.
  Qed.
End Ctx.
