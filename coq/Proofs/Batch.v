(* Proofs/Batch.v — C28 *)
From Pydra Require Import Base.Prelude Model.Batch Spec.Batch.
Local Open Scope string_scope.
Local Open Scope list_scope.

(* the code's three status lists say the same as the statement's two classes *)
Definition lists_agree (sl : state_lists) (st : states) : Prop :=
  (forall s, mem s (sl_requeue_verify sl) = mem s (st_interrupted st)) /\
  (forall s, mem s (sl_requeue_run sl) = mem s (st_interrupted st)) /\
  (forall s, mem s (sl_active sl) = mem s (st_active st)).

Definition lists_agreeb (sl : state_lists) (st : states) : bool :=
  let all := sl_requeue_verify sl ++ sl_requeue_run sl ++ sl_active sl ++ st_interrupted st ++ st_active st in
  forallb (fun s => Bool.eqb (mem s (sl_requeue_verify sl)) (mem s (st_interrupted st)) &&
                    Bool.eqb (mem s (sl_requeue_run sl)) (mem s (st_interrupted st)) &&
                    Bool.eqb (mem s (sl_active sl)) (mem s (st_active st))) all.

Lemma verify_classify sl st errfile a : lists_agree sl st ->
  match verify sl errfile a, classify st a with
  | VTrue, Succeeded => True
  | VFalse, Active => True
  | VStatus s, Interrupted => mem s (sl_requeue_run sl) = true
  | VRaise InfoMissing, NoAccounting => True
  | VRaise Unparsable, Gibberish => True
  | VRaise v, Broke => outcome_of v = OFailed
  | _, _ => False
  end.
Proof.
  intros (H1 & H2 & H3). destruct a as [|s code|]; cbn; auto.
  destruct (String.eqb s "COMPLETED") eqn:E, (Nat.eqb code 0) eqn:C; cbn; auto;
    rewrite H1; destruct (mem s (st_interrupted st)) eqn:I; try (rewrite H2; exact I);
    rewrite H3; destruct (mem s (st_active st)); auto;
    unfold error_message; destruct errfile as [ls|]; auto; destruct (rev ls) as [|x [|y r]]; auto;
    destruct (contains "Exception" y); auto; destruct (contains "Error" y); auto.
Qed.

(* the verdict at full strength: for every answer stream, with or without --no-requeue *)
Definition verdict_statement : Prop :=
  forall sl st, lists_agree sl st ->
  forall norequeue errfile sq sa,
    let '(v, t) := poll_loop sl norequeue errfile sq sa in
    (outcome_of v, count_requeues t) = decide (negb norequeue) (reports st sq sa).

(* with requeueing allowed it holds for every stream *)
Theorem verdict_requeue : forall sl st, lists_agree sl st ->
  forall errfile sq sa,
    let '(v, t) := poll_loop sl false errfile sq sa in
    (outcome_of v, count_requeues t) = decide true (reports st sq sa).
Proof.
  intros sl st HL errfile sq. induction sq as [|q sq IH]; intros sa; [reflexivity|].
  cbn [poll_loop reports]. fold (in_queue q).
  destruct (in_queue q) eqn:Q.
  - specialize (IH sa). destruct (poll_loop sl false errfile sq sa) as [v t]. cbn [decide]. exact IH.
  - destruct sa as [|a sa]; [reflexivity|].
    pose proof (verify_classify sl st errfile a HL) as VC.
    destruct (verify sl errfile a) as [| |s|v] eqn:V; destruct (classify st a) eqn:C;
      try (destruct v); try contradiction; cbn [decide]; try reflexivity; try (cbn in VC; discriminate).
    + specialize (IH sa). destruct (poll_loop sl false errfile sq sa) as [v t]. exact IH.
    + rewrite VC. cbn [andb negb]. specialize (IH sa). destruct (poll_loop sl false errfile sq sa) as [v t].
      destruct (decide true (reports st sq sa)) as [o n]. inversion IH; subst. reflexivity.
Qed.

(* with --no-requeue: the same, except that an interrupted job is reported complete *)
Theorem verdict_norequeue : forall sl st, lists_agree sl st ->
  forall errfile sq sa,
    let '(v, t) := poll_loop sl true errfile sq sa in
    (outcome_of v, count_requeues t) = decide false (reports st sq sa) \/
    (decide false (reports st sq sa) = (OInterruptedNoRequeue, 0) /\ v = Complete /\ count_requeues t = 0).
Proof.
  intros sl st HL errfile sq. induction sq as [|q sq IH]; intros sa; [now left|].
  cbn [poll_loop reports]. fold (in_queue q).
  destruct (in_queue q) eqn:Q.
  - specialize (IH sa). destruct (poll_loop sl true errfile sq sa) as [v t]. cbn [decide]. exact IH.
  - destruct sa as [|a sa]; [now left|].
    pose proof (verify_classify sl st errfile a HL) as VC.
    destruct (verify sl errfile a) as [| |s|v] eqn:V; destruct (classify st a) eqn:C;
      try (destruct v); try contradiction; cbn [decide]; try (left; reflexivity); try (cbn in VC; discriminate).
    + specialize (IH sa). destruct (poll_loop sl true errfile sq sa) as [v t]. exact IH.
    + rewrite VC. cbn [andb negb]. right. auto.
Qed.

Definition sl0 : state_lists :=
  {| sl_requeue_verify := ["CANCELLED"; "TIMEOUT"; "PREEMPTED"]; sl_active := ["RUNNING"; "PENDING"];
     sl_requeue_run := ["CANCELLED"; "TIMEOUT"; "PREEMPTED"] |}.
Definition st0 : states := {| st_interrupted := ["CANCELLED"; "TIMEOUT"; "PREEMPTED"]; st_active := ["RUNNING"; "PENDING"] |}.
Lemma lists0 : lists_agree sl0 st0.
Proof. repeat split; intros s; reflexivity. Qed.

Theorem refuted_norequeue_reported_complete : ~ verdict_statement.
Proof.
  intros H. specialize (H sl0 st0 lists0 true None [{| sq_stdout := ""; sq_stderr := "" |}] [SaLine "CANCELLED" 0]).
  vm_compute in H. discriminate.
Qed.

(* never failed because of an interruption: while the scheduler only reports activity or interruptions
   and requeueing is allowed, the worker keeps polling, requeueing once per interruption *)
Theorem interrupted_never_failed : forall sl st, lists_agree sl st ->
  forall errfile sq sa,
    Forall (fun r => r = Some Active \/ r = Some Interrupted) (reports st sq sa) ->
    let '(v, t) := poll_loop sl false errfile sq sa in
    v = StillPolling /\
    count_requeues t = List.length (filter (fun r => match r with Some Interrupted => true | _ => false end) (reports st sq sa)).
Proof.
  intros sl st HL errfile sq sa HF.
  pose proof (verdict_requeue sl st HL errfile sq sa) as HV.
  destruct (poll_loop sl false errfile sq sa) as [v t].
  assert (D : decide true (reports st sq sa) =
              (OWaiting, List.length (filter (fun r => match r with Some Interrupted => true | _ => false end) (reports st sq sa)))).
  { clear HV. induction HF as [|r rs Hr _ IH]; [reflexivity|].
    destruct Hr as [-> | ->]; cbn [decide filter]; [exact IH|]. rewrite IH. reflexivity. }
  rewrite D in HV. inversion HV as [[Ho Hn]]. split; [|reflexivity].
  destruct v; cbn in Ho; try discriminate. reflexivity.
Qed.

(* submission errors *)
Theorem submit_errors : forall sl c s,
  (sb_rc s <> 0 -> slurm_run sl c s = (sbatch_argv c, SubmitError, [])) /\
  (sb_rc s = 0 -> first_digits (sb_stdout s) = None -> slurm_run sl c s = (sbatch_argv c, NoJobId, [])).
Proof.
  intros sl c s. unfold slurm_run. split.
  - intros H. apply Nat.eqb_neq in H. now rewrite H.
  - intros H1 H2. rewrite H1, H2. reflexivity.
Qed.

(* the pinned tree: a user error option crashed run() after submission; the current model polls *)
Definition ctx_e : submit_ctx :=
  {| sc_args := "-e /tmp/my-%j.err"; sc_default_name := "add.uid"; sc_script_dir := "/c/slurm_scripts/uid";
     sc_batch_script := "/c/slurm_scripts/uid/batchscript_uid.sh" |}.
Definition sched_ok : scheduler :=
  {| sb_rc := 0; sb_stdout := "Submitted batch job 123"; s_squeue := [{| sq_stdout := ""; sq_stderr := "" |}];
     s_sacct := ["123    COMPLETED    0:0"]; s_errfile := None |}.

Theorem pinned_refuted_user_error_option :
  slurm_run_pinned sl0 ctx_e sched_ok = (["-e"; "/tmp/my-%j.err"; "--job-name=add.uid"; "--output=/c/slurm_scripts/uid/slurm-%j.out";
                                           "/c/slurm_scripts/uid/batchscript_uid.sh"], Crash, []) /\
  slurm_run sl0 ctx_e sched_ok = (["-e"; "/tmp/my-%j.err"; "--job-name=add.uid"; "--output=/c/slurm_scripts/uid/slurm-%j.out";
                                    "/c/slurm_scripts/uid/batchscript_uid.sh"], Complete, [CSqueue; CSacct]) /\
  error_file ctx_e "123" = "/tmp/my-123.err".
Proof. vm_compute. auto. Qed.

(* ================================================================== SGE accounting *)
Definition word (l : chars) : bool := forallb (fun c => negb (is_space c)) l.

Lemma py_split_word w : forall cur sp rest, word w = true -> is_space sp = true -> rev cur ++ w <> [] ->
  py_split (w ++ sp :: rest) cur = str_of (rev cur ++ w) :: py_split rest [].
Proof.
  induction w as [|c w IH]; intros cur sp rest Hw Hs Hne; cbn.
  - rewrite Hs. rewrite app_nil_r in *. destruct cur; [cbn in Hne; congruence|reflexivity].
  - cbn in Hw. apply andb_true_iff in Hw. destruct Hw as [Hc Hw]. apply negb_true_iff in Hc. rewrite Hc.
    rewrite IH; auto.
    + cbn. now rewrite <- app_assoc.
    + cbn. intros X. apply app_eq_nil in X. destruct X as [X _]. apply app_eq_nil in X. destruct X; discriminate.
Qed.

Lemma py_split_last w : forall cur, word w = true -> rev cur ++ w <> [] ->
  py_split w cur = [str_of (rev cur ++ w)].
Proof.
  induction w as [|c w IH]; intros cur Hw Hne; cbn.
  - rewrite app_nil_r in *. destruct cur; [cbn in Hne; congruence|reflexivity].
  - cbn in Hw. apply andb_true_iff in Hw. destruct Hw as [Hc Hw]. apply negb_true_iff in Hc. rewrite Hc.
    rewrite IH; auto.
    + cbn. now rewrite <- app_assoc.
    + cbn. intros X. apply app_eq_nil in X. destruct X as [X _]. apply app_eq_nil in X. destruct X; discriminate.
Qed.

Lemma py_split_spaces n rest : py_split (repeat " "%char n ++ rest) [] = py_split rest [].
Proof. induction n; cbn; auto. Qed.

(* one accounting record as qacct prints it: field name, padding, value *)
Record qrecord := { q_key : string; q_pad : nat; q_val : string }.
Definition clean (s : string) : bool := word (la_of s) && negb (String.eqb s "").
Definition clean_record (r : qrecord) : bool := clean (q_key r) && clean (q_val r).
Definition render_record (r : qrecord) : string :=
  str_of (la_of (q_key r) ++ repeat " "%char (S (q_pad r)) ++ la_of (q_val r)).
Definition answer_of (notfound : bool) (rs : list qrecord) : qacct_ans :=
  {| qa_lines := map render_record rs; qa_notfound := notfound |}.
Definition kv (r : qrecord) : string * string := (q_key r, q_val r).

Lemma clean_ne s : clean s = true -> la_of s <> [] /\ word (la_of s) = true.
Proof.
  unfold clean. rewrite andb_true_iff, negb_true_iff. intros [H1 H2]. split; [|exact H1].
  intros X. destruct s; [discriminate H2| discriminate X].
Qed.

Lemma split_record r : clean_record r = true -> split_ws (render_record r) = [q_key r; q_val r].
Proof.
  unfold clean_record. rewrite andb_true_iff. intros [Hk Hv].
  destruct (clean_ne _ Hk) as [Hk1 Hk2]. destruct (clean_ne _ Hv) as [Hv1 Hv2].
  unfold split_ws, render_record. rewrite la_of_str_of. cbn [repeat app].
  rewrite py_split_word by (auto; cbn; exact Hk1). cbn [rev app]. rewrite str_of_la_of.
  rewrite py_split_spaces. rewrite py_split_last by (auto; cbn; exact Hv1). cbn [rev app]. now rewrite str_of_la_of.
Qed.

Lemma failed_line_records rs : forallb clean_record rs = true ->
  failed_line (map render_record rs) = existsb record_failed (map kv rs).
Proof.
  induction rs as [|r rs IH]; intros H; [reflexivity|]. cbn in H. apply andb_true_iff in H. destruct H as [Hr Hrs].
  cbn [map failed_line existsb]. rewrite split_record by exact Hr.
  unfold record_failed at 1. change (fst (kv r)) with (q_key r). change (snd (kv r)) with (q_val r).
  destruct (String.eqb (q_key r) "failed").
  - destruct (all_digits (q_val r)), (is_zero (q_val r)); cbn [negb andb orb]; try reflexivity; now apply IH.
  - cbn [andb orb]. now apply IH.
Qed.

Lemma answer_verdict nf rs : forallb clean_record rs = true ->
  (if qa_notfound (answer_of nf rs) then SgePending
   else match qa_lines (answer_of nf rs) with
        | [] => SgeErrored
        | ls => if failed_line ls then SgeErrored else SgeDone
        end) = sge_spec (negb nf) (map kv rs).
Proof.
  intros H. unfold sge_spec. cbn [answer_of qa_notfound qa_lines]. destruct nf; [reflexivity|]. cbn [negb].
  destruct rs as [|r rs]; [reflexivity|]. cbn [map].
  change (render_record r :: map render_record rs) with (map render_record (r :: rs)).
  rewrite failed_line_records by exact H. reflexivity.
Qed.

Theorem sge_verify_spec : forall nf1 rs1 nf2 rs2,
  forallb clean_record rs1 = true -> forallb clean_record rs2 = true ->
  sge_verify (answer_of nf1 rs1) (answer_of nf2 rs2) =
  match rs1 with
  | [] => sge_spec (negb nf2) (map kv rs2)       (* no answer the first time: asked again *)
  | _ => sge_spec (negb nf1) (map kv rs1)
  end.
Proof.
  intros nf1 rs1 nf2 rs2 H1 H2. unfold sge_verify.
  destruct rs1 as [|r1 rs1].
  - cbn [answer_of qa_lines map]. now apply answer_verdict.
  - cbn [answer_of qa_lines map]. now apply (answer_verdict nf1 (r1 :: rs1)).
Qed.

(* ================================================================== user options *)
Inductive item := IOpt (k : okind) (long : bool) (v : string) | IOther (t : string).
Definition item_tokens (i : item) : list string :=
  match i with
  | IOpt k false v => [short_of k; v]
  | IOpt k true v => [String.append (long_of k) v]
  | IOther t => [t]
  end.
Definition tokens_of (is : list item) : list string := flat_map item_tokens is.
Fixpoint join_sp (l : list string) : string :=
  match l with [] => "" | [x] => x | x :: r => String.append x (String.append " " (join_sp r)) end.
Definition ctx_of (args : string) : submit_ctx :=
  {| sc_args := args; sc_default_name := "add.uid"; sc_script_dir := "/c/slurm_scripts/uid";
     sc_batch_script := "/c/slurm_scripts/uid/batchscript_uid.sh" |}.

(* the general shape: user tokens first and untouched, defaults only for what the regexes did not find, script last *)
Theorem sbatch_argv_shape : forall c,
  exists defaults, sbatch_argv c = split_ws (sc_args c) ++ defaults ++ [sc_batch_script c] /\
    forall d, In d defaults ->
      (d = String.append "--job-name=" (sc_default_name c) /\ find_opt "-J" "--job-name=" (sc_args c) = None) \/
      (d = String.append "--output=" (String.append (sc_script_dir c) "/slurm-%j.out") /\ find_opt "-o" "--output=" (sc_args c) = None) \/
      (d = String.append "--error=" (String.append (sc_script_dir c) "/slurm-%j.err") /\ find_opt "-e" "--error=" (sc_args c) = None).
Proof.
  intros c. unfold sbatch_argv.
  exists ((match find_opt "-J" "--job-name=" (sc_args c) with Some _ => [] | None => [String.append "--job-name=" (sc_default_name c)] end) ++
          (match find_opt "-o" "--output=" (sc_args c) with Some _ => [] | None => [String.append "--output=" (String.append (sc_script_dir c) "/slurm-%j.out")] end) ++
          (match find_opt "-e" "--error=" (sc_args c) with Some _ => [] | None => [String.append "--error=" (String.append (sc_script_dir c) "/slurm-%j.err")] end)).
  split; [now rewrite <- !app_assoc|].
  intros d. rewrite !in_app_iff.
  destruct (find_opt "-J" "--job-name=" (sc_args c)), (find_opt "-o" "--output=" (sc_args c)), (find_opt "-e" "--error=" (sc_args c));
    cbn; intuition (subst; auto).
Qed.

(* the option statement for every user token list is false: forms the regexes do not recognise *)
Definition options_statement : Prop :=
  forall toks : list string,
    forallb clean toks = true ->
    forallb (fun k => Nat.leb (occurrences k toks) 1) [KName; KOut; KErr] = true ->
    options_ok toks (sbatch_argv (ctx_of (join_sp toks))) (sc_batch_script (ctx_of "")) = true.

Theorem refuted_option_form : ~ options_statement.
Proof. intros H. specialize (H ["--job-name"; "myname"] eq_refl eq_refl). vm_compute in H. discriminate. Qed.

(* ================================================================== accounting text *)
Lemma span_app p a b : forallb p a = true -> match b with [] => True | c :: _ => p c = false end ->
  span p (a ++ b) = (a, b).
Proof.
  induction a as [|x a IH]; intros Ha Hb; cbn.
  - destruct b as [|c b]; [reflexivity|]. cbn. now rewrite Hb.
  - cbn in Ha. apply andb_true_iff in Ha. destruct Ha as [Hx Ha]. rewrite Hx. now rewrite IH.
Qed.

Lemma forallb_repeat_sp n : forallb is_sp (repeat " "%char n) = true.
Proof. induction n; cbn; auto. Qed.

Lemma sacct_search_head l r : match_at l = Some r -> sacct_search l = Some r.
Proof. intros H. destruct l; cbn [sacct_search]; now rewrite H. Qed.

Lemma digit_not_sp c : is_digit c = true -> is_sp c = false.
Proof.
  unfold is_digit, is_sp. intros H. destruct (Ascii.eqb c " ") eqn:E; [|reflexivity].
  apply Ascii.eqb_eq in E. subst c. discriminate H.
Qed.
Lemma word_not_sp c : is_word c = true -> is_sp c = false.
Proof.
  unfold is_sp. intros H. destruct (Ascii.eqb c " ") eqn:E; [|reflexivity].
  apply Ascii.eqb_eq in E. subst c. discriminate H.
Qed.

Lemma match_rendered l : wf_line l = true ->
  match_at (la_of (render_line l)) = Some (al_state l, al_code l).
Proof.
  unfold wf_line. rewrite !andb_true_iff. intros [[[[[[Hj Hw] Hwn] Hc] Hcn] Hs] Hsn].
  unfold render_line. rewrite la_of_str_of. unfold match_at.
  destruct (al_state l) as [|w0 w] eqn:Ew; [discriminate Hwn|]. rewrite <- Ew in *.
  destruct (al_code l) as [|c0 c] eqn:Ec; [discriminate Hcn|]. rewrite <- Ec in *.
  destruct (al_sig l) as [|s0 s] eqn:Es; [discriminate Hsn|].
  assert (Hw0 : is_word w0 = true) by (rewrite Ew in Hw; cbn in Hw; apply andb_true_iff in Hw; tauto).
  assert (Hc0 : is_digit c0 = true) by (rewrite Ec in Hc; cbn in Hc; apply andb_true_iff in Hc; tauto).
  assert (Hs0 : is_digit s0 = true) by (cbn in Hs; apply andb_true_iff in Hs; tauto).
  (* job id *)
  rewrite (span_app is_digit (al_jobid l)) by (auto; cbn; reflexivity).
  (* first blanks *)
  rewrite (span_app is_sp (repeat " "%char (S (al_pad1 l)))) by
    (auto using forallb_repeat_sp; rewrite Ew; cbn; now apply word_not_sp).
  cbn [repeat]. 
  (* the state word *)
  rewrite (span_app is_word (al_state l)) by
    (auto; destruct (al_plus l); cbn; reflexivity).
  (* optional plus, second blanks, exit code *)
  assert (HA : after_status (" "%char :: repeat " "%char (al_pad2 l) ++ al_code l ++ ":"%char :: (s0 :: s) ++ al_rest l) = Some (al_code l)).
  { change (" "%char :: repeat " "%char (al_pad2 l) ++ al_code l ++ ":"%char :: (s0 :: s) ++ al_rest l)
      with (repeat " "%char (S (al_pad2 l)) ++ al_code l ++ ":"%char :: (s0 :: s) ++ al_rest l).
    unfold after_status.
    rewrite (span_app is_sp (repeat " "%char (S (al_pad2 l)))) by
      (auto using forallb_repeat_sp; rewrite Ec; cbn; now apply digit_not_sp).
    cbn [repeat]. unfold exit_code_at. rewrite (span_app is_digit (al_code l)) by (auto; cbn; reflexivity).
    rewrite Ec at 1. cbn [app]. rewrite Hs0. cbn. now rewrite Ec. }
  cbn [app] in HA. destruct (al_plus l); cbn [app].
  - rewrite Ascii.eqb_refl. rewrite HA. reflexivity.
  - change (Ascii.eqb " " "+") with false. cbn iota. rewrite HA. reflexivity.
Qed.

Theorem parse_rendered l : wf_line l = true -> parse_sacct (render_line l) = ans_of (Some l).
Proof.
  intros H. unfold parse_sacct. 
  assert (String.eqb (render_line l) "" = false) as ->.
  { unfold render_line. destruct (al_jobid l); cbn; reflexivity. }
  rewrite (sacct_search_head _ _ (match_rendered l H)). reflexivity.
Qed.

Lemma parse_answers answers : forallb (fun a => match a with None => true | Some l => wf_line l end) answers = true ->
  map parse_sacct (map render_ans answers) = map ans_of answers.
Proof.
  intros H. rewrite map_map. apply map_ext_in. intros [l|] Hin; [|reflexivity].
  rewrite forallb_forall in H. specialize (H _ Hin). cbn [render_ans]. now apply parse_rendered.
Qed.

(* the verdict theorem on raw scheduler text *)
Theorem verdict_raw : forall sl st, lists_agree sl st ->
  forall errfile sq answers,
    forallb (fun a => match a with None => true | Some l => wf_line l end) answers = true ->
    let '(v, t) := poll_loop sl false errfile sq (map parse_sacct (map render_ans answers)) in
    (outcome_of v, count_requeues t) = decide true (reports st sq (map ans_of answers)).
Proof.
  intros sl st HL errfile sq answers Hwf. rewrite parse_answers by exact Hwf.
  apply (verdict_requeue sl st HL errfile sq (map ans_of answers)).
Qed.

(* an untruncated "CANCELLED by <uid>" is read as status <uid>: the job is reported failed, not requeued *)
Theorem refuted_cancelled_by :
  parse_sacct "123  CANCELLED by 1000  0:0" = SaLine "1000" 0 /\
  fst (poll_loop sl0 false (Some ["x"; "Exception: boom"; ""]) [{| sq_stdout := ""; sq_stderr := "" |}]
                 [parse_sacct "123  CANCELLED by 1000  0:0"]) = Failed "boom" /\
  classify st0 (SaLine "CANCELLED" 0) = Interrupted.
Proof. vm_compute. auto. Qed.

Example parse_examples :
  parse_sacct "123          CANCELLED+      0:0 " = SaLine "CANCELLED" 0 /\
  parse_sacct "123  COMPLETED  0:0  extra 1:2" = SaLine "COMPLETED" 0 /\
  parse_sacct "123  OUT_OF_ME+  125:0" = SaLine "OUT_OF_ME" 125 /\
  parse_sacct "" = SaNone /\ parse_sacct "sacct: error" = SaGarbage.
Proof. vm_compute. auto. Qed.

(* ================================================================== user options: the general theorem *)
Section OptSearch.
Variables rsh rl : chars.
Hypothesis Hrsh : word rsh = true.
Hypothesis Hrl : word rl = true.
Let rs : chars := " "%char :: rsh.

Definition boundary (B : chars) : Prop := B = [] \/ exists B', B = " "%char :: B'.

Lemma word_cons c l : word (c :: l) = true -> is_space c = false /\ word l = true.
Proof. unfold word. cbn. rewrite andb_true_iff, negb_true_iff. tauto. Qed.

Lemma nonspace_neq_sp c : is_space c = false -> Ascii.eqb c " " = false.
Proof. intros H. destruct (Ascii.eqb c " ") eqn:E; [|reflexivity]. apply Ascii.eqb_eq in E. subst c. discriminate H. Qed.

Lemma prefix_word_boundary p : forall acc B, word p = true -> boundary B ->
  is_prefix Ascii.eqb p (acc ++ B) = is_prefix Ascii.eqb p acc.
Proof.
  induction p as [|x p IH]; intros acc B Hp HB; [reflexivity|].
  apply word_cons in Hp. destruct Hp as [Hx Hp].
  destruct acc as [|a acc]; cbn.
  - destruct HB as [-> | [B' ->]]; [reflexivity|]. now rewrite (nonspace_neq_sp _ Hx).
  - now rewrite IH.
Qed.

Definition hitb (l B : chars) : bool := match opt_search rs rl l B with Some _ => true | None => false end.

Fixpoint tok_hit (t B : chars) : bool :=
  match t with
  | [] => false
  | c :: r => (is_prefix Ascii.eqb rs B || is_prefix Ascii.eqb rl B) || tok_hit r (c :: B)
  end.

Lemma hitb_token t : forall B rest, word t = true -> hitb (t ++ rest) B = tok_hit t B || hitb rest (rev t ++ B).
Proof.
  induction t as [|c t IH]; intros B rest Hw; [reflexivity|].
  apply word_cons in Hw. destruct Hw as [Hc Hw].
  unfold hitb in *. cbn [app opt_search tok_hit]. rewrite Hc. cbn [negb andb].
  destruct (is_prefix Ascii.eqb rs B || is_prefix Ascii.eqb rl B); [reflexivity|]. cbn [orb].
  rewrite IH by exact Hw. cbn [rev]. now rewrite <- app_assoc.
Qed.

Lemma hitb_space rest B : hitb (" "%char :: rest) B = hitb rest (" "%char :: B).
Proof. reflexivity. Qed.

Lemma tok_hit_boundary t : forall acc B, word t = true -> word acc = true -> boundary B ->
  tok_hit t (acc ++ B) =
  (match acc with [] => nonempty t && is_prefix Ascii.eqb rs B | _ => false end) || inside_l rl t acc.
Proof.
  induction t as [|c t IH]; intros acc B Ht Hacc HB.
  - destruct acc; reflexivity.
  - apply word_cons in Ht. destruct Ht as [Hc Ht].
    cbn [tok_hit inside_l nonempty]. rewrite (prefix_word_boundary rl acc B Hrl HB).
    change (c :: acc ++ B) with ((c :: acc) ++ B).
    rewrite IH; [| exact Ht | unfold word in *; cbn; now rewrite Hc, Hacc | exact HB].
    destruct acc as [|a acc].
    + cbn [app]. destruct (is_prefix Ascii.eqb rs B), (is_prefix Ascii.eqb rl []), (inside_l rl t [c]); reflexivity.
    + apply word_cons in Hacc. destruct Hacc as [Ha _].
      unfold rs. cbn [app is_prefix]. rewrite Ascii.eqb_sym, (nonspace_neq_sp _ Ha). reflexivity.
Qed.

Fixpoint Dtok (toks : list string) : bool :=
  match toks with
  | [] => false
  | t :: r => (is_prefix Ascii.eqb rsh (rev (la_of t)) && has_next r) || inside_l rl (la_of t) [] || Dtok r
  end.

Lemma la_of_append' a b : la_of (String.append a b) = la_of a ++ la_of b.
Proof. unfold la_of. induction a; cbn; [reflexivity| now rewrite IHa]. Qed.

Lemma hit_join toks : forall B, forallb clean toks = true -> boundary B ->
  hitb (la_of (join_sp toks)) B = (has_next toks && is_prefix Ascii.eqb rs B) || Dtok toks.
Proof.
  induction toks as [|t toks IH]; intros B Hc HB; [reflexivity|].
  cbn in Hc. apply andb_true_iff in Hc. destruct Hc as [Ht Hc].
  destruct (clean_ne _ Ht) as [Htne Htw].
  assert (Hnt : nonempty (la_of t) = true) by (destruct (la_of t); [congruence|reflexivity]).
  destruct toks as [|t2 toks].
  - cbn [join_sp Dtok has_next]. rewrite <- (app_nil_r (la_of t)) at 1. rewrite hitb_token by exact Htw.
    pose proof (tok_hit_boundary (la_of t) [] B Htw eq_refl HB) as E. cbn [app] in E. rewrite E, Hnt.
    unfold hitb. cbn. rewrite andb_false_r, !orb_false_r. reflexivity.
  - change (join_sp (t :: t2 :: toks)) with (String.append t (String.append " " (join_sp (t2 :: toks)))).
    rewrite !la_of_append'. change (la_of " ") with [" "%char]. cbn [app].
    rewrite hitb_token by exact Htw. rewrite hitb_space.
    rewrite IH; [| exact Hc | right; eexists; reflexivity].
    pose proof (tok_hit_boundary (la_of t) [] B Htw eq_refl HB) as E. cbn [app] in E. rewrite E, Hnt.
    cbn [has_next Dtok andb]. unfold rs at 2. cbn [is_prefix]. rewrite Ascii.eqb_refl. cbn [andb].
    rewrite (prefix_word_boundary rsh (rev (la_of t)) B Hrsh HB).
    rewrite andb_true_r.
    destruct (is_prefix Ascii.eqb rs B), (inside_l rl (la_of t) []), (is_prefix Ascii.eqb rsh (rev (la_of t))), (Dtok (t2 :: toks)); reflexivity.
Qed.

Lemma hit_join_start toks : forallb clean toks = true ->
  hitb (la_of (join_sp toks)) [] = Dtok toks.
Proof.
  intros H. rewrite hit_join by (auto; now left). unfold rs. cbn. now rewrite andb_false_r.
Qed.
End OptSearch.

Lemma split_join_sp toks : forallb clean toks = true -> split_ws (join_sp toks) = toks.
Proof.
  unfold split_ws. induction toks as [|t toks IH]; intros H; [reflexivity|].
  cbn in H. apply andb_true_iff in H. destruct H as [Ht Hc].
  destruct (clean_ne _ Ht) as [Htne Htw].
  destruct toks as [|t2 toks].
  - cbn [join_sp]. rewrite py_split_last by (auto; cbn; exact Htne). cbn. now rewrite str_of_la_of.
  - change (join_sp (t :: t2 :: toks)) with (String.append t (String.append " " (join_sp (t2 :: toks)))).
    rewrite !la_of_append'. change (la_of " ") with [" "%char]. cbn [app].
    rewrite py_split_word by (auto; cbn; exact Htne). cbn [rev app]. rewrite str_of_la_of. f_equal. now apply IH.
Qed.

Lemma inside_split rl x : forall c v acc, is_prefix Ascii.eqb rl (rev x ++ acc) = true ->
  inside_l rl (x ++ c :: v) acc = true.
Proof.
  induction x as [|a x IH]; intros c v acc H; cbn.
  - cbn in H. now rewrite H.
  - rewrite (IH c v (a :: acc)); [now rewrite orb_true_r|]. cbn [rev] in H. now rewrite <- app_assoc in H.
Qed.

Lemma is_prefix_refl_chars l : is_prefix Ascii.eqb l l = true.
Proof. induction l; cbn; [reflexivity|]. now rewrite Ascii.eqb_refl. Qed.

Lemma la_of_inj a b : la_of a = la_of b -> a = b.
Proof. intros H. rewrite <- (str_of_la_of a), <- (str_of_la_of b). now rewrite H. Qed.

(* per token: what the regexes see is what the option grammar says, for tokens in the handled forms *)
Lemma token_detect k t r : form_ok k t = true ->
  (is_prefix Ascii.eqb (rev (la_of (short_of k))) (rev (la_of t)) && has_next r)
  || inside_l (rev (la_of (long_of k))) (la_of t) [] = gives k t r.
Proof.
  unfold form_ok. rewrite !andb_true_iff, !negb_true_iff. intros [[[Ha Hb] He] Hi].
  unfold attached in Ha. unfold gives. rewrite Ha, Hb. cbn [orb andb]. rewrite orb_false_r.
  fold (ends_with (short_of k) t) in *. fold (inside (long_of k) t) in *.
  assert (E1 : ends_with (short_of k) t = String.eqb t (short_of k)).
  { destruct (String.eqb t (short_of k)) eqn:E.
    - apply String.eqb_eq in E. subst t. destruct k; reflexivity.
    - destruct (ends_with (short_of k) t); [discriminate He|reflexivity]. }
  assert (E2 : inside (long_of k) t = starts_with (long_of k) t && negb (String.eqb t (long_of k))).
  { destruct (inside (long_of k) t) eqn:I.
    - cbn in Hi. rewrite Hi. destruct (String.eqb t (long_of k)) eqn:E; [|reflexivity].
      apply String.eqb_eq in E. subst t. destruct k; vm_compute in I; discriminate.
    - destruct (starts_with (long_of k) t) eqn:S; [|reflexivity].
      destruct (String.eqb t (long_of k)) eqn:E; [reflexivity|]. exfalso.
      unfold starts_with in S. apply is_prefix_spec in S; [|intros; apply Ascii.eqb_eq]. destruct S as [rest S].
      destruct rest as [|c v].
      + rewrite app_nil_r in S. apply la_of_inj in S. subst t. now rewrite String.eqb_refl in E.
      + unfold inside in I. rewrite S in I. rewrite inside_split in I; [discriminate|].
        rewrite app_nil_r. apply is_prefix_refl_chars. }
  rewrite E1, E2. now rewrite orb_false_r.
Qed.

Lemma Dtok_occurrences k toks : forallb (form_ok k) toks = true ->
  Dtok (rev (la_of (short_of k))) (rev (la_of (long_of k))) toks = Nat.ltb 0 (occurrences k toks).
Proof.
  induction toks as [|t r IH]; intros H; [reflexivity|].
  cbn in H. apply andb_true_iff in H. destruct H as [Ht Hr].
  cbn [Dtok occurrences]. rewrite token_detect by exact Ht. rewrite IH by exact Hr.
  destruct (gives k t r); cbn; [reflexivity|]. reflexivity.
Qed.

Lemma find_opt_none k toks : forallb clean toks = true -> forallb (form_ok k) toks = true ->
  (match find_opt (short_of k) (long_of k) (join_sp toks) with Some _ => false | None => true end)
  = Nat.eqb (occurrences k toks) 0.
Proof.
  intros Hc Hf. unfold find_opt.
  assert (R : rev (la_of (String.append (short_of k) " ")) = " "%char :: rev (la_of (short_of k))) by (destruct k; reflexivity).
  rewrite R.
  assert (Hs : word (rev (la_of (short_of k))) = true) by (destruct k; reflexivity).
  assert (Hl : word (rev (la_of (long_of k))) = true) by (destruct k; reflexivity).
  pose proof (hit_join_start _ _ Hs Hl toks Hc) as H. unfold hitb in H.
  rewrite Dtok_occurrences in H by exact Hf.
  destruct (opt_search (" "%char :: rev (la_of (short_of k))) (rev (la_of (long_of k))) (la_of (join_sp toks)) []);
    cbn [option_map]; destruct (occurrences k toks); cbn in *; congruence.
Qed.

(* For EVERY list of clean tokens in the handled forms: the vector is the user's tokens, untouched and in order,
   then the worker's own default for exactly those of job-name / output / error the user did not give, then the script *)
Theorem options_general : forall toks name dir script,
  forallb clean toks = true -> forms_ok toks = true ->
  sbatch_argv {| sc_args := join_sp toks; sc_default_name := name; sc_script_dir := dir; sc_batch_script := script |} =
  toks ++ (if Nat.eqb (occurrences KName toks) 0 then [String.append "--job-name=" name] else [])
       ++ (if Nat.eqb (occurrences KOut toks) 0 then [String.append "--output=" (String.append dir "/slurm-%j.out")] else [])
       ++ (if Nat.eqb (occurrences KErr toks) 0 then [String.append "--error=" (String.append dir "/slurm-%j.err")] else [])
       ++ [script].
Proof.
  intros toks name dir script Hc Hf. unfold forms_ok in Hf. cbn [forallb] in Hf.
  rewrite !andb_true_iff in Hf. destruct Hf as (HJ & HO & HE & _).
  unfold sbatch_argv. cbn [sc_args sc_default_name sc_script_dir sc_batch_script].
  rewrite split_join_sp by exact Hc.
  pose proof (find_opt_none KName toks Hc HJ) as EJ. pose proof (find_opt_none KOut toks Hc HO) as EO.
  pose proof (find_opt_none KErr toks Hc HE) as EE. cbn [short_of long_of] in EJ, EO, EE.
  destruct (find_opt "-J" "--job-name=" (join_sp toks)); rewrite <- EJ;
  destruct (find_opt "-o" "--output=" (join_sp toks)); rewrite <- EO;
  destruct (find_opt "-e" "--error=" (join_sp toks)); rewrite <- EE; reflexivity.
Qed.

(* hence every option appears exactly once, when the user gave it at most once *)
Example options_general_nonvacuous :
  let toks := ["--time=10"; "-J"; "my.job"; "--error=/tmp/e-%j.err"; "--no-requeue"] in
  forallb clean toks = true /\ forms_ok toks = true /\ forms_ok ["--job-name"; "x"] = false /\ forms_ok ["-Jx"] = false /\
  forms_ok ["a-e"; "x"] = false /\
  sbatch_argv (ctx_of (join_sp toks)) = toks ++ ["--output=/c/slurm_scripts/uid/slurm-%j.out"; "/c/slurm_scripts/uid/batchscript_uid.sh"].
Proof. vm_compute. repeat split. Qed.
