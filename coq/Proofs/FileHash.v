(* Proofs/FileHash.v — C09 lemmas. *)
From Pydra Require Import Base.Prelude Model.FileHash Spec.FileHash.
Local Open Scope nat_scope.
Local Open Scope list_scope.

(* ================================================================== Part 1: any key, any file system *)
Section Generic.
  Variables FS Target Key Digest Fop : Type.
  Variable key_eqb : Key -> Key -> bool.
  Variable texists : Target -> FS -> bool.
  Variable K : Target -> FS -> Key.
  Variable chash : Target -> FS -> Digest.
  Variable fstep : FS -> Fop -> FS.
  Variable fs0 : FS.
  Hypothesis key_eqb_true : forall a b, key_eqb a b = true -> a = b.

  Notation kv := (kv Key Digest).
  Notation cstate := (cstate Key Digest).
  Notation run_states := (run_states FS Target Key Digest Fop key_eqb texists K chash fstep).
  Notation gstep := (gstep FS Target Key Digest Fop key_eqb texists K chash fstep).
  Notation do_hash := (do_hash FS Target Key Digest key_eqb texists K chash).
  Notation spec_outputs := (spec_outputs FS Target Digest Fop texists chash fstep).
  Notation outs_of := (outs_of FS Key Digest).

  Definition reach (a b : FS) : Prop := exists ops, b = run_fs FS Fop fstep a ops.

  (* The condition on the key: along every history of file-system operations, a key never
     comes back with a different content — whatever it is the key of. *)
  Definition key_sound : Prop :=
    forall s1 s2 t1 t2,
      reach fs0 s1 -> reach s1 s2 ->
      texists t1 s1 = true -> texists t2 s2 = true ->
      K t1 s1 = K t2 s2 -> chash t1 s1 = chash t2 s2.

  Lemma reach_refl a : reach a a.
  Proof. exists []. reflexivity. Qed.
  Lemma reach_step a b o : reach a b -> reach a (fstep b o).
  Proof.
    intros [ops ->]. exists (ops ++ [o]). unfold run_fs. rewrite fold_left_app. reflexivity.
  Qed.

  (* every cached entry was computed from some earlier state of this very history *)
  Definition entry_ok (fs : FS) (e : Key * Digest) : Prop :=
    exists s1 t1, reach fs0 s1 /\ reach s1 fs /\ texists t1 s1 = true /\
                  K t1 s1 = fst e /\ chash t1 s1 = snd e.
  Definition inv (st : FS * cstate) : Prop :=
    reach fs0 (fst st) /\
    Forall (entry_ok (fst st)) (c_store (snd st)) /\
    Forall (fun pm => Forall (entry_ok (fst st)) (snd pm)) (c_mems (snd st)).

  Lemma entry_ok_step fs o e : entry_ok fs e -> entry_ok (fstep fs o) e.
  Proof.
    intros (s1 & t1 & R0 & R1 & E & HK & HC). exists s1, t1.
    repeat split; auto using reach_step.
  Qed.

  Lemma kv_get_in k (l : kv) d :
    kv_get Key Digest key_eqb k l = Some d -> In (k, d) l.
  Proof.
    induction l as [|[k' d'] r IH]; cbn; [discriminate|].
    destruct (key_eqb k k') eqn:E.
    - intros [= ->]. apply key_eqb_true in E. subst. now left.
    - intros H. right. auto.
  Qed.

  Lemma aget_in {A} p (ms : list (nat * A)) m : aget p ms = Some m -> In (p, m) ms.
  Proof.
    induction ms as [|[p' m'] r IH]; cbn; [discriminate|].
    destruct (Nat.eqb p p') eqn:E.
    - intros [= ->]. apply Nat.eqb_eq in E. subst. now left.
    - intros H. right. auto.
  Qed.

  Lemma mem_of_ok fs p (ms : list (nat * kv)) :
    Forall (fun pm => Forall (entry_ok fs) (snd pm)) ms -> Forall (entry_ok fs) (mem_of Key Digest p ms).
  Proof.
    intros H. unfold mem_of. destruct (aget p ms) eqn:E; [|constructor].
    apply aget_in in E. rewrite Forall_forall in H. apply (H _ E).
  Qed.

  Hypothesis sound : key_sound.

  (* a cached entry found under the key of t now holds the hash of t's content now *)
  Lemma hit_correct fs t k d (l : kv) :
    reach fs0 fs -> Forall (entry_ok fs) l -> texists t fs = true ->
    In (k, d) l -> K t fs = k -> d = chash t fs.
  Proof.
    intros R HF E HI HK. rewrite Forall_forall in HF.
    destruct (HF _ HI) as (s1 & t1 & R0 & R1 & E1 & HK1 & HC1). cbn in *.
    rewrite <- HC1. apply sound; auto. congruence.
  Qed.

  Lemma fresh_entry_ok fs t : reach fs0 fs -> texists t fs = true -> entry_ok fs (K t fs, chash t fs).
  Proof. intros R E. exists fs, t. repeat split; auto using reach_refl. Qed.

  Lemma do_hash_correct fs cs p m t :
    inv (fs, cs) ->
    fst (do_hash fs cs p m t) = (if texists t fs then Some (chash t fs) else None) /\
    inv (fs, snd (do_hash fs cs p m t)).
  Proof.
    intros (R & HS & HM). cbn [fst snd] in *. unfold do_hash.
    destruct (texists t fs) eqn:E; [|cbn; repeat split; auto].
    set (mem := match m with MObj => mem_of Key Digest p (c_mems cs) | _ => [] end).
    assert (Hmem : Forall (entry_ok fs) mem).
    { subst mem. destruct m; try constructor. now apply mem_of_ok. }
    unfold get_or_calc.
    destruct (kv_get Key Digest key_eqb (K t fs) mem) eqn:G1.
    { apply kv_get_in in G1. cbn [fst snd]. split.
      - f_equal. apply (hit_correct fs t (K t fs) d mem); auto.
      - repeat split; cbn [fst snd c_store c_mems]; auto.
        destruct m; auto; constructor; auto. }
    destruct (kv_get Key Digest key_eqb (K t fs) (c_store cs)) eqn:G2.
    { apply kv_get_in in G2. cbn [fst snd]. split.
      - f_equal. apply (hit_correct fs t (K t fs) d (c_store cs)); auto.
      - repeat split; cbn [fst snd c_store c_mems]; auto.
        destruct m; auto; constructor; auto. }
    cbn [fst snd]. split; [reflexivity|].
    pose proof (fresh_entry_ok fs t R E) as F.
    repeat split; cbn [fst snd c_store c_mems]; auto.
    destruct m; auto; constructor; auto; cbn [snd]; constructor; auto.
  Qed.

  Lemma gstep_inv st g : inv st -> inv (fst (gstep st g)).
  Proof.
    destruct st as [fs cs]. intros I. destruct g as [o|p m t|]; cbn [gstep].
    - destruct I as (R & HS & HM). cbn [fst snd] in *. repeat split; cbn [fst snd].
      + now apply reach_step.
      + eapply Forall_impl; [|exact HS]. intros e. apply entry_ok_step.
      + eapply Forall_impl; [|exact HM]. intros pm H. eapply Forall_impl; [|exact H].
        intros e. apply entry_ok_step.
    - destruct (do_hash_correct fs cs p m t I) as [_ I'].
      destruct (do_hash fs cs p m t) as [out cs']. exact I'.
    - destruct I as (R & HS & HM). cbn [fst snd] in *. repeat split; cbn [fst snd c_store c_mems]; auto.
  Qed.

  Lemma run_correct h : forall st, inv st -> outs_of (run_states st h) = spec_outputs (fst st) h.
  Proof.
    induction h as [|g r IH]; intros st I; [reflexivity|].
    cbn [run_states]. unfold FileHash.outs_of. cbn [flat_map].
    fold (outs_of (run_states (fst (gstep st g)) r)).
    rewrite (IH _ (gstep_inv st g I)).
    destruct st as [fs cs]. destruct g as [o|p m t|]; cbn [gstep spec_outputs fst snd]; try reflexivity.
    destruct (do_hash_correct fs cs p m t I) as [O _].
    destruct (do_hash fs cs p m t) as [out cs']. cbn [fst snd] in *. now rewrite O.
  Qed.

  Lemma inv_init : inv (fs0, cempty Key Digest).
  Proof. repeat split; cbn; auto using reach_refl. Qed.

  (* outputs of every history = the spec, for any number of processes *)
  Theorem outputs_correct h :
    outputs FS Target Key Digest Fop key_eqb texists K chash fstep fs0 h = spec_outputs fs0 h.
  Proof. unfold outputs. now rewrite (run_correct h _ inv_init). Qed.

  (* the invariant in the "current state" form: every entry, in the store or in any process'
     table, equals the content hash of every target that carries its key now *)
  Definition entries_current (st : FS * cstate) : Prop :=
    forall k d t,
      (In (k, d) (c_store (snd st)) \/ exists p m, In (p, m) (c_mems (snd st)) /\ In (k, d) m) ->
      texists t (fst st) = true -> K t (fst st) = k -> d = chash t (fst st).

  Lemma inv_entries_current st : inv st -> entries_current st.
  Proof.
    intros (R & HS & HM) k d t [HI|(p & m & HP & HI)] E HK.
    - apply (hit_correct (fst st) t k d (c_store (snd st))); auto.
    - rewrite Forall_forall in HM. apply (hit_correct (fst st) t k d m); auto. apply (HM _ HP).
  Qed.

  Lemma run_inv h : forall st, inv st -> Forall (fun x => inv (fst x)) (run_states st h).
  Proof.
    induction h as [|g r IH]; intros st I; cbn [run_states]; constructor.
    - now apply gstep_inv.
    - apply IH. now apply gstep_inv.
  Qed.

  Theorem store_always_current h :
    Forall (fun x => entries_current (fst x)) (run_states (fs0, cempty Key Digest) h).
  Proof.
    eapply Forall_impl; [|apply run_inv, inv_init]. intros x. apply inv_entries_current.
  Qed.

  (* the cache is not trivial: asking again without any change in between neither recalculates
     nor stores anything *)
  Hypothesis key_eqb_refl : forall a, key_eqb a a = true.
  Notation goc := (get_or_calc Key Digest key_eqb).
  Lemma goc_again mem store k c c' :
    snd (goc (snd (fst (goc mem store k c))) (snd (goc mem store k c)) k c') = snd (goc mem store k c).
  Proof.
    unfold get_or_calc.
    destruct (kv_get Key Digest key_eqb k mem) eqn:G1; cbn [fst snd].
    - now rewrite G1.
    - destruct (kv_get Key Digest key_eqb k store) eqn:G2; cbn [fst snd].
      + now rewrite G1, G2.
      + cbn [kv_get]. now rewrite key_eqb_refl.
  Qed.
  Lemma goc_again_nomem store k c c' :
    snd (goc [] (snd (goc [] store k c)) k c') = snd (goc [] store k c).
  Proof.
    unfold get_or_calc. cbn [kv_get].
    destruct (kv_get Key Digest key_eqb k store) eqn:G2; cbn [fst snd].
    - now rewrite G2.
    - cbn [kv_get]. now rewrite key_eqb_refl.
  Qed.

  Lemma second_hash_is_a_hit fs cs p m t :
    texists t fs = true ->
    c_store (snd (do_hash fs (snd (do_hash fs cs p m t)) p m t)) = c_store (snd (do_hash fs cs p m t)).
  Proof.
    intros E. unfold do_hash. rewrite E.
    destruct m.
    - destruct (goc [] (c_store cs) (K t fs) (chash t fs)) as [[d1 m1] s1] eqn:G. cbn [fst snd c_store c_mems].
      pose proof (goc_again_nomem (c_store cs) (K t fs) (chash t fs) (chash t fs)) as A.
      rewrite G in A. cbn [snd] in A.
      destruct (goc [] s1 (K t fs) (chash t fs)) as [[d2 m2] s2]. cbn [fst snd c_store] in *. exact A.
    - destruct (goc (mem_of Key Digest p (c_mems cs)) (c_store cs) (K t fs) (chash t fs)) as [[d1 m1] s1] eqn:G.
      cbn [fst snd c_store c_mems]. unfold mem_of at 1. cbn [aget]. rewrite Nat.eqb_refl.
      pose proof (goc_again (mem_of Key Digest p (c_mems cs)) (c_store cs) (K t fs) (chash t fs) (chash t fs)) as A.
      rewrite G in A. cbn [fst snd] in A.
      destruct (goc m1 s1 (K t fs) (chash t fs)) as [[d2 m2] s2]. cbn [fst snd c_store] in *. exact A.
    - destruct (goc [] (c_store cs) (K t fs) (chash t fs)) as [[d1 m1] s1] eqn:G. cbn [fst snd c_store c_mems].
      pose proof (goc_again_nomem (c_store cs) (K t fs) (chash t fs) (chash t fs)) as A.
      rewrite G in A. cbn [snd] in A.
      destruct (goc [] s1 (K t fs) (chash t fs)) as [[d2 m2] s2]. cbn [fst snd c_store] in *. exact A.
  Qed.
End Generic.

(* ================================================================== Part 2: the Unix model *)
Lemma aget_aset_eq {A} k (v : A) l : aget k (aset k v l) = Some v.
Proof.
  induction l as [|[k' v'] r IH]; cbn; [now rewrite Nat.eqb_refl|].
  destruct (Nat.eqb k k') eqn:E; cbn; [now rewrite Nat.eqb_refl| now rewrite E].
Qed.
Lemma aget_aset_neq {A} k k' (v : A) l : k' <> k -> aget k' (aset k v l) = aget k' l.
Proof.
  intros N. induction l as [|[k2 v2] r IH]; cbn.
  - destruct (Nat.eqb k' k) eqn:E; [apply Nat.eqb_eq in E; contradiction|reflexivity].
  - destruct (Nat.eqb k k2) eqn:E; cbn.
    + apply Nat.eqb_eq in E. subst k2.
      destruct (Nat.eqb k' k) eqn:E2; [apply Nat.eqb_eq in E2; contradiction|reflexivity].
    + destruct (Nat.eqb k' k2); [reflexivity|exact IH].
Qed.
Lemma aget_adel {A} k k' (v : A) l : aget k' (adel k l) = Some v -> aget k' l = Some v.
Proof.
  induction l as [|[k2 v2] r IH]; cbn; [discriminate|].
  destruct (Nat.eqb k k2) eqn:E; cbn.
  - intros H. specialize (IH H). destruct (Nat.eqb k' k2) eqn:E2; [|exact IH].
    (* k' = k2 = k: but aget k (adel k r) is never Some *)
    apply Nat.eqb_eq in E, E2. subst. exfalso. clear IH.
    induction r as [|[k3 v3] r IHr]; cbn in H; [discriminate|].
    destruct (Nat.eqb k2 k3) eqn:E3; [auto|]. cbn in H. rewrite E3 in H. auto.
  - destruct (Nat.eqb k' k2); [auto|exact IH].
Qed.

Section Concrete.
  Variable now : nat -> nat.
  Variable parent : name -> option name.      (* any nesting of the directory ids *)
  (* THE ASSUMPTION ABOUT THE OPERATING SYSTEM: the clock value a later operation stamps into
     st_ctime is strictly larger than the value stamped by any earlier operation *)
  Hypothesis now_strict : forall i j, i < j -> now i < now j.

  Lemma now_mono i j : i <= j -> now i <= now j.
  Proof.
    intros H. destruct (Nat.eq_dec i j) as [->|N]; [lia|].
    assert (i < j) by lia. specialize (now_strict i j H0). lia.
  Qed.

  (* T' differs from T only by inodes whose ctime is t *)
  Definition itab_le (t : nat) (T T' : list (ino * file)) : Prop :=
    forall i f', aget i T' = Some f' -> aget i T = Some f' \/ f_ctime f' = t.

  Lemma le_refl t T : itab_le t T T.
  Proof. intros i f H. now left. Qed.
  Lemma le_iset t T0 T i c m : itab_le t T0 T -> itab_le t T0 (iset t i c m T).
  Proof.
    intros H j f'. unfold iset. destruct (Nat.eq_dec j i) as [->|N].
    - rewrite aget_aset_eq. intros [= <-]. now right.
    - rewrite aget_aset_neq by exact N. apply H.
  Qed.
  Lemma le_istamp t T0 T i : itab_le t T0 T -> itab_le t T0 (istamp t i T).
  Proof.
    intros H. unfold istamp. destruct (aget i T) as [f|]; [|exact H].
    intros j f'. destruct (Nat.eq_dec j i) as [->|N].
    - rewrite aget_aset_eq. intros [= <-]. now right.
    - rewrite aget_aset_neq by exact N. apply H.
  Qed.
  Lemma le_adel t T0 T i : itab_le t T0 T -> itab_le t T0 (adel i T).
  Proof. intros H j f' G. apply aget_adel in G. now apply H. Qed.
  Lemma le_idrop t T0 s i : itab_le t T0 (itab s) -> itab_le t T0 (itab (idrop t s i)).
  Proof.
    intros H. unfold idrop. cbn [itab with_itab].
    destruct (Nat.eqb (refs s i) 0); [now apply le_adel|now apply le_istamp].
  Qed.

  (* namespace updates touch neither the inode table nor the clock *)
  Lemma itab_set_reg s p i : itab (set_reg s p i) = itab s.
  Proof. unfold set_reg. destruct p; [reflexivity|]. destruct (aget d (dirs s)); reflexivity. Qed.
  Lemma itab_del_entry s p : itab (del_entry s p) = itab s.
  Proof. unfold del_entry. destruct p; [reflexivity|]. destruct (aget d (dirs s)); reflexivity. Qed.
  Lemma itab_stamp_parent t s p : itab (stamp_parent t s p) = itab s.
  Proof. unfold stamp_parent. destruct p; [reflexivity|]. destruct (aget d (dirs s)); reflexivity. Qed.
  Lemma itab_with_tops s x : itab (with_tops s x) = itab s. Proof. reflexivity. Qed.
  Lemma itab_with_dirs s x : itab (with_dirs s x) = itab s. Proof. reflexivity. Qed.
  Lemma itab_with_itab s x : itab (with_itab s x) = x. Proof. reflexivity. Qed.
  Lemma clock_set_reg s p i : clock (set_reg s p i) = clock s.
  Proof. unfold set_reg. destruct p; [reflexivity|]. destruct (aget d (dirs s)); reflexivity. Qed.
  Lemma clock_del_entry s p : clock (del_entry s p) = clock s.
  Proof. unfold del_entry. destruct p; [reflexivity|]. destruct (aget d (dirs s)); reflexivity. Qed.
  Lemma clock_stamp_parent t s p : clock (stamp_parent t s p) = clock s.
  Proof. unfold stamp_parent. destruct p; [reflexivity|]. destruct (aget d (dirs s)); reflexivity. Qed.
  Lemma clock_with_tops s x : clock (with_tops s x) = clock s. Proof. reflexivity. Qed.
  Lemma clock_with_dirs s x : clock (with_dirs s x) = clock s. Proof. reflexivity. Qed.
  Lemma clock_with_itab s x : clock (with_itab s x) = clock s. Proof. reflexivity. Qed.
  Lemma clock_idrop t s i : clock (idrop t s i) = clock s. Proof. reflexivity. Qed.

  Hint Rewrite itab_set_reg itab_del_entry itab_stamp_parent itab_with_tops itab_with_dirs itab_with_itab
       clock_set_reg clock_del_entry clock_stamp_parent clock_with_tops clock_with_dirs clock_with_itab
       clock_idrop : fsdb.

  Ltac split_op H :=
    repeat match type of H with
      | Some _ = Some _ => inversion H; subst; clear H
      | None = Some _ => discriminate H
      | context [match ?x with _ => _ end] => destruct x eqn:?
      end.
  Ltac le_chain :=
    repeat (autorewrite with fsdb;
            first [ apply le_refl | apply le_iset | apply le_istamp | apply le_adel | apply le_idrop ]).

  Lemma try_op_effect s o s' :
    try_op now parent s o = Some s' ->
    itab_le (now (clock s)) (itab s) (itab s') /\ clock s' = clock s.
  Proof.
    intros H. destruct o; cbn [try_op] in H;
      unfold op_write, op_utime, op_rename, op_copy, op_link, op_unlink, op_symlink, op_mkdir, create in H;
      split_op H; (split; [le_chain | now autorewrite with fsdb]).
  Qed.

  Lemma fstep_effect s o :
    itab_le (now (clock s)) (itab s) (itab (fstep now parent s o)) /\ clock (fstep now parent s o) = S (clock s).
  Proof.
    unfold fstep. destruct (try_op now parent s o) as [s'|] eqn:E; cbn [tick itab clock].
    - destruct (try_op_effect _ _ _ E) as [L C]. split; [exact L|now rewrite C].
    - split; [apply le_refl|reflexivity].
  Qed.

  (* every ctime in the table was stamped by an earlier operation *)
  Definition stamps_ok (s : fsys) : Prop :=
    forall i f, aget i (itab s) = Some f -> f_ctime f < now (clock s).

  Lemma stamps_ok_step s o : stamps_ok s -> stamps_ok (fstep now parent s o).
  Proof.
    intros H i f G. destruct (fstep_effect s o) as [L C]. rewrite C.
    assert (now (clock s) < now (S (clock s))) by (apply now_strict; lia).
    destruct (L _ _ G) as [G0| ->]; [specialize (H _ _ G0)|]; lia.
  Qed.
  Lemma stamps_ok_run ops : forall s, stamps_ok s -> stamps_ok (run_fs fsys fop (fstep now parent) s ops).
  Proof.
    induction ops as [|o r IH]; intros s H; [exact H|]. cbn. apply IH. now apply stamps_ok_step.
  Qed.
  Lemma stamps_ok_empty : stamps_ok fs_empty.
  Proof. intros i f. cbn. discriminate. Qed.

  (* an inode seen later is the very same record, or carries a stamp of a later operation *)
  Lemma later_inode ops : forall s1 i g,
    aget i (itab (run_fs fsys fop (fstep now parent) s1 ops)) = Some g ->
    aget i (itab s1) = Some g \/ now (clock s1) <= f_ctime g.
  Proof.
    induction ops as [|o r IH]; intros s1 i g G; [now left|].
    cbn in G. destruct (IH _ _ _ G) as [G1|G1].
    - destruct (fstep_effect s1 o) as [L _]. destruct (L _ _ G1) as [G0|E]; [now left|right; lia].
    - right. destruct (fstep_effect s1 o) as [_ C]. rewrite C in G1.
      assert (now (clock s1) <= now (S (clock s1))) by (apply now_mono; lia). lia.
  Qed.

  Lemma map_rel {A B C} (F1 F2 : A -> B) (G1 G2 : A -> C) :
    (forall x y, F1 x = F2 y -> G1 x = G2 y) ->
    forall l1 l2, map F1 l1 = map F2 l2 -> map G1 l1 = map G2 l2.
  Proof.
    intros H. induction l1 as [|x l1 IH]; destruct l2 as [|y l2]; cbn; try discriminate; auto.
    intros E. inversion E. f_equal; auto.
  Qed.

  Notation reachF := (reach fsys fop (fstep now parent)).

  (* the key of the current code is sound — under now_strict *)
  Theorem K_fixed_sound :
    key_sound fsys target key digest fop target_exists (K_fixed parent) (content_hash parent) (fstep now parent) fs_empty.
  Proof.
    intros s1 s2 t1 t2 [ops0 ->] [ops ->] _ _ HK.
    set (s1 := run_fs fsys fop (fstep now parent) fs_empty ops0) in *.
    assert (OK : stamps_ok s1) by (apply stamps_ok_run, stamps_ok_empty).
    unfold K_fixed in HK. inversion HK as [[Ht HM]]. subst t2. clear HK.
    unfold content_hash. f_equal.
    revert HM. apply map_rel. intros [n1 i1] [n2 i2]. cbn [fst snd].
    intros E. inversion E as [[E1 E2 E3]]. subst n2 i2. f_equal.
    destruct (aget i1 (itab s1)) as [f|] eqn:A1;
      destruct (aget i1 (itab (run_fs fsys fop (fstep now parent) s1 ops))) as [g|] eqn:A2;
      cbn in E3; try discriminate; [|reflexivity].
    inversion E3 as [[M C Z]].
    destruct (later_inode _ _ _ _ A2) as [A|A].
    - rewrite A1 in A. now inversion A.
    - specialize (OK _ _ A1). lia.
  Qed.

  (* boolean equality on keys *)
  Lemma path_eqb_spec a b : path_eqb a b = true <-> a = b.
  Proof.
    destruct a, b; cbn; try (split; discriminate).
    - rewrite Nat.eqb_eq. split; [now intros ->|now intros [= ->]].
    - rewrite andb_true_iff, !Nat.eqb_eq. split; [now intros [-> ->]|now intros [= -> ->]].
  Qed.
  Lemma target_eqb_spec a b : target_eqb a b = true <-> a = b.
  Proof.
    destruct a, b; cbn; try (split; discriminate).
    - rewrite path_eqb_spec. split; [now intros ->|now intros [= ->]].
    - rewrite Nat.eqb_eq. split; [now intros ->|now intros [= ->]].
  Qed.
  Lemma kstat_eqb_spec a b : kstat_eqb a b = true <-> a = b.
  Proof.
    destruct a as [[[n1 n2] i] x], b as [[[m1 m2] j] y]. cbn.
    rewrite !andb_true_iff, !Nat.eqb_eq.
    assert (O : option_eqb triple_eqb x y = true <-> x = y).
    { destruct x as [[[a1 a2] a3]|], y as [[[b1 b2] b3]|]; cbn; try (split; (discriminate || reflexivity)).
      rewrite !andb_true_iff, !Nat.eqb_eq. split; [now intros [[-> ->] ->]|now intros [= -> -> ->]]. }
    rewrite O. split; [now intros [[[-> ->] ->] ->]|now intros [= -> -> -> ->]].
  Qed.
  Lemma key_eqb_spec a b : key_eqb a b = true <-> a = b.
  Proof.
    destruct a as [t l], b as [t' l']. unfold key_eqb. cbn [fst snd].
    rewrite andb_true_iff, target_eqb_spec, (list_eqb_spec kstat_eqb kstat_eqb_spec).
    split; [now intros [-> ->]|now intros [= -> ->]].
  Qed.

  Theorem fixed_key_outputs h : model_outputs now parent (K_fixed parent) h = spec_out now parent h.
  Proof.
    unfold model_outputs, spec_out. apply outputs_correct.
    - intros a b. apply key_eqb_spec.
    - exact K_fixed_sound.
  Qed.

  Theorem fixed_key_entries_current h :
    Forall (fun x => entries_current fsys target key digest target_exists (K_fixed parent) (content_hash parent) (fst x))
           (model_states now parent (K_fixed parent) h).
  Proof.
    unfold model_states. apply store_always_current.
    - intros a b. apply key_eqb_spec.
    - exact K_fixed_sound.
  Qed.
End Concrete.

(* ================================================================== Part 3: the key before the repair *)
Local Open Scope string_scope.
Definition now0 (k : nat) : nat := 1000 + k.
Lemma now0_strict : forall i j, i < j -> now0 i < now0 j.
Proof. unfold now0. intros. lia. Qed.

(* directory ids 0 and 1 live in the root, 2 in 0, 3 in 2 (depth 3), 4 in 1 *)
Definition parent0 (d : name) : option name :=
  match d with 2 => Some 0 | 3 => Some 2 | 4 => Some 1 | _ => None end.
Definition f0 : target := TFile (Top 0).
(* write a; hash; write b of the same size; utime(old mtime); hash *)
Definition h_utime : hist :=
  [GFs (OWrite (Top 0) "aaaa" 0); GHash 0 MFresh f0;
   GFs (OWrite (Top 0) "bbbb" 1); GFs (OUtime (Top 0) 1000); GHash 0 MFresh f0].
(* two files with equal mtime; hash one; rename the other over it; hash *)
Definition h_rename : hist :=
  [GFs (OWrite (Top 0) "gggg" 0); GFs (OUtime (Top 0) 5);
   GFs (OWrite (Top 1) "hhhh" 1); GFs (OUtime (Top 1) 5);
   GHash 0 MFresh f0; GFs (ORename (Top 1) (Top 0)); GHash 0 MFresh f0].
(* the same with a timestamp-preserving copy *)
Definition h_copy : hist :=
  [GFs (OWrite (Top 0) "gggg" 0); GFs (OUtime (Top 0) 5);
   GFs (OWrite (Top 1) "hhhh" 1); GFs (OUtime (Top 1) 5);
   GHash 0 MFresh f0; GFs (OCopy (Top 1) (Top 0) 2); GHash 0 MFresh f0].
(* a directory input; a file in it is rewritten (no timestamp is touched by hand) *)
Definition h_dir : hist :=
  [GFs (OMkdir 0); GFs (OWrite (Sub 0 0) "1111" 0); GHash 0 MFresh (TDir 0);
   GFs (OWrite (Sub 0 0) "22222222" 1); GHash 0 MFresh (TDir 0)].
(* a symlinked input; its target is rewritten *)
Definition h_symlink : hist :=
  [GFs (OWrite (Top 1) "tttt" 0); GFs (OSymlink 0 (Top 1)); GHash 0 MFresh f0;
   GFs (OWrite (Top 1) "uuuuuuuu" 1); GHash 0 MFresh f0].
(* process 0 hashes, the file is rewritten, process 1 (own PersistentCache object) hashes *)
Definition h_two_procs : hist :=
  [GFs (OWrite (Top 0) "aaaa" 0); GHash 0 MObj f0;
   GFs (OWrite (Top 0) "bbbb" 1); GFs (OUtime (Top 0) 1000); GHash 1 MObj f0].

Lemma pinned_stale_utime : model_outputs now0 parent0 K_pinned h_utime <> spec_out now0 parent0 h_utime.
Proof. vm_compute. discriminate. Qed.
Lemma pinned_stale_rename : model_outputs now0 parent0 K_pinned h_rename <> spec_out now0 parent0 h_rename.
Proof. vm_compute. discriminate. Qed.
Lemma pinned_stale_copy : model_outputs now0 parent0 K_pinned h_copy <> spec_out now0 parent0 h_copy.
Proof. vm_compute. discriminate. Qed.
Lemma pinned_stale_dir : model_outputs now0 parent0 K_pinned h_dir <> spec_out now0 parent0 h_dir.
Proof. vm_compute. discriminate. Qed.
Lemma pinned_stale_symlink : model_outputs now0 parent0 K_pinned h_symlink <> spec_out now0 parent0 h_symlink.
Proof. vm_compute. discriminate. Qed.
Lemma pinned_stale_two_procs : model_outputs now0 parent0 K_pinned h_two_procs <> spec_out now0 parent0 h_two_procs.
Proof. vm_compute. discriminate. Qed.

(* the current key on the same histories (instances of fixed_key_outputs, by evaluation), and
   the cache really is used: five hash requests, two calculations *)
Definition h_reuse : hist :=
  [GFs (OWrite (Top 0) "aaaa" 0); GHash 0 MFresh f0; GHash 1 MObj f0; GHash 1 MObj f0;
   GFs (OWrite (Top 0) "bbbb" 1); GFs (OUtime (Top 0) 1000); GHash 0 MTask f0; GHash 1 MObj f0].
Definition final_store_size (K : target -> fsys -> key) (h : hist) : nat :=
  match rev (model_states now0 parent0 K h) with
  | x :: _ => List.length (c_store (snd (fst x)))
  | [] => 0
  end.
Lemma fixed_reuse_example :
  model_outputs now0 parent0 (K_fixed parent0) h_reuse = spec_out now0 parent0 h_reuse /\
  final_store_size (K_fixed parent0) h_reuse = 2 /\
  List.length (model_outputs now0 parent0 (K_fixed parent0) h_reuse) = 5 /\
  nth 0 (model_outputs now0 parent0 (K_fixed parent0) h_reuse) None <> nth 4 (model_outputs now0 parent0 (K_fixed parent0) h_reuse) None.
Proof. vm_compute. repeat split; discriminate. Qed.

(* a directory input with nested directories; a file two and three levels down is rewritten in
   place (nothing is created, removed or renamed, so no directory stamp moves) *)
Definition h_nested : hist :=
  [GFs (OMkdir 0); GFs (OMkdir 2); GFs (OMkdir 3);
   GFs (OWrite (Sub 0 0) "1111" 0); GFs (OWrite (Sub 2 0) "2222" 1); GFs (OWrite (Sub 3 0) "3333" 2);
   GHash 0 MFresh (TDir 0);
   GFs (OWrite (Sub 2 0) "4444" 3); GHash 1 MFresh (TDir 0);
   GFs (OWrite (Sub 3 0) "5555" 3); GFs (OUtime (Sub 3 0) 1005); GHash 0 MObj (TDir 0); GHash 0 MTask (TDir 2)].
Lemma shallow_stale_nested :
  model_outputs now0 parent0 (K_shallow parent0) h_nested <> spec_out now0 parent0 h_nested.
Proof. vm_compute. discriminate. Qed.
Lemma fixed_nested_example :
  model_outputs now0 parent0 (K_fixed parent0) h_nested = spec_out now0 parent0 h_nested /\
  nth 0 (model_outputs now0 parent0 (K_fixed parent0) h_nested) None
    = Some (true, [((0, 0), Some "1111"); ((3, 0), Some "2222"); ((4, 0), Some "3333")]) /\
  nth 3 (model_outputs now0 parent0 (K_fixed parent0) h_nested) None
    = Some (true, [((0, 0), Some "4444"); ((4, 0), Some "5555")]).
Proof. vm_compute. repeat split. Qed.
