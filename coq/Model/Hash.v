(* Model/Hash.v — pydra/utils/hash.py: hash_object / hash_single (id()-keyed Cache memo with the
   b"\x00" recursion placeholder), the bytes_repr singledispatch serializers, bytes_repr_mapping_contents,
   bytes_repr_sequence_contents; pydra/compose/base/task.py: _compute_hashes / _checksum.

   A Python value is a tree; every object that hash_single memoises by id() and that can be aliased or be
   part of a cycle (containers, objects, arrays, functions) carries its identity [id]; [VRef i] stands for
   "the object with identity i, met again while it is still being hashed" (a cycle).  blake2b(digest_size=16,
   person=b"pydra-hash") is the parameter [H]; nothing is assumed about it. *)
From Coq Require Import DecimalString.
From Pydra Require Import Base.Prelude Base.PySort.
Local Open Scope list_scope.
Local Open Scope string_scope.

Inductive pyval : Type :=
| VNone
| VBool (b : bool)
| VInt (z : Z)
| VFloat (bits : string)                 (* struct.pack("<d", x): 8 bytes *)
| VStr (s : string)                      (* utf-8 bytes *)
| VBytes (s : string)
| VPath (cls : string) (s : string)      (* os.PathLike: "module.Class", os.fspath *)
| VList (id : nat) (l : list pyval)
| VTuple (id : nat) (l : list pyval)
| VSet (id : nat) (l : list pyval)       (* elements in iteration order *)
| VFrozenset (id : nat) (l : list pyval)
| VDict (id : nat) (kvs : list (pyval * pyval))            (* insertion order *)
| VObj (id : nat) (cls : string) (attrs : list (string * pyval))   (* attrs / __slots__ / __dict__ objects: the dict bytes_repr builds *)
| VNd (id : nat) (cls : string) (dtype : string) (shape : list nat) (data : string)
      (* numpy ndarray / scalar, non-object dtype: module+class name, str(dtype), shape, tobytes(order="C") *)
| VFunc (id : nat) (src : list string) (hidden : list (string * pyval))
      (* function with source: the chunks bytes_repr_function yields between "function:(" and ")";
         [hidden] = closure cells, referenced globals: part of the function, not of its bytes *)
| VOpaque (id : nat) (pre : string)      (* a value whose byte string is taken from the implementation (types) *)
| VRef (id : nat).

Inductive err := ETypeError | EFuel | EBadRef.
Inductive res (A : Type) := Ok (a : A) | Err (e : err).
Arguments Ok {A} a.
Arguments Err {A} e.

Definition node_id (v : pyval) : option nat :=
  match v with
  | VList i _ | VTuple i _ | VSet i _ | VFrozenset i _ | VDict i _ | VObj i _ _
  | VNd i _ _ _ _ | VFunc i _ _ | VOpaque i _ | VRef i => Some i
  | _ => None
  end.

(* ------------------------------------------------------------------ byte-string helpers *)
Definition dec_nat (n : nat) : string := NilEmpty.string_of_uint (Nat.to_uint n).
Definition dec_Z (z : Z) : string := NilEmpty.string_of_int (Z.to_int z).

Fixpoint le_bytes (n : nat) (u : Z) : string :=
  match n with
  | 0 => ""
  | S k => String (ascii_of_N (Z.to_N (u mod 256))) (le_bytes k (u / 256))
  end.
Definition pack_q (z : Z) : string := le_bytes 8 (z mod 18446744073709551616).
Definition fits_q (z : Z) : bool := ((-9223372036854775808 <=? z) && (z <? 9223372036854775808))%Z.

Fixpoint take (n : nat) (s : string) : string :=
  match n, s with
  | S k, String c r => String c (take k r)
  | _, _ => ""
  end.
Fixpoint zeros (n : nat) : string := match n with 0 => "" | S k => String "000"%char (zeros k) end.
(* the digest is 16 bytes whatever [H] returns (blake2b(digest_size=16) returns 16 bytes: fix16 is the identity on it) *)
Definition fix16 (s : string) : string := take 16 (s ++ zeros 16).

Fixpoint concat_str (l : list string) : string :=
  match l with [] => "" | s :: r => s ++ concat_str r end.

Fixpoint prod_nat (l : list nat) : nat := match l with [] => 1 | n :: r => n * prod_nat r end.

(* repr of a tuple of ints: "()", "(6,)", "(2, 3)" *)
Fixpoint shape_tail (l : list nat) : string :=
  match l with [] => ")" | n :: r => ", " ++ dec_nat n ++ shape_tail r end.
Definition shape_repr (l : list nat) : string :=
  match l with
  | [] => "()"
  | [n] => "(" ++ dec_nat n ++ ",)"
  | n :: r => "(" ++ dec_nat n ++ shape_tail r
  end.

(* ------------------------------------------------------------------ Python's == and < on these values *)
Fixpoint str_ltb (a b : string) : bool :=
  match a, b with
  | _, EmptyString => false
  | EmptyString, String _ _ => true
  | String c a', String d b' =>
      let x := nat_of_ascii c in let y := nat_of_ascii d in
      if Nat.ltb x y then true else if Nat.ltb y x then false else str_ltb a' b'
  end.

Fixpoint split_on (sep : ascii) (s : string) (cur : string) : list string :=
  match s with
  | EmptyString => [cur]
  | String c r => if Ascii.eqb c sep then cur :: split_on sep r "" else split_on sep r (cur ++ String c "")
  end.

Fixpoint strs_ltb (a b : list string) : bool :=
  match a, b with
  | _, [] => false
  | [], _ :: _ => true
  | x :: a', y :: b' => if String.eqb x y then strs_ltb a' b' else str_ltb x y
  end.

Definition num_of (v : pyval) : option Z :=
  match v with VInt z => Some z | VBool b => Some (if b then 1 else 0)%Z | _ => None end.

Fixpoint le_val (s : string) : Z :=
  match s with EmptyString => 0 | String c r => Z.of_nat (nat_of_ascii c) + 256 * le_val r end%Z.
Definition f_nan (bits : string) : bool :=
  let u := le_val bits in
  ((u / 4503599627370496) mod 2048 =? 2047)%Z && negb (u mod 4503599627370496 =? 0)%Z.
Definition f_key (bits : string) : Z :=
  let u := le_val bits in
  (if u <? 9223372036854775808 then u else - (u - 9223372036854775808))%Z.
Definition float_ltb (a b : string) : bool := negb (f_nan a) && negb (f_nan b) && (f_key a <? f_key b)%Z.
Definition float_eqb (a b : string) : bool := negb (f_nan a) && negb (f_nan b) && (f_key a =? f_key b)%Z.

Definition set_elems (v : pyval) : option (list pyval) :=
  match v with VSet _ l | VFrozenset _ l => Some l | _ => None end.
Definition seq_elems (v : pyval) : option (bool * list pyval) :=
  match v with VTuple _ l => Some (true, l) | VList _ l => Some (false, l) | _ => None end.

Fixpoint py_eq (fuel : nat) (a b : pyval) : bool :=
  match fuel with
  | 0 => false
  | S f =>
    match num_of a, num_of b with
    | Some x, Some y => (x =? y)%Z
    | _, _ =>
      match a, b with
      | VNone, VNone => true
      | VFloat x, VFloat y => float_eqb x y
      | VStr x, VStr y => String.eqb x y
      | VBytes x, VBytes y => String.eqb x y
      | VPath _ x, VPath _ y => String.eqb x y
      | VObj i _ _, VObj j _ _ => Nat.eqb i j
      | _, _ =>
        match seq_elems a, seq_elems b with
        | Some (ta, la), Some (tb, lb) => Bool.eqb ta tb && list_eqb (py_eq f) la lb
        | _, _ =>
          match set_elems a, set_elems b with
          | Some la, Some lb =>
              Nat.eqb (List.length la) (List.length lb) && forallb (fun x => existsb (py_eq f x) lb) la
          | _, _ => false
          end
        end
      end
    end
  end.

(* a < b; None = TypeError *)
Fixpoint py_lt (fuel : nat) (a b : pyval) : option bool :=
  match fuel with
  | 0 => None
  | S f =>
    match num_of a, num_of b with
    | Some x, Some y => Some (x <? y)%Z
    | _, _ =>
      match a, b with
      | VFloat x, VFloat y => Some (float_ltb x y)
      | VStr x, VStr y => Some (str_ltb x y)
      | VBytes x, VBytes y => Some (str_ltb x y)
      | VPath _ x, VPath _ y => Some (strs_ltb (split_on "/" x "") (split_on "/" y ""))
      | _, _ =>
        match seq_elems a, seq_elems b with
        | Some (ta, la), Some (tb, lb) =>
            if Bool.eqb ta tb then
              (fix lex (l1 l2 : list pyval) : option bool :=
                 match l1, l2 with
                 | _, [] => Some false
                 | [], _ :: _ => Some true
                 | x :: r1, y :: r2 => if py_eq f x y then lex r1 r2 else py_lt f x y
                 end) la lb
            else None
        | _, _ =>
          match set_elems a, set_elems b with
          | Some la, Some lb =>
              Some (Nat.ltb (List.length la) (List.length lb) && forallb (fun x => existsb (py_eq f x) lb) la)
          | _, _ => None
          end
        end
      end
    end
  end.

Fixpoint vdepth (v : pyval) : nat :=
  match v with
  | VList _ l | VTuple _ l | VSet _ l | VFrozenset _ l => S (fold_right (fun x n => Nat.max (vdepth x) n) 0 l)
  | VDict _ kvs => S (fold_right (fun (kv : pyval * pyval) n => let (k, x) := kv in Nat.max (Nat.max (vdepth k) (vdepth x)) n) 0 kvs)
  | VObj _ _ ats => S (fold_right (fun (kv : string * pyval) n => let (_, x) := kv in Nat.max (vdepth x) n) 0 ats)
  | _ => 1
  end.

Definition vlt (a b : pyval) : option bool := py_lt (S (vdepth a)) a b.
Definition kvlt {B} (a b : pyval * B) : option bool := vlt (fst a) (fst b).

Definition sorted_res {A} (lt : A -> A -> option bool) (l : list A) : res (list A) :=
  match py_sorted lt l with Some s => Ok s | None => Err ETypeError end.

(* ------------------------------------------------------------------ the serializers *)
Definition atom_bytes (v : pyval) : option string :=
  match v with
  | VNone => Some "None"
  | VBool b => Some (if b then "True" else "False")
  | VInt z => Some (if fits_q z then "int:" ++ pack_q z
                    else let s := dec_Z z in "long:" ++ dec_nat (String.length s) ++ ":" ++ s)
  | VFloat bits => Some ("float:" ++ bits)
  | VStr s => Some ("str:" ++ dec_nat (String.length s) ++ ":" ++ s)
  | VBytes s => Some ("bytes:" ++ dec_nat (String.length s) ++ ":" ++ s)
  | VPath cls s => Some (cls ++ ":" ++ s)
  | VNd _ cls dtype shape data => Some (cls ++ ":" ++ dtype ++ ":" ++ shape_repr shape ++ ":" ++ data)
  | VFunc _ src _ => Some ("function:(" ++ concat_str src ++ ")")
  | VOpaque _ pre => Some pre
  | _ => None
  end.

Section Ser.
  Variable H : string -> string.
  Definition D (s : string) : string := fix16 (H s).

  Section Repr.
    Context {M : Type}.
    Variable rec : pyval -> M -> res (string * M).      (* hash_single on a sub-object *)

    (* bytes_repr_sequence_contents *)
    Fixpoint seq_contents (l : list pyval) (m : M) : res (string * M) :=
      match l with
      | [] => Ok ("", m)
      | x :: r =>
        match rec x m with
        | Err e => Err e
        | Ok (d, m1) =>
          match seq_contents r m1 with
          | Err e => Err e
          | Ok (s, m2) => Ok (d ++ s, m2)
          end
        end
      end.

    (* bytes_repr of a value that is not a dict / object: what a dict key can be *)
    Definition repr_flat (v : pyval) (m : M) : res (string * M) :=
      match atom_bytes v with
      | Some s => Ok (s, m)
      | None =>
        match v with
        | VList _ l =>
          match seq_contents l m with Ok (s, m') => Ok ("list:(" ++ s ++ ")", m') | Err e => Err e end
        | VTuple _ l =>
          match seq_contents l m with Ok (s, m') => Ok ("tuple:(" ++ s ++ ")", m') | Err e => Err e end
        | VSet _ l =>
          match sorted_res vlt l with
          | Err e => Err e
          | Ok sl => match seq_contents sl m with Ok (s, m') => Ok ("set:{" ++ s ++ "}", m') | Err e => Err e end
          end
        | VFrozenset _ l =>
          match sorted_res vlt l with
          | Err e => Err e
          | Ok sl => match seq_contents sl m with Ok (s, m') => Ok ("frozenset:{" ++ s ++ "}", m') | Err e => Err e end
          end
        | VRef _ => Err EBadRef
        | _ => Err ETypeError       (* dict / object used as a mapping key: unhashable *)
        end
      end.

    (* bytes_repr_mapping_contents on the already sorted items *)
    Fixpoint map_contents (kvs : list (pyval * pyval)) (m : M) : res (string * M) :=
      match kvs with
      | [] => Ok ("", m)
      | (k, x) :: r =>
        match repr_flat k m with
        | Err e => Err e
        | Ok (ks, m1) =>
          match rec x m1 with
          | Err e => Err e
          | Ok (d, m2) =>
            match map_contents r m2 with
            | Err e => Err e
            | Ok (s, m3) => Ok (ks ++ "=" ++ d ++ "," ++ s, m3)
            end
          end
        end
      end.

    Definition mapping (kvs : list (pyval * pyval)) (m : M) : res (string * M) :=
      match sorted_res kvlt kvs with
      | Err e => Err e
      | Ok skvs => map_contents skvs m
      end.

    (* bytes_repr (joined chunks) *)
    Definition repr (v : pyval) (m : M) : res (string * M) :=
      match v with
      | VDict _ kvs =>
        match mapping kvs m with Ok (s, m') => Ok ("dict:{" ++ s ++ "}", m') | Err e => Err e end
      | VObj _ cls ats =>
        match mapping (map (fun a => (VStr (fst a), snd a)) ats) m with
        | Ok (s, m') => Ok (cls ++ ":{" ++ s ++ "}", m')
        | Err e => Err e
        end
      | _ => repr_flat v m
      end.
  End Repr.

  (* ---------------------------------------------------------------- hash_single with the Cache *)
  Definition memo := list (nat * string).
  Fixpoint lookup (i : nat) (m : memo) : option string :=
    match m with [] => None | (j, d) :: r => if Nat.eqb i j then Some d else lookup i r end.
  Definition placeholder : string := String "000"%char "".

  Fixpoint hs (fuel : nat) (v : pyval) (m : memo) : res (string * memo) :=
    match fuel with
    | 0 => Err EFuel
    | S f =>
      match node_id v with
      | Some i =>
        match lookup i m with
        | Some d => Ok (d, m)                                   (* objid in cache *)
        | None =>
          match repr (hs f) v ((i, placeholder) :: m) with      (* cache[objid] = b"\x00" *)
          | Err e => Err e
          | Ok (s, m') => Ok (D s, (i, D s) :: m')              (* cache[objid] = hsh *)
          end
        end
      | None =>
        match repr (hs f) v m with
        | Err e => Err e
        | Ok (s, m') => Ok (D s, m')
        end
      end
    end.

  (* hash_object(obj, cache) *)
  Definition hash_object (v : pyval) (m : memo) : res (string * memo) := hs (S (vdepth v)) v m.

  (* a sequence of hash_object calls sharing one Cache *)
  Fixpoint hash_all (vs : list pyval) (m : memo) : list (res string) :=
    match vs with
    | [] => []
    | v :: r => match hash_object v m with
                | Ok (d, m') => Ok d :: hash_all r m'
                | Err e => [Err e]
                end
    end.

  (* the digest of [v] when it is hashed after the values [ctx] under the same Cache *)
  Definition hash_in (ctx : list pyval) (v : pyval) : res string :=
    last (hash_all (ctx ++ [v]) []) (Err EFuel).

  (* ---------------------------------------------------------------- the same serializers without the memo:
     the digest as a function of the value alone *)
  Fixpoint dig (fuel : nat) (v : pyval) (u : unit) : res (string * unit) :=
    match fuel with
    | 0 => Err EFuel
    | S f =>
      match repr (dig f) v tt with
      | Err e => Err e
      | Ok (s, _) => Ok (D s, tt)
      end
    end.
  Definition digest (v : pyval) : res string :=
    match dig (S (vdepth v)) v tt with Ok (d, _) => Ok d | Err e => Err e end.
  (* the byte string that is hashed for [v] *)
  Definition preimage (v : pyval) : res string :=
    match repr (dig (vdepth v)) v tt with Ok (s, _) => Ok s | Err e => Err e end.

  (* ---------------------------------------------------------------- Task._compute_hashes / _checksum *)
  Definition hexdigit (n : nat) : ascii :=
    ascii_of_nat (if Nat.ltb n 10 then 48 + n else 87 + n).
  Fixpoint hex (s : string) : string :=
    match s with
    | EmptyString => ""
    | String c r => let n := nat_of_ascii c in String (hexdigit (n / 16)) (String (hexdigit (n mod 16)) (hex r))
    end.

  (* field_hashes = {k: hash_function(v, cache=hash_cache)} over one shared Cache, in field order *)
  Fixpoint field_hashes (fields : list (string * pyval)) (m : memo) : res (list (string * string)) :=
    match fields with
    | [] => Ok []
    | (k, v) :: r =>
      match hash_object v m with
      | Err e => Err e
      | Ok (d, m') => match field_hashes r m' with Err e => Err e | Ok l => Ok ((k, hex d) :: l) end
      end
    end.

  (* hash_function(sorted(field_hashes.items())): a fresh list of fresh (str, str) tuples; ids 0.. are
     fresh in the new Cache that this call creates *)
  Fixpoint items_val (n : nat) (l : list (string * string)) : list pyval :=
    match l with [] => [] | (k, h) :: r => VTuple n [VStr k; VStr h] :: items_val (S n) r end.

  Definition compute_hash (fields : list (string * pyval)) : res string :=
    match field_hashes fields [] with
    | Err e => Err e
    | Ok fh =>
      match sorted_res vlt (items_val 1 fh) with
      | Err e => Err e
      | Ok items => match hash_object (VList 0 items) [] with Ok (d, _) => Ok (hex d) | Err e => Err e end
      end
    end.

  Definition checksum (task_type : string) (fields : list (string * pyval)) : res string :=
    match compute_hash fields with Ok h => Ok (task_type ++ "-" ++ h) | Err e => Err e end.
End Ser.

(* ------------------------------------------------------------------ C06: task definitions and the result cache.
   A task as the cache sees it: the task type and the (name, value) pairs Task._compute_hashes hashes (inputs that
   are set, the `function` / `executable` field, the Outputs class), plus what a task also consists of but what is
   in none of those values: per-field metadata of the input fields (argstr, position, sep, formatter).  The closure
   cells and globals of a function sit in the [hidden] part of its VFunc value. *)
Record taskdef := { t_type : string; t_fields : list (string * pyval); t_meta : list (string * string) }.

Definition identity (H : string -> string) (t : taskdef) : res string := checksum H (t_type t) (t_fields t).

Section Cache.
  Context {T O : Type}.
  Variable ident : T -> string.        (* <cache_root>/<checksum> *)
  Variable run : T -> O.               (* executing the task now *)
  Definition store := list (string * O).
  Fixpoint find (d : string) (s : store) : option O :=
    match s with [] => None | (k, o) :: r => if String.eqb k d then Some o else find d r end.
  (* Job.run: return the cached result when <root>/<checksum> holds one, else run and save *)
  Definition submit (s : store) (t : T) : O * store :=
    match find (ident t) s with
    | Some o => (o, s)
    | None => (run t, (ident t, run t) :: s)
    end.
  Fixpoint submit_all (s : store) (ts : list T) : list O * store :=
    match ts with
    | [] => ([], s)
    | t :: r => let (o, s1) := submit s t in let (os, s2) := submit_all s1 r in (o :: os, s2)
    end.
End Cache.

(* byte strings written in hex by the harness: hx "00ff41" *)
Definition hexval (c : ascii) : nat :=
  let n := nat_of_ascii c in if Nat.leb 97 n then n - 87 else n - 48.
Fixpoint hx (s : string) : string :=
  match s with
  | String a (String b r) => String (ascii_of_nat (16 * hexval a + hexval b)) (hx r)
  | _ => ""
  end.

(* long, mostly constant byte strings (array buffers) written run-length encoded by the harness: rpN 9999 (hx "..") *)
Fixpoint rp (n : nat) (s : string) : string := match n with 0 => "" | S k => s ++ rp k s end.
Definition rpN (n : N) (s : string) : string := rp (N.to_nat n) s.

(* the oracle the correspondence run uses for [H]: the (byte string -> digest) pairs the implementation
   produced with blake2b while hashing the same values; a byte string outside the table maps to "?" *)
Fixpoint table_H (t : list (string * string)) (s : string) : string :=
  match t with
  | [] => "?"
  | (p, d) :: r => if String.eqb p s then d else table_H r s
  end.
