(* Spec/Audit.v — C36 reference semantics.  What the property says about the messages a file messenger
   holds and the results the executed jobs saved; nothing about how pydra produces them.

   "Every executed job emits one start record and one end record for the same activity, and the end
   record's error flag matches the job's result":
     - no activity id is started twice;
     - the activities that are ended are exactly the activities that were started, each once, and the end
       record lies where the start record lies (with the default message directory: in the job's own
       cache directory);
     - the end records correspond one-to-one to the saved results: same place, same error flag. *)
From Pydra Require Import Base.Prelude Model.Audit.
From Coq Require Import Permutation.
Local Open Scope nat_scope.
Local Open Scope list_scope.

Fixpoint starts (l : list lmsg) : list (loc * uid) :=
  match l with
  | [] => []
  | (d, MStart a _) :: r => (d, a) :: starts r
  | _ :: r => starts r
  end.

Fixpoint ends (l : list lmsg) : list (loc * uid * bool) :=
  match l with
  | [] => []
  | (d, MEnd a e) :: r => (d, a, e) :: ends r
  | _ :: r => ends r
  end.

(* where a job's messages are expected: the message_dir if one was given, else the job's own directory *)
Definition home (md : option loc) (d : loc) : loc := match md with Some m => m | None => d end.

Definition audit_ok (md : option loc) (log : list lmsg) (results : list res) : Prop :=
  NoDup (map snd (starts log)) /\
  Permutation (starts log) (map fst (ends log)) /\
  Permutation (map (fun e => (fst (fst e), snd e)) (ends log))
              (map (fun r => (home md (fst r), snd r)) results).

(* ---- executable version, evaluated on the observed logs ---- *)
Fixpoint remove1 {A} (eqb : A -> A -> bool) (x : A) (l : list A) : option (list A) :=
  match l with
  | [] => None
  | y :: r => if eqb x y then Some r
              else match remove1 eqb x r with Some r' => Some (y :: r') | None => None end
  end.
Fixpoint permb {A} (eqb : A -> A -> bool) (a b : list A) : bool :=
  match a with
  | [] => match b with [] => true | _ => false end
  | x :: a' => match remove1 eqb x b with Some b' => permb eqb a' b' | None => false end
  end.
Fixpoint nodupb (l : list nat) : bool :=
  match l with
  | [] => true
  | x :: r => negb (existsb (Nat.eqb x) r) && nodupb r
  end.

Definition nn_eqb (a b : nat * nat) : bool := Nat.eqb (fst a) (fst b) && Nat.eqb (snd a) (snd b).
Definition nb_eqb (a b : nat * bool) : bool := Nat.eqb (fst a) (fst b) && Bool.eqb (snd a) (snd b).

Definition audit_okb (md : option loc) (log : list lmsg) (results : list res) : bool :=
  nodupb (map snd (starts log)) &&
  permb nn_eqb (starts log) (map fst (ends log)) &&
  permb nb_eqb (map (fun e => (fst (fst e), snd e)) (ends log))
               (map (fun r => (home md (fst r), snd r)) results).
