(* Model/State.v — pydra/engine/state.py: splitter2rpn (_ordering/_iterate_list), State.splits (keys carried per stack operand), _processing_terms, _single_op_splits, iter_splits, map_splits,
   prepare_states_ind / prepare_states_val.   No proofs here. *)
From Pydra Require Import Base.Prelude.

(* ---- splitter syntax: a field name, a list [..] (outer product) or a tuple (..) (inner product) *)
Inductive spl := Fld (f : nat) | Outer (l : list spl) | Inner (l : list spl).
Inductive tok := TF (f : nat) | TMul | TDot.

Definition tok_eqb (a b : tok) : bool :=
  match a, b with TF x, TF y => Nat.eqb x y | TMul, TMul => true | TDot, TDot => true | _, _ => false end.

(* _ordering / _iterate_list: element 0 is emitted bare, every later element is followed by the sign;
   a one-element list or tuple therefore unwraps to its element *)
Fixpoint rpn (s : spl) : list tok :=
  match s with
  | Fld f => [TF f]
  | Outer l => match l with [] => [] | x :: r => rpn x ++ flat_map (fun y => rpn y ++ [TMul]) r end
  | Inner l => match l with [] => [] | x :: r => rpn x ++ flat_map (fun y => rpn y ++ [TDot]) r end
  end.

Fixpoint leaves (s : spl) : list nat :=
  match s with Fld f => [f] | Outer l => flat_map leaves l | Inner l => flat_map leaves l end.

Fixpoint wfb (s : spl) : bool :=
  match s with
  | Fld _ => true
  | Outer l => match l with [] => false | _ => forallb wfb l end
  | Inner l => match l with [] => false | _ => forallb wfb l end
  end.

(* ---- values *)
Definition idx := list nat.      (* an index tuple, kept flattened (iter_splits flattens at the end) *)
Definition shape := list nat.    (* input_shape(...) of a field / accumulated shape of a stack operand *)
Definition env := nat -> shape.  (* field -> input_shape(inputs[field], container_ndim[field]) *)
Definition nprod (sh : shape) : nat := fold_right Nat.mul 1 sh.            (* math.prod *)
Definition shape_eqb (a b : shape) : bool := list_eqb Nat.eqb a b.

Inductive err := EShape | EIndex | EStack.
Inductive res (A : Type) := Ok (a : A) | Err (e : err).
Arguments Ok {A} a. Arguments Err {A} e.

Definition irange (n : nat) : list idx := map (fun i => [i]) (seq 0 n).   (* range(n), one index per tuple *)
(* op["*"] = itertools.product, op["."] = zip, on flattened tuples *)
Definition pyprod (a b : list idx) : list idx := flat_map (fun x => map (fun y => x ++ y) b) a.
Fixpoint pyzip (a b : list idx) : list idx :=
  match a, b with x :: a', y :: b' => (x ++ y) :: pyzip a' b' | _, _ => [] end.

(* a stack entry is either still the *name* of a field (a Python str) or an evaluated
   (iterator, shape, keys) triple: the keys of an operand travel with it on the stack *)
Inductive sel := SName (f : nat) | SVal (v : list idx) (sh : shape) (ks : list nat).

(* _processing_terms for a field of the current node: (shape, range(prod(shape)), [term]) *)
Definition force (e : env) (x : sel) : list idx * shape * list nat :=
  match x with SName f => (irange (nprod (e f)), e f, [f]) | SVal v sh ks => (v, sh, ks) end.

(* one operator: Ok (pushed triple) or the ValueError "Operands ... do not have same shape" *)
Definition binop (e : env) (dot : bool) (l r : sel) : res (list idx * shape * list nat) :=
  let '(vl, shl, kl) := force e l in
  let '(vr, shr, kr) := force e r in
  if dot then (if shape_eqb shl shr then Ok (pyzip vl vr, shr, kl ++ kr) else Err EShape)
  else Ok (pyprod vl vr, shl ++ shr, kl ++ kr).

(* the token loop of State.splits; `keys` is the local variable of that name: it is overwritten by every
   operator with new_keys_L + new_keys_R and returned at the end *)
Fixpoint run (e : env) (p : list tok) (st : list sel) (keys : list nat) : res (list sel * list nat) :=
  match p with
  | [] => Ok (st, keys)
  | TF f :: p' => run e p' (SName f :: st) keys
  | t :: p' =>
      match st with
      | r :: l :: st' =>
          match binop e (tok_eqb t TDot) l r with
          | Ok (v, sh, ks) => run e p' (SVal v sh ks :: st') ks
          | Err x => Err x
          end
      | _ => Err EStack          (* pop from an empty list *)
      end
  end.

(* State.splits: (index tuples, keys) *)
Definition splits (e : env) (p : list tok) : res (list idx * list nat) :=
  match p with
  | [TF f] => Ok (irange (nprod (e f)), [f])                     (* _single_op_splits *)
  | _ => match run e p [] [] with
         | Ok (SVal v _ _ :: _, keys) => Ok (v, keys)
         | Ok (_, _) => Err EStack
         | Err x => Err x
         end
  end.

(* iter_splits: dict(zip(keys, flatten(tuple))) per job — an association list in key order *)
Definition assignment := list (nat * nat).
Definition states_ind (vals : list idx) (keys : list nat) : list assignment := map (combine keys) vals.

(* map_splits: element v of the flattened value of field k; IndexError when out of range *)
Definition in_range (e : env) (a : assignment) : bool :=
  forallb (fun kv => Nat.ltb (snd kv) (nprod (e (fst kv)))) a.

(* prepare_states for a state without combiner and without previous states:
   the per-job assignment field -> index (states_ind), after states_val could be built for every job *)
Definition prepare_states (e : env) (s : spl) : res (list assignment) :=
  match splits e (rpn s) with
  | Err x => Err x
  | Ok (vals, keys) =>
      let si := states_ind vals keys in
      if forallb (in_range e) si then Ok si else Err EIndex
  end.

(* canonical form used when comparing with an observed dict: sorted by field *)
Fixpoint ins_kv (x : nat * nat) (l : assignment) : assignment :=
  match l with [] => [x] | y :: r => if Nat.leb (fst x) (fst y) then x :: y :: r else y :: ins_kv x r end.
Definition sort_kv (a : assignment) : assignment := fold_right ins_kv [] a.

(* ======================================================================================================
   Request validation (C05): Task.split, Task.combine (compose/base/task.py), Submitter.__call__,
   State.combiner_validation — in the order the code performs the checks. *)
Record req := {
  r_split_called : bool;         (* .split(...) was called *)
  r_split : option spl;          (* its positional splitter argument (None: absent/None) *)
  r_vals : list nat;             (* fields given as keyword arguments of split() *)
  r_nonseq : list nat;           (* those of them whose value is not a sequence (or is a str/mapping) *)
  r_comb : option (list nat);    (* .combine(...) argument, None when combine is not called *)
  r_task : list nat;             (* the field names of the task *)
  r_node : bool                  (* false: the task is submitted directly; true: it is added to a workflow
                                    (workflow.add) as a node without split upstream nodes *)
}.

Inductive verr := VDup | VMissing | VStray | VNotSeq | VCombNotInTask | VCombNotSplit | VCombNoSplit.

Definition memb (x : nat) (l : list nat) : bool := existsb (Nat.eqb x) l.
Fixpoint has_dup (l : list nat) : bool := match l with [] => false | x :: r => memb x r || has_dup r end.
Definition subsetb (a b : list nat) : bool := forallb (fun x => memb x b) a.

(* Task.split: returns the splitter stored on the task (None: no usable splitter, `_splitter` falsy) *)
Definition split_stage (r : req) : verr + option spl :=
  if negb (r_split_called r) then inr None else
  match r_split r with
  | Some s =>
      let names := leaves s in
      if has_dup names then inl VDup
      else if negb (subsetb names (r_vals r)) then inl VMissing
      else if negb (subsetb (r_vals r) names) then inl VStray
      else if negb (Nat.eqb (List.length (r_nonseq r)) 0) then inl VNotSeq
      else inr (Some s)
  | None =>
      (* no splitter given: the keyword names become an outer splitter *)
      if negb (Nat.eqb (List.length (r_nonseq r)) 0) then inl VNotSeq
      else inr (match r_vals r with [] => None | vs => Some (Outer (map Fld vs)) end)
  end.

(* Node._set_state (pydra/engine/node.py): a node gets a State when it has a splitter, a combiner or split
   upstream nodes (none here) *)
Definition node_has_state (os : option spl) (comb : list nat) : bool :=
  match os with Some _ => true | None => negb (Nat.eqb (List.length comb) 0) end.

(* Task.combine, then
   - submitted directly: Submitter.__call__ (combiner without splitter -> ValueError), State.combiner_validation
     while the implicit Split workflow is expanded;
   - as a workflow node: Node._set_state creates the State, Node.lzout asks it for State.depth(), whose
     assertion fails for a State that has a combiner but an empty splitter; State.combiner_validation when the
     node's states are prepared *)
Definition validate (r : req) : verr + option spl :=
  match split_stage r with
  | inl x => inl x
  | inr os =>
      let comb := match r_comb r with Some c => c | None => [] end in
      if negb (subsetb comb (r_task r)) then inl VCombNotInTask
      else match os with
           | Some s => if negb (subsetb comb (leaves s)) then inl VCombNotSplit else inr (Some s)
           | None =>
               if r_node r then (if node_has_state None comb then inl VCombNoSplit else inr None)
               else match comb with [] => inr None | _ => inl VCombNoSplit end
           end
  end.

(* what is run: nothing on a rejected request; the expansion's jobs (or one unsplit job) otherwise.
   The nat is the number of task-body executions. *)
Inductive outcome := Rejected (v : verr) | RejectedShape | Ran (jobs : nat).
Definition submit (e : env) (r : req) : outcome :=
  match validate r with
  | inl v => Rejected v
  | inr None => Ran 1
  | inr (Some s) => match prepare_states e s with Ok a => Ran (List.length a) | Err _ => RejectedShape end
  end.
Definition bodies (o : outcome) : nat := match o with Ran n => n | _ => 0 end.

(* ======================================================================================================
   Combiner (C02): splits_groups / combine_final_groups (only what decides `combiner_all`),
   remove_inp_from_splitter_rpn, State.prepare_states_combined_ind. *)

(* groups: field -> axis ids.  A Python int g is the one-element list [g]; Python lists here always have >= 2
   elements, so the encoding is unambiguous. Dict in insertion order, assignment to an existing key keeps its place *)
Definition gmap := list (nat * list nat).
Fixpoint gset (k : nat) (v : list nat) (g : gmap) : gmap :=
  match g with
  | [] => [(k, v)]
  | (k', v') :: r => if Nat.eqb k k' then (k, v) :: r else (k', v') :: gset k v r
  end.
Fixpoint gget (k : nat) (g : gmap) : option (list nat) :=
  match g with [] => None | (k', v) :: r => if Nat.eqb k k' then Some v else gget k r end.

Fixpoint index_of (x : nat) (l : list nat) : option nat :=
  match l with [] => None | y :: r => if Nat.eqb x y then Some 0 else option_map S (index_of x r) end.

(* a stack entry of splits_groups: a field name or the list of axes of an evaluated operand *)
Inductive gsel := GName (f : nat) | GVal (ax : list nat).

Inductive cerr := CShape | CNotReady | CStack | CKey | CSplit (x : err).

(* next free axis number: group_count is None before the first use, then the last number handed out *)
Definition gc_next (gc : option nat) : nat := match gc with None => 0 | Some n => S n end.

Definition groups_binop (dot : bool) (l r : gsel) (g : gmap) (gc : option nat)
  : cerr + (list nat * gmap * option nat) :=
  match dot, l, r with
  | true, GName fl, GName fr =>
      let n := gc_next gc in inr ([n], gset fr [n] (gset fl [n] g), Some n)
  | true, GVal al, GName fr => inr (al, gset fr al g, gc)
  | true, GName fl, GVal ar => inr (ar, gset fl ar g, gc)
  | true, GVal al, GVal ar =>
      if negb (Nat.eqb (List.length al) (List.length ar)) then inl CShape
      else
        (* "changing axes for Right part of the scalar op.": every field whose group is an int occurring in the
           right operand's axes gets the corresponding axis of the left operand *)
        inr (al, map (fun kv => match snd kv with
                                | [v] => match index_of v ar with
                                         | Some i => (fst kv, [nth i al 0])
                                         | None => kv
                                         end
                                | _ => kv
                                end) g, gc)
  | false, GName fl, GName fr =>
      let n := gc_next gc in inr ([n; S n], gset fr [S n] (gset fl [n] g), Some (S n))
  | false, GVal al, GName fr =>
      let n := gc_next gc in inr (al ++ [n], gset fr [n] g, Some n)
  | false, GName fl, GVal ar =>
      let n := gc_next gc in inr ([n] ++ ar, gset fl [n] g, Some n)
  | false, GVal al, GVal ar => inr (al ++ ar, g, gc)
  end.

Fixpoint groups_run (p : list tok) (st : list gsel) (g : gmap) (gc : option nat) : cerr + (list gsel * gmap) :=
  match p with
  | [] => inr (st, g)
  | TF f :: p' => groups_run p' (GName f :: st) g gc
  | t :: p' =>
      match st with
      | r :: l :: st' =>
          match groups_binop (tok_eqb t TDot) l r g gc with
          | inr (ax, g', gc') => groups_run p' (GVal ax :: st') g' gc'
          | inl x => inl x
          end
      | _ => inl CStack
      end
  end.

Fixpoint nat_insert (x : nat) (l : list nat) : list nat :=
  match l with [] => [x] | y :: r => if Nat.ltb x y then x :: y :: r else if Nat.eqb x y then y :: r else y :: nat_insert x r end.
Definition sort_set (l : list nat) : list nat := fold_right nat_insert [] l.     (* sorted(set(l)) *)

Fixpoint remove_first (x : nat) (l : list nat) : list nat :=
  match l with [] => [] | y :: r => if Nat.eqb x y then r else y :: remove_first x r end.

(* combine_final_groups: combiner_all, and the "not ready to combine" check against the last groups stack *)
Fixpoint ready_check (grs : list nat) (stack removed : list nat) : option (list nat * list nat) :=
  match grs with
  | [] => Some (stack, removed)
  | gr :: r => if memb gr stack then ready_check r (remove_first gr stack) (gr :: removed)
               else if memb gr removed then ready_check r stack removed
               else None
  end.

Definition combiner_all_of (p : list tok) (comb : list nat) : cerr + list nat :=
  match p with
  | [] => inr []
  | [TF f] => match comb with [] => inr [] | _ => if list_eqb Nat.eqb comb [f] then inr comb else inl CKey end
  | _ =>
      match groups_run p [] [] None with
      | inl x => inl x
      | inr (st, g) =>
          match comb with
          | [] => inr []
          | _ =>
              let stack := match st with GVal ax :: _ => ax | _ => [] end in
              (* input_for_groups[gr] = the fields having gr among their axes, in dict order *)
              let fields_of gr := map fst (filter (fun kv => memb gr (snd kv)) g) in
              let grs := flat_map (fun c => match gget c g with Some v => v | None => [] end) comb in
              if negb (forallb (fun c => match gget c g with Some _ => true | None => false end) comb) then inl CKey
              else match ready_check grs stack [] with
                   | None => inl CNotReady
                   | Some _ => inr (sort_set (flat_map fields_of grs))
                   end
          end
      end
  end.

(* remove_inp_from_splitter_rpn.  The lists stack_sgn / from_last_sign are kept with their LAST element first. *)
Fixpoint drop_nth {A} (n : nat) (l : list A) : option (list A) :=
  match n, l with
  | 0, _ :: r => Some r
  | S n', x :: r => option_map (cons x) (drop_nth n' r)
  | _, [] => None
  end.

Fixpoint remove_loop (rv : list tok) (ii : nat) (rm : list nat) (sgn inp fls : list nat)
  : option (list nat * list nat) :=
  match rv with
  | [] => Some (sgn, inp)
  | TF f :: rv' =>
      if negb (memb f rm) then
        remove_loop rv' (S ii) rm sgn (ii :: inp) (match fls with [] => [] | c :: r => S c :: r end)
      else
        match fls with
        | [] => remove_loop rv' (S ii) rm sgn inp fls
        | c :: fr =>
            if Nat.leb c 1 then remove_loop rv' (S ii) rm (tl sgn) inp fr
            else match drop_nth (c - 1) sgn with            (* stack_sgn.pop(-c) *)
                 | Some sgn' => remove_loop rv' (S ii) rm sgn' inp fr
                 | None => None                              (* pop index out of range *)
                 end
        end
  | _ :: rv' => remove_loop rv' (S ii) rm (ii :: sgn) inp (0 :: fls)
  end.

Fixpoint keep_positions {A} (l : list A) (ii : nat) (kept : list nat) : list A :=
  match l with [] => [] | x :: r => if memb ii kept then x :: keep_positions r (S ii) kept else keep_positions r (S ii) kept end.

Definition remove_rpn (p : list tok) (rm : list nat) : option (list tok) :=
  match remove_loop (rev p) 0 rm [] [] [] with
  | Some (sgn, inp) => Some (rev (keep_positions (rev p) 0 (sgn ++ inp)))
  | None => None
  end.

(* dict lookup, later entries win: ind_map = {tuple: ind for ind, tuple in enumerate(ind_l_final)} *)
Fixpoint lookup_last (k : idx) (l : list idx) (i : nat) (acc : option nat) : option nat :=
  match l with [] => acc | x :: r => lookup_last k r (S i) (if list_eqb Nat.eqb k x then Some i else acc) end.

Fixpoint assoc_get (k : nat) (a : assignment) : nat :=
  match a with [] => 0 | (k', v) :: r => if Nat.eqb k k' then v else assoc_get k r end.

(* for ii, st in enumerate(states_ind): mapping[ind_map[tuple(st[k] for k in keys_final)]].append(ii) *)
Fixpoint add_at (g : nat) (ii : nat) (m : list (list nat)) : list (list nat) :=
  match g, m with
  | 0, x :: r => (x ++ [ii]) :: r
  | S g', x :: r => x :: add_at g' ii r
  | _, [] => []
  end.
Fixpoint fill_mapping (si : list assignment) (ii : nat) (keysf : list nat) (fin : list idx) (m : list (list nat))
  : option (list (list nat)) :=
  match si with
  | [] => Some m
  | a :: r => match lookup_last (map (fun k => assoc_get k a) keysf) fin 0 None with
              | Some g => fill_mapping r (S ii) keysf fin (add_at g ii m)
              | None => None                                  (* KeyError *)
              end
  end.

(* State.prepare_states with a combiner, no previous states: Ok (states_ind, final_combined_ind_mapping as the
   list of its values in key order) *)
Definition prepare_combined (e : env) (s : spl) (comb : list nat) : cerr + (list assignment * list (list nat)) :=
  match combiner_all_of (rpn s) comb with               (* set_input_groups *)
  | inl x => inl x
  | inr call =>
      match prepare_states e s with                      (* prepare_states_ind: splits on the full rpn *)
      | Err x => inl (CSplit x)
      | Ok si =>
          match comb with
          | [] => inr (si, map (fun i => [i]) (seq 0 (List.length si)))
          | _ =>
              match remove_rpn (rpn s) call with
              | None => inl CStack
              | Some [] => inr (si, [seq 0 (List.length si)])
              | Some crpn =>
                  match splits e crpn with
                  | Err x => inl (CSplit x)
                  | Ok ([], _) => inr (si, [seq 0 (List.length si)])
                  | Ok (fin, keysf) =>
                      match fill_mapping si 0 keysf fin (map (fun _ => []) fin) with
                      | Some m => inr (si, m)
                      | None => inl CKey
                      end
                  end
              end
          end
      end
  end.

(* State.depth(): the number of StateArray levels of the declared output type (nest_output_type). Fields count 1,
   or 0 when they are in the combiner as written by the user; "*" adds; "." is Python's `opr1 and opr2` on ints
   with opr1 the right operand (0 if opr1 is 0, else opr2).  None = the assertions fail. *)
Fixpoint depth_run (p : list tok) (comb : list nat) (st : list nat) : option nat :=
  match p with
  | [] => match st with [d] => Some d | _ => None end
  | TF f :: p' => depth_run p' comb ((if memb f comb then 0 else 1) :: st)
  | TMul :: p' => match st with o1 :: o2 :: st' => depth_run p' comb ((o1 + o2) :: st') | _ => None end
  | TDot :: p' => match st with o1 :: o2 :: st' => depth_run p' comb ((if Nat.eqb o1 0 then 0 else o2) :: st') | _ => None end
  end.
Definition state_depth (s : spl) (comb : list nat) : option nat := depth_run (rpn s) comb [].
