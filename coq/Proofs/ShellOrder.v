(* Proofs/ShellOrder.v — position_sort (bisect.insort on the assigned positions) against the order the property
   states.  Generic part: insertion into a strictly sorted list, uniqueness of the strictly sorted permutation. *)
From Pydra Require Import Base.Prelude Base.Shlex Model.Shell Spec.Shell.
From Coq Require Import Sorting.Sorted Sorting.Permutation.
Local Open Scope list_scope.
Local Open Scope Z_scope.

Section Generic.
Context {B : Type} (key : B -> Z).
Definition klt (a b : B) : Prop := key a < key b.
Definition ksorted : list B -> Prop := StronglySorted klt.

Lemma sorted_perm_unique : forall l1 l2, ksorted l1 -> ksorted l2 -> Permutation l1 l2 -> l1 = l2.
Proof.
  induction l1 as [|x l1 IH]; intros l2 S1 S2 P.
  - apply Permutation_nil in P. now subst.
  - destruct l2 as [|y l2]; [apply Permutation_sym, Permutation_nil in P; discriminate|].
    inversion S1 as [|? ? S1' F1]; inversion S2 as [|? ? S2' F2]; subst.
    assert (x = y).
    { assert (Ix : In x (y :: l2)) by (eapply Permutation_in; [exact P|now left]).
      assert (Iy : In y (x :: l1)) by (eapply Permutation_in; [apply Permutation_sym; exact P|now left]).
      destruct Ix as [->|Ix]; [reflexivity|]. destruct Iy as [->|Iy]; [reflexivity|].
      rewrite Forall_forall in F1, F2. specialize (F1 _ Iy). specialize (F2 _ Ix). unfold klt in *. lia. }
    subst y. f_equal. apply IH; auto. eapply Permutation_cons_inv; exact P.
Qed.

Lemma ksorted_app l1 l2 : ksorted l1 -> ksorted l2 -> (forall a b, In a l1 -> In b l2 -> key a < key b) -> ksorted (l1 ++ l2).
Proof.
  induction l1 as [|x l1 IH]; intros S1 S2 H; [exact S2|].
  inversion S1 as [|? ? S1' F1]; subst. cbn. constructor.
  - apply IH; auto. intros; apply H; auto. now right.
  - apply Forall_app. split; [exact F1|]. apply Forall_forall. intros b Hb. apply H; [now left|exact Hb].
Qed.

Lemma ksorted_filter p l : ksorted l -> ksorted (filter p l).
Proof.
  induction 1 as [|x l S IH F]; cbn; [constructor|].
  destruct (p x); [|exact IH]. constructor; [exact IH|].
  rewrite Forall_forall in *. intros y Hy. apply filter_In in Hy as [Hy _]. auto.
Qed.
End Generic.

(* ------------------------------------------------------------------ insort on keyed pairs *)
Section Insort.
Context {A : Type}.
Notation kp := (@fst Z A).

Lemma insort_perm p (x : A) l : Permutation (insort p x l) ((p, x) :: l).
Proof.
  induction l as [|[q y] l IH]; cbn; [reflexivity|].
  destruct (p <? q); [reflexivity|]. rewrite IH. apply perm_swap.
Qed.

Lemma insort_sorted p (x : A) l : ksorted kp l -> ~ In p (map fst l) -> ksorted kp (insort p x l).
Proof.
  induction 1 as [|[q y] l S IH F]; intros Hn; cbn.
  - repeat constructor.
  - destruct (p <? q) eqn:E.
    + apply Z.ltb_lt in E. constructor; [constructor; assumption|].
      constructor; [exact E|]. rewrite Forall_forall in *. intros b Hb. specialize (F b Hb). unfold klt in *. cbn in *. lia.
    + apply Z.ltb_ge in E. cbn in Hn.
      assert (q < p) by (assert (q <> p) by tauto; lia).
      constructor; [apply IH; tauto|].
      rewrite Forall_forall in *. intros b Hb.
      eapply Permutation_in in Hb; [|apply insort_perm]. destruct Hb as [<-|Hb]; [exact H|auto].
Qed.

Definition items (l : list (option Z * A)) : list (Z * A) :=
  flat_map (fun e => match fst e with Some p => [(p, snd e)] | None => [] end) l.

Lemma position_split_inv : forall (l : list (option Z * A)) pos none neg,
  Forall (fun e => fst e <> None) l ->
  ksorted kp pos -> ksorted kp neg ->
  NoDup (map fst (items l)) ->
  (forall k, In k (map fst (items l)) -> ~ In k (map fst pos) /\ ~ In k (map fst neg)) ->
  exists pos' neg',
    position_split l pos none neg = (pos', rev none, neg') /\
    ksorted kp pos' /\ ksorted kp neg' /\
    Permutation pos' (pos ++ filter (fun i => 0 <=? fst i) (items l)) /\
    Permutation neg' (neg ++ filter (fun i => fst i <? 0) (items l)).
Proof.
  induction l as [|[[p|] x] l IH]; intros pos none neg Hs Sp Sn ND Hd.
  - exists pos, neg. cbn. rewrite !app_nil_r. repeat split; auto.
  - inversion Hs as [|? ? _ Hs']; subst. cbn [items flat_map fst snd app map] in ND, Hd.
    inversion ND as [|? ? Hnin ND']; subst.
    cbn [position_split].
    destruct (p <? 0) eqn:E.
    + destruct (IH pos none (insort p x neg) Hs' Sp) as (pos' & neg' & Heq & S1 & S2 & P1 & P2).
      * apply insort_sorted; [exact Sn|]. apply (Hd p (or_introl eq_refl)).
      * exact ND'.
      * intros k Hk. destruct (Hd k (or_intror Hk)) as [D1 D2]. split; [exact D1|].
        intros Hin. apply (Permutation_in (l' := map fst ((p, x) :: neg))) in Hin;
          [|apply Permutation_map, insort_perm].
        destruct Hin as [<-|Hin]; [exact (Hnin Hk)|exact (D2 Hin)].
      * exists pos', neg'. repeat split; auto.
        -- cbn [items flat_map fst snd app filter]. assert (0 <=? p = false) by lia. rewrite H. exact P1.
        -- cbn [items flat_map fst snd app filter]. rewrite E. rewrite P2.
           rewrite (insort_perm p x neg). cbn. apply Permutation_middle.
    + destruct (IH (insort p x pos) none neg Hs') as (pos' & neg' & Heq & S1 & S2 & P1 & P2).
      * apply insort_sorted; [exact Sp|]. apply (Hd p (or_introl eq_refl)).
      * exact Sn.
      * exact ND'.
      * intros k Hk. destruct (Hd k (or_intror Hk)) as [D1 D2]. split; [|exact D2].
        intros Hin. apply (Permutation_in (l' := map fst ((p, x) :: pos))) in Hin;
          [|apply Permutation_map, insort_perm].
        destruct Hin as [<-|Hin]; [exact (Hnin Hk)|exact (D1 Hin)].
      * exists pos', neg'. repeat split; auto.
        -- cbn [items flat_map fst snd app filter]. assert (0 <=? p = true) by lia. rewrite H. rewrite P1.
           rewrite (insort_perm p x pos). cbn. apply Permutation_middle.
        -- cbn [items flat_map fst snd app filter]. rewrite E. exact P2.
  - inversion Hs as [|? ? Hx _]; subst. now cbn in Hx.
Qed.

(* position_sort is determined by any pair of strictly sorted permutations of the two halves *)
Theorem position_sort_unique : forall (l : list (option Z * A)) P N,
  Forall (fun e => fst e <> None) l ->
  NoDup (map fst (items l)) ->
  ksorted kp P -> ksorted kp N ->
  Permutation P (filter (fun i => 0 <=? fst i) (items l)) ->
  Permutation N (filter (fun i => fst i <? 0) (items l)) ->
  position_sort l = map snd P ++ map snd N.
Proof.
  intros l P N Hs ND SP SN PP PN.
  destruct (position_split_inv l [] [] [] Hs) as (pos' & neg' & Heq & S1 & S2 & P1 & P2);
    try constructor; auto.
  unfold position_sort. rewrite Heq. cbn [rev app].
  cbn [app] in P1, P2.
  rewrite (sorted_perm_unique kp pos' P S1 SP) by (rewrite P1; symmetry; exact PP).
  rewrite (sorted_perm_unique kp neg' N S2 SN) by (rewrite P2; symmetry; exact PN).
  reflexivity.
Qed.
End Insort.
