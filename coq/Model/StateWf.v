(* Model/StateWf.v — C03: how a workflow node's state is put together from the states of the nodes
   it is connected to, and how each of its jobs indexes into the upstream results.

   Follows (pydra/engine, pinned tree + fix commits):
     node.py      Node._set_state, Node._get_upstream_states            (construction-time pass)
     workflow.py  Workflow._create_graph -> State.update_connections    (second pass, execution graph)
     state.py     _connect_splitters, _complete_prev_state, _remove_repeated, _add_state_history,
                  splitter_rpn / splitter_rpn_final (leaf sequences), set_input_groups ->
                  prepare_states_ind,
                  prepare_states_combined_ind, prepare_inputs (inputs_ind)
     submitter.py NodeExecution.start, _split_task, _resolve_lazy_inputs
     lazy.py      LazyOutField._get_value (state_index selection, group_values)

   Fragment: every node is a python task with up to three input fields, one output; a field is a
   constant, an own split list, or the output of an earlier node; the own splitter is an outer product
   of the node's split fields (any order); the combiner is any list of fields (own or upstream) of the
   node's splitter.  No proofs in this file. *)
From Pydra Require Import Base.Prelude.
Local Open Scope nat_scope.

(* ---------- workflows ---------- *)
Definition key := (nat * nat)%type.            (* (node index, field index): pydra's "N3.b" *)
Inductive binding := BConst (z : Z) | BSplit (vs : list Z) | BUp (j : nat).
(* n_split: the outer product, one entry per zip group (its first field, the group's "leader");
   n_zip: (follower, leader) pairs — the follower field is zipped (inner splitter) with the leader;
   n_osel: for every field, which output (0 or 1) of the upstream node it takes (missing = 0) *)
Record node := { n_fields : list binding; n_split : list nat; n_zip : list (nat * nat);
                 n_osel : list nat; n_comb : list key }.
Definition workflow := list node.

(* values produced by the tagging task: VTag n args = ("T", n, args…); VList = list / StateArray *)
Inductive val := VInt (z : Z) | VTag (n : nat) (args : list val) | VList (l : list val).

Fixpoint val_eqb (a b : val) : bool :=
  let fix go (xs ys : list val) : bool :=
    match xs, ys with
    | [], [] => true
    | x :: xs', y :: ys' => val_eqb x y && go xs' ys'
    | _, _ => false
    end in
  match a, b with
  | VInt x, VInt y => Z.eqb x y
  | VTag n xs, VTag m ys => Nat.eqb n m && go xs ys
  | VList xs, VList ys => go xs ys
  | _, _ => false
  end.

Definition leader_of (nd : node) (f : nat) : nat :=
  match find (fun p => Nat.eqb (fst p) f) (n_zip nd) with Some p => snd p | None => f end.
Definition osel_of (nd : node) (f : nat) : nat := nth f (n_osel nd) 0.
Definition flen (nd : node) (f : nat) : nat :=
  match nth_error (n_fields nd) f with Some (BSplit vs) => List.length vs | _ => 0 end.
(* the shape rule of an inner splitter: zipped fields have equal length, else State.splits raises *)
Definition zip_ok_node (nd : node) : bool :=
  forallb (fun p => Nat.eqb (flen nd (fst p)) (flen nd (snd p))) (n_zip nd).

(* the value of output o of a job (or of a list / StateArray of jobs): the tagging task returns
   out_o = ("T", nid, o, args...); jobs are stored without the output index *)
Fixpoint outsel (o : nat) (v : val) : val :=
  match v with
  | VInt z => VInt z
  | VTag n args => VTag n (VInt (Z.of_nat o) :: args)
  | VList l => VList (map (outsel o) l)
  end.

Definition key_eqb (a b : key) : bool := Nat.eqb (fst a) (fst b) && Nat.eqb (snd a) (snd b).
Definition memk (k : key) (l : list key) : bool := existsb (key_eqb k) l.
Definition memn (n : nat) (l : list nat) : bool := existsb (Nat.eqb n) l.
Definition is_nil {A} (l : list A) : bool := match l with [] => true | _ => false end.

(* len(inputs["Nn.f"]) — State.inputs merges the inputs of all upstream states, so every key of the
   splitter is looked up in one table *)
Definition split_list (wf : workflow) (k : key) : list Z :=
  match nth_error wf (fst k) with
  | Some nd => match nth_error (n_fields nd) (snd k) with Some (BSplit vs) => vs | _ => [] end
  | None => []
  end.
Definition key_len (wf : workflow) (k : key) : nat := List.length (split_list wf k).

(* ---------- index tuples and dictionaries ---------- *)
(* itertools.product of two iterables of (flattened) index tuples *)
Definition prod2 {A} (a b : list (list A)) : list (list A) :=
  flat_map (fun x => map (fun y => x ++ y) b) a.
Definition prods {A} (ls : list (list (list A))) : list (list A) := fold_right prod2 [[]] ls.
(* product of range(n) for n in lens, first slowest *)
Definition box_idx (lens : list nat) : list (list nat) :=
  prods (map (fun n => map (fun i => [i]) (seq 0 n)) lens).

(* dict(zip(keys, values)): zip truncates, a repeated key keeps its first position and its last value *)
Definition row := list (key * nat).
Fixpoint dict_set (d : row) (k : key) (v : nat) : row :=
  match d with
  | [] => [(k, v)]
  | (k', v') :: r => if key_eqb k' k then (k, v) :: r else (k', v') :: dict_set r k v
  end.
Fixpoint mkdict_from (d : row) (ks : list key) (vs : list nat) : row :=
  match ks, vs with
  | k :: ks', v :: vs' => mkdict_from (dict_set d k v) ks' vs'
  | _, _ => d
  end.
Definition mkdict (ks : list key) (vs : list nat) : row := mkdict_from [] ks vs.
Fixpoint lookup (d : row) (k : key) : option nat :=
  match d with [] => None | (k', v) :: r => if key_eqb k' k then Some v else lookup r k end.
(* set(big.items()).issuperset(small.items()) *)
Definition subrow (small big : row) : bool :=
  forallb (fun kv => match lookup big (fst kv) with Some v => Nat.eqb v (snd kv) | None => false end) small.

Fixpoint all_some {A} (l : list (option A)) : option (list A) :=
  match l with
  | [] => Some []
  | None :: _ => None
  | Some x :: r => match all_some r with Some r' => Some (x :: r') | None => None end
  end.

(* ---------- what is known about a node once it has been started ---------- *)
Record mstate := {
  m_other : list (nat * list nat);   (* other_states: upstream node -> this node's fields fed by it (dict order) *)
  m_prev : list nat;                 (* prev_state_splitter: ["_N1", "_N2"] (an outer product) *)
  m_cur : list key;                  (* current_splitter *)
  m_comb : list key;                 (* combiner *)
  m_rpnf : list key;                 (* leaves of splitter_rpn_final (all operators are "*") *)
  m_keys : list key;                 (* keys *)
  m_sind : list row;                 (* states_ind *)
  m_keysf : list key;                (* keys_final *)
  m_indf : list (list nat);          (* ind_l_final *)
  m_sindf : list row;                (* states_ind_final *)
  m_jobs : list val                  (* outputs of the jobs, by state index *)
}.
Inductive mnode := MStateless (v : val) | MState (s : mstate).

Definition ent (tab : list mnode) (j : nat) : option mstate :=
  match nth_error tab j with Some (MState s) => Some s | _ => None end.
Definition ent_other tab j := match ent tab j with Some s => m_other s | None => [] end.
Definition ent_prev tab j := match ent tab j with Some s => m_prev s | None => [] end.
Definition ent_cur tab j := match ent tab j with Some s => m_cur s | None => [] end.
Definition ent_rpnf tab j := match ent tab j with Some s => m_rpnf s | None => [] end.
Definition ent_keysf tab j := match ent tab j with Some s => m_keysf s | None => [] end.
Definition ent_indf tab j := match ent tab j with Some s => m_indf s | None => [] end.
Definition ent_nfinal tab j := match ent tab j with Some s => List.length (m_sindf s) | None => 0 end.

(* ---------- LazyOutField._get_value ---------- *)
Definition group_values (s : mstate) (i : nat) : option val :=
  match nth_error (m_sindf s) i with
  | None => None                                                   (* IndexError *)
  | Some fi => Some (VList (map snd (filter (fun dj => subrow fi (fst dj)) (combine (m_sind s) (m_jobs s)))))
  end.

Definition get_value (e : mnode) (idx : option nat) : option val :=
  match e with
  | MStateless v => match idx with None => Some v | Some _ => None end   (* value[state_index]: not reached *)
  | MState s =>
      if is_nil (m_jobs s) && negb (negb (is_nil (m_comb s)) && negb (is_nil (m_indf s)))
      then Some (VList [])                  (* no jobs and no (empty) groups to report: empty state array *)
      else if negb (is_nil (m_comb s)) then
        if is_nil (m_indf s) then Some (VList (m_jobs s))
        else match idx with
             | None => option_map VList (all_some (map (group_values s) (seq 0 (List.length (m_indf s)))))
             | Some i => group_values s i
             end
      else match idx with
           | None => Some (VList (m_jobs s))
           | Some i => nth_error (m_jobs s) i                            (* KeyError when out of range *)
           end
  end.
Definition get_value_of (tab : list mnode) (j : nat) (idx : option nat) : option val :=
  match nth_error tab j with Some e => get_value e idx | None => None end.

(* ---------- Node._get_upstream_states / Workflow._create_graph: other_states ---------- *)
Fixpoint add_other (o : list (nat * list nat)) (j f : nat) : list (nat * list nat) :=
  match o with
  | [] => [(j, [f])]
  | (j', fl) :: r => if Nat.eqb j' j then (j', fl ++ [f]) :: r else (j', fl) :: add_other r j f
  end.
Fixpoint upstream_from (tab : list mnode) (f : nat) (fields : list binding) (o : list (nat * list nat)) :=
  match fields with
  | [] => o
  | BUp j :: r => upstream_from tab (S f) r (if is_nil (ent_rpnf tab j) then o else add_other o j f)
  | _ :: r => upstream_from tab (S f) r o
  end.
Definition upstream (tab : list mnode) (fields : list binding) := upstream_from tab 0 fields [].

(* ---------- State._add_state_history (on a flat list of upstream names) ---------- *)
Fixpoint remove1 (n : nat) (l : list nat) : list nat :=
  match l with [] => [] | x :: r => if Nat.eqb x n then r else x :: remove1 n r end.
Definition fields_of (o : list (nat * list nat)) (j : nat) : list nat :=
  match find (fun e => Nat.eqb (fst e) j) o with Some e => snd e | None => [] end.
Fixpoint add_fields (o : list (nat * list nat)) (j : nat) (fl : list nat) :=
  match o with
  | [] => [(j, fl)]
  | (j', fl') :: r => if Nat.eqb j' j then (j', fl' ++ fl) :: r else (j', fl') :: add_fields r j fl
  end.

Definition hist_acc := option (list nat * list (nat * list nat)).

Definition history (tab : list mnode) (prev : list nat) (other : list (nat * list nat)) : hist_acc :=
  let w_cur := filter (fun el => is_nil (ent_other tab el)) prev in                      (* othst_w_currst *)
  let relays := filter (fun el => negb (is_nil (ent_other tab el)) && is_nil (ent_cur tab el)) prev in   (* othst_w_prevst *)
  let boths := filter (fun el => negb (is_nil (ent_other tab el)) && negb (is_nil (ent_cur tab el))) prev in
  let step1 : hist_acc :=
    fold_left (fun (acc : hist_acc) el =>
      match acc with
      | None => None
      | Some (p, o) =>
          let rep := filter (fun x => memn x w_cur) (ent_prev tab el) in
          if is_nil rep then Some (p, o)
          else if forallb (fun x => memn x w_cur) (ent_prev tab el)
               then Some (remove1 el p, fold_left (fun o' r => add_fields o' r (fields_of o' el)) rep o)
               else None       (* the relay is replaced by its other upstream states: the second pass then
                                  always builds a nested list and raises TypeError *)
      end) relays (Some (prev, other)) in
  fold_left (fun (acc : hist_acc) el =>
      fold_left (fun (acc : hist_acc) r =>
        match acc with
        | None => None
        | Some (p, o) => if memn r p then Some (remove1 r p, o) else None   (* list.remove: ValueError *)
        end) (filter (fun x => memn x w_cur) (ent_prev tab el)) acc) boths step1.

(* first pass (Node._set_state) then second pass (update_connections from _create_graph) *)
Definition connect (tab : list mnode) (other : list (nat * list nat)) : hist_acc :=
  let names := map fst other in
  match history tab names other with
  | None => None
  | Some (prev1, _) =>
      let missing := filter (fun m => negb (memn m prev1)) names in
      let prev2in : option (list nat) :=
        match missing, prev1 with
        | [], _ => Some prev1
        | [m], [p] => Some [m; p]
        | _, _ => None                       (* ["_m", [..]] nested: _remove_repeated raises TypeError *)
        end in
      match prev2in with
      | None => None
      | Some p2 => if Nat.leb 2 (List.length p2) then history tab p2 other else Some (p2, other)
      end
  end.

(* ---------- one node ---------- *)
Fixpoint job_args (wf : workflow) (tab : list mnode) (n : nat) (nd : node) (f : nat) (fields : list binding) (din dst : row) : list (option val) :=
  match fields with
  | [] => []
  | b :: r =>
      (match lookup dst (n, leader_of nd f), b with
       | Some i, BSplit vs => option_map VInt (nth_error vs i)
       | Some i, _ => None
       | None, BUp j => option_map (outsel (osel_of nd f)) (get_value_of tab j (lookup din (n, f)))
       | None, BConst z => Some (VInt z)
       | None, BSplit _ => None
       end) :: job_args wf tab n nd (S f) r din dst
  end.

(* a node without state: _resolve_lazy_inputs with state_index=None for every lazy input *)
Definition resolve_all (wf : workflow) (tab : list mnode) (n : nat) (nd : node) : option mnode :=
  option_map (fun args => MStateless (VTag n args)) (all_some (job_args wf tab n nd 0 (n_fields nd) [] [])).

(* prepare_inputs: one column per connected field, all fields fed by the same upstream state carry
   the index into that state's final list *)
Definition idx_cols (tab : list mnode) (other : list (nat * list nat)) (x : nat) : list (list nat) :=
  map (fun i => repeat i (List.length (fields_of other x))) (seq 0 (ent_nfinal tab x)).
Definition keys_prev (n : nat) (other : list (nat * list nat)) (prev : list nat) : list key :=
  flat_map (fun x => map (fun f => (n, f)) (fields_of other x)) prev.

Definition job_of (wf : workflow) (tab : list mnode) (n : nat) (nd : node) (dd : row * row) : option val :=
  option_map (VTag n) (all_some (job_args wf tab n nd 0 (n_fields nd) (fst dd) (snd dd))).

Definition build_state (wf : workflow) (tab : list mnode) (n : nat) (nd : node)
           (prev : list nat) (other : list (nat * list nat)) : option mnode :=
  let cur := map (fun f => (n, f)) (n_split nd) in
  let comb := n_comb nd in
  let prevf := flat_map (ent_rpnf tab) prev in
  let rpnf := filter (fun k => negb (memk k comb)) (prevf ++ cur) in
  (* State.splits: "Operands ... do not have same shape" *)
  if negb (zip_ok_node nd) then None else
  (* prepare_states_ind *)
  let keys := flat_map (ent_keysf tab) prev ++ cur in
  let curbox := box_idx (map (key_len wf) cur) in
  let ind := prod2 (prods (map (ent_indf tab) prev)) curbox in
  let sind := map (mkdict keys) ind in
  (* prepare_states_combined_ind *)
  let keysf := if is_nil comb then keys else rpnf in
  let indf := if is_nil comb then ind else if is_nil rpnf then [] else box_idx (map (key_len wf) rpnf) in
  let sindf := map (mkdict keysf) indf in
  (* prepare_inputs *)
  let inputs_ind :=
    if is_nil other then sind
    else map (mkdict (keys_prev n other prev ++ cur)) (prod2 (prods (map (idx_cols tab other) prev)) curbox) in
  (* _split_task + the jobs themselves *)
  match all_some (map (job_of wf tab n nd) (combine inputs_ind sind)) with
  | None => None
  | Some jobs =>
      Some (MState {| m_other := other; m_prev := prev; m_cur := cur; m_comb := comb; m_rpnf := rpnf;
                      m_keys := keys; m_sind := sind; m_keysf := keysf; m_indf := indf; m_sindf := sindf;
                      m_jobs := jobs |})
  end.

Definition step (wf : workflow) (tab : list mnode) (n : nat) (nd : node) : option mnode :=
  let other0 := upstream tab (n_fields nd) in
  if is_nil (n_split nd) && is_nil (n_comb nd) && is_nil other0 then resolve_all wf tab n nd
  else
  match (if is_nil other0 then Some ([], []) else connect tab other0) with
  | None => None
  | Some (prev, other) => build_state wf tab n nd prev other
  end.

Fixpoint run_from (wf : workflow) (tab : list mnode) (nodes : list node) : option (list mnode) :=
  match nodes with
  | [] => Some tab
  | nd :: r => match step wf tab (List.length tab) nd with
               | Some e => run_from wf (tab ++ [e]) r
               | None => None
               end
  end.

(* the workflow's outputs: one per node, LazyOutField._get_value(state_index=None);
   None = the run raised *)
Definition model_run (wf : workflow) : option (list val) :=
  match run_from wf [] wf with
  | None => None
  | Some tab => all_some (map (fun e => get_value e None) tab)
  end.

Fixpoint nodupk (l : list key) : bool :=
  match l with [] => true | k :: r => negb (memk k r) && nodupk r end.

(* outside the theorems' class the model is compared with the implementation only on workflows without
   any combiner (where it has been validated: diamonds, deep shares, relays next to other inputs, ...);
   with combiners the code has further failure modes there that are not modelled *)
Definition tie_region (wf : workflow) : bool := forallb (fun nd => is_nil (n_comb nd)) wf.

(* ---------- combiner names: a combined field combines its whole zip group ---------- *)
(* State.current_combiner_all / prev_state_combiner_all (splits_groups -> combine_final_groups): every field in
   the same group as a combined field is combined too.  The model keeps one key per zip group (the leader), so
   the closure is: replace every name by its group's leader, drop repetitions. *)
Definition node_at (wf : workflow) (j : nat) : node :=
  nth j wf {| n_fields := []; n_split := []; n_zip := []; n_osel := []; n_comb := [] |}.
Definition canon_key (wf : workflow) (k : key) : key := (fst k, leader_of (node_at wf (fst k)) (snd k)).
Fixpoint dedupk (l : list key) : list key :=
  match l with [] => [] | k :: r => k :: filter (fun k' => negb (key_eqb k' k)) (dedupk r) end.
Definition normalize (wf : workflow) : workflow :=
  map (fun nd => {| n_fields := n_fields nd; n_split := n_split nd; n_zip := n_zip nd; n_osel := n_osel nd;
                    n_comb := dedupk (map (canon_key wf) (n_comb nd)) |}) wf.

(* both outputs of every node, in node order: what the harness observes *)
Definition outs2 (l : list val) : list val := flat_map (fun v => [outsel 0 v; outsel 1 v]) l.
Definition model_run2 (wf : workflow) : option (list val) := option_map outs2 (model_run (normalize wf)).

(* ---------- third pass: a node whose splitter pairs its two upstream states explicitly, ("_A", "_B") ----------
   _connect_splitters: a tuple of "_X" names is the prev-state part as given (a tuple skips _remove_repeated /
   _add_state_history); State.splits zips the two final index lists ("." : equal shape (len,) or ValueError);
   prepare_inputs zips the two index ranges.  The pairing flag lives beside the node (workflow3), so everything
   above is untouched.  Differential only: no theorem speaks about pair nodes. *)
Definition workflow3 := list (node * bool).
Definition zip2 (a b : list (list nat)) : list (list nat) := map (fun p => fst p ++ snd p) (combine a b).

Definition build_pair (wf : workflow) (tab : list mnode) (n : nat) (nd : node) : option mnode :=
  match upstream tab (n_fields nd) with
  | [(xa, fla); (xb, flb)] =>
      let cur := map (fun f => (n, f)) (n_split nd) in
      if negb (zip_ok_node nd) then None
      else if negb (Nat.eqb (List.length (ent_indf tab xa)) (List.length (ent_indf tab xb))) then None   (* ValueError: shapes *)
      else if negb (is_nil (n_comb nd)) then None                                                        (* not modelled *)
      else
      let keys := ent_keysf tab xa ++ ent_keysf tab xb ++ cur in
      let curbox := box_idx (map (key_len wf) cur) in
      let ind := prod2 (zip2 (ent_indf tab xa) (ent_indf tab xb)) curbox in
      let sind := map (mkdict keys) ind in
      let other := [(xa, fla); (xb, flb)] in
      let ip := map (fun i => repeat i (List.length fla) ++ repeat i (List.length flb)) (seq 0 (ent_nfinal tab xa)) in
      let inputs_ind := map (mkdict (keys_prev n other [xa; xb] ++ cur)) (prod2 ip curbox) in
      match all_some (map (job_of wf tab n nd) (combine inputs_ind sind)) with
      | None => None
      | Some jobs =>
          Some (MState {| m_other := other; m_prev := [xa; xb]; m_cur := cur; m_comb := []; m_rpnf := keys;
                          m_keys := keys; m_sind := sind; m_keysf := keys; m_indf := ind; m_sindf := sind;
                          m_jobs := jobs |})
      end
  | _ => None                                                                                            (* not modelled *)
  end.

Fixpoint run_from3 (wf : workflow) (tab : list mnode) (nodes : workflow3) : option (list mnode) :=
  match nodes with
  | [] => Some tab
  | (nd, pr) :: r =>
      match (if pr then build_pair wf tab (List.length tab) nd else step wf tab (List.length tab) nd) with
      | Some e => run_from3 wf (tab ++ [e]) r
      | None => None
      end
  end.
Definition model_run3 (w3 : workflow3) : option (list val) :=
  let wf := normalize (map fst w3) in
  match run_from3 wf [] (combine wf (map snd w3)) with
  | None => None
  | Some tab => option_map outs2 (all_some (map (fun e => get_value e None) tab))
  end.
