(* Model/Template.v — pydra/compose/shell/templating.py: template_update (one outarg),
   template_update_single, _template_formatting, _single_template_formatting, _element_formatting,
   and the output-side resolution ShellOutputs._resolve_value -> template_update_single(spec_type="output").
   Strings are byte strings; paths are PurePosixPath values (Base/PyPath.v); Python's str.format, str(), repr()
   and pathlib attributes are in Base/PyFormat.v. No proofs here. *)
From Pydra Require Import Base.Prelude Base.PyPath Base.PyFormat.
Local Open Scope char_scope.
Local Open Scope list_scope.

(* ------------------------------------------------------------------ the two regexes of _single_template_formatting *)
(* re.findall(r"{\w+}", t): the names, in order *)
Fixpoint findall_plain (cand : option (list ascii)) (l : list ascii) : list (list ascii) :=
  match l with
  | [] => []
  | c :: r =>
      if Ascii.eqb c lbrace then findall_plain (Some []) r
      else match cand with
           | None => findall_plain None r
           | Some acc =>
               if is_word c then findall_plain (Some (c :: acc)) r
               else if Ascii.eqb c rbrace then
                      match acc with
                      | [] => findall_plain None r
                      | _ => rev acc :: findall_plain None r
                      end
               else findall_plain None r
           end
  end.

(* re.findall(r"{\w+:[0-9.]+f}", t) followed by re.sub(":[0-9.]+f", "", el): the names, in order *)
Inductive fstate := F0 | FName (acc : list ascii) | FSpec (acc : list ascii) (n : nat) | FEnd (acc : list ascii).
Definition is_numdot (c : ascii) : bool := is_digit c || Ascii.eqb c ".".

Fixpoint findall_float (st : fstate) (l : list ascii) : list (list ascii) :=
  match l with
  | [] => []
  | c :: r =>
      if Ascii.eqb c lbrace then findall_float (FName []) r
      else match st with
           | F0 => findall_float F0 r
           | FName acc =>
               if is_word c then findall_float (FName (c :: acc)) r
               else if Ascii.eqb c ":" then
                      match acc with [] => findall_float F0 r | _ => findall_float (FSpec acc 0) r end
               else findall_float F0 r
           | FSpec acc n =>
               if is_numdot c then findall_float (FSpec acc (S n)) r
               else if Ascii.eqb c "f" then
                      match n with O => findall_float F0 r | _ => findall_float (FEnd acc) r end
               else findall_float F0 r
           | FEnd acc =>
               if Ascii.eqb c rbrace then rev acc :: findall_float F0 r else findall_float F0 r
           end
  end.

Definition inp_fields (t : list ascii) : list (list ascii) :=
  findall_plain None t ++ findall_float F0 t.

(* ------------------------------------------------------------------ _element_formatting *)
Fixpoint split_first_dot (l acc : list ascii) : list ascii * option (list ascii) :=
  match l with
  | [] => (rev acc, None)
  | c :: r => if Ascii.eqb c "." then (rev acc, Some r) else split_first_dot r (c :: acc)
  end.

Fixpoint ends_with (l suf : list ascii) : bool :=
  if la_eqb l suf then true else match l with [] => false | _ :: r => ends_with r suf end.

Definition has_dot (t : list ascii) : bool := mem_ascii "." t.

Definition field_ref (n : list ascii) : list ascii := lbrace :: n ++ [rbrace].

(* ".".join([x] + ext) *)
Definition dot_join (x : list ascii) (ext : option (list ascii)) : list ascii :=
  match ext with None => x | Some e => x ++ "." :: e end.

(* the file's path without the extension: str(Path(f).parent / name), name = text before the first '.' of Path(f).name *)
Definition file_stem_path (f : list ascii) : list ascii :=
  let p := parse f in
  let '(stem, _) := split_first_dot (pname p) [] in
  pstr (pjoin (pparent p) (parse stem)).
Definition file_ext (f : list ascii) : option (list ascii) :=
  snd (split_first_dot (pname (parse f)) []).

Definition element_formatting (t : list ascii) (d : env) (ft : option (list ascii * list ascii)) (keep : bool)
  : res (list ascii) :=
  match ft with
  | Some (fname, fval) =>
      let filename := file_stem_path fval in
      let ext := if keep then file_ext fval else None in
      let d1 := dict_set fname (VAtom (AStr filename)) d in
      if ends_with t (field_ref fname) then
        py_format t (dict_set fname (VAtom (AStr (dot_join filename ext))) d1)
      else if negb (has_dot t) then
        bind (py_format t d1) (fun s => Ok (dot_join s ext))
      else py_format t d1
  | None => py_format t d
  end.

(* ------------------------------------------------------------------ _single_template_formatting *)
(* the value before Path(...) is applied: None, one formatted string, or a list of them *)
Inductive formatted := FNone | FOne (s : list ascii) | FMany (l : list (list ascii)).

(* the loop over inp_fields: (val_dict, file_template) or early exit *)
Inductive collected := CNone | CDict (d : env) (ft : option (list ascii * list ascii)).

Fixpoint collect (names : list (list ascii)) (values : env) (d : env) (ft : option (list ascii * list ascii))
  : res collected :=
  match names with
  | [] => Ok (CDict d ft)
  | n :: r =>
      match lookup n values with
      | None => Err EMissing
      | Some VNone => Ok CNone
      | Some (VAtom (APath p)) =>
          match ft with
          | Some _ => Err EMultiPath
          | None => collect r values d (Some (n, p))
          end
      | Some v => collect r values (dict_set n v d) ft
      end
  end.

Definition is_list (v : value) : bool := match v with VList _ => true | _ => false end.
Definition list_len (v : value) : nat := match v with VList l => List.length l | _ => 0 end.
Definition list_keys (d : env) : list (list ascii) := map fst (filter (fun kv => is_list (snd kv)) d).

(* val_dict with every list-valued key replaced by its ii-th element *)
Definition pick (ii : nat) (d : env) : env :=
  map (fun kv => match snd kv with
                 | VList l => (fst kv, match nth_error l ii with Some a => VAtom a | None => VNone end)
                 | _ => kv
                 end) d.

Definition single_template_formatting (multi keep : bool) (t : list ascii) (values : env) : res formatted :=
  match inp_fields t with
  | [] => Ok (FOne t)                                      (* Path(template) *)
  | names =>
      bind (collect names values [] None) (fun c =>
        match c with
        | CNone => Ok FNone
        | CDict d ft =>
            if multi && existsb (fun kv => is_list (snd kv)) d then
              match list_keys d with
              | [] => Err EUnsupported
              | k0 :: ks =>
                  let n0 := match lookup k0 d with Some v => list_len v | None => 0 end in
                  if existsb (fun k => negb (Nat.eqb (match lookup k d with Some v => list_len v | None => 0 end) n0)) ks
                  then Err ELength
                  else bind (mapM (fun ii => element_formatting t (pick ii d) ft keep) (seq 0 n0))
                            (fun l => Ok (FMany l))
              end
            else bind (element_formatting t d ft keep) (fun s => Ok (FOne s))
        end)
  end.

(* ------------------------------------------------------------------ _template_formatting / template_update_single *)
Inductive tmpl := TOne (t : list ascii) | TMany (ts : list (list ascii)).

Record outarg := { o_multi : bool;          (* fld.type is MultiOutputFile *)
                   o_keep : bool;           (* keep_extension *)
                   o_template : tmpl }.

(* what the task holds in the outarg's own input field *)
Inductive given := GTrue | GFalse | GPath (s : list ascii).

Inductive resolved :=
| RAbsent                       (* template_update leaves the field out of the returned dict *)
| RNone
| ROne (s : list ascii)         (* str(path) *)
| RMany (l : list (list ascii)).

Definition in_cache (cache_dir : list ascii) (p : list ascii) : list ascii :=
  pstr (pjoin (parse cache_dir) (parse (pname (parse p)))).          (* cache_dir / value.name *)

Definition template_formatting (o : outarg) (values : env) : res formatted :=
  match o_template o with
  | TOne t => single_template_formatting (o_multi o) (o_keep o) t values
  | TMany ts =>
      bind (mapM (fun t => single_template_formatting (o_multi o) (o_keep o) t values) ts) (fun fs =>
        if existsb (fun f => match f with FNone => true | _ => false end) fs then Ok FNone
        else bind (mapM (fun f => match f with FOne s => Ok s | _ => Err ENested end) fs) (fun l => Ok (FMany l)))
  end.

Definition place (cache_dir : list ascii) (f : formatted) : resolved :=
  match f with
  | FNone => RNone
  | FOne s => ROne (in_cache cache_dir s)
  | FMany l => RMany (map (in_cache cache_dir) l)
  end.

(* template_update_single(..., spec_type="output"): what ShellOutputs._resolve_value returns *)
Definition resolve_output (o : outarg) (values : env) (cache_dir : list ascii) : res resolved :=
  bind (template_formatting o values) (fun f => Ok (place cache_dir f)).

(* template_update for the one outarg: the entry it puts into Job.inputs *)
Definition resolve_input (o : outarg) (g : given) (values : env) (cache_dir : list ascii) : res resolved :=
  match g with
  | GFalse => Ok RAbsent
  | GPath s => Ok (ROne (pstr (parse s)))
  | GTrue => resolve_output o values cache_dir
  end.

(* ------------------------------------------------------------------ input class of finding F26 *)
(* the template fills in to a string whose last path component is missing (Path(s).name == "") or is ".." *)
Definition bad_name (s : list ascii) : bool :=
  match pname (parse s) with
  | [] => true
  | n => la_eqb n ["."; "."]
  end.
Definition degenerate_name (o : outarg) (values : env) : bool :=
  match template_formatting o values with
  | Ok (FOne s) => bad_name s
  | Ok (FMany l) => existsb bad_name l
  | _ => false
  end.

(* ShellOutputs._from_job for an outarg field: the job's own input value when that is a Path (explicit path, or the
   template already resolved by template_update), otherwise ShellOutputs._resolve_value *)
Definition output_value (o : outarg) (g : given) (values : env) (cache_dir : list ascii) : res resolved :=
  match resolve_input o g values cache_dir with
  | Ok (ROne p) => Ok (ROne p)
  | Err e => Err e
  | Ok _ => resolve_output o values cache_dir
  end.
