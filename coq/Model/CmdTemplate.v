(* Model/CmdTemplate.v — pydra/compose/shell/builder.py: parse_command_line_template (per token, on the token AST),
   the positions it assigns (remaining_positions), and the part of ShellTask._command_args / _command_pos_args /
   _format_arg / position_sort that the fields built from a template exercise (plain argstr, no formatter, no "...").
   The harness renders the AST to template text; pydra parses the text. No proofs here. *)
From Pydra Require Import Base.Prelude Base.PyPath Base.PyFormat Model.Template.
Local Open Scope string_scope.
Local Open Scope list_scope.

(* ------------------------------------------------------------------ the token AST *)
Inductive prim := PInt | PFloat | PStr | PBool.
(* type names a template can spell: generic/<name> may drop the namespace, others are MIME-like *)
Inductive fmt := FFile | FDirectory | FFsObject | FTextPlain | FPng | FGzip | FCsv | FJson.
Inductive tname := TP (p : prim) | TF (f : fmt).
Inductive tyexpr :=
| TySingle (t : tname)
| TyTuple (ts : list tname)          (* "int,str" *)
| TyVar (t : tname).                 (* "int,..." *)

Inductive lit :=
| LInt (z : Z)
| LFloat (txt : string)              (* as written, e.g. 1.5 — also its str() *)
| LStr (s : string)                  (* as a field default: the text between the quotes of ='...' / ="...", verbatim —
                                        no escape processing (a backslash is a backslash); inside a tuple default the
                                        whole "(...)" is a Python literal and s is the value of the element *)
| LBool (b : bool)
| LTuple (l : list lit).

Inductive suffix := SNone | SOptional | SPlus | SStar | SDefault (d : lit) | STemplate (t : string).

Inductive token :=
| Arg (name : string) (ty : option tyexpr) (suf : suffix)        (* <name:type suffix> *)
| Out (name : string) (ty : option tyexpr) (suf : suffix)        (* <out|name:type suffix> *)
| Opt (flag : string) (inner : token)                            (* --flag <...>   (inner is an Arg or an Out) *)
| Flag (flag : string) (name : string) (default : option bool).  (* --flag<name> / --flag<name=True> *)

(* ------------------------------------------------------------------ the fields the parser builds *)
Inductive tbase := BPrim (p : prim) | BFmt (f : fmt) | BTuple (l : list tname) | BVarTuple (t : tname).
Record ftype := { t_base : tbase; t_multi : bool (* MultiInputObj[...] *); t_optional : bool (* ... | None *) }.
Inductive dflt := DNoDefault | DNone | DEmptyList (* attrs.Factory(list) *) | DLit (l : lit).

Record field := { f_name : string;
                  f_is_out : bool;               (* shell.outarg rather than shell.arg *)
                  f_type : ftype;
                  f_default : dflt;
                  f_position : Z;
                  f_argstr : string;
                  f_template : option string }.  (* path_template *)

Inductive perr :=
| PTemplateOnInput      (* ValueError: "Path templates can only be used with output fields" *)
| PTemplateWithDefault  (* ValueError: path_template can only be provided when there is no default *)
| PBadDefault           (* the default literal is not a value of the written type (coercion error at define time) *)
| PBadNesting           (* an option that is not followed by a field *)
| PDuplicate.           (* the same field name twice: later token silently replaces the earlier field *)
Inductive pres (A : Type) := POk (a : A) | PErr (e : perr).
Arguments POk {A} a.
Arguments PErr {A} e.

(* FileSet.ext of the type (live table, re-checked by the driver on every run) *)
Definition fmt_ext (f : fmt) : option string :=
  match f with
  | FPng => Some ".png" | FGzip => Some ".gz" | FCsv => Some ".csv" | FJson => Some ".json"
  | FFile | FDirectory | FFsObject | FTextPlain => None
  end.

Definition base_of (te : tyexpr) : tbase :=
  match te with
  | TySingle (TP p) => BPrim p
  | TySingle (TF f) => BFmt f
  | TyTuple ts => BTuple ts
  | TyVar t => BVarTuple t
  end.

Definition prim_lit_ok (p : prim) (d : lit) : bool :=
  match p, d with
  | PInt, LInt _ | PFloat, LFloat _ | PStr, LStr _ | PBool, LBool _ => true
  | _, _ => false
  end.
Fixpoint tuple_lit_ok (ts : list tname) (ds : list lit) : bool :=
  match ts, ds with
  | [], [] => true
  | TP p :: ts', d :: ds' => prim_lit_ok p d && tuple_lit_ok ts' ds'
  | _, _ => false
  end.
Definition lit_ok (b : tbase) (d : lit) : bool :=
  match b, d with
  | BPrim p, _ => prim_lit_ok p d
  | BTuple ts, LTuple ds => tuple_lit_ok ts ds
  | BVarTuple (TP p), LTuple ds => forallb (prim_lit_ok p) ds
  | _, _ => false
  end.

(* one <...> token; [option] is the pending "--flag" (None for a positional) *)
Definition parse_field (is_out : bool) (name : string) (ty : option tyexpr) (suf : suffix) (option : option string)
                       (position : Z) : pres field :=
  (* kwds from the suffix, in the order the code tests them: ?, +, *, =, $ *)
  let optional := match suf with SOptional => true | _ => false end in
  let is_multi := match suf with SPlus | SStar => true | _ => false end in
  let default0 := match suf with
                  | SOptional => DNone | SStar => DEmptyList | SDefault d => DLit d | _ => DNoDefault end in
  match suf, is_out with
  | STemplate _, false => PErr PTemplateOnInput
  | _, _ =>
    (* type after ':' ; bare arguments and bare outputs are fs-objects, bare option arguments are str *)
    let base := match ty with
                | Some te => base_of te
                | None => match option with
                          | None => BFmt FFsObject
                          | Some _ => if is_out then BFmt FFsObject else BPrim PStr
                          end
                end in
    let type_ := {| t_base := base; t_multi := is_multi; t_optional := optional |} in
    (* default path template of an output: its name, plus the extension of a file-format type *)
    let template :=
        if is_out then
          match suf with
          | STemplate t => Some t
          | _ => Some (match base with
                       | BFmt f => match fmt_ext f with Some e => (name ++ e)%string | None => name end
                       | _ => name
                       end)
          end
        else None in
    (* field construction: outarg validator, then coercion of the default to the type *)
    match is_out, default0 with
    | true, DEmptyList | true, DLit _ => PErr PTemplateWithDefault
    | _, _ =>
      match default0 with
      | DLit d => if lit_ok base d then
                    POk {| f_name := name; f_is_out := is_out; f_type := type_; f_default := default0;
                           f_position := position; f_argstr := match option with Some o => o | None => "" end;
                           f_template := template |}
                  else PErr PBadDefault
      | _ => POk {| f_name := name; f_is_out := is_out; f_type := type_; f_default := default0;
                    f_position := position; f_argstr := match option with Some o => o | None => "" end;
                    f_template := template |}
      end
    end
  end.

Definition parse_token (t : token) (position : Z) : pres field :=
  match t with
  | Arg n ty suf => parse_field false n ty suf None position
  | Out n ty suf => parse_field true n ty suf None position
  | Opt flag (Arg n ty suf) => parse_field false n ty suf (Some flag) position
  | Opt flag (Out n ty suf) => parse_field true n ty suf (Some flag) position
  | Opt _ _ => PErr PBadNesting
  | Flag flag n d =>
      POk {| f_name := n; f_is_out := false;
             f_type := {| t_base := BPrim PBool; t_multi := false; t_optional := false |};
             f_default := DLit (LBool (match d with Some b => b | None => false end));
             f_position := position; f_argstr := flag; f_template := None |}
  end.

Definition token_name (t : token) : string :=
  match t with
  | Arg n _ _ | Out n _ _ | Flag _ n _ => n
  | Opt _ (Arg n _ _) | Opt _ (Out n _ _) | Opt _ (Flag _ n _) => n
  | Opt _ (Opt _ _) => ""
  end.

Fixpoint nodupb (l : list string) : bool :=
  match l with [] => true | x :: r => negb (existsb (String.eqb x) r) && nodupb r end.

(* arguments get the positions remaining_positions(arguments, len+1, 1) hands out: 1, 2, ... in token order *)
Fixpoint parse_tokens (ts : list token) (position : Z) : pres (list field) :=
  match ts with
  | [] => POk []
  | t :: r => match parse_token t position with
              | PErr e => PErr e
              | POk f => match parse_tokens r (position + 1) with
                         | PErr e => PErr e
                         | POk fs => POk (f :: fs)
                         end
              end
  end.

Definition fields_of_ast (ts : list token) : pres (list field) :=
  if nodupb (map token_name ts) then parse_tokens ts 1 else PErr PDuplicate.

(* ------------------------------------------------------------------ values and the argument vector *)
Inductive sval := SText (s : string) | STuple (l : list string).     (* str(value) of a scalar / of each tuple item *)
Inductive fvalue :=
| VUnset                       (* None *)
| VScalar (v : sval)
| VMulti (l : list sval)       (* MultiInputObj *)
| VFlag (b : bool).            (* a bool field with a brace-free argstr *)

Fixpoint join_sp (l : list string) : string :=
  match l with [] => "" | [x] => x | x :: r => (x ++ " " ++ join_sp r)%string end.

(* split_cmd on text without quotes, backslashes or whitespace other than ' ': the words between spaces *)
Fixpoint split_sp (s : string) (cur : string) : list string :=
  match s with
  | EmptyString => match cur with EmptyString => [] | _ => [cur] end
  | String c r => if Ascii.eqb c " "
                  then match cur with EmptyString => split_sp r "" | _ => cur :: split_sp r "" end
                  else split_sp r (cur ++ String c EmptyString)%string
  end.
Definition split_cmd (s : string) : list string := split_sp s "".

(* _format_arg for a brace-free argstr and a non-"..." field *)
Definition format_arg (argstr : string) (v : sval) : list string :=
  let value := match v with SText s => s | STuple l => join_sp l end in
  match value with
  | EmptyString => split_cmd ""
  | _ => split_cmd (argstr ++ " " ++ value)%string
  end.

(* _command_pos_args: None = the field adds no entry *)
Definition pos_args (f : field) (v : fvalue) : option (Z * list string) :=
  match v with
  | VUnset => None
  | VFlag b => Some (f_position f, if b then [f_argstr f] else [])
  | VMulti [] => None                                   (* dropped from values by _command_args *)
  | VMulti l => Some (f_position f, flat_map (format_arg (f_argstr f)) l)
  | VScalar s => Some (f_position f, format_arg (f_argstr f) s)
  end.

(* bisect.insort on (position, args) entries with pairwise different positions *)
Fixpoint insort {A} (e : Z * A) (l : list (Z * A)) : list (Z * A) :=
  match l with
  | [] => [e]
  | x :: r => if Z.ltb (fst e) (fst x) then e :: l else x :: insort e r
  end.

(* position_sort: non-negative positions ascending, (unpositioned in order), negative positions ascending *)
Definition position_sort {A} (entries : list (Z * A)) : list A :=
  let pos := fold_left (fun acc e => if Z.ltb (fst e) 0 then acc else insort e acc) entries [] in
  let neg := fold_left (fun acc e => if Z.ltb (fst e) 0 then insort e acc else acc) entries [] in
  map snd pos ++ map snd neg.

Fixpoint filter_map {A B} (f : A -> option B) (l : list A) : list B :=
  match l with [] => [] | x :: r => match f x with Some y => y :: filter_map f r | None => filter_map f r end end.

(* _command_args: [fvs] lists the fields with their values in the order the task's attrs class iterates them *)
Definition command_args (executable : list string) (fvs : list (field * fvalue)) (append_args : list string)
  : list string :=
  let entries := (0%Z, executable) :: filter_map (fun fv => pos_args (fst fv) (snd fv)) fvs in
  List.concat (position_sort entries) ++ append_args.

(* the value an outarg holds after template_update when its template is used: cache_dir / Path(template).name *)
Definition out_value (cache_dir template : string) : fvalue :=
  VScalar (SText (str_of (in_cache (la_of cache_dir) (la_of template)))).
