(* Model/CopyFiles.v — pydra/utils/typing.py: TypeParser.apply_to_instances, copy_nested_files;
   pydra/engine/result.py: copyfile_workflow; pydra/engine/job.py: Job.inputs (staging part);
   and a model of fileformats' FileSet.copy for single-path file-sets (ff_copy), which the
   pydra functions take as a parameter [copy_one].  No proofs here. *)
From Pydra Require Import Base.Prelude Base.PyPath Model.Mount.
From Coq Require Import DecimalString DecimalNat.
Local Open Scope string_scope.

(* ---------------------------------------------------------------- paths, file-sets, values *)
Definition path := (string * string)%type.            (* (parent directory, name) *)
Definition path_eqb (a b : path) : bool := String.eqb (fst a) (fst b) && String.eqb (snd a) (snd b).
Definition full (p : path) : string := fst p ++ "/" ++ snd p.

(* FileSet.__eq__/__hash__: same class and same fspaths.  Single-path file-sets only. *)
Definition fileset := (string * path)%type.            (* (class name, fspath) *)
Definition fileset_eqb (a b : fileset) : bool := String.eqb (fst a) (fst b) && path_eqb (snd a) (snd b).

Inductive ckind := CList | CTuple | CDict.             (* a dict is its items flattened: k1 v1 k2 v2 … *)
Definition ckind_eqb (a b : ckind) : bool :=
  match a, b with CList, CList | CTuple, CTuple | CDict, CDict => true | _, _ => false end.

Inductive value :=
| VAtom (repr : string) (truthy : bool)                (* any value that is not a FileSet / Mapping / Sequence (or is a str) *)
| VFile (f : fileset)
| VCont (k : ckind) (items : list value).

(* bool(value) as used by `if value and ...` in Job.inputs *)
Definition truthy (v : value) : bool :=
  match v with VAtom _ t => t | VFile _ => true | VCont _ [] => false | VCont _ _ => true end.

(* ---------------------------------------------------------------- a file system with inodes *)
Fixpoint assoc {A B} (eqb : A -> A -> bool) (k : A) (l : list (A * B)) : option B :=
  match l with [] => None | (k', v) :: r => if eqb k' k then Some v else assoc eqb k r end.

Record fsT := mkfs { f_ino : list (path * nat); f_data : list (nat * string) }.
Definition ino_of (fs : fsT) (p : path) : option nat := assoc path_eqb p (f_ino fs).
Definition data_of (fs : fsT) (i : nat) : string :=
  match assoc Nat.eqb i (f_data fs) with Some c => c | None => "" end.
Definition read (fs : fsT) (p : path) : option string := option_map (data_of fs) (ino_of fs p).
(* in-place modification of the file at p (all links to its inode see it) *)
Definition write (fs : fsT) (p : path) (c : string) : fsT :=
  match ino_of fs p with Some i => mkfs (f_ino fs) ((i, c) :: f_data fs) | None => fs end.

Definition fresh_ino (fs : fsT) : nat := S (list_max (map snd (f_ino fs))).
Definition add_link (fs : fsT) (d : path) (i : nat) : fsT := mkfs ((d, i) :: f_ino fs) (f_data fs).
Definition add_copy (fs : fsT) (d : path) (c : string) : fsT :=
  let j := fresh_ino fs in mkfs ((d, j) :: f_ino fs) ((j, c) :: f_data fs).

(* Path(d).iterdir(): the paths directly inside d *)
Definition dir_entries (fs : fsT) (d : string) : list path :=
  filter (fun p => String.eqb (fst p) d) (map fst (f_ino fs)).

(* pydra.engine.result.RESERVED_CACHE_NAMES: the files the engine itself keeps in a job's cache directory *)
Definition reserved_names : list string := ["_result.pklz"; "_job.pklz"; "_return_values.pklz"; "_error.pklz"].
(* the initial clashes_to_avoid of copyfile_workflow / Job.inputs: what the directory holds, and the reserved names *)
Definition seed (fs : fsT) (d : string) : list path := dir_entries fs d ++ map (fun n => (d, n)) reserved_names.

(* ---------------------------------------------------------------- copy modes *)
Record cmode := mkmode { m_leave : bool; m_hard : bool; m_sym : bool; m_copy : bool }.
Inductive way := Leave | Hard | Sym | Copy.
Definition way_eqb (a b : way) : bool :=
  match a, b with Leave, Leave | Hard, Hard | Sym, Sym | Copy, Copy => true | _, _ => false end.
Definition inter (a b : cmode) : cmode :=
  mkmode (m_leave a && m_leave b) (m_hard a && m_hard b) (m_sym a && m_sym b) (m_copy a && m_copy b).
Definition minus (a b : cmode) : cmode :=       (* CopyMode.__sub__ *)
  mkmode (m_leave a && negb (m_leave b)) (m_hard a && negb (m_hard b))
         (m_sym a && negb (m_sym b)) (m_copy a && negb (m_copy b)).
Definition allowed (w : way) (m : cmode) : bool :=
  match w with Leave => m_leave m | Hard => m_hard m | Sym => m_sym m | Copy => m_copy m end.
Definition mode_any : cmode := mkmode true true true true.
Definition mode_hardlink_or_copy : cmode := mkmode false true false true.
Definition only_sym : cmode := mkmode false false true false.
Definition only_hard : cmode := mkmode false true false false.

Inductive err := EExists | EUnsat | EFuel | EMissing.
Inductive res (A : Type) := Ok (a : A) | Err (e : err).
Arguments Ok {A} a. Arguments Err {A} e.
Definition err_eqb (a b : err) : bool :=
  match a, b with EExists, EExists | EUnsat, EUnsat | EFuel, EFuel | EMissing, EMissing => true | _, _ => false end.

(* with path.open("wb") as fp: cp.dump(obj, fp) — an existing file is rewritten in place (through every link
   to its inode), otherwise it is created *)
Definition dump (fs : fsT) (p : path) (c : string) : fsT :=
  match ino_of fs p with Some _ => write fs p c | None => add_copy fs p c end.

(* ---------------------------------------------------------------- fileformats' FileSet.copy, one path *)
Fixpoint mem (p : path) (l : list path) : bool :=
  match l with [] => false | q :: r => path_eqb q p || mem p r end.

(* pathlib: stem / suffix of a name (last dot, neither first nor last character) *)
Fixpoint last_dot (l : list ascii) (i : nat) (best : option nat) : option nat :=
  match l with
  | [] => best
  | c :: r => last_dot r (S i) (if Ascii.eqb c "."%char then Some i else best)
  end.
Definition split_ext (name : string) : string * string :=
  let l := la_of name in
  match last_dot l 0 None with
  | Some i => if (Nat.ltb 0 i && Nat.ltb i (List.length l - 1))%bool
              then (str_of (firstn i l), str_of (skipn i l)) else (name, "")
  | None => (name, "")
  end.

Definition dec (n : nat) : string := NilEmpty.string_of_uint (Nat.to_uint n).

(* _new_copy_path with clash_template "{stem} ({counter})", no prefix/suffix/new_stem *)
Definition cand_name (name : string) (k : nat) : string :=
  match k with
  | 0 => name
  | _ => let (st, ex) := split_ext name in st ++ " (" ++ dec k ++ ")" ++ ex
  end.
Definition cand (dest name : string) (k : nat) : path := (dest, cand_name name k).

(* _destination_to_avoid, overwrite=False, avoid_clashes a set:
   exists and in the set -> try the next counter; exists and not in the set -> FileExistsError;
   does not exist -> clash iff in the set *)
Definition dest_check (fs : fsT) (avoid : list path) (p : path) : res bool :=
  match ino_of fs p with
  | Some _ => if mem p avoid then Ok true else Err EExists
  | None => Ok (mem p avoid)
  end.

(* the `while not pairs` loop of _src_dest_pairs (unbounded in Python; fuel here) *)
Fixpoint search (fuel : nat) (fs : fsT) (avoid : list path) (dest name : string) (k : nat) : res path :=
  match fuel with
  | 0 => Err EFuel
  | S fu =>
      let p := cand dest name k in
      match dest_check fs avoid p with
      | Err e => Err e
      | Ok true => search fu fs avoid dest name (S k)
      | Ok false => Ok p
      end
  end.

(* "laziest" mode: leave, then symlink, then hardlink, then copy *)
Definition select (m : cmode) : option way :=
  if m_leave m then Some Leave else if m_sym m then Some Sym
  else if m_hard m then Some Hard else if m_copy m then Some Copy else None.

Definition copy_result := (fileset * fsT * list path * way)%type.

Definition ff_copy (fs : fsT) (dest : string) (m sup : cmode) (avoid : list path) (f : fileset)
  : res copy_result :=
  match select (inter m sup) with
  | None => Err EUnsat
  | Some Leave => Ok (f, fs, avoid, Leave)
  | Some w =>
      match ino_of fs (snd f) with
      | None => Err EMissing
      | Some i =>
          match search (S (List.length avoid)) fs avoid dest (snd (snd f)) 0 with
          | Err e => Err e
          | Ok d =>
              let fs' := match w with Copy => add_copy fs d (data_of fs i) | _ => add_link fs d i end in
              Ok ((fst f, d), fs', d :: avoid, w)
          end
      end
  end.

(* ---------------------------------------------------------------- pydra *)
Section Pydra.
  (* FileSet.copy(dest_dir, mode=, supported_modes=, avoid_clashes=set) *)
  Variable copy_one : fsT -> string -> cmode -> cmode -> list path -> fileset -> res copy_result.
  Variable tab : table.                 (* MountIndentifier's mount table *)

  Definition log_entry := (fileset * fileset * way)%type.
  Record st := mkst { s_fs : fsT; s_avoid : list path;
                      s_memo : list (fileset * fileset);   (* `cache` of copy_nested_files *)
                      s_log : list log_entry }.            (* ghost: the FileSet.copy calls made, newest first *)

  (* copy_fileset's narrowing of the supported modes by mount *)
  Definition narrow (dest : string) (f : fileset) (sup : cmode) : cmode :=
    let sup1 := if on_cifs tab (full (snd f)) then minus sup only_sym else sup in
    if negb (on_same_mount tab (full (snd f)) dest) then minus sup1 only_hard else sup1.

  Definition copy_fileset (dest : string) (m sup : cmode) (f : fileset) (s : st) : res (fileset * st) :=
    match assoc fileset_eqb f (s_memo s) with
    | Some f' => Ok (f', s)
    | None =>
        match copy_one (s_fs s) dest m (narrow dest f sup) (s_avoid s) f with
        | Err e => Err e
        | Ok (f', fs', av', w) => Ok (f', mkst fs' av' ((f, f') :: s_memo s) ((f, f', w) :: s_log s))
        end
    end.

  (* TypeParser.apply_to_instances(FileSet, g, v).  Its id()-keyed cache is not passed to the
     recursive calls (each creates its own), so it never hits and is not modelled.  Mapping: key then
     value for each item in order; Sequence: each element in order; rebuilt with type(value)(…). *)
  Fixpoint apply_files (g : fileset -> st -> res (fileset * st)) (v : value) (s : st) : res (value * st) :=
    match v with
    | VAtom r t => Ok (VAtom r t, s)
    | VFile f => match g f s with Ok (f', s') => Ok (VFile f', s') | Err e => Err e end
    | VCont k items =>
        match (fix go (l : list value) (s : st) : res (list value * st) :=
                 match l with
                 | [] => Ok ([], s)
                 | x :: r =>
                     match apply_files g x s with
                     | Err e => Err e
                     | Ok (x', s1) =>
                         match go r s1 with Err e => Err e | Ok (r', s2) => Ok (x' :: r', s2) end
                     end
                 end) items s with
        | Ok (items', s') => Ok (VCont k items', s')
        | Err e => Err e
        end
    end.

  (* copy_nested_files(value, dest, supported_modes=sup, clashes_to_avoid=avoid, mode=m):
     returns the new value, the file system, the (mutated) clash set and this call's log *)
  Definition copy_nested_files (v : value) (dest : string) (m sup : cmode) (avoid : list path) (fs : fsT)
    : res (value * fsT * list path * list log_entry) :=
    match apply_files (copy_fileset dest m sup) v (mkst fs avoid [] []) with
    | Err e => Err e
    | Ok (v', s) => Ok (v', s_fs s, s_avoid s, s_log s)
    end.

  (* copyfile_workflow: one shared clash set, mode hardlink_or_copy, for every output field *)
  Fixpoint copyfile_fields (dest : string) (fields : list value) (avoid : list path) (fs : fsT)
    : res (list (value * list log_entry) * fsT * list path) :=
    match fields with
    | [] => Ok ([], fs, avoid)
    | v :: r =>
        match copy_nested_files v dest mode_hardlink_or_copy mode_any avoid fs with
        | Err e => Err e
        | Ok (v', fs1, av1, lg) =>
            match copyfile_fields dest r av1 fs1 with
            | Err e => Err e
            | Ok (r', fs2, av2) => Ok ((v', lg) :: r', fs2, av2)
            end
        end
    end.
  (* clashes_to_avoid = set(Path(wf_path).iterdir()) | {wf_path / n for n in RESERVED_CACHE_NAMES} *)
  Definition copyfile_workflow (dest : string) (fields : list value) (fs : fsT) :=
    copyfile_fields dest fields (seed fs dest) fs.

  (* Job.inputs: for each field whose type can contain a FileSet and whose value is truthy,
     copy_nested_files(value, cache_dir, mode=fld.copy_mode, supported_modes=any,
     clashes_to_avoid=<one set shared by the fields, seeded with the directory's entries>) *)
  Record field := mkfield { fd_typed : bool; fd_mode : cmode; fd_value : value }.
  Fixpoint job_fields (dest : string) (fields : list field) (avoid : list path) (fs : fsT)
    : res (list (value * list log_entry) * fsT * list path) :=
    match fields with
    | [] => Ok ([], fs, avoid)
    | fd :: r =>
        if (truthy (fd_value fd) && fd_typed fd)%bool then
          match copy_nested_files (fd_value fd) dest (fd_mode fd) mode_any avoid fs with
          | Err e => Err e
          | Ok (v', fs1, av1, lg) =>
              match job_fields dest r av1 fs1 with
              | Err e => Err e
              | Ok (r', fs2, av2) => Ok ((v', lg) :: r', fs2, av2)
              end
          end
        else
          match job_fields dest r avoid fs with
          | Err e => Err e
          | Ok (r', fs2, av2) => Ok ((fd_value fd, []) :: r', fs2, av2)
          end
    end.
  Definition job_inputs (dest : string) (fields : list field) (fs : fsT) :=
    job_fields dest fields (seed fs dest) fs.
End Pydra.
