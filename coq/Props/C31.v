(* C31 — Requirement and mutual-exclusion rules are enforced exactly. *)
From Pydra Require Import Base.Prelude Model.Rules Spec.Rules Proofs.Rules.
Local Open Scope string_scope.

(* The property at full strength: for every well-formed definition (any number of fields,
   requirement sets and exclusive groups) and every assignment, the rule checker accepts exactly
   when the statement's formula holds, "set" meaning "truthy". *)
Definition C31_full_statement : Prop :=
  forall (d : taskdef) (e : env), wf_def d = true -> (rules_ok d e = true <-> Spec_ok d e).

(* Refuted by the unchanged code: a: str = "" with requires=["b"], nothing given, is rejected. *)
Theorem C31_refuted : ~ C31_full_statement.
Proof. exact full_statement_refuted. Qed.
Print Assumptions C31_refuted.

(* The refutation does not depend on the reading of "set": whatever "set" is taken to mean (even
   depending on the field's type), some well-formed task and assignment separates code and formula. *)
Theorem C31_no_uniform_notion_of_set :
  forall S : notion,
    ~ (forall d e, wf_def d = true -> (rules_ok d e = true <-> Spec_gen S d e)).
Proof. exact no_uniform_notion. Qed.
Print Assumptions C31_no_uniform_notion_of_set.

(* What the checker does enforce, for ALL well-formed definitions and ALL assignments: the formula
   with one test per role (requiring field: not None/False/optional-fileset-True; required field:
   not None, not False when the type is exactly bool; exclusive-group member: truthy). *)
Theorem C31_iff_roles :
  forall (d : taskdef) (e : env), wf_def d = true ->
    (rules_ok d e = true <->
     Spec_roles (N set_trigger) (N set_required) (N set_exclusive) d e).
Proof. intros d e W. apply rules_ok_roles. now apply wf_def_Wf. Qed.
Print Assumptions C31_iff_roles.

(* The property's formula itself, on every assignment outside the excluded class [uncontested]. *)
Theorem C31_partial :
  forall (d : taskdef) (e : env), wf_def d = true -> uncontested d e = true ->
    (rules_ok d e = true <-> Spec_ok d e).
Proof. intros d e W. apply rules_ok_partial. now apply wf_def_Wf. Qed.
Print Assumptions C31_partial.

(* The executable formula evaluated on the correspondence cases is the formula. *)
Theorem C31_spec_exec :
  forall (d : taskdef) (e : env), wf_def d = true -> (spec_okb d e = true <-> Spec_ok d e).
Proof. intros d e W. apply spec_okb_spec. now apply wf_def_Wf. Qed.
Print Assumptions C31_spec_exec.

(* Violations are reported before any execution: Submitter.__call__ / Job.__init__ evaluate the rules
   first; whatever the rest of the run does ([run], arbitrary), a rejected task starts nothing and a
   task that ran satisfied the rules. *)
Theorem C31_before_execution :
  forall (run : taskdef -> env -> nat) (d : taskdef) (e : env),
    (rules_ok d e = false -> submitter_call run d e = Rejected (rule_violations d e)) /\
    (forall n, submitter_call run d e = Ran n ->
       rules_ok d e = true /\
       (wf_def d = true -> Spec_roles (N set_trigger) (N set_required) (N set_exclusive) d e) /\
       (wf_def d = true -> uncontested d e = true -> Spec_ok d e)).
Proof. exact before_execution. Qed.
Print Assumptions C31_before_execution.

(* non-vacuity: a definition with a two-alternative requirement (one with allowed values) and an
   exclusive group, an uncontested assignment that is accepted and one that is rejected *)
Definition ex_def : taskdef :=
  {| fields := [ {| fname := "a"; ftype := TOther; fmay_unset := false;
                    frequires := [ [ {| rname := "b"; rallowed := None |};
                                     {| rname := "c"; rallowed := Some [VStr "u"; VStr "v"] |} ];
                                   [ {| rname := "f"; rallowed := None |} ] ] |};
                 {| fname := "b"; ftype := TBool; fmay_unset := false; frequires := [] |};
                 {| fname := "c"; ftype := TOther; fmay_unset := false; frequires := [] |};
                 {| fname := "f"; ftype := TBool; fmay_unset := false; frequires := [] |} ];
     xors := [[Some "c"; Some "f"; None]] |}.
Example C31_partial_applies_accept :
  let e := env_of [("a", VStr "x"); ("b", VBool true); ("c", VStr "u"); ("f", VBool false)] in
  wf_def ex_def = true /\ uncontested ex_def e = true /\ rules_ok ex_def e = true.
Proof. vm_compute. auto. Qed.
Example C31_partial_applies_reject :
  let e := env_of [("a", VStr "x"); ("b", VBool true); ("c", VStr "w"); ("f", VBool false)] in
  wf_def ex_def = true /\ uncontested ex_def e = true /\ rule_violations ex_def e = [ERequires "a"].
Proof. vm_compute. auto. Qed.
Example C31_partial_applies_xor :
  let e := env_of [("a", VNone); ("b", VBool false); ("c", VStr "u"); ("f", VBool true)] in
  wf_def ex_def = true /\ uncontested ex_def e = true /\ rule_violations ex_def e = [EXorMany ["c"; "f"]].
Proof. vm_compute. auto. Qed.
