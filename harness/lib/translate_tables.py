"""Translate the live typing tables of /repo into coq/Generated/TypingTables.v (C20, C21).

What is translated (from the modules imported from $VERIF_REPO, on every run, fail closed):
  * the defaults of TypeParser.__init__'s `coercible` / `not_coercible` parameters (these, not the class
    attributes, are what an instance uses), and that they are the COERCIBLE_DEFAULT / NOT_COERCIBLE_DEFAULT
    class attributes; the defaults of `superclass_auto_cast` and `match_any_of_union` (must be False);
  * the builtin `issubclass` matrix over the classes of the model's universe (Model/Typing.v `cls`) plus every
    other class that occurs in one of the two tables (numbered `KExt n`) and the registered classes whose instances
    the drivers generate besides the exact builtins (`KSub n`: str/bytes/int/float/list/tuple/set/frozenset/dict/
    PosixPath subclasses, a str-Enum, numpy.str_/int64/float64), with the builtin each behaves like.
Anything of an unexpected shape raises TranslateError: the check then reports a broken tie instead of
silently using a default.

Run as a module (`python -m harness.lib.translate_tables`) it only writes the file (used by coq/pregen.sh so
that a fresh checkout can be built before the first check run).
"""
import collections.abc
import enum
import inspect
import os
import pathlib
import typing as ty

VERIF = os.path.dirname(os.path.dirname(os.path.dirname(os.path.abspath(__file__))))
OUT = os.path.join(VERIF, "coq", "Generated", "TypingTables.v")


class TranslateError(Exception):
    pass


def universe():
    """Coq constructor -> live Python class, for the fixed part of the model's class universe."""
    from pathlib import Path
    from fileformats import generic, text, core
    from pydra.utils.typing import MultiInputObj
    return [
        ("CNone", type(None)), ("CBool", bool), ("CInt", int), ("CFloat", float), ("CStr", str),
        ("CBytes", bytes), ("CPath", Path),
        ("(CFile FFile)", generic.File), ("(CFile FText)", text.TextFile), ("(CFile FDir)", generic.Directory),
        ("CList", list), ("CTuple", tuple), ("CSet", set), ("CFrozenset", frozenset), ("CDict", dict),
        ("CMulti", MultiInputObj),
        ("KSequence", ty.Sequence), ("KSetAbc", collections.abc.Set), ("KMapping", ty.Mapping),
        ("KPathLike", os.PathLike), ("KIterable", ty.Iterable), ("KFileSet", core.FileSet),
    ]


# ---------------------------------------------------------------- registered classes values can have (KSub n)
class StrSub(str):
    pass


class Colour(str, enum.Enum):
    RED = "red"
    A_B = "a-b"


class BytesSub(bytes):
    pass


class IntSub(int):
    pass


class FloatSub(float):
    pass


class ListSub(list):
    pass


class TupleSub(tuple):
    pass


class SetSub(set):
    pass


class FrozensetSub(frozenset):
    pass


class DictSub(dict):
    pass


class PathSub(pathlib.PosixPath):
    pass


def registered():
    """(name, class, Coq class of the builtin whose behaviour its instances have) — KSub n by position.
    Subclasses of the modelled builtins, plus numpy scalars (numpy.int64 behaves like an int without being one)."""
    out = [("StrSub", StrSub, "CStr"), ("Colour", Colour, "CStr"), ("BytesSub", BytesSub, "CBytes"),
           ("IntSub", IntSub, "CInt"), ("FloatSub", FloatSub, "CFloat"), ("ListSub", ListSub, "CList"),
           ("TupleSub", TupleSub, "CTuple"), ("SetSub", SetSub, "CSet"), ("FrozensetSub", FrozensetSub, "CFrozenset"),
           ("DictSub", DictSub, "CDict"), ("PathSub", PathSub, "CPath")]
    try:
        import numpy
        out += [("numpy.str_", numpy.str_, "CStr"), ("numpy.int64", numpy.int64, "CInt"),
                ("numpy.float64", numpy.float64, "CFloat")]
    except ImportError:
        pass
    return out


def _real(c):
    """The class `issubclass` can take as its first argument (typing aliases -> their origin)."""
    o = ty.get_origin(c)
    return o if o is not None else c


def _is_classlike(c):
    return inspect.isclass(c) or (ty.get_origin(c) is not None and inspect.isclass(ty.get_origin(c))
                                  and not ty.get_args(c))


def translate():
    from pydra.utils.typing import TypeParser
    sig = inspect.signature(TypeParser.__init__)
    try:
        coercible = sig.parameters["coercible"].default
        not_coercible = sig.parameters["not_coercible"].default
        sac = sig.parameters["superclass_auto_cast"].default
        many = sig.parameters["match_any_of_union"].default
    except KeyError as e:
        raise TranslateError("TypeParser.__init__ lost parameter %s" % e)
    if coercible is not TypeParser.COERCIBLE_DEFAULT or not_coercible is not TypeParser.NOT_COERCIBLE_DEFAULT:
        raise TranslateError("TypeParser.__init__ defaults are no longer the *_DEFAULT class attributes")
    if sac is not False or many is not False:
        raise TranslateError("superclass_auto_cast / match_any_of_union no longer default to False")
    uni = universe()
    names = {}                     # id(class) -> coq name  (identity, as `is` in the implementation)
    objs = []
    for n, c in uni:
        names[id(c)] = n
        objs.append((n, c))
    subs = registered()
    for i, (_, c, _shape) in enumerate(subs):
        names[id(c)] = "(KSub %d)" % i
        objs.append(("(KSub %d)" % i, c))
    ext = []

    def name_of(c):
        if c is ty.Any:
            return "KAny"
        if id(c) in names:
            return names[id(c)]
        if not _is_classlike(c):
            raise TranslateError("table entry %r is neither a class nor a bare typing alias" % (c,))
        n = "(KExt %d)" % len(ext)
        ext.append(c)
        names[id(c)] = n
        objs.append((n, c))
        return n

    def table(t, what):
        if not isinstance(t, (tuple, list)):
            raise TranslateError("%s is not a tuple/list: %r" % (what, type(t)))
        out = []
        for e in t:
            if not (isinstance(e, tuple) and len(e) == 2):
                raise TranslateError("%s entry %r is not a pair" % (what, e))
            out.append((name_of(e[0]), name_of(e[1])))
        return out

    co = table(coercible, "coercible")
    nco = table(not_coercible, "not_coercible")
    rows = []
    for n, a in objs:
        ra = _real(a)
        row = []
        for m, b in objs:
            try:
                r = issubclass(ra, b)
            except TypeError as e:
                raise TranslateError("issubclass(%r, %r) raised %s" % (ra, b, e))
            if r:
                row.append(m)
        rows.append((n, row))
    # builtin facts the model's dispatch on the *kind* of pattern relies on (Model/Typing.v `coerce`, `check`)
    d = dict(rows)
    expect = [("CDict", "KMapping", True), ("CList", "KMapping", False), ("CTuple", "KMapping", False),
              ("CSet", "KMapping", False), ("CFrozenset", "KMapping", False), ("CMulti", "KMapping", False),
              ("CTuple", "CTuple", True), ("CList", "CTuple", False), ("CSet", "CTuple", False),
              ("CFrozenset", "CTuple", False), ("CDict", "CTuple", False), ("CMulti", "CTuple", False),
              ("CList", "KIterable", True), ("CSet", "KIterable", True), ("CFrozenset", "KIterable", True),
              ("CTuple", "KIterable", True), ("CDict", "KIterable", True), ("CMulti", "KIterable", True),
              ("CMulti", "CList", True)]
    for a, b, want in expect:
        if (b in d[a]) != want:
            raise TranslateError("builtin class relation changed: issubclass(%s, %s) is %s" % (a, b, not want))
    return {"rows": rows, "coercible": co, "not_coercible": nco,
            "subs": [(n, shape) for n, _, shape in subs],
            "ext": ["%s.%s" % (getattr(c, "__module__", "?"), getattr(c, "__qualname__", repr(c))) for c in ext]}


def render(t):
    def pairs(l):
        return "[" + "; ".join("(%s, %s)" % p for p in l) + "]"
    lines = ["(* GENERATED on every run by harness/lib/translate_tables.py from the live pydra.utils.typing — do not edit. *)",
             "From Pydra Require Import Base.Prelude Model.Typing.", ""]
    for i, n in enumerate(t["ext"]):
        lines.append("(* KExt %d = %s *)" % (i, n))
    lines.append("Definition live_rows : list (cls * list cls) :=\n  [" + ";\n   ".join(
        "(%s, [%s])" % (n, "; ".join(r)) for n, r in t["rows"]) + "].")
    lines.append("Definition live_coercible : list (cls * cls) :=\n  " + pairs(t["coercible"]) + ".")
    lines.append("Definition live_not_coercible : list (cls * cls) :=\n  " + pairs(t["not_coercible"]) + ".")
    for i, (n, shape) in enumerate(t["subs"]):
        lines.append("(* KSub %d = %s (behaves like %s) *)" % (i, n, shape))
    lines.append("Definition live_subs : list cls :=\n  [" + "; ".join(shape for _, shape in t["subs"]) + "].")
    lines.append("Definition live : tables :=\n  {| t_rows := live_rows; t_coercible := live_coercible; "
                 "t_not_coercible := live_not_coercible; t_subs := live_subs |}.")
    lines.append("Definition n_ext : nat := %d." % len(t["ext"]))
    return "\n".join(lines) + "\n"


def write(path=OUT):
    """Translate and write; the file is replaced only when its text changes (so make does not rebuild)."""
    txt = render(translate())
    os.makedirs(os.path.dirname(path), exist_ok=True)
    try:
        with open(path) as f:
            if f.read() == txt:
                return path, False
    except OSError:
        pass
    tmp = path + ".tmp%d" % os.getpid()
    with open(tmp, "w") as f:
        f.write(txt)
    os.replace(tmp, path)
    return path, True


if __name__ == "__main__":
    p, changed = write()
    print("%s %s" % (p, "written" if changed else "unchanged"))
