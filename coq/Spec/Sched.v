(* Spec/Sched.v — what C14-C17 demand of an execution, stated on the workflow graph and on the
   start/finish event log only.  Nothing here mentions polls, status sets, futures or oracles. *)
From Pydra Require Import Base.Prelude Base.SchedBase.
Local Open Scope nat_scope.

(* ------------------------------------------------------------------ graphs *)
(* nodes listed so that every predecessor comes strictly earlier; node ids pairwise distinct *)
Fixpoint topo_b (seen : list nat) (g : graph) : bool :=
  match g with
  | [] => true
  | nd :: r => forallb (fun p => mem_nat p seen) (npreds nd) && negb (mem_nat (nid nd) seen)
               && topo_b (nid nd :: seen) r
  end.
Definition wf_graph (g : graph) : Prop := topo_b [] g = true.

(* the jobs whose outputs job (n, _) consumes: every job of every predecessor node of n *)
Definition node_jobs (g : graph) (n : nat) : list job := map (fun i => (n, i)) (seq 0 (njobs_of g n)).
Definition upstream_jobs (g : graph) (n : nat) : list job :=
  match find_node g n with
  | Some nd => flat_map (node_jobs g) (npreds nd)
  | None => []
  end.

Definition launches_of (log : list event) : list job :=
  flat_map (fun e => match e with ELaunch j => [j] | _ => [] end) log.
Definition finishes_of (log : list event) : list job :=
  flat_map (fun e => match e with EFinish j _ => [j] | _ => [] end) log.
Definition failures_of (log : list event) : list job :=
  flat_map (fun e => match e with EFinish j false => [j] | _ => [] end) log.

(* ------------------------------------------------------------------ C15 *)
(* every start of a job is preceded by the successful completion of every job it consumes *)
Definition starts_after_upstream (g : graph) (log : list event) : Prop :=
  forall l1 j l2, log = l1 ++ ELaunch j :: l2 ->
  forall q, In q (upstream_jobs g (fst j)) -> In (EFinish q true) l1.
Definition at_most_once (log : list event) : Prop := NoDup (launches_of log).
Definition every_job_once (g : graph) (log : list event) : Prop :=
  NoDup (launches_of log) /\ (forall j, In j (all_jobs g) <-> In j (launches_of log))
  /\ (forall j, In j (all_jobs g) -> In (EFinish j true) log).

(* executable versions (evaluated on the observed log of the implementation) *)
Fixpoint safe_log_b (g : graph) (done : list job) (log : list event) : bool :=
  match log with
  | [] => true
  | ELaunch j :: r => forallb (fun q => mem_job q done) (upstream_jobs g (fst j)) && safe_log_b g done r
  | EFinish j true :: r => safe_log_b g (j :: done) r
  | EFinish j false :: r => safe_log_b g done r
  end.
Fixpoint nodup_jobs_b (l : list job) : bool :=
  match l with [] => true | j :: r => negb (mem_job j r) && nodup_jobs_b r end.
Definition every_job_once_b (g : graph) (log : list event) : bool :=
  nodup_jobs_b (launches_of log)
  && forallb (fun j => mem_job j (launches_of log)) (all_jobs g)
  && forallb (fun j => mem_job j (all_jobs g)) (launches_of log)
  && forallb (fun j => existsb (fun e => match e with EFinish j' true => job_eqb j j' | _ => false end) log) (all_jobs g).

(* ------------------------------------------------------------------ C14 *)
Section Failures.
Variable g : graph.
Variable fails : job -> bool.       (* the jobs whose body raises *)

Inductive ancestor : nat -> nat -> Prop :=
| anc_pred : forall nd p, In nd g -> In p (npreds nd) -> ancestor p (nid nd)
| anc_trans : forall a b c, ancestor a b -> ancestor b c -> ancestor a c.
Definition has_fail (a : nat) : Prop := exists i, i < njobs_of g a /\ fails (a, i) = true.
(* node n is downstream of a failing job *)
Definition downstream_of_failure (n : nat) : Prop := exists a, ancestor a n /\ has_fail a.
Definition should_run (j : job) : Prop := In j (all_jobs g) /\ ~ downstream_of_failure (fst j).
Definition should_fail (j : job) : Prop := should_run j /\ fails j = true.

(* executable: one pass over the (topologically ordered) node list *)
Definition has_fail_b (a : nat) : bool := existsb (fun i => fails (a, i)) (seq 0 (njobs_of g a)).
Fixpoint tainted_nodes (nodes : list node) (acc : list nat) : list nat :=
  match nodes with
  | [] => acc
  | nd :: r =>
      if existsb (fun p => mem_nat p acc || has_fail_b p) (npreds nd)
      then tainted_nodes r (nid nd :: acc) else tainted_nodes r acc
  end.
Definition tainted_b (n : nat) : bool := mem_nat n (tainted_nodes g []).
Definition should_run_b (j : job) : bool := mem_job j (all_jobs g) && negb (tainted_b (fst j)).
Definition should_fail_b (j : job) : bool := should_run_b j && fails j.

(* what C14 demands of a finished run: executed = not downstream of a failure; the error names
   exactly the jobs that failed *)
Definition c14_outcome (executed errors : list job) : Prop :=
  (forall j, In j executed <-> should_run j) /\ (forall j, In j errors <-> should_fail j).
Definition c14_outcome_b (executed errors : list job) : bool :=
  forallb should_run_b executed && forallb (fun j => mem_job j executed) (filter should_run_b (all_jobs g))
  && forallb should_fail_b errors && forallb (fun j => mem_job j errors) (filter should_fail_b (all_jobs g)).
End Failures.

(* ------------------------------------------------------------------ C16 *)
Definition count_launch (log : list event) : nat := List.length (launches_of log).
Definition count_finish (log : list event) : nat := List.length (finishes_of log).
(* at every instant (after every prefix of the log) at most k jobs are started and not finished *)
Definition concurrency_bounded (k : nat) (log : list event) : Prop :=
  forall l1 l2, log = l1 ++ l2 -> count_launch l1 <= count_finish l1 + k.
Fixpoint peak_from (live : nat) (log : list event) : nat :=
  match log with
  | [] => live
  | ELaunch _ :: r => Nat.max live (peak_from (S live) r)
  | EFinish _ _ :: r => Nat.max live (peak_from (pred live) r)
  end.
Definition peak (log : list event) : nat := peak_from 0 log.

(* ------------------------------------------------------------------ C17 *)
Section Values.
Variable V : Type.
Variable body : nat -> nat -> list (list (option V)) -> V.
(* reference semantics: evaluate the nodes in dependency order; job (n, i) gets, per predecessor
   node, the list of the outputs of that node's jobs *)
Fixpoint env_lookup (j : job) (env : list (job * V)) : option V :=
  match env with
  | [] => None
  | (j', v) :: r => if job_eqb j j' then Some v else env_lookup j r
  end.
Definition ref_inputs (g : graph) (env : list (job * V)) (nd : node) : list (list (option V)) :=
  map (fun p => map (fun i => env_lookup (p, i) env) (seq 0 (njobs_of g p))) (npreds nd).
Fixpoint ref_eval (g : graph) (nodes : list node) (env : list (job * V)) : list (job * V) :=
  match nodes with
  | [] => env
  | nd :: r =>
      let ins := ref_inputs g env nd in
      ref_eval g r (env ++ map (fun i => ((nid nd, i), body (nid nd) i ins)) (seq 0 (njobs nd)))
  end.
Definition reference (g : graph) : list (job * V) := ref_eval g g [].
Definition reference_outputs (g : graph) : list (list (option V)) :=
  map (fun nd => map (fun i => env_lookup (nid nd, i) (reference g)) (seq 0 (njobs nd))) g.
End Values.
