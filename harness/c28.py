"""C28 — batch-scheduler workers follow the scheduler's verdict
(pydra/workers/slurm.py SlurmWorker.run/_poll_job/_verify_exit_code, pydra/workers/sge.py _verify_exit_code)."""
import ast
import asyncio
import inspect
import itertools
import os
import re
import shutil
import tempfile
import types
from pathlib import Path

from .lib import coqio
from .lib.runner import Outcome, Failure

PROP = "C28"
PROPS_FILE = "Props/C28.v"
MANIFEST = dict(
    text="Coq theorems, closed under the global context. C28_slurm_verdict_raw: the verdict on RAW scheduler text (sacct "
         "stdout parsed by an exact model of _sacct_re) for every stream of printed accounting lines; C28_options_general: "
         "for EVERY clean token list in the handled option forms (computable forms_ok) the sbatch vector is the user's "
         "tokens, the worker's default for exactly the options the user did not give, then the script. "
         "C28_slurm_verdict: for EVERY pair of squeue/sacct answer "
         "streams and every error file, when requeueing is allowed the model of SlurmWorker.run reports complete iff the "
         "first decisive report is COMPLETED with exit 0, failed iff it is another final state, issues exactly one "
         "'scontrol requeue' per cancellation/timeout/preemption before it and never fails because of one "
         "(C28_interrupted_never_failed); C28_slurm_verdict_norequeue + C28_refuted_norequeue_reported_complete: with "
         "--no-requeue an interrupted job is reported complete (known finding F28d). Options: C28_sbatch_argv_shape (user "
         "tokens first and untouched, defaults only where the regexes found nothing, script last, for every argument "
         "string), C28_refuted_cancelled_by (untruncated 'CANCELLED by <uid>' read as status <uid>: F28e), "
         "C28_refuted_option_form ('--job-name name', '-Jname' get a second option appended: F28c). "
         "C28_pinned_refuted_user_error_option: the pinned tree crashed on a user -e/--error (fixed by a fix: commit). "
         "C28_sge_verify: SgeWorker._verify_exit_code on every list of accounting records. SgeWorker.run itself cannot "
         "run on this tree (known finding F28b). Model tied to the code on every run with a scripted scheduler "
         "(read_and_display_async patched).",
    note="Partial: 'and its result exists' is decided at the submitter level (C15), not in the worker; option forms "
         "outside forms_ok are the known finding F28c; SGE run/_rerun_job_array not modelled (they cannot execute).",
    technique="Coq proof (induction over the answer streams: two-stream polling loop refines classify-then-decide; "
              "regex scanner inverts the accounting-line printer; look-behind option search characterised token by token) + model/impl correspondence with a scripted scheduler",
    design="§8 Group G / C28",
)
TIE_NAME = "Model.Batch.slurm_run / sge_verify vs SlurmWorker.run / SgeWorker._verify_exit_code (scripted scheduler)"
TRUSTED = [
    "Model/Batch.v: hand-written model of SlurmWorker.run/_poll_job/_verify_exit_code (option regexes, str.split, "
    "substring tests, str.replace, first-digits search modelled exactly on ASCII) and of SgeWorker._verify_exit_code",
    "the sacct regex (_sacct_re) is modelled exactly as a backtracking scanner (parse_sacct) and fed the raw stdout text; "
    "the SGE stderr regex is not modelled ('error: job id N not found' rendered by the harness)",
    "the status lists are read from the live source by ast (fail closed) and passed to the model; the theorems hold for "
    "any lists that agree with the statement's classes (lists_agree), which is evaluated on the live lists each run",
    "side effects of the requeue branch (lock-file removal) and _prepare_runscripts are not modelled",
]
ASSUMPTIONS = ["scheduler output and sbatch_args are ASCII", "the scheduler is simulated: no sbatch/squeue/sacct/qacct is ever executed"]
RULE = ("SLURM: every sequence of poll reports of length <= 3 (quick) / <= 4 (thorough) over the 7-report alphabet "
        "(queued, accounting RUNNING/PENDING, COMPLETED 0, COMPLETED non-zero / FAILED / NODE_FAIL / OUT_OF_MEMORY, "
        "CANCELLED / TIMEOUT / PREEMPTED, no accounting, unreadable accounting), plus sampled longer sequences, crossed "
        "with sampled user-option combinations (each of -J/-o/-e absent / '-X v' / '--long=v' / unrecognised forms, other "
        "tokens, --no-requeue), error-file contents and sbatch answers; a raw stream of adversarial sbatch_args strings; "
        "SGE: qacct answers built from accounting records. Non-trivial = at least two polls and a decisive report, or a "
        "user option present; distinct by (args, reports, error file). Round 3: half of the job directories already hold files when "
        "run() starts (a stale _result.pklz, errored or not, _error.pklz, other leftovers), with rerun True/False")

STATES_INTERRUPTED = ["CANCELLED", "TIMEOUT", "PREEMPTED"]
STATES_ACTIVE = ["RUNNING", "PENDING"]
# report alphabet: (kind, status, exit code)
ALPHABET = [("queue", None, None), ("acct", "RUNNING", 0), ("acct", "COMPLETED", 0), ("acct", "FAILED", 1),
            ("acct", "CANCELLED", 0), ("none", None, None), ("garbage", None, None)]
MORE = [("acct", "PENDING", 0), ("acct", "COMPLETED", 137), ("acct", "NODE_FAIL", 0), ("acct", "OUT_OF_MEMORY", 125),
        ("acct", "TIMEOUT", 0), ("acct", "PREEMPTED", 0), ("acct", "CANCELLED", 15), ("acct", "BOOT_FAIL", 1),
        ("queue_loaderr", None, None), ("acct", "DEADLINE", 0), ("acct", "RUNNING", 1)]
# what the job directory already holds when run() starts (an earlier run being re-run, a crashed run, leftovers)
STALE = ["none", "none", "result", "result", "result+errored", "error", "result+error", "leftovers", "result+leftovers"]
ERRFILES = [None, ["Traceback (most recent call last):", "ValueError: bad input", ""],
            ["x", "Exception: boom", ""], ["just one line"], ["a", "nothing special here", ""],
            ["Exception: not the last", "RuntimeError: Exception: nested", ""], ["", ""]]


class ScriptExhausted(BaseException):
    pass


def live_lists():
    """The status lists in the live source, by ast (fail closed)."""
    from pydra.workers import slurm
    out = {}
    for fn in ("_verify_exit_code", "run"):
        src = inspect.getsource(getattr(slurm.SlurmWorker, fn))
        tree = ast.parse("class X:\n" + src if src.startswith("    ") else src)
        lists = []
        for node in ast.walk(tree):
            if isinstance(node, ast.Compare) and len(node.ops) == 1 and isinstance(node.ops[0], ast.In) \
                    and isinstance(node.comparators[0], ast.List):
                elts = node.comparators[0].elts
                if not all(isinstance(e, ast.Constant) and isinstance(e.value, str) for e in elts):
                    raise RuntimeError("C28: non-literal status list in SlurmWorker.%s" % fn)
                lists.append([e.value for e in elts])
        out[fn] = lists
    if len(out["_verify_exit_code"]) != 2 or len(out["run"]) != 1:
        raise RuntimeError("C28: unexpected status lists in the live source: %r" % out)
    return dict(requeue_verify=out["_verify_exit_code"][0], active=out["_verify_exit_code"][1], requeue_run=out["run"][0])


# ------------------------------------------------------------------ generators
def gen_items(rng, tmp, allow_bad=True):
    items = []
    kinds = [k for k in ("J", "o", "e") if rng.random() < 0.5]
    rng.shuffle(kinds)
    for k in kinds:
        r = rng.random()
        form = "short" if r < 0.4 else "long" if r < 0.8 else rng.choice(["longspace", "attached", "dblspace"]) if allow_bad else "short"
        if k == "J":
            v = rng.choice(["myjob", "a.b-1", "x"])
        else:
            v = os.path.join(tmp, rng.choice(["u-%j", "user", "%j.log"]) + (".out" if k == "o" else ".err"))
        items.append(["opt", k, form, v])
    for _ in range(rng.choice([0, 0, 1, 2])):
        items.insert(rng.randrange(len(items) + 1), ["other", rng.choice(["--time=10", "-N 2", "--mem=4G", "-p debug", "--exclusive"])])
    if rng.random() < 0.3:
        items.insert(rng.randrange(len(items) + 1), ["other", "--no-requeue"])
    return items


LONG = {"J": "--job-name", "o": "--output", "e": "--error"}


def render_items(items):
    parts = []
    for it in items:
        if it[0] == "other":
            parts.append(it[1])
        else:
            _, k, form, v = it
            parts.append({"short": "-%s %s" % (k, v), "long": "%s=%s" % (LONG[k], v), "longspace": "%s %s" % (LONG[k], v),
                          "attached": "-%s%s" % (k, v), "dblspace": "-%s  %s" % (k, v)}[form])
    return " ".join(parts)


def unrecognised(items):
    return any(it[0] == "opt" and it[2] not in ("short", "long") for it in items or [])


FORMS = ["std", "std", "std", "trunc", "extra", "lead", "wide", "multi", "tab_after"]


def render_acct(st, code, form, jobid="123"):
    """Raw sacct stdout for a job in state st with exit code `code`, in one of the layouts sacct can produce."""
    shown = st
    if form == "trunc" and len(st) >= 9:
        shown = st[:9] + "+"                      # State column is 10 wide: CANCELLED by 1000 -> CANCELLED+
    if form == "by":
        shown = st + " by 1000"                   # untruncated (State%%20): only meaningful for CANCELLED
    line = "%-12s %-10s %3d:0 " % (jobid, shown, code) if form in ("wide", "by") else "%s    %s    %d:0" % (jobid, shown, code)
    if form == "extra":
        line += "   00:00:03  node17"
    if form == "lead":
        line = "   " + line
    if form == "multi":
        line += "\n%s.batch    %s    %d:0" % (jobid, shown, code)
    if form == "tab_after":
        line += "\t"
    return line + "\n"


def render_report(r, jobid="123"):
    kind, st, code = r[0], r[1], r[2]
    form = r[3] if len(r) > 3 else "std"
    if kind == "queue":
        return ("queue", ("  %s debug add.x user R 0:01 1 node1\n" % jobid, ""))
    if kind == "queue_loaderr":
        return ("queue", ("", "slurm_load_jobs error: Invalid job id specified\n"))
    sq = ("", "")
    if kind == "none":
        return ("acct", sq, "")
    if kind == "garbage":
        return ("acct", sq, "sacct: error: no such cluster\n" if form != "nostatus" else "%s    0:0\n" % jobid)
    return ("acct", sq, render_acct(st, code, form, jobid))


def first_decisive(reports, requeue_allowed):
    for rep in reports:
        kind, st, code = rep[0], rep[1], rep[2]
        if kind in ("queue",):
            continue
        if kind == "queue_loaderr":
            continue      # a load error sends the worker to the accounting, which this generator answers next
        if kind == "acct":
            if st == "COMPLETED" and code == 0:
                return "succeeded"
            if st in STATES_INTERRUPTED:
                if requeue_allowed:
                    continue
                return "interrupted"
            if st in STATES_ACTIVE:
                continue
            return "broke"
        return kind
    return None


# ------------------------------------------------------------------ implementation runs
class Harness:
    def __init__(self, work):
        from pydra.compose import python
        from pydra.engine.job import Job
        from pydra.engine.submitter import Submitter

        @python.define
        def Add28(a: int) -> int:
            return a + 1

        self.work = Path(work)
        self.job = Job(task=Add28(a=1), submitter=Submitter(cache_root=self.work / "cache"), name="add28")

    def stage_job_dir(self, stale):
        """What the job directory holds before run() starts (round 3): nothing, or leftovers of an earlier run."""
        from pydra.engine.job import save
        from pydra.engine.result import Result
        d = self.job.cache_dir
        shutil.rmtree(d, ignore_errors=True)
        if not stale or stale == "none":
            return
        d.mkdir(parents=True, exist_ok=True)
        if "result" in stale:
            try:
                save(d, result=Result(output=None, runtime=None, errored=("errored" in stale), task=None))
            except Exception:
                (d / "_result.pklz").write_bytes(b"stale")
            if not (d / "_result.pklz").exists():
                (d / "_result.pklz").write_bytes(b"stale")
        if "error" in stale:
            (d / "_error.pklz").write_bytes(b"stale error")
        if "leftovers" in stale:
            (d / "out.txt").write_text("old output\n")
            (d / "_job.pklz").write_bytes(b"old")

    def run_slurm(self, args, sbatch, reports, errfile, stale=None, rerun=False):
        """reports: list of rendered (kind, squeue answer[, sacct stdout]); returns observation dict."""
        from pydra.workers import base, slurm
        worker = slurm.SlurmWorker(sbatch_args=args, poll_delay=0)
        self.stage_job_dir(stale)
        calls = []
        sq = [r[1] for r in reports]
        sa = [r[2] for r in reports if r[0] == "acct"]
        state = {"errpath": None, "errfile": errfile}

        async def fake(*cmd, hide_display=False, strip=False):
            if (cmd[0] == "squeue" and not sq) or (cmd[0] == "sacct" and not sa):
                raise ScriptExhausted()        # the scheduler stopped answering: this call is not part of the trace
            calls.append([str(c) for c in cmd])
            if cmd[0] == "sbatch":
                return (sbatch[0], sbatch[1], "submit failed\n" if sbatch[0] else "")
            if cmd[0] == "squeue":
                out, err = sq.pop(0)
                return (0, out, err)
            if cmd[0] == "sacct":
                jobid = cmd[4]
                p = worker.error.get(jobid)
                state["errpath"] = p
                if p is not None:
                    # only ever touch files under the run's temp dir; any other path is left alone (normally absent)
                    inside = os.path.isabs(p) and os.path.normpath(p).startswith(str(self.work) + os.sep)
                    state["errfile"] = errfile if inside else (None if not os.path.exists(p) else "?")
                    if inside:
                        try:
                            if errfile is None:
                                if os.path.exists(p):
                                    os.unlink(p)
                            else:
                                os.makedirs(os.path.dirname(p), exist_ok=True)
                                with open(p, "w") as f:
                                    f.write("\n".join(errfile))
                        except OSError:
                            state["errfile"] = "?"      # the harness cannot stage this path (e.g. a file where a directory is needed)
                return (0, sa.pop(0), "")
            return (0, "", "")

        orig = base.read_and_display_async
        base.read_and_display_async = fake
        try:
            try:
                res = asyncio.run(worker.run(self.job, rerun=rerun))
                verdict = ["complete"] if res is True else ["other", repr(res)]
            except ScriptExhausted:
                verdict = ["polling"]
            except RuntimeError as e:
                m = str(e)
                verdict = (["info_missing"] if "Job information not found" in m else ["submit_error"] if "Error returned from sbatch" in m
                           else ["no_jobid"] if "Could not extract job ID" in m else ["other", "RuntimeError: " + m[:100]])
            except AttributeError as e:
                verdict = ["unparsable"] if "'group'" in str(e) else ["crash"] if "'replace'" in str(e) else ["other", "AttributeError: %s" % e]
            except (OSError, IndexError):
                verdict = ["errfile_unreadable"]
            except Exception as e:
                verdict = ["failed", str(e)] if type(e) is Exception else ["other", "%s: %s" % (type(e).__name__, str(e)[:100])]
        finally:
            base.read_and_display_async = orig
            shutil.rmtree(self.job.cache_dir, ignore_errors=True)
        uid = self.job.uid
        script_dir = str(self.job.cache_root / "slurm_scripts" / uid)
        return dict(calls=calls, verdict=verdict, errpath=state["errpath"], errfile=state["errfile"],
                    ctx=dict(args=args, default_name="%s.%s" % (self.job.name, uid), script_dir=script_dir,
                             batch_script=str(Path(script_dir) / ("batchscript_%s.sh" % uid))))

    def run_sge_verify(self, a1, a2):
        from pydra.workers import base, sge
        answers = [a1, a2]
        calls = []

        async def fake(*cmd, hide_display=False, strip=False):
            calls.append(list(cmd))
            a = answers.pop(0)
            return (0, "".join(l + "\n" for l in a["lines"]), a["stderr"])

        async def nosleep(_):
            return None

        orig, orig_asyncio = base.read_and_display_async, sge.asyncio
        base.read_and_display_async = fake
        sge.asyncio = types.SimpleNamespace(sleep=nosleep)
        try:
            res = asyncio.run(sge.SgeWorker()._verify_exit_code("123"))
        finally:
            base.read_and_display_async = orig
            sge.asyncio = orig_asyncio
        return {False: "SgePending", "ERRORED": "SgeErrored", True: "SgeDone"}.get(res, "other:%r" % (res,)), len(calls)

    def run_sge_run(self):
        from pydra.workers import base, sge

        async def fake(*cmd, hide_display=False, strip=False):
            return (0, "Your job-array 77.1-1:1 has been submitted\n", "")

        async def nosleep(_):
            return None

        orig, orig_asyncio = base.read_and_display_async, sge.asyncio
        base.read_and_display_async = fake
        sge.asyncio = types.SimpleNamespace(sleep=nosleep, **{k: getattr(asyncio, k) for k in ("gather", "create_task") if hasattr(asyncio, k)})
        try:
            try:
                asyncio.run(asyncio.wait_for(sge.SgeWorker(collect_jobs_delay=0, poll_delay=0).run(self.job), 20))
                return None
            except Exception as e:
                return "%s: %s" % (type(e).__name__, str(e)[:200])
        finally:
            base.read_and_display_async = orig
            sge.asyncio = orig_asyncio


# ------------------------------------------------------------------ Coq encoding
def enc_ctx(c):
    return "{| sc_args := %s; sc_default_name := %s; sc_script_dir := %s; sc_batch_script := %s |}" % (
        coqio.string(c["args"]), coqio.string(c["default_name"]), coqio.string(c["script_dir"]), coqio.string(c["batch_script"]))


def enc_sched(sbatch, pairs, errfile):
    """pairs: list of (raw report, rendered poll). sacct answers are given to Coq as the raw stdout text."""
    sq = coqio.lst(["{| sq_stdout := %s; sq_stderr := %s |}" % (coqio.string(r[1][0]), coqio.string(r[1][1])) for _, r in pairs])
    sa = [coqio.string(r[2]) for _, r in pairs if r[0] == "acct"]
    ef = "None" if errfile is None else "(Some %s)" % coqio.lst([coqio.string(l) for l in errfile])
    return "{| sb_rc := %s; sb_stdout := %s; s_squeue := %s; s_sacct := %s; s_errfile := %s |}" % (
        coqio.nat(sbatch[0]), coqio.string(sbatch[1]), sq, coqio.lst(sa), ef)


def enc_intended(pairs):
    """What each accounting text says (state word, exit code), as the harness wrote it."""
    sa = []
    for raw, r in pairs:
        if r[0] != "acct":
            continue
        kind, st, code = raw[0], raw[1], raw[2]
        form = raw[3] if len(raw) > 3 else "std"
        if kind == "none":
            sa.append("SaNone")
        elif kind == "garbage":
            sa.append("SaGarbage" if form != "nostatus" else "(SaLine %s %s)" % (coqio.string(""), coqio.nat(0)))
        else:
            sa.append("(SaLine %s %s)" % (coqio.string(st), coqio.nat(code)))
    return coqio.lst(sa)


def enc_verdict(v):
    return {"complete": "Complete", "polling": "StillPolling", "info_missing": "InfoMissing", "submit_error": "SubmitError",
            "no_jobid": "NoJobId", "unparsable": "Unparsable", "crash": "Crash", "errfile_unreadable": "ErrFileUnreadable"}.get(
        v[0], "(Failed %s)" % coqio.string(v[1]) if v[0] == "failed" else None)


def enc_cmds(calls):
    out = []
    for c in calls[1:]:
        out.append({"squeue": "CSqueue", "sacct": "CSacct", "scontrol": "CRequeue"}[c[0]])
    return coqio.lst(out)


EXTRA_TMPL = """
Definition sl_live : state_lists := {| sl_requeue_verify := %s; sl_active := %s; sl_requeue_run := %s |}.
Definition verdict_eqb (a b : verdict) : bool :=
  match a, b with
  | Complete, Complete | InfoMissing, InfoMissing | Unparsable, Unparsable | ErrFileUnreadable, ErrFileUnreadable
  | SubmitError, SubmitError | NoJobId, NoJobId | Crash, Crash | StillPolling, StillPolling => true
  | Failed x, Failed y => String.eqb x y
  | _, _ => false
  end.
Definition cmd_eqb (a b : cmd) : bool :=
  match a, b with CSqueue, CSqueue | CSacct, CSacct | CRequeue, CRequeue => true | _, _ => false end.
Definition outcome_eqb (a b : outcome) : bool :=
  match a, b with
  | OComplete, OComplete | OFailed, OFailed | OInterruptedNoRequeue, OInterruptedNoRequeue | OInfoMissing, OInfoMissing
  | OUnreadable, OUnreadable | OWaiting, OWaiting => true
  | _, _ => false
  end.
(* ctx, scheduler, user tokens when the arguments were generated from items, observed argv / verdict / commands / error file *)
Definition case_t := (submit_ctx * scheduler * list sacct_ans * option (list string) * (list string * verdict * list cmd * option string))%%type.
Definition tie_ok (c : case_t) : bool :=
  let '(ctx, s, intended, toks, (argv, v, t, ef)) := c in
  let '(margv, mv, mt) := slurm_run sl_live ctx s in
  list_eqb String.eqb margv argv && verdict_eqb mv v && list_eqb cmd_eqb mt t &&
  match ef, first_digits (sb_stdout s) with
  | Some f, Some j => String.eqb (error_file ctx j) f
  | _, _ => true
  end.
Definition spec_verdict_ok (c : case_t) : bool :=
  let '(ctx, s, intended, toks, (argv, v, t, ef)) := c in
  match toks with
  | None => true
  | Some tk =>
      if negb (Nat.eqb (sb_rc s) 0) || match first_digits (sb_stdout s) with None => true | Some _ => false end
      then outcome_eqb (outcome_of v) OFailed
      else let '(o, n) := decide (negb (existsb (String.eqb "--no-requeue") tk)) (reports st0 (s_squeue s) intended) in
           outcome_eqb (outcome_of v) o && Nat.eqb (count_requeues t) n
  end.
Definition spec_options_ok (c : case_t) : bool :=
  let '(ctx, s, intended, toks, (argv, v, t, ef)) := c in
  match toks with
  | None => true
  | Some tk => if forallb (fun k => Nat.leb (occurrences k tk) 1) [KName; KOut; KErr]
               then options_ok tk argv (sc_batch_script ctx) else true
  end.
"""
IMPORTS = ["Model.Batch", "Spec.Batch", "Proofs.Batch"]

SGE_EXTRA = """
Definition sgev_eqb (a b : sge_verdict) : bool :=
  match a, b with SgePending, SgePending | SgeErrored, SgeErrored | SgeDone, SgeDone => true | _, _ => false end.
Definition qcase := (qacct_ans * qacct_ans * option (bool * list qrecord * bool * list qrecord) * sge_verdict)%type.
Definition sge_tie (c : qcase) : bool := let '(a1, a2, r, v) := c in sgev_eqb (sge_verify a1 a2) v.
Definition sge_spec_ok (c : qcase) : bool :=
  let '(a1, a2, r, v) := c in
  match r with
  | None => true
  | Some (nf1, rs1, nf2, rs2) =>
      if forallb clean_record rs1 && forallb clean_record rs2 then
        sgev_eqb v (match rs1 with [] => sge_spec (negb nf2) (map kv rs2) | _ => sge_spec (negb nf1) (map kv rs1) end)
      else true
  end.
"""
RECORDS = [("qname", "all.q"), ("hostname", "node17"), ("failed", "0"), ("failed", "100"), ("failed", "x"), ("exit_status", "0"),
           ("exit_status", "137"), ("failed", "00"), ("failed", "007"), ("jobnumber", "123"), ("failedx", "1"), ("failed", "1"), ("failed", "2"),
           ("failed", "26")]
RAWLINES = ["failed", "failed   37  : qmaster enforced h_rt limit", "  failed 1", "==============", "", "failed\t0", "Failed 1"]


def gen_qans(rng):
    if rng.random() < 0.25:
        recs = []
    else:
        recs = [list(rng.choice(RECORDS)) + [rng.randrange(1, 9)] for _ in range(rng.randrange(1, 6))]
    lines = [k + " " * (pad + 1) + v for k, v, pad in recs]
    raw = False
    if recs and rng.random() < 0.2:
        lines.insert(rng.randrange(len(lines) + 1), rng.choice(RAWLINES))
        raw = True
    nf = rng.random() < 0.25
    stderr = "error: job id 123 not found\n" if nf else rng.choice(["", "", "warning: something\n"])
    return dict(lines=lines, stderr=stderr, records=recs, raw=raw, notfound=nf)


def enc_qans(a):
    return "{| qa_lines := %s; qa_notfound := %s |}" % (coqio.lst([coqio.string(l) for l in a["lines"]]), coqio.boolean(a["notfound"]))


def enc_recs(rs):
    return coqio.lst(["{| q_key := %s; q_pad := %s; q_val := %s |}" % (coqio.string(k), coqio.nat(p), coqio.string(v)) for k, v, p in rs])


# ------------------------------------------------------------------ run
def slurm_cases(ctx, tmp):
    rng = ctx.rng
    maxlen = 4 if ctx.tier == "thorough" else 3
    seqs = [list(s) for n in range(0, maxlen + 1) for s in itertools.product(ALPHABET, repeat=n)]
    exhaustive_n = len(seqs)
    for _ in range(ctx.budget(150, 600)):
        seqs.append([rng.choice(ALPHABET + MORE) for _ in range(rng.randrange(1, 8))])
    cases = []
    for c in ctx.corpus():
        cases.append(c)
    for i, reports in enumerate(seqs):
        # raw layout of every accounting answer (the exhaustive sequences keep the standard layout half of the time)
        reports = [list(r) + [("by" if (r[1] == "CANCELLED" and rng.random() < 0.08) else
                               "nostatus" if (r[0] == "garbage" and rng.random() < 0.3) else
                               rng.choice(FORMS) if (i >= exhaustive_n or rng.random() < 0.5) else "std")] for r in reports]
        items = gen_items(rng, tmp, allow_bad=(i % 5 == 0))
        r = rng.random()
        sbatch = [0, "Submitted batch job 123\n"] if r < 0.9 else [1, ""] if r < 0.94 else [0, "queued\n"] if r < 0.97 else [0, "job 0042 on cluster 7\n"]
        cases.append(dict(items=items, args=render_items(items), sbatch=sbatch, reports=[list(x) for x in reports],
                          errfile=rng.choice(ERRFILES), stale=rng.choice(STALE), rerun=rng.random() < 0.5))
    frag = ["-J", "--job-name=", "-o", "--output=", "-e", "--error=", " ", "  ", "x", "a-e", "my-J", "=", "--no-requeue", "-e ", "-J x",
            os.path.join(tmp, "r-%j.err"), "\t", "--x--error=y", "-N 2"]
    for _ in range(ctx.budget(80, 300)):
        args = "".join(rng.choice(frag) for _ in range(rng.randrange(1, 8))).strip()
        cases.append(dict(items=None, args=args, sbatch=[0, "Submitted batch job 123\n"],
                          reports=[list(rng.choice(ALPHABET)) + [rng.choice(FORMS)] for _ in range(rng.randrange(0, 4))], errfile=rng.choice(ERRFILES)))
    return cases, exhaustive_n


def normalise_reports(reports):
    """('queue_loaderr' means: squeue fails with a load error, so the accounting is consulted) -> rendered polls."""
    out = []
    for r in reports:
        r = tuple(r)
        if r[0] == "queue_loaderr":
            out.append((("acct", "RUNNING", 0, "std"), ("acct", ("", "slurm_load_jobs error: Invalid job id specified\n"), "123    RUNNING    0:0\n")))
        else:
            out.append((r, render_report(r)))
    return out


def by_form(reports):
    return any(len(r) > 3 and r[3] == "by" for r in reports)


def run(ctx):
    lists = live_lists()
    out = Outcome(rule=RULE)
    tmp = tempfile.mkdtemp(prefix="c28-", dir="/tmp")
    dist = {"raw_forms": {}, "slurm_cases": 0, "exhaustive_sequences": 0, "user_option_cases": 0, "unrecognised_form_cases": 0, "no_requeue_cases": 0,
            "raw_args_cases": 0, "sge_verify_cases": 0, "verdicts": {}}
    try:
        h = Harness(tmp)
        cases, exhaustive_n = slurm_cases(ctx, tmp)
        dist["exhaustive_sequences"] = exhaustive_n
        enc, keep, seen = [], [], set()
        for case in cases:
            pairs = normalise_reports(case["reports"])
            rendered = [p[1] for p in pairs]
            obs = h.run_slurm(case["args"], case["sbatch"], rendered, case["errfile"], stale=case.get("stale"), rerun=case.get("rerun", False))
            dist["slurm_cases"] += 1
            dist["job_dir_with_stale_result"] = dist.get("job_dir_with_stale_result", 0) + ("result" in (case.get("stale") or ""))
            dist["job_dir_with_other_leftovers"] = dist.get("job_dir_with_other_leftovers", 0) + (
                (case.get("stale") or "none") not in ("none",) and "result" not in case.get("stale"))
            for r in case["reports"]:
                if r[0] in ("acct", "garbage") and len(r) > 3:
                    dist["raw_forms"][r[3]] = dist["raw_forms"].get(r[3], 0) + 1
            dist["verdicts"][obs["verdict"][0]] = dist["verdicts"].get(obs["verdict"][0], 0) + 1
            if case["items"] is None:
                dist["raw_args_cases"] += 1
            else:
                dist["user_option_cases"] += any(i[0] == "opt" for i in case["items"])
                dist["unrecognised_form_cases"] += unrecognised(case["items"])
                dist["no_requeue_cases"] += any(i == ["other", "--no-requeue"] for i in case["items"])
            if obs["errfile"] == "?":
                dist["skipped_unstageable_error_file"] = dist.get("skipped_unstageable_error_file", 0) + 1
                continue            # the worker's error file cannot be staged by the harness: not a case
            v = enc_verdict(obs["verdict"])
            problems = []
            if v is None:
                # neither complete, nor a failure the worker attributes to the scheduler's report, nor a requeue:
                # the worker did not follow the scheduler's verdict at all on this response sequence -> a failing
                # input of the property itself (C28-r4: KeyError on the first report after a requeue)
                out.failures.append(Failure(
                    case=case, observed=obs, kind="spec", note="worker raised outside the verdict language",
                    expected="complete / failed-with-the-scheduler's-report / requeued, as the response sequence dictates; "
                             "got %r" % (obs["verdict"],)))
                continue
            jid = re.search(r"\d+", case["sbatch"][1])
            jid = jid.group() if jid else None
            for c in obs["calls"][1:]:
                exp = {"squeue": ["squeue", "-h", "-j", jid], "sacct": ["sacct", "-n", "-X", "-j", jid, "-o", "JobID,State,ExitCode"],
                       "scontrol": ["scontrol", "requeue", jid]}.get(c[0])
                if c != exp:
                    problems.append("unexpected scheduler command %r" % (c,))
            if not obs["calls"] or obs["calls"][0][0] != "sbatch":
                problems.append("first command is not sbatch")
            if problems:
                out.failures.append(Failure(case=case, observed=obs, expected="; ".join(problems), kind="tie", note="scheduler commands"))
                continue
            case = dict(case, errfile=obs["errfile"])
            toks = "None" if case["items"] is None else "(Some %s)" % coqio.lst([coqio.string(t) for t in case["args"].split()])
            ef = "None" if obs["errpath"] is None else "(Some %s)" % coqio.string(obs["errpath"])
            enc.append(coqio.pair(enc_ctx(obs["ctx"]), enc_sched(case["sbatch"], pairs, case["errfile"]), enc_intended(pairs), toks,
                                  coqio.pair(coqio.lst([coqio.string(a) for a in obs["calls"][0][1:]]), v, enc_cmds(obs["calls"]), ef)))
            keep.append((case, obs))
            key = (case["args"], repr(case["reports"]), repr(case["errfile"]))
            if key not in seen:
                seen.add(key)
                dec = first_decisive([tuple(r) for r in case["reports"]], True)
                if (len(case["reports"]) >= 2 and dec is not None) or (case["items"] and any(i[0] == "opt" for i in case["items"])):
                    out.distinct_nontrivial += 1
        extra = EXTRA_TMPL % tuple(coqio.lst([coqio.string(s) for s in lists[k]]) for k in ("requeue_verify", "active", "requeue_run"))
        res = coqio.run_cases(ctx.scratch, "c28", IMPORTS, "case_t", enc,
                              {"tie": "tie_ok", "verdict": "spec_verdict_ok", "options": "spec_options_ok"}, extra=extra, shard=150)
        agree = coqio.eval_terms(ctx.scratch, "lists", IMPORTS, ["lists_agreeb sl_live st0"], extra=extra)
        if agree[0] != "true":
            out.failures.append(Failure(case=lists, observed=lists, expected={"interrupted": STATES_INTERRUPTED, "active": STATES_ACTIVE},
                                        kind="tie", note="the status lists in slurm.py no longer say what the statement's classes say "
                                                         "(hypothesis lists_agree of C28_slurm_verdict)"))
        out.evaluations = len(enc)
        for i in res["tie"][:10]:
            case, obs = keep[i]
            out.failures.append(Failure(case=case, observed={"argv": obs["calls"][0], "verdict": obs["verdict"], "cmds": [c[0] for c in obs["calls"][1:]],
                                                             "error_file": obs["errpath"]},
                                        expected=model_value(ctx, extra, case, obs, "t%d" % i), kind="tie", note="model/impl"))
        for i in res["verdict"][:40]:
            case, obs = keep[i]
            norq = any(it == ["other", "--no-requeue"] for it in case["items"])
            dec = first_decisive([tuple(r) for r in case["reports"]], not norq)
            finding = ("F28d" if (norq and dec == "interrupted" and obs["verdict"] == ["complete"]) else
                       "F28e" if by_form(case["reports"]) else None)
            out.failures.append(Failure(case=case, observed={"verdict": obs["verdict"], "cmds": [c[0] for c in obs["calls"][1:]]},
                                        expected={"first_decisive_report": dec, "requeue_allowed": not norq}, kind="spec", finding=finding,
                                        note=("--no-requeue: interrupted job reported complete" if finding == "F28d" else
                                              "untruncated 'CANCELLED by <uid>' read as status <uid>" if finding == "F28e" else
                                              "verdict does not follow the scheduler's reports")))
        for i in res["options"][:40]:
            case, obs = keep[i]
            finding = "F28c" if unrecognised(case["items"]) else None
            out.failures.append(Failure(case=case, observed={"sbatch": obs["calls"][0]}, expected="user tokens kept; job-name, output, error each exactly once",
                                        kind="spec", finding=finding,
                                        note="option form not recognised: duplicated" if finding else "user options duplicated or broken"))
        # ---- SGE
        qenc, qkeep = [], []
        rng = ctx.rng
        for _ in range(ctx.budget(150, 600)):
            a1, a2 = gen_qans(rng), gen_qans(rng)
            verdict, ncalls = h.run_sge_verify(dict(a1), dict(a2))
            exp_calls = 2 if not a1["lines"] else 1
            if verdict.startswith("other") or ncalls != exp_calls:
                out.failures.append(Failure(case={"a1": a1, "a2": a2}, observed=[verdict, ncalls], expected="verdict, %d qacct call(s)" % exp_calls,
                                            kind="tie", note="sge _verify_exit_code"))
                continue
            recs = "None" if (a1["raw"] or a2["raw"]) else "(Some %s)" % coqio.pair(
                coqio.boolean(a1["notfound"]), enc_recs(a1["records"]), coqio.boolean(a2["notfound"]), enc_recs(a2["records"]))
            qenc.append(coqio.pair(enc_qans(a1), enc_qans(a2), recs, verdict))
            qkeep.append((a1, a2, verdict))
        qres = coqio.run_cases(ctx.scratch, "c28q", IMPORTS, "qcase", qenc, {"tie": "sge_tie", "spec": "sge_spec_ok"}, extra=SGE_EXTRA, shard=300)
        dist["sge_verify_cases"] = len(qenc)
        out.evaluations += len(qenc)
        for kind in ("tie", "spec"):
            for i in qres[kind][:10]:
                a1, a2, v = qkeep[i]
                out.failures.append(Failure(case={"a1": a1, "a2": a2}, observed=v, expected="see Model.Batch.sge_verify / Spec.Batch.sge_spec",
                                            kind=kind, note="sge accounting verdict"))
        sge_run = h.run_sge_run()
        dist["sge_run"] = sge_run
        if sge_run is not None:
            out.failures.append(Failure(case={"worker": "SgeWorker", "call": "run(job)"}, observed=sge_run,
                                        expected="the job is submitted and polled", kind="spec",
                                        finding="F28b" if sge_run.startswith("TypeError") and "dict" in sge_run else None,
                                        note="SgeWorker.run cannot run"))
        out.traces_validated = len(enc) + len(qenc)
        out.distribution = dist
        out.samples = [{"args": c["args"], "reports": c["reports"], "verdict": o["verdict"], "sbatch": o["calls"][0]} for c, o in keep[400:403] or keep[:3]]
        out.exhaustive = False
    finally:
        shutil.rmtree(tmp, ignore_errors=True)
    return out


def pairs_to_reports(pairs):
    return [(raw, rendered) for raw, rendered in pairs]


def model_value(ctx, extra, case, obs, name):
    pairs = normalise_reports(case["reports"])
    vals = coqio.eval_terms(ctx.scratch, name, IMPORTS,
                            ["slurm_run sl_live %s %s" % (enc_ctx(obs["ctx"]), enc_sched(case["sbatch"], pairs, case["errfile"]))], extra=extra)
    return vals[0]


def replay(ctx, payload):
    case = payload["case"]
    tmp = tempfile.mkdtemp(prefix="c28r-", dir="/tmp")
    try:
        h = Harness(tmp)
        if "reports" not in case:
            print("implementation:", h.run_sge_run() if "worker" in case else h.run_sge_verify(case["a1"], case["a2"]))
            return
        lists = live_lists()
        pairs = normalise_reports(case["reports"])
        obs = h.run_slurm(case["args"], case["sbatch"], [p[1] for p in pairs], case["errfile"], stale=case.get("stale"), rerun=case.get("rerun", False))
        print("implementation: sbatch", obs["calls"][0], "verdict", obs["verdict"], "commands", [c[0] for c in obs["calls"][1:]])
        extra = EXTRA_TMPL % tuple(coqio.lst([coqio.string(s) for s in lists[k]]) for k in ("requeue_verify", "active", "requeue_run"))
        print("model:", model_value(ctx, extra, case, obs, "replay"))
        norq = "--no-requeue" in case["args"].split()
        print("spec : first decisive report =", first_decisive([tuple(r) for r in case["reports"]], not norq), "requeue allowed =", not norq)
    finally:
        shutil.rmtree(tmp, ignore_errors=True)
