(* Spec/Batch.v — C28 reference semantics.
   What the scheduler says about the job at each poll is a report; the worker's verdict is decided by
   the first report that is neither "still active" nor "interrupted and requeued". *)
From Pydra Require Import Base.Prelude Model.Batch.
Local Open Scope string_scope.
Local Open Scope list_scope.

Inductive report :=
| Active            (* pending or running *)
| Succeeded         (* COMPLETED with exit code 0 *)
| Interrupted       (* cancelled / timed out / preempted *)
| Broke             (* any other final state, or a non-zero exit code *)
| NoAccounting      (* the scheduler has no record of the job *)
| Gibberish.        (* an accounting answer that cannot be read *)

Record states := { st_interrupted : list string; st_active : list string }.

Definition classify (st : states) (a : sacct_ans) : report :=
  match a with
  | SaNone => NoAccounting
  | SaGarbage => Gibberish
  | SaLine s code =>
      if String.eqb s "COMPLETED" && Nat.eqb code 0 then Succeeded
      else if mem s (st_interrupted st) then Interrupted
      else if mem s (st_active st) then Active
      else Broke
  end.

Definition in_queue (q : squeue_ans) : bool :=
  negb (String.eqb (sq_stdout q) "") && negb (contains "slurm_load_jobs error" (sq_stderr q)).

(* the reports the worker obtains: the queue is asked first, the accounting only when the job is no
   longer queued (one accounting answer per such poll); None = the scheduler stopped answering *)
Fixpoint reports (st : states) (sq : list squeue_ans) (sa : list sacct_ans) : list (option report) :=
  match sq with
  | [] => []
  | q :: sq' =>
      if in_queue q then Some Active :: reports st sq' sa
      else match sa with
           | [] => [None]
           | a :: sa' => Some (classify st a) :: reports st sq' sa'
           end
  end.

(* the statement's verdict: complete iff success, failed on failure, requeue (never failed) on
   interruption; when the user forbids requeueing an interrupted job cannot be reported complete *)
Inductive outcome :=
| OComplete | OFailed | OInterruptedNoRequeue | OInfoMissing | OUnreadable | OWaiting.

Fixpoint decide (requeue_allowed : bool) (rs : list (option report)) : outcome * nat (* requeues *) :=
  match rs with
  | [] => (OWaiting, 0)
  | None :: _ => (OWaiting, 0)
  | Some Active :: r => decide requeue_allowed r
  | Some Interrupted :: r =>
      if requeue_allowed then let '(o, n) := decide requeue_allowed r in (o, S n)
      else (OInterruptedNoRequeue, 0)
  | Some Succeeded :: _ => (OComplete, 0)
  | Some Broke :: _ => (OFailed, 0)
  | Some NoAccounting :: _ => (OInfoMissing, 0)
  | Some Gibberish :: _ => (OUnreadable, 0)
  end.

(* what a model/implementation verdict means *)
Definition outcome_of (v : verdict) : outcome :=
  match v with
  | Complete => OComplete
  | Failed _ | ErrFileUnreadable => OFailed       (* an exception from the failure branch *)
  | InfoMissing => OInfoMissing
  | Unparsable => OUnreadable
  | StillPolling => OWaiting
  | SubmitError | NoJobId | Crash => OFailed
  end.

Definition count_requeues (t : list cmd) : nat :=
  List.length (filter (fun c => match c with CRequeue => true | _ => false end) t).

(* ---- user options: every user token kept, in order; each of job-name / output / error present once ---- *)
Inductive okind := KName | KOut | KErr.
Definition short_of (k : okind) : string := match k with KName => "-J" | KOut => "-o" | KErr => "-e" end.
Definition long_of (k : okind) : string :=
  match k with KName => "--job-name=" | KOut => "--output=" | KErr => "--error=" end.

(* how many times option k is given in a token list, in any of the forms sbatch accepts:
   "-X value", "-Xvalue", "--long=value", "--long value" *)
Definition starts_with (p s : string) : bool := is_prefix Ascii.eqb (la_of p) (la_of s).
Definition long_bare (k : okind) : string :=
  match k with KName => "--job-name" | KOut => "--output" | KErr => "--error" end.
Definition has_next (r : list string) : bool := match r with [] => false | _ => true end.
Definition gives (k : okind) (t : string) (r : list string) : bool :=
  (String.eqb t (short_of k) && has_next r)
  || (starts_with (short_of k) t && Nat.ltb 2 (String.length t))
  || (starts_with (long_of k) t && negb (String.eqb t (long_of k)))
  || (String.eqb t (long_bare k) && has_next r).
Fixpoint occurrences (k : okind) (toks : list string) : nat :=
  match toks with
  | [] => 0
  | t :: r => (if gives k t r then 1 else 0) + occurrences k r
  end.

Definition options_ok (user_toks argv : list string) (script : string) : bool :=
  is_prefix String.eqb user_toks argv &&
  String.eqb (last argv "") script &&
  forallb (fun k => Nat.eqb (occurrences k (removelast argv)) 1) [KName; KOut; KErr].

(* ---- SGE accounting: records of (field, value) ---- *)
Definition record_failed (kv : string * string) : bool :=
  String.eqb (fst kv) "failed" && negb (all_digits (snd kv) && is_zero (snd kv)).
Definition sge_spec (found : bool) (records : list (string * string)) : sge_verdict :=
  if negb found then SgePending
  else match records with
       | [] => SgeErrored                     (* no accounting at all: evicted *)
       | _ => if existsb record_failed records then SgeErrored else SgeDone
       end.

(* ---- accounting text: what `sacct -n -X -j <id> -o JobID,State,ExitCode` prints for the job ----
   job id, blanks, the state word (truncated states end in a plus sign), blanks, exit code ':' signal, then
   anything (further columns, further lines).  None = sacct printed nothing. *)
Record acct_line := {
  al_jobid : chars; al_pad1 : nat; al_state : chars; al_plus : bool; al_pad2 : nat;
  al_code : chars; al_sig : chars; al_rest : chars }.
Definition render_line (l : acct_line) : string :=
  str_of (al_jobid l ++ repeat " "%char (S (al_pad1 l)) ++ al_state l ++ (if al_plus l then ["+"%char] else []) ++
          repeat " "%char (S (al_pad2 l)) ++ al_code l ++ ":"%char :: al_sig l ++ al_rest l).
Definition nonempty (l : chars) : bool := match l with [] => false | _ => true end.
Definition wf_line (l : acct_line) : bool :=
  forallb is_digit (al_jobid l) && forallb is_word (al_state l) && nonempty (al_state l) &&
  forallb is_digit (al_code l) && nonempty (al_code l) && forallb is_digit (al_sig l) && nonempty (al_sig l).
Definition render_ans (a : option acct_line) : string := match a with None => "" | Some l => render_line l end.
(* what the text says: the state word and the exit code *)
Definition ans_of (a : option acct_line) : sacct_ans :=
  match a with None => SaNone | Some l => SaLine (str_of (al_state l)) (nat_of_digits (al_code l)) end.

(* ---- the option forms SlurmWorker.run handles (everything else is the excluded class of C28_options_general) ----
   a token is fine for option k unless it is the attached short form (-Xvalue), the bare long name (--long, value
   in the next token), has the short name as a proper suffix (x-J) or contains "--long=" other than at its start *)
Definition ends_with (suf s : string) : bool := is_prefix Ascii.eqb (rev (la_of suf)) (rev (la_of s)).
Fixpoint inside_l (rinner l acc : chars) : bool :=      (* l = u ++ inner ++ c :: v, scanning with the reversed prefix *)
  match l with
  | [] => false
  | c :: r => is_prefix Ascii.eqb rinner acc || inside_l rinner r (c :: acc)
  end.
Definition inside (inner s : string) : bool := inside_l (rev (la_of inner)) (la_of s) [].
Definition attached (k : okind) (t : string) : bool := starts_with (short_of k) t && Nat.ltb 2 (String.length t).
Definition form_ok (k : okind) (t : string) : bool :=
  negb (attached k t) && negb (String.eqb t (long_bare k)) &&
  implb (ends_with (short_of k) t) (String.eqb t (short_of k)) &&
  implb (inside (long_of k) t) (starts_with (long_of k) t).
Definition forms_ok (toks : list string) : bool :=
  forallb (fun k => forallb (form_ok k) toks) [KName; KOut; KErr].
