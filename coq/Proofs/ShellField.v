(* Proofs/ShellField.v — C22/C23, one field: for benign words the string pydra builds for a field re-tokenises to
   exactly the arguments the reference semantics lists (value verbatim as its own argument / inside its template). *)
From Pydra Require Import Base.Prelude Base.Shlex Model.Shell Spec.Shell Proofs.Shlex Proofs.ShellStr Proofs.ShellTemplate.
Local Open Scope char_scope.
Local Open Scope list_scope.

(* ------------------------------------------------------------------ lists of benign words *)
Lemma benign_text_inv w : benign_text w = true -> w <> [] /\ forallb benign_char w = true.
Proof. unfold benign_text. intros H. apply andb_true_iff in H as [H1 H2]. split; [destruct w; [discriminate|congruence]|exact H2]. Qed.

Lemma words_of_benign L : forallb benign_text L = true -> List.concat (map words L) = L.
Proof.
  induction L as [|w L IH]; [reflexivity|]. cbn [forallb map List.concat]. intros H. apply andb_true_iff in H as [H1 H2].
  destruct (benign_text_inv w H1) as [Hn Hb]. rewrite words_solid, IH; auto.
  eapply forallb_impl; [|exact Hb]. apply benign_not_ws.
Qed.

Lemma join_benign (p : ascii -> bool) L : (forall c, benign_char c = true -> p c = true) -> p " " = true ->
  forallb benign_text L = true -> forallb p (join_sep [" "] L) = true.
Proof.
  intros Hp Hs H. apply forallb_join; [cbn; now rewrite Hs|].
  eapply forallb_impl; [|exact H]. intros w Hw. destruct (benign_text_inv w Hw) as [_ Hb].
  eapply forallb_impl; [|exact Hb]. exact Hp.
Qed.

Lemma strip_quotes_benign w : benign_text w = true -> strip_outer_quotes w = w.
Proof.
  intros H. destruct (benign_text_inv w H) as [Hn Hb]. destruct w as [|c w]; [reflexivity|].
  cbn [forallb] in Hb. apply andb_true_iff in Hb as [Hc _]. unfold strip_outer_quotes.
  now rewrite (benign_not_quote c Hc).
Qed.
Lemma strip_quotes_all L : forallb benign_text L = true -> map strip_outer_quotes L = L.
Proof.
  induction L as [|w L IH]; [reflexivity|]. cbn [forallb map]. intros H. apply andb_true_iff in H as [H1 H2].
  now rewrite strip_quotes_benign, IH.
Qed.

Lemma split_cmd_text t L : forallb noq_char t = true -> words t = L -> forallb benign_text L = true ->
  split_cmd t = Good L.
Proof.
  intros Hq Hw Hb. unfold split_cmd. rewrite (split_noquote t Hq), Hw. cbn. now rewrite strip_quotes_all.
Qed.

(* first and last character of a blank-joined list of benign words *)
Lemma join_snoc sep : forall l a, l <> [] -> join_sep sep (l ++ [a]) = join_sep sep l ++ sep ++ a.
Proof.
  induction l as [|x l IH]; intros a Hn; [congruence|]. destruct l as [|y l]; [reflexivity|].
  change ((x :: y :: l) ++ [a]) with (x :: (y :: l) ++ [a]).
  change (join_sep sep (x :: (y :: l) ++ [a])) with (x ++ sep ++ join_sep sep ((y :: l) ++ [a])).
  rewrite IH by discriminate. change (join_sep sep (x :: y :: l)) with (x ++ sep ++ join_sep sep (y :: l)).
  now rewrite <- !app_assoc.
Qed.
Lemma join_head L : forallb benign_text L = true ->
  match join_sep [" "] L with [] => True | c :: _ => py_ws c = false end.
Proof.
  destruct L as [|w L]; [intros _; exact I|]. cbn [forallb]. intros H. apply andb_true_iff in H as [H1 _].
  destruct (benign_text_inv w H1) as [Hn Hb]. destruct w as [|c w]; [congruence|].
  cbn [forallb] in Hb. apply andb_true_iff in Hb as [Hc _].
  destruct L; cbn; now apply benign_not_pyws.
Qed.
Lemma join_last : forall L, forallb benign_text L = true ->
  match rev (join_sep [" "] L) with [] => True | c :: _ => py_ws c = false end.
Proof.
  intros L. destruct (rev L) as [|w R] eqn:E.
  - assert (L = []) by (rewrite <- (rev_involutive L), E; reflexivity). subst. intros _. exact I.
  - assert (EL : L = rev R ++ [w]) by (rewrite <- (rev_involutive L), E; reflexivity). subst L.
    rewrite forallb_app. intros H. apply andb_true_iff in H as [_ H]. cbn in H. rewrite andb_true_r in H.
    destruct (benign_text_inv w H) as [Hn Hb].
    assert (Hlast : match rev w with [] => True | c :: _ => py_ws c = false end).
    { destruct (rev w) as [|c r] eqn:Ew; [exact I|]. apply benign_not_pyws.
      rewrite forallb_forall in Hb. apply Hb. apply in_rev. rewrite Ew. now left. }
    destruct (rev w) as [|c r] eqn:Ew.
    { exfalso. apply Hn. rewrite <- (rev_involutive w), Ew. reflexivity. }
    destruct (rev R) as [|x l] eqn:ER.
    + cbn [app join_sep]. now rewrite Ew.
    + rewrite join_snoc by discriminate. rewrite !rev_app_distr, Ew. cbn [app]. exact Hlast.
Qed.
Lemma join_edges L : forallb benign_text L = true -> edges_ok (join_sep [" "] L).
Proof. intros H. split; [apply join_head, H|apply join_last, H]. Qed.

Lemma filter_nonempty_benign L : forallb benign_text L = true -> filter nonempty L = L.
Proof.
  induction L as [|w L IH]; [reflexivity|]. cbn [forallb filter]. intros H. apply andb_true_iff in H as [H1 H2].
  destruct (benign_text_inv w H1) as [Hn _]. destruct w; [congruence|]. cbn. now rewrite IH.
Qed.

(* ------------------------------------------------------------------ instantiated words are benign *)
Lemma inst_word_benign vals v w : word_ok w = true -> forallb benign_char v = true ->
  (nonempty v = true \/ existsb is_ph w = false) -> benign_text (inst_word vals v w) = true.
Proof.
  unfold word_ok, benign_text, inst_word. intros H Hv Hne. apply andb_true_iff in H as [Hp Hs].
  apply andb_true_iff. split.
  - apply existsb_exists in Hs as (p & Hin & Hp1). rewrite forallb_forall in Hp. specialize (Hp p Hin).
    assert (E : nonempty (inst_piece vals v p) = true).
    { destruct p as [s| |m]; cbn in *; [exact Hp1| |discriminate].
      destruct Hne as [Hne|Hne]; [exact Hne|]. exfalso.
      assert (existsb is_ph w = true) by (apply existsb_exists; exists Self; auto). congruence. }
    clear -Hin E. induction w as [|q w IH]; [contradiction|]. cbn [map List.concat]. destruct Hin as [->|Hin].
    + destruct (inst_piece vals v p); [discriminate|reflexivity].
    + destruct (inst_piece vals v q); [apply IH, Hin|reflexivity].
  - apply forallb_concat. rewrite forallb_forall in Hp |- *. intros t Ht. apply in_map_iff in Ht as (p & <- & Hin).
    specialize (Hp p Hin). destruct p as [s| |m]; cbn in *; [exact Hp|exact Hv|discriminate].
Qed.

Lemma inst_words_benign vals v ws : forallb word_ok ws = true -> forallb benign_char v = true ->
  (nonempty v = true \/ has_ph ws = false) -> forallb benign_text (map (inst_word vals v) ws) = true.
Proof.
  intros H Hv Hne. rewrite forallb_forall in H |- *. intros t Ht. apply in_map_iff in Ht as (w & <- & Hin).
  apply inst_word_benign; auto. destruct Hne as [Hne|Hne]; [now left|right].
  unfold has_ph in Hne. destruct (existsb is_ph w) eqn:E; [|reflexivity].
  assert (existsb (existsb is_ph) ws = true) by (apply existsb_exists; exists w; auto). congruence.
Qed.

Lemma inst_render_noph n vals x w : forallb piece_ok w = true -> existsb is_ph w = false ->
  inst_word vals x w = render_word n w.
Proof.
  unfold inst_word, render_word. induction w as [|p w IH]; [reflexivity|]. cbn [forallb existsb map List.concat].
  intros H E. apply andb_true_iff in H as [H1 H2]. apply orb_false_iff in E as [E1 E2].
  rewrite IH by assumption. destruct p; cbn in *; congruence.
Qed.
Lemma inst_render_words_noph n vals x ws : forallb word_ok ws = true -> has_ph ws = false ->
  map (inst_word vals x) ws = map (render_word n) ws.
Proof.
  intros H E. apply map_ext_in. intros w Hw. rewrite forallb_forall in H. specialize (H w Hw).
  unfold word_ok in H. apply andb_true_iff in H as [H _]. apply inst_render_noph; [exact H|].
  unfold has_ph in E. destruct (existsb is_ph w) eqn:Ew; [|reflexivity].
  assert (existsb (existsb is_ph) ws = true) by (apply existsb_exists; exists w; auto). congruence.
Qed.

(* ------------------------------------------------------------------ bracket clean-up *)
Lemma bracket_fix_id s : bracket_inert s = true -> edges_ok s -> bracket_fix s = s.
Proof.
  unfold bracket_inert, bracket_fix, replace_all. intros H He. apply negb_true_iff in H.
  apply orb_false_iff in H as [H H4]. apply orb_false_iff in H as [H H3]. apply orb_false_iff in H as [H1 H2].
  rewrite (repl_absent _ _ s H1), (repl_absent _ _ s H2), (repl_absent _ _ s H3), (repl_absent _ _ s H4).
  now apply strip_id.
Qed.

(* ------------------------------------------------------------------ the core: one scalar text for one field *)
Section Scalar.
Variables (n : la) (ws : list word).
Hypothesis Hn : valid_ident n = true.
Hypothesis Hws : forallb word_ok ws = true.

Lemma occ_words valsS v : forallb benign_char v = true -> (nonempty v = true \/ has_ph ws = false) ->
  split_cmd (occ_text ws valsS v) = Good (map (inst_word valsS v) ws).
Proof.
  intros Hv Hne. pose proof (inst_words_benign valsS v ws Hws Hv Hne) as Hb.
  apply split_cmd_text; [|unfold occ_text; rewrite words_join; now apply words_of_benign|exact Hb].
  unfold occ_text. apply join_benign; [apply benign_noq|reflexivity|exact Hb].
Qed.

(* templated: replace the field's own placeholder, format, clean up, split *)
Lemma templated_ok f valsM valsS v : f_name f = n -> has_ph ws = true -> benign_text v = true ->
  bracket_inert (occ_text ws valsS v) = true ->
  forall t, format_scalar f (render_words n ws) valsM v t = Good (map (inst_word valsS v) ws).
Proof.
  intros Hf Hph Hv Hin t. destruct (benign_text_inv v Hv) as [Hvn Hvb].
  assert (Hne : nonempty v = true \/ has_ph ws = false) by (left; destruct v; [congruence|reflexivity]).
  unfold format_scalar. destruct (has_brace_words n ws Hws) as [A B]. rewrite A, B, Hph. cbn [andb].
  rewrite Hf, render_flat, (repl_pieces n valsS v) by (apply flat_nb, words_ok_nb, Hws). rewrite <- occ_flat.
  pose proof (inst_words_benign valsS v ws Hws Hvb Hne) as Hb.
  unfold argstr_formatting. rewrite fmt_nobrace by (unfold occ_text; apply join_benign; [apply benign_nobrace|reflexivity|exact Hb]).
  cbn [bind]. rewrite bracket_fix_id by (exact Hin || (unfold occ_text; apply join_edges, Hb)).
  now apply occ_words.
Qed.

(* plain: argstr, a blank, the value *)
Lemma plain_ok f valsM valsS v : has_ph ws = false -> benign_text v = true ->
  format_scalar f (render_words n ws) valsM v true = Good (map (inst_word valsS v) ws ++ [v]).
Proof.
  intros Hph Hv. destruct (benign_text_inv v Hv) as [Hvn Hvb].
  unfold format_scalar. destruct (has_brace_words n ws Hws) as [A B]. rewrite A, B, Hph. cbn [andb].
  pose proof (inst_words_benign valsS v ws Hws Hvb (or_intror Hph)) as Hb.
  assert (E : render_words n ws = join_sep [" "] (map (inst_word valsS v) ws))
    by (unfold render_words; now rewrite (inst_render_words_noph n valsS v ws Hws Hph)).
  rewrite E. unfold sp. cbn [app]. apply split_cmd_text.
  - rewrite forallb_app. cbn [forallb]. rewrite (join_benign noq_char _ benign_noq eq_refl Hb).
    cbn. eapply forallb_impl; [|exact Hvb]. apply benign_noq.
  - rewrite words_space, words_join, (words_of_benign _ Hb). f_equal. apply words_solid; [exact Hvn|].
    eapply forallb_impl; [|exact Hvb]. apply benign_not_ws.
  - rewrite forallb_app, Hb. cbn. now rewrite Hv.
Qed.

Lemma scalar_ok f valsM valsS v t : f_name f = n -> benign_text v = true -> inert ws valsS v = true ->
  (has_ph ws = true \/ t = true) ->
  format_scalar f (render_words n ws) valsM v t = Good (occurrence ws valsS v).
Proof.
  intros Hf Hv Hin Ht. unfold occurrence. destruct (has_ph ws) eqn:Hph.
  - unfold inert in Hin. rewrite Hph in Hin. cbn in Hin.
    rewrite (templated_ok f valsM valsS v Hf Hph Hv Hin t). f_equal. symmetry. apply filter_nonempty_benign.
    destruct (benign_text_inv v Hv) as [Hvn Hvb]. apply inst_words_benign; auto. left. destruct v; [congruence|reflexivity].
  - destruct Ht as [Ht|Ht]; [discriminate|]. subst t. now apply plain_ok.
Qed.
End Scalar.
