"""C35 — the job lifecycle leaves the process and the cache directory consistent."""
import concurrent.futures as cf
import json

from .lib import coqio, procs
from .lib.runner import Outcome, Failure

PROP = "C35"
PROPS_FILE = "Props/C35.v"
IMPORTS = ["Model.CacheProto", "Spec.CacheProto"]
MANIFEST = dict(
    text="Coq theorems on the transition-system model of Job.run/run_async (Model/CacheProto.v) with exception steps at "
         "every checkpoint (AExc), raising task hooks and a raising body, for every trace (any number of submissions "
         "and processes): C35_finally_region - as long as every exception was raised inside the try block or its "
         "handler, cwd is restored and no info file is left whenever the process is outside the with block, and at the "
         "end of the with block the directory holds the complete job record and the complete result, marked errored "
         "exactly when an exception was pending; C35_directory_consistent_n (any number of submitters of the checksum, "
         "any interleaving, no kill, nobody dirty: whenever the marker is absent and some execution has reached "
         "job.cwd_restored, the directory holds the complete job record and a complete result, every process is outside "
         "the with block in its original cwd with no info file) with C35_unlocked_directory_stable; "
         "C35_outside_leaves_directory; C35_hooks_once (pre_run_task and "
         "post_run_task once per execution) and C35_hit_calls_no_hook; the property at full strength is refuted: "
         "C35_refuted_pre_try / C35_refuted_post_hook (an exception raised by pre_run_task, start_audit, "
         "_populate_filesystem, post_run_task or anywhere in the finally block leaves the process inside the job "
         "directory, the info file behind and no result) - known finding F35, reproduced on the code on every run. "
         "Tie: exception injection through $VERIF_PLAN at every checkpoint label, raising hooks, histories of "
         "cached / uncached / failing / rerun submissions with counting hooks; every recorded trace must be accepted by "
         "the model with the same cwd / listing / hook-log observations.",
    note="Trusted: Coq kernel + vm_compute; hand-written model; an injected exception is raised at a checkpoint, i.e. "
         "right after the statement the label names. Fix bd0c2725 (result.errored set before record_error) is part of the model.",
    technique="Coq invariants over a transition system with exception steps + _refuted witness; exception injection at every checkpoint",
    design="§8 Group C / C35",
)
TIE_NAME = "Model.CacheProto.accepts/final_matches vs exception-injected runs of Job.run (pydra/engine/job.py, hooks.py, audit.py)"
TRUSTED = [
    "Model/CacheProto.v (see C10): AExc = an exception raised at the checkpoint just passed; APreHookRaise / "
    "APostHookRaise = the task hooks raise; ABodyRaise = the body raises; exc_target follows the try/except/finally "
    "structure of Job.run, including the release of <dir>_save.lock and the flush of an open file on the way out",
    "Audit.start_audit is modelled by its os.chdir only (audit flags NONE in the runs)",
    "harness/lib/procs.py",
]
ASSUMPTIONS = ["debug worker / Job.run for python tasks; cf worker / Job.run_async for workflow tasks",
               "the directory part of C35_finally_region is stated while the lock is still held; afterwards it "
               "persists in single-submitter histories (C35_outside_leaves_directory)"]
RULE = ("one process, 1-3 submissions of one task (succeeding or failing body, rerun or not) with counting task hooks; "
        "an exception injected at one (checkpoint label, occurrence), a raising pre_run_task / post_run_task hook, or "
        "a body / post_run_task hook that calls os.chdir to another directory and does not come back; "
        "distinct = distinct (body kind, injection point, history); non-trivial = an exception was actually raised "
        "during a submission that executed the task (not a plain successful run)")

EXTRA = """
Definition c35_case := (trace_case * nat)%type.      (* the trace and the number of entries into the try block *)
Definition tie_accepts (c : c35_case) : bool := accepts (fst c).
Definition tie_final (c : c35_case) : bool := final_matches (fst c).
Definition spec_ok (c : c35_case) : bool :=
  let '(pre, bv, tr, go, pos, execs) := c in
  match pos with po :: _ => c35_specb execs go po | [] => false end.
"""

PRE_TRY = [("job.lock_acquired", 1), ("job.cache_checked", 1), ("job.info_written", 1), ("job.dir_cleared", 1),
           ("job.dir_created", 1), ("save.lock_acquired", 1), ("save.job.before", 1), ("save.job.opened", 1),
           ("save.job.dumped", 1), ("save.job.after", 1), ("save.lock_released", 1), ("job.job_saved", 1),
           ("job.populated", 1), ("job.cwd_changed", 1), ("job.pre_hook_done", 1), ("job.audit_started", 1)]
TRY = [("job.body_enter", 1), ("job.body_left", 1), ("job.outputs_collected", 1)]
HANDLER = [("error.before", 1), ("error.opened", 1), ("error.dumped", 1), ("error.after", 1), ("job.error_recorded", 1)]
FINALLY = [("job.post_hook_done", 1), ("job.audit_finalised", 1), ("save.lock_acquired", 2), ("save.result.before", 1),
           ("save.result.opened", 1), ("save.result.dumped", 1), ("save.result.after", 1), ("save.job.before", 2),
           ("save.job.opened", 2), ("save.job.dumped", 2), ("save.job.after", 2), ("save.lock_released", 2),
           ("job.result_saved", 1), ("job.info_removed", 1), ("job.cwd_restored", 1)]
OUTSIDE = [("job.pre_run_done", 1), ("job.lock_released", 1), ("job.post_run_done", 1)]


def outside_protected_region(sc):
    """Finding classifier (mirrors the model's `dirty` flag / the exclusion of C35_finally_region): an exception
    was raised between lock acquisition and the try block, by a task hook, or inside the finally block."""
    ch = sc["stages"][0]["children"][0]
    inj = tuple(ch["inject"]) if ch.get("inject") else None
    if inj is not None and (inj in PRE_TRY or inj in FINALLY):
        return True
    return any(s.get("hook_raises") in ("pre_run_task", "post_run_task") for s in ch.get("subs", []))


def mk(name, task, subs, inject=None):
    rules = [{"label": inject[0], "nth": inject[1], "action": "raise"}] if inject else []
    return dict(name=name, pre=False, task=task, timeout=(300 if task.get("worker") == "cf" else 120),
                stages=[dict(children=[dict(subs=subs, rules=rules, inject=list(inject) if inject else None)], gate=None)])


def gen_scenarios(ctx, corpus):
    rng = ctx.rng
    out = [c["scenario"] for c in corpus if "scenario" in c]
    ok_task = lambda: dict(task="python", x=rng.randrange(1, 40))
    bad_task = lambda: dict(task="python", x=rng.randrange(1, 40), fail=True)
    full = not (ctx.tier == "quick" and ctx.widen == 1)
    pts_ok = PRE_TRY + TRY + FINALLY + OUTSIDE[1:]      # an exception before the lock is requested is not a job run
    pts_bad = HANDLER + [("job.body_enter", 1), ("job.post_hook_done", 1), ("job.cwd_restored", 1)]
    if not full:
        pts_ok = rng.sample(PRE_TRY, 3) + rng.sample(TRY, 2) + rng.sample(FINALLY, 3) + rng.sample(OUTSIDE[1:], 1)
        pts_bad = rng.sample(HANDLER, 2) + [("job.post_hook_done", 1)]
    k = 0
    for p in pts_ok:
        out.append(mk("c35-inj-%d" % k, ok_task(), [{}], p)); k += 1
    for p in pts_bad:
        out.append(mk("c35-injfail-%d" % k, bad_task(), [{}], p)); k += 1
    for hook in ("pre_run_task", "post_run_task"):
        out.append(mk("c35-hook-%s" % hook, ok_task(), [dict(hook_raises=hook)])); k += 1
    out.append(mk("c35-hookfail-post", bad_task(), [dict(hook_raises="post_run_task")]))
    # user code that moves the process: the body (returning or raising afterwards), the post_run_task hook
    out.append(mk("c35-body-chdir", dict(task="python", x=rng.randrange(1, 40), chdir=True), [{}]))
    out.append(mk("c35-body-chdir-fails", dict(task="python", x=rng.randrange(1, 40), chdir=True, fail=True), [{}]))
    out.append(mk("c35-hook-chdir", ok_task(), [dict(hook_chdir=True)]))
    if full:
        out.append(mk("c35-body-chdir-hist", dict(task="python", x=rng.randrange(1, 40), chdir=True), [{}, {}, dict(rerun=True)]))
        out.append(mk("c35-body-chdir-inj", dict(task="python", x=rng.randrange(1, 40), chdir=True), [{}], ("job.body_left", 1)))
    # the Job.run_async path: a workflow through the cf worker (the workflow's own job runs in the submitting process;
    # raise_errors=False there, a failure comes back as an errored result) - and the same workflow through debug
    wf = lambda **kw: dict(task="workflow", x=rng.randrange(1, 40), **kw)
    out.append(mk("c35-async-wf", wf(worker="cf"), [{}, {}]))
    out.append(mk("c35-async-wf-fails", wf(worker="cf", fail=True), [{}]))
    if full:
        out.append(mk("c35-async-wf-rerun", wf(worker="cf"), [{}, dict(rerun=True)]))
        out.append(mk("c35-async-wf-hook", wf(worker="cf"), [dict(hook_raises="pre_run_task")]))
        out.append(mk("c35-async-wf-posthook", wf(worker="cf"), [dict(hook_raises="post_run_task")]))
        out.append(mk("c35-sync-wf", wf(), [{}, {}]))
        out.append(mk("c35-sync-wf-fails", wf(fail=True), [{}]))
        for p in [("job.populated", 1), ("job.audit_started", 1), ("job.body_left", 1), ("job.info_removed", 1)]:
            out.append(mk("c35-async-wf-inj-%d" % k, wf(worker="cf"), [{}], p)); k += 1
    # histories without injection: hits, reruns, failing bodies executed again
    hist = [[{}, {}], [{}, dict(rerun=True)], [{}, {}, dict(rerun=True)], [dict(rerun=True), {}]]
    for h in (hist if full else hist[:2]):
        out.append(mk("c35-hist-%d" % k, ok_task(), h)); k += 1
    out.append(mk("c35-histfail-%d" % k, bad_task(), [{}, {}] if full else [{}]))
    if full:
        # an exception in the second submission of a history
        for p in [("job.cache_hit", 1), ("job.cache_checked", 2), ("job.lock_acquired", 2)]:
            out.append(mk("c35-inj2-%d" % k, ok_task(), [{}, {}], p)); k += 1
    return out


def run(ctx):
    scs = gen_scenarios(ctx, ctx.corpus())
    with cf.ThreadPoolExecutor(max_workers=6) as ex:
        results = list(ex.map(procs.run_scenario, scs))
    out = Outcome(rule=RULE)
    cases, seen = [], set()
    dist = {"run_async_path": 0, "workflow": 0, "body_or_hook_chdir": 0, "inject_pre_try": 0, "inject_try": 0, "inject_handler": 0, "inject_finally": 0, "inject_outside": 0,
            "raising_hook": 0, "failing_body": 0, "histories": 0, "submissions": 0}
    nontrivial = 0
    for sc, res in zip(scs, results):
        bv = procs.expected_value(sc["task"])
        execs = res["labels"].get(0, []).count("job.body_enter")
        cases.append("(%s, %d)" % (procs.case_literal(sc, res, bv), execs))
        ch = sc["stages"][0]["children"][0]
        inj = tuple(ch["inject"]) if ch.get("inject") else None
        for name, group in (("pre_try", PRE_TRY), ("try", TRY), ("handler", HANDLER), ("finally", FINALLY), ("outside", OUTSIDE)):
            dist["inject_" + name] += inj in group
        hooks = any(s.get("hook_raises") for s in ch["subs"])
        dist["run_async_path"] += sc["task"].get("worker") == "cf" and sc["task"]["task"] == "workflow"
        dist["workflow"] += sc["task"]["task"] == "workflow"
        moved = bool(sc["task"].get("chdir")) or any(s.get("hook_chdir") for s in ch["subs"])
        dist["body_or_hook_chdir"] += moved
        dist["raising_hook"] += hooks
        dist["failing_body"] += bool(sc["task"].get("fail"))
        dist["histories"] += len(ch["subs"]) > 1
        dist["submissions"] += len(ch["subs"])
        sig = (bool(sc["task"].get("fail")), inj, json.dumps(ch["subs"], sort_keys=True))
        if sig not in seen:
            seen.add(sig)
            if (inj or hooks or moved or sc["task"].get("fail")) and execs > 0:
                nontrivial += 1
        if res["hang"]:
            out.failures.append(Failure(case={"scenario": sc}, observed=_obs(res), expected="the submission ends",
                                        note="submission hangs", kind="spec"))
    chk = coqio.run_cases(ctx.scratch, "c35", IMPORTS, "c35_case", cases,
                          {"accepts": "tie_accepts", "final": "tie_final", "spec": "spec_ok"}, extra=EXTRA, shard=25)
    for i in chk["spec"]:
        known = outside_protected_region(scs[i])
        out.failures.append(Failure(
            case={"scenario": scs[i]}, observed=_obs(results[i]),
            expected="cwd restored, no <uid>_info.json left, job directory with whole _job.pklz and _result.pklz, "
                     "pre_run_task = post_run_task = executions",
            note="C35 spec after an exception outside the try/except region" if known else
                 "C35 spec: lifecycle leaves process and directory consistent",
            finding="F35" if known else None, kind="spec"))
    for i in sorted(set(chk["accepts"]) | set(chk["final"])):
        if i in chk["spec"] and not outside_protected_region(scs[i]):
            continue
        out.failures.append(Failure(case={"scenario": scs[i]}, observed=_obs(results[i]),
                                    expected=_model_view(ctx, cases[i], "t%d" % i),
                                    note="trace not accepted by the model" if i in chk["accepts"] else
                                    "final observations differ from the model's", kind="tie"))
    out.evaluations = len(scs)
    out.traces_validated = len(scs) - len(set(chk["accepts"]))
    out.distinct_nontrivial = nontrivial
    out.distribution = dist
    out.samples = [{"scenario": scs[i]["name"], "failing_body": bool(scs[i]["task"].get("fail")),
                    "inject": scs[i]["stages"][0]["children"][0].get("inject"),
                    "submissions": scs[i]["stages"][0]["children"][0]["subs"],
                    "reports": results[i]["children"][0]["report"], "hook_log": results[i]["children"][0]["hooks"],
                    "cache_after": (results[i]["cache"] or {}).get("listing")}
                   for i in range(min(4, len(scs)))]
    return out


def _obs(res):
    return {"cache": res["cache"], "hang": res["hang"], "body_executions": res["runs"],
            "children": [{"idx": c["idx"], "rc": c["rc"], "report": c["report"], "hook_log": c["hooks"], "tail": c["tail"]}
                         for c in res["children"]],
            "events": ["%d:%s" % e for e in res["events"]]}


def _model_view(ctx, case, name):
    try:
        v = coqio.eval_terms(ctx.scratch, name, IMPORTS, [
            "let '(pre, bv, tr, go, pos, nexecs) := %s in (first_reject bv (init bv pre) tr 0, List.length tr, "
            "match accept_run bv (init bv pre) tr with Some s => Some (observe_g s (map pobs_pid pos), map (fun po => observe_p s (pobs_pid po)) pos, dirty (procs s 0), execs (procs s 0)) | None => None end)" % case])
        return {"first_rejected_event_index, trace_length, model_final_observation(+dirty, execs)": v[0]}
    except Exception as e:  # pragma: no cover
        return {"model_evaluation_failed": str(e)[-500:]}


def replay(ctx, payload):
    case = payload["case"]
    if "scenario" not in case:
        print(json.dumps(payload, indent=1))
        return 0
    sc = case["scenario"]
    res = procs.run_scenario(sc)
    bv = procs.expected_value(sc["task"])
    execs = res["labels"].get(0, []).count("job.body_enter")
    lit = "(%s, %d)" % (procs.case_literal(sc, res, bv), execs)
    print("implementation:", json.dumps(_obs(res), indent=1, default=repr))
    vals = coqio.eval_terms(ctx.scratch, "replay", IMPORTS, ["tie_accepts %s" % lit, "tie_final %s" % lit, "spec_ok %s" % lit],
                            extra=EXTRA)
    print("model accepts trace:", vals[0], " final observations match:", vals[1])
    print("model:", _model_view(ctx, lit, "replay2"))
    print("spec (c35_specb):", vals[2], " exception outside the protected region (F35 class):", outside_protected_region(sc))
    return 0
