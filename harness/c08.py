"""C08 — value hashing is deterministic, discriminating and context-free (pydra/utils/hash.py)."""
import json
import os

from .lib import coqio, hashgen as hg, hashmodel as hm
from .lib.runner import Outcome, Failure

PROP = "C08"
PROPS_FILE = "Props/C08.v"
MANIFEST = dict(
    text="Coq theorems about a model of hash_single/bytes_repr (Model/Hash.v, blake2b an uninterpreted parameter): "
         "C08_context_free_acyclic (for values without reference cycles the digest under any Cache built by earlier "
         "hash calls equals the digest alone), C08_order_invariant (set iteration order / dict insertion order do "
         "not change the digest when `<` is a strict total order on the elements), C08_order_invariant_deep (the same with "
         "sets re-ordered at every nesting level simultaneously, e.g. chains of nested frozensets), C08_ser_injective (equal digests "
         "imply equal values or an explicit blake2b collision among the hashed strings, on the fragment without "
         "PathLike/tuple/frozenset dict keys), and refutations C08_refuted_cycle, C08_refuted_partial_order, "
         "C08_refuted_pathkey. Partial: types and functions are modelled only as byte strings taken from the code. "
         "The model is tied to the code on every run by replaying generated values through pydra with a recording "
         "blake2b and evaluating the model inside Coq on the recorded (bytes -> digest) table.",
    note="Trusted: Coq kernel + vm_compute; hand-written model; harness conversion Python object -> value tree "
         "(mirror of the attribute dict bytes_repr builds); correspondence is differential testing.",
    technique="Coq proof (Merkle-style injectivity with per-format parsing lemmas; sort-uniqueness; memo invariant) "
              "+ model/impl correspondence on the recorded blake2b oracle via generated cases.v",
    design="§8 Group B / C08",
)
TIE_NAME = "Model.Hash.hash_all (hs/repr with the Cache memo) vs pydra.utils.hash.hash_object"
TRUSTED = [
    "Model/Hash.v + Base/PySort.v: hand-written model of hash_object/hash_single/Cache, bytes_repr_* for "
    "None/bool/int/float/str/bytes/PathLike/list/tuple/set/frozenset/dict/attrs+slots+plain objects/numpy "
    "(non-object dtype)/functions with source, bytes_repr_mapping_contents, bytes_repr_sequence_contents, and of "
    "CPython's sorted() below 64 elements with Python's `<` on these values",
    "blake2b(digest_size=16, person=b'pydra-hash') is the Section variable H : string -> string with no hypothesis; "
    "the run instantiates it with the table of (byte string, digest) pairs recorded from pydra and re-checked "
    "against hashlib",
    "modelled, not verified: types (bytes_repr_type) and functions enter as the byte strings the code produced / "
    "the harness's mirror of ast.dump; id()-memoisation of scalars is omitted (a scalar's digest never depends on "
    "the Cache); object arrays, modules, code objects, slices, ranges, complex, __bytes_repr__ are outside the model",
]
ASSUMPTIONS = [
    "str values are valid UTF-8; sets/dicts have fewer than 64 elements where `<` is not a total order",
    "float vs int comparisons inside one set / dict-key set are outside the model's `<`",
]
RULE = ("grammar-directed values (depth<=4, width<=4: scalars incl. int64 boundaries/big ints/±0.0/inf, str/bytes with "
        "separator characters, paths, list/tuple/set/frozenset/dict, plain/slots/attrs objects, numpy arrays and "
        "scalars), paired with a one-step mutation (copy, retag, regroup, scalar type, scalar value, permute, array memory layout, array "
        "shape/dtype, drop, attribute/class name, alias) or made cyclic; each hashed alone, after its partner under a "
        "shared Cache, embedded in a list, and a sub-object after its parent; distinct = distinct value tree, "
        "non-trivial = tree with >= 3 nodes")

IMPORTS = ["Base.PySort", "Model.Hash", "Spec.Hash"]
EXTRA = """
Definition res_eqb (r : res string) (o : option string) : bool :=
  match r, o with Ok d, Some x => String.eqb d x | Err ETypeError, None => true | _, _ => false end.
Fixpoint all2 {A B} (f : A -> B -> bool) (a : list A) (b : list B) : bool :=
  match a, b with [] , [] => true | x :: a', y :: b' => f x y && all2 f a' b' | _, _ => false end.
Definition scen_t := (list pyval * list (option string))%type.
Definition case_t := (list (string * string) * list scen_t
                      * (pyval * pyval * option string * option string)
                      * list (option string * list (option string)))%type.
Definition tie_ok (c : case_t) : bool :=
  let '(tbl, scens, _, _) := c in
  forallb (fun s : scen_t => all2 res_eqb (hash_all (table_H tbl) (fst s) []) (snd s)) scens.
Definition spec_pair (c : case_t) : bool := let '(_, _, p, _) := c in pair_spec_ok p.
Definition spec_ctx (c : case_t) : bool := let '(_, _, _, x) := c in forallb ctx_spec_ok x.
"""


# ------------------------------------------------------------------ input-class classifiers (mirrors of the
# computable domain predicates in Proofs/Hash.v)
def has_cycle(t):
    return any(x[0] == "VRef" for x in hg.nodes(t))


def _py_total(objs):
    """is `<` a strict total order on these (pairwise distinct) objects?"""
    try:
        for i, a in enumerate(objs):
            for b in objs[i + 1:]:
                if not ((a < b) or (b < a)):
                    return False
    except TypeError:
        return True   # sorted() raises: no digest at all, not an order-dependent one
    return True


def has_partial_order(obj, seen=None):
    """some set / dict in obj whose elements / keys are not totally ordered by `<` (frozensets, NaN)"""
    seen = set() if seen is None else seen
    if id(obj) in seen:
        return False
    seen.add(id(obj))
    if isinstance(obj, (set, frozenset)):
        return not _py_total(list(obj)) or any(has_partial_order(x, seen) for x in obj)
    if isinstance(obj, dict):
        return (not _py_total(list(obj)) or any(has_partial_order(x, seen) for x in obj)
                or any(has_partial_order(x, seen) for x in obj.values()))
    if isinstance(obj, (list, tuple)):
        return any(has_partial_order(x, seen) for x in obj)
    if type(obj).__module__ == "vmod":
        return any(has_partial_order(x, seen) for x in hm.obj_dict(obj)[1].values())
    return False


def has_pathkey_eq(t):
    """a dict with a PathLike key whose path contains '='"""
    for x in hg.nodes(t):
        if x[0] == "VDict":
            for k, _ in x[2]:
                if k[0] == "VPath" and "=" in bytes.fromhex(k[2]).decode("utf-8", "replace"):
                    return True
    return False


# ------------------------------------------------------------------ running pydra
def _hash(obj, cache=None):
    from pydra.utils.hash import hash_object, Cache
    try:
        return hash_object(obj, cache=cache if cache is not None else Cache())
    except TypeError:
        return None


def _seq(objs):
    """hash the objects one after the other under one shared Cache; stop at the first TypeError"""
    from pydra.utils.hash import Cache
    c = Cache()
    out = []
    for o in objs:
        d = _hash(o, c)
        out.append(d)
        if d is None:
            break
    return out


def run_case(t1, t2, sub_pick):
    """Build both trees, run every scenario through pydra with the recording blake2b.
    Returns dict(trees, scenarios [(objs trees, digests)], pair, ctx, table, flags)."""
    env1, env2 = {}, {}
    o1 = hm.build(t1, env1)
    o2 = hm.build(t2, env2) if t2 is not None else None
    conv = hm.Conv()
    scen = []
    with hm.Recorder() as rec:
        d1 = _hash(o1)
        scen.append(([o1], [d1]))
        ctx = []
        if o2 is not None:
            d2 = _hash(o2)
            scen.append(([o2], [d2]))
            s = _seq([o2, o1])
            scen.append(([o2, o1], s))
            after = s[1] if len(s) == 2 else None
            emb = [o2, o1]
            s2 = _seq([emb, o1])
            scen.append(([emb, o1], s2))
            inside = s2[1] if len(s2) == 2 else None
            if d1 is not None and d2 is not None:
                ctx.append((d1, [after, inside]))
        else:
            d2 = None
        # a sub-object hashed after its parent vs alone
        subs = [o for o in conv_candidates(o1)]
        if subs:
            sub = subs[sub_pick % len(subs)]
            ds = _hash(sub)
            scen.append(([sub], [ds]))
            s3 = _seq([o1, sub])
            scen.append(([o1, sub], s3))
            if ds is not None and len(s3) == 2:
                ctx.append((ds, [s3[1]]))
            # and the other way round: the parent after its sub-object
            s4 = _seq([sub, o1])
            scen.append(([sub, o1], s4))
            if d1 is not None and len(s4) == 2:
                ctx.append((d1, [s4[1]]))
    table = rec.dedup()
    for p, d in table:
        assert hm.real_blake2b(p) == d and len(d) == 16, "recorded table is not blake2b-16/pydra-hash"
    m1 = conv.to_model(o1)
    m2 = conv.to_model(o2) if o2 is not None else m1
    scen_m = [([conv.to_model(o) for o in objs], ds) for objs, ds in scen]
    return dict(m1=m1, m2=m2, d1=d1, d2=d2 if o2 is not None else d1, scen=scen_m, ctx=ctx, table=table,
                o1=o1, o2=o2)


def conv_candidates(obj, seen=None, top=True):
    """container / object descendants of obj (each once), in traversal order"""
    seen = {} if seen is None else seen
    out = []
    if isinstance(obj, (list, tuple, set, frozenset, dict)) or type(obj).__module__ == "vmod":
        if id(obj) in seen:
            return out
        seen[id(obj)] = True
        if not top:
            out.append(obj)
        if isinstance(obj, dict):
            kids = list(obj.values())
        elif isinstance(obj, (list, tuple)):
            kids = list(obj)
        elif isinstance(obj, (set, frozenset)):
            kids = []
        else:
            kids = list(hm.obj_dict(obj)[1].values())
        for k in kids:
            out += conv_candidates(k, seen, False)
    return out


def case_term(r):
    scen = coqio.lst([coqio.pair(coqio.lst([hm.term(t) for t in ts]), coqio.lst([hm.opt_digest(d) for d in ds]))
                      for ts, ds in r["scen"]])
    pair = coqio.pair(hm.term(r["m1"]), hm.term(r["m2"]), hm.opt_digest(r["d1"]), hm.opt_digest(r["d2"]))
    ctx = coqio.lst([coqio.pair(hm.opt_digest(a), coqio.lst([hm.opt_digest(x) for x in xs])) for a, xs in r["ctx"]])
    return coqio.pair(hm.table_term(r["table"]), scen, pair, ctx)


def pathkey_attack(rng, tries):
    """search a value whose digest is a valid path fragment and build the colliding dict pair"""
    from pathlib import PurePosixPath as P
    start = rng.randrange(10 ** 6)
    for i in range(start, start + tries):
        h = _hash(i)
        if 0 in h:
            continue
        try:
            s = h.decode("utf-8")
        except UnicodeDecodeError:
            continue
        if "//" in s or "/./" in s or s.endswith("/") or s.endswith("/.") or s.startswith("./"):
            continue
        d1 = {P("a"): i, P("b"): "x"}
        d2 = {P("a=" + s + ",pathlib.PurePosixPath:b"): "x"}
        return hm.to_model(d1), hm.to_model(d2)
    return None


def gen_cases(ctx, n):
    rng = ctx.rng
    out = []
    for c in ctx.corpus():
        out.append(("corpus:" + c.get("name", "?"), c["t1"], c.get("t2"), 0))
    pk = pathkey_attack(rng, 60000)
    if pk:
        out.append(("pathkey_attack", pk[0], pk[1], 0))
    big = []
    k0 = rng.randrange(1000)
    for k in range(10 if ctx.tier == "quick" else 45):
        ids = hg.Ids()
        where, t1, t2 = hg.nd_big_pair(rng, ids, k0 + k)
        big.append(("bigarray:" + where, t1, t2, 0))
    while len(out) < n:
        ids = hg.Ids()
        r = rng.random()
        depth = rng.choice([2, 2, 3, 3, 4, 4])
        if r < 0.12:
            t1 = hg.value(rng, ids, max(depth, 2))
            if hg.add_cycle(rng, t1, ids) is None:
                continue
            out.append(("cycle", t1, None, rng.randrange(100)))
        elif r < 0.2:
            v1, v2 = hg.alias_pair(rng, ids, depth)
            out.append(("alias", v1, v2, rng.randrange(100)))
        elif r < 0.3:
            # the same dict / set content in two insertion orders, keys from one orderable (or not) kind
            kind = rng.choice(["fset", "fset", "tuple", "str", "int", "float", "path"])
            keys = hg.hashable_elems(rng, ids, rng.randrange(2, 5), 2, kind)
            if rng.random() < 0.6:
                t1 = ["VDict", ids.new(), [[k, hg.atom(rng)] for k in keys]]
            else:
                t1 = [rng.choice(["VSet", "VFrozenset"]), ids.new(), keys]
            t2 = hg.fresh(t1, ids)
            t2[2] = t2[2][::-1]
            out.append(("reorder", t1, t2, rng.randrange(100)))
        else:
            t1 = hg.value(rng, ids, depth, top=True)
            m, t2 = hg.mutate(rng, t1, ids)
            out.append((m, t1, t2, rng.randrange(100)))
        if len(out) == 8:
            out += big       # large arrays (byte sizes around multiples of 8192) differing in one element
            big = []
    return out + big


def run(ctx):
    n = ctx.budget(700, 6000)
    gens = gen_cases(ctx, n)
    cases, meta = [], []
    dist = {"mutation": {}, "kinds": {}, "depth": {}, "typeerror_values": 0, "cyclic": 0, "partial_order": 0,
            "table_entries": 0, "scenarios": 0}
    seen = set()
    nontrivial = 0
    evaluations = 0
    skipped = 0
    for name, t1, t2, pick in gens:
        try:
            r = run_case(t1, t2, pick)
        except (hm.Unsupported, TypeError, ValueError, RecursionError):
            skipped += 1
            continue
        cases.append(case_term(r))
        flags = dict(cyc=has_cycle(r["m1"]) or has_cycle(r["m2"]),
                     po=has_partial_order(r["o1"]) or (r["o2"] is not None and has_partial_order(r["o2"])),
                     pk=has_pathkey_eq(r["m1"]) or has_pathkey_eq(r["m2"]))
        meta.append(dict(name=name, t1=t1, t2=t2, pick=pick, m1=r["m1"], m2=r["m2"],
                         d1=r["d1"].hex() if r["d1"] else None, d2=r["d2"].hex() if r["d2"] else None,
                         ctx=[[a.hex() if a else None, [x.hex() if x else None for x in xs]] for a, xs in r["ctx"]],
                         flags=flags))
        dist["mutation"][name.split(":")[0]] = dist["mutation"].get(name.split(":")[0], 0) + 1
        for k, v in hm.kinds(r["m1"]).items():
            dist["kinds"][k] = dist["kinds"].get(k, 0) + v
        dp = str(hm.depth(r["m1"]))
        dist["depth"][dp] = dist["depth"].get(dp, 0) + 1
        dist["typeerror_values"] += r["d1"] is None
        dist["cyclic"] += flags["cyc"]
        dist["partial_order"] += flags["po"]
        dist["table_entries"] += len(r["table"])
        dist["scenarios"] += len(r["scen"])
        evaluations += sum(len(ds) for _, ds in r["scen"])
        for m in (r["m1"], r["m2"]):
            key = json.dumps(strip_ids(m))
            if key not in seen:
                seen.add(key)
                nontrivial += hm.size(m) >= 3
    dist["skipped_unsupported"] = skipped
    res = coqio.run_cases(ctx.scratch, "c08", IMPORTS, "case_t", cases,
                          {"tie": "tie_ok", "pair": "spec_pair", "ctx": "spec_ctx"}, extra=EXTRA, shard=400, timeout=1500)
    # how many generated values lie inside the domains of the three positive theorems (computable checkers of
    # Proofs/HashDom.v, proved sound there); statistics only
    try:
        dom = coqio.run_cases(ctx.scratch, "c08dom", IMPORTS + ["Proofs.HashDom"], "pyval",
                              [hm.term(m["m1"]) for m in meta],
                              {"acyclic": "fun v => fst (fst (in_domains v))",
                               "sortable": "fun v => snd (fst (in_domains v))",
                               "inj_dom": "fun v => snd (in_domains v)"}, shard=2000, timeout=900)
        dist["in_domain_of"] = {k: len(meta) - len(v) for k, v in dom.items()}
        dist["in_domain_of"]["all_three"] = len(meta) - len(set().union(*[set(v) for v in dom.values()]))
    except Exception as e:  # pragma: no cover
        dist["in_domain_of"] = "not computed: %r" % (e,)
    out = Outcome(evaluations=evaluations, distinct_nontrivial=nontrivial, rule=RULE,
                  samples=[{"mutation": m["name"], "v1": m["m1"], "v2": m["m2"], "digest1": m["d1"], "digest2": m["d2"]}
                           for m in meta[:4]],
                  distribution=dist, traces_validated=len(meta))
    for i in res["pair"]:
        m = meta[i]
        same = m["d1"] == m["d2"]
        finding = None
        if same and m["flags"]["pk"]:
            finding = "F08c"
        elif not same and m["flags"]["po"]:
            finding = "F08d"
        out.failures.append(Failure(
            case={"name": m["name"], "t1": m["t1"], "t2": m["t2"], "pick": m["pick"]},
            observed={"digest1": m["d1"], "digest2": m["d2"]},
            expected="different digests (the values differ)" if same else "equal digests (the values are equal)",
            note="two different values, one digest" if same else "equal values, two digests",
            finding=finding, kind="spec"))
    for i in res["ctx"]:
        m = meta[i]
        out.failures.append(Failure(
            case={"name": m["name"], "t1": m["t1"], "t2": m["t2"], "pick": m["pick"]},
            observed={"alone_vs_in_context": m["ctx"]}, expected="the digest alone in every context",
            note="digest depends on what was hashed before / alongside",
            finding="F08b" if m["flags"]["cyc"] else None, kind="spec"))
    for i in res["tie"][:10]:
        m = meta[i]
        out.failures.append(Failure(case={"name": m["name"], "t1": m["t1"], "t2": m["t2"], "pick": m["pick"]},
                                    observed={"digest1": m["d1"], "digest2": m["d2"], "ctx": m["ctx"]},
                                    expected=model_digests(ctx, m), note="model/impl", kind="tie"))
    return out


def strip_ids(t):
    k = t[0]
    if k in ("VList", "VTuple", "VSet", "VFrozenset"):
        return [k, [strip_ids(c) for c in t[2]]]
    if k == "VDict":
        return [k, [[strip_ids(a), strip_ids(b)] for a, b in t[2]]]
    if k == "VObj":
        return [k, t[2], [[n, strip_ids(v)] for n, v in t[4]]]
    if k in ("VNd", "VFunc", "VOpaque"):
        return [k] + t[2:]
    return t


def model_digests(ctx, m):
    """what the model says for the two values alone, with H := real blake2b table of this very case"""
    try:
        r = run_case(m["t1"], m["t2"], m["pick"])
        vals = coqio.eval_terms(ctx.scratch, "md", IMPORTS,
                                ["map (fun s : scen_t => hash_all (table_H %s) (fst s) []) %s" % (
                                    hm.table_term(r["table"]),
                                    coqio.lst([coqio.pair(coqio.lst([hm.term(t) for t in ts]),
                                                          coqio.lst([hm.opt_digest(d) for d in ds]))
                                               for ts, ds in r["scen"]]))], extra=EXTRA)
        return vals[0][:3000]
    except Exception as e:  # pragma: no cover
        return "model evaluation failed: %r" % (e,)


def replay(ctx, payload):
    c = payload["case"]
    r = run_case(c["t1"], c.get("t2"), c.get("pick", 0))
    print("value 1:", json.dumps(r["m1"]))
    print("value 2:", json.dumps(r["m2"]))
    print("implementation: digest1=%s digest2=%s" % (r["d1"].hex() if r["d1"] else None, r["d2"].hex() if r["d2"] else None))
    for a, xs in r["ctx"]:
        print("implementation: alone=%s in-context=%s" % (a.hex() if a else None, [x.hex() if x else None for x in xs]))
    term = case_term(r)
    vals = coqio.eval_terms(ctx.scratch, "replay", IMPORTS,
                            ["let c : case_t := %s in (tie_ok c, spec_pair c, spec_ctx c, "
                             "veqb (S (vdepth %s)) %s %s)" % (term, hm.term(r["m1"]), hm.term(r["m1"]), hm.term(r["m2"]))],
                            extra=EXTRA)
    print("model agrees with implementation / pair spec holds / context spec holds / values equal (spec):", vals[0])
