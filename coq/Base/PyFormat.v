(* Base/PyFormat.v — Python primitives shared by the shell-template models and specs:
   PurePosixPath.name / .parent / "/" (on top of Base/PyPath.v), str() / repr() of the value kinds used in
   path templates, and str.format with keyword arguments for the fragment {name}, {name:.Nf}, {{, }}.
   No pydra algorithm here. No proofs here. *)
From Pydra Require Import Base.Prelude Base.PyPath.
Local Open Scope char_scope.
Local Open Scope list_scope.

(* ------------------------------------------------------------------ pathlib pieces used by the code *)
Definition pname (p : ppath) : list ascii := last (p_comps p) [].               (* PurePath.name *)
Definition pparent (p : ppath) : ppath :=                                        (* PurePath.parent *)
  {| p_anchor := p_anchor p; p_comps := removelast (p_comps p) |}.
Definition pjoin (a b : ppath) : ppath :=                                        (* a / b *)
  match p_anchor b with
  | ARel => {| p_anchor := p_anchor a; p_comps := p_comps a ++ p_comps b |}
  | _ => b
  end.
Definition pstr (p : ppath) : list ascii := render p.                            (* str(path) *)

(* ------------------------------------------------------------------ values of task inputs *)
Inductive atom :=
| AStr (s : list ascii)
| AInt (z : Z)
| ADec (neg : bool) (m : N) (k : nat)     (* a float whose exact value is (-1)^neg * m / 10^k, k >= 1, printed by str() with k decimals *)
| APath (s : list ascii).                  (* os.PathLike: pathlib.Path or a fileformats File; s = os.fspath(value) *)

Inductive value :=
| VNone
| VAtom (a : atom)
| VList (l : list atom).                   (* list / MultiInputObj *)

Definition env := list (list ascii * value).

Fixpoint lookup (k : list ascii) (d : env) : option value :=
  match d with
  | [] => None
  | (k', v) :: r => if la_eqb k k' then Some v else lookup k r
  end.

(* dict[k] = v : keeps the position of an existing key *)
Fixpoint dict_set (k : list ascii) (v : value) (d : env) : env :=
  match d with
  | [] => [(k, v)]
  | (k', v') :: r => if la_eqb k k' then (k, v) :: r else (k', v') :: dict_set k v r
  end.

(* ------------------------------------------------------------------ numbers as text *)
Fixpoint dec_digits (fuel : nat) (n : N) (acc : list ascii) : list ascii :=
  match fuel with
  | O => acc
  | S f => let d := ascii_of_N (48 + N.modulo n 10) in
           if N.ltb n 10 then d :: acc else dec_digits f (N.div n 10) (d :: acc)
  end.
Definition str_of_N (n : N) : list ascii := dec_digits (S (N.to_nat (N.log2 n))) n [].
Definition str_of_Z (z : Z) : list ascii :=
  match z with
  | Zneg p => "-" :: str_of_N (Npos p)
  | _ => str_of_N (Z.to_N z)
  end.
Fixpoint zeros (n : nat) : list ascii := match n with O => [] | S m => "0" :: zeros m end.
Definition pad_left (n : nat) (l : list ascii) : list ascii := zeros (n - List.length l) ++ l.

(* m / 10^k printed with exactly k decimals (no point when k = 0) *)
Definition fixed_digits (neg : bool) (m : N) (k : nat) : list ascii :=
  let p := N.pow 10 (N.of_nat k) in
  (if neg then ["-"] else []) ++ str_of_N (N.div m p) ++
  match k with O => [] | _ => "." :: pad_left k (str_of_N (N.modulo m p)) end.

(* format(value, ".Nf") of the exact decimal m / 10^k : round-half-even to n decimals *)
Definition format_fixed (neg : bool) (m : N) (k n : nat) : list ascii :=
  let num := N.mul m (N.pow 10 (N.of_nat n)) in
  let den := N.pow 10 (N.of_nat k) in
  let q := N.div num den in
  let r := N.modulo num den in
  let q' := if N.ltb den (2 * r) then N.succ q
            else if N.eqb den (2 * r) then (if N.odd q then N.succ q else q) else q in
  fixed_digits neg q' n.

(* ------------------------------------------------------------------ str() / repr() *)
Definition squote : ascii := "'".
Definition dquote : ascii := """".
Definition bslash : ascii := "\".

(* backslash, \t, \n, \r as repr() writes them; other control characters are outside the model *)
Definition escape_ctl (c : ascii) : list ascii :=
  if Ascii.eqb c bslash then [bslash; bslash]
  else if Nat.eqb (nat_of_ascii c) 9 then [bslash; "t"]
  else if Nat.eqb (nat_of_ascii c) 10 then [bslash; "n"]
  else if Nat.eqb (nat_of_ascii c) 13 then [bslash; "r"]
  else [c].
Fixpoint escape_sq (l : list ascii) : list ascii :=
  match l with
  | [] => []
  | c :: r => if Ascii.eqb c squote then bslash :: squote :: escape_sq r
              else escape_ctl c ++ escape_sq r
  end.
Fixpoint escape_bs (l : list ascii) : list ascii :=
  match l with
  | [] => []
  | c :: r => escape_ctl c ++ escape_bs r
  end.
Definition mem_ascii (c : ascii) (l : list ascii) : bool := existsb (Ascii.eqb c) l.

(* repr of a str made of printable ASCII *)
Definition repr_str (s : list ascii) : list ascii :=
  if mem_ascii squote s && negb (mem_ascii dquote s)
  then dquote :: escape_bs s ++ [dquote]
  else squote :: escape_sq s ++ [squote].

Definition str_atom (a : atom) : list ascii :=
  match a with
  | AStr s => s
  | AInt z => str_of_Z z
  | ADec neg m k => fixed_digits neg m k
  | APath s => pstr (parse s)
  end.

Definition la (s : string) : list ascii := la_of s.

Definition repr_atom (a : atom) : list ascii :=
  match a with
  | AStr s => repr_str s
  | APath s => la "PosixPath(" ++ repr_str (pstr (parse s)) ++ [")"]
  | _ => str_atom a
  end.

Fixpoint join_with (sep : list ascii) (l : list (list ascii)) : list ascii :=
  match l with
  | [] => []
  | [x] => x
  | x :: r => x ++ sep ++ join_with sep r
  end.

Definition str_value (v : value) : list ascii :=
  match v with
  | VNone => la "None"
  | VAtom a => str_atom a
  | VList l => "[" :: join_with (la ", ") (map repr_atom l) ++ ["]"]
  end.

(* ------------------------------------------------------------------ errors / results *)
Inductive err :=
| EMissing        (* AttributeError: "<name> is not provided in the input" *)
| EMultiPath      (* Exception: can't have multiple paths in the template *)
| ELength         (* Exception: all list fields must have the same length *)
| EFormat         (* KeyError / IndexError / ValueError / TypeError raised by str.format *)
| ENested         (* AttributeError: a tuple template whose element formats to a list *)
| EUnsupported.   (* outside the modelled fragment of the str.format mini-language *)

Inductive res (A : Type) := Ok (a : A) | Err (e : err).
Arguments Ok {A} a.
Arguments Err {A} e.

Definition bind {A B} (r : res A) (f : A -> res B) : res B :=
  match r with Ok a => f a | Err e => Err e end.

Fixpoint mapM {A B} (f : A -> res B) (l : list A) : res (list B) :=
  match l with
  | [] => Ok []
  | x :: r => bind (f x) (fun y => bind (mapM f r) (fun ys => Ok (y :: ys)))
  end.

(* ------------------------------------------------------------------ str.format (keyword arguments only) *)
Inductive spec := SpNone | SpFixed (n : nat).
Inductive piece := Lit (c : ascii) | Field (name : list ascii) (sp : option (list ascii)).

Inductive scan_state := Top | AfterOpen | InField (acc : list ascii) | AfterClose.

Definition lbrace : ascii := "{".
Definition rbrace : ascii := "}".

(* split "name:spec" at the first ':' *)
Fixpoint split_colon (l acc : list ascii) : list ascii * option (list ascii) :=
  match l with
  | [] => (rev acc, None)
  | c :: r => if Ascii.eqb c ":" then (rev acc, Some r) else split_colon r (c :: acc)
  end.
Definition mk_field (txt : list ascii) : piece :=
  let '(n, sp) := split_colon txt [] in Field n sp.

(* MarkupIterator of CPython's str.format, as a character state machine *)
Fixpoint scan (st : scan_state) (l : list ascii) (out : list piece) : res (list piece) :=
  match l with
  | [] => match st with Top => Ok (rev out) | _ => Err EFormat end
  | c :: r =>
      match st with
      | Top => if Ascii.eqb c lbrace then scan AfterOpen r out
               else if Ascii.eqb c rbrace then scan AfterClose r out
               else scan Top r (Lit c :: out)
      | AfterOpen => if Ascii.eqb c lbrace then scan Top r (Lit lbrace :: out)
                     else if Ascii.eqb c rbrace then scan Top r (mk_field [] :: out)
                     else scan (InField [c]) r out
      | InField acc => if Ascii.eqb c rbrace then scan Top r (mk_field (rev acc) :: out)
                       else if Ascii.eqb c lbrace then Err EUnsupported
                       else scan (InField (c :: acc)) r out
      | AfterClose => if Ascii.eqb c rbrace then scan Top r (Lit rbrace :: out) else Err EFormat
      end
  end.
Definition tokenize (t : list ascii) : res (list piece) := scan Top t [].

Definition is_digit (c : ascii) : bool := let n := nat_of_ascii c in Nat.leb 48 n && Nat.leb n 57.
Definition is_word (c : ascii) : bool :=
  let n := nat_of_ascii c in
  is_digit c || (Nat.leb 65 n && Nat.leb n 90) || (Nat.leb 97 n && Nat.leb n 122) || Nat.eqb n 95.

Fixpoint nat_of_digits (l : list ascii) (acc : nat) : nat :=
  match l with [] => acc | c :: r => nat_of_digits r (10 * acc + (nat_of_ascii c - 48)) end.

(* format specs understood by the model: "" and ".<digits>f" *)
Definition parse_spec (sp : option (list ascii)) : option spec :=
  match sp with
  | None => Some SpNone
  | Some [] => Some SpNone
  | Some (c :: r) =>
      if Ascii.eqb c "." then
        match rev r with
        | f :: ds => if Ascii.eqb f "f" && forallb is_digit ds && negb (Nat.eqb (List.length ds) 0) && Nat.leb (List.length ds) 2
                     then Some (SpFixed (nat_of_digits (rev ds) 0)) else None
        | [] => None
        end
      else None
  end.

Definition format_value (v : value) (sp : spec) : res (list ascii) :=
  match sp with
  | SpNone => Ok (str_value v)
  | SpFixed n =>
      match v with
      | VAtom (AInt z) => Ok (format_fixed (Z.ltb z 0) (Z.abs_N z) 0 n)
      | VAtom (ADec neg m k) => Ok (format_fixed neg m k n)
      | _ => Err EFormat                 (* ValueError for str, TypeError for Path / list / None *)
      end
  end.

Definition all_word (n : list ascii) : bool := forallb is_word n.
Definition all_digits (n : list ascii) : bool := forallb is_digit n.

Definition render_piece (d : env) (p : piece) : res (list ascii) :=
  match p with
  | Lit c => Ok [c]
  | Field n sp =>
      match n with
      | [] => Err EFormat                                   (* "{}": IndexError *)
      | _ =>
        if all_digits n then Err EFormat                    (* "{0}": IndexError *)
        else if negb (all_word n) then Err EUnsupported     (* attribute / index / conversion syntax *)
        else match lookup n d with
             | None => Err EFormat                          (* KeyError *)
             | Some v => match parse_spec sp with
                         | None => Err EUnsupported
                         | Some s => format_value v s
                         end
             end
      end
  end.

Fixpoint render_pieces (d : env) (ps : list piece) : res (list ascii) :=
  match ps with
  | [] => Ok []
  | p :: r => bind (render_piece d p) (fun a => bind (render_pieces d r) (fun b => Ok (a ++ b)))
  end.

Definition py_format (t : list ascii) (d : env) : res (list ascii) :=
  bind (tokenize t) (render_pieces d).

