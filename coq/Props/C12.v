(* C12 — A crash at any point never yields a wrong result or a wedged cache. *)
From Pydra Require Import Base.Prelude.
From Pydra Require Import Model.CacheProto Spec.CacheProto Proofs.CacheProto Proofs.CacheProtoC35 Proofs.CacheProtoC10
  Proofs.CacheProtoC12 Proofs.CacheProtoSpec.

(* Any history of submissions by any number of processes killed at arbitrary points (ACrash after any
   checkpoint, AProgress n: any length of a partially written file), deterministic body, no rerun.  A process
   that is not in the middle of a submission submits again while every other live process is outside its with
   block (the holders of the two markers, if any, are dead): its submission terminates on its own with
   observations meeting the C12 spec. *)
Definition C12_full_statement : Prop :=
  forall pickle unpickle, codec_ok pickle unpickle ->
  forall bv pre tr s p (asy : bool),
    det_trace tr = true -> run pickle unpickle bv (init bv pre) tr = Some s ->
    alive s p -> (pc (procs s p) = Idle \/ pc (procs s p) = Done) ->
    (forall r, r <> p -> alive s r -> holds (pc (procs s r)) = false) ->
    exists tr' s', (forall e, In e tr' -> fst e = p) /\ run pickle unpickle bv s tr' = Some s' /\
                   c12_spec bv (runs (gl s)) (observe_g s' [p]) (observe_p s' p).

Theorem C12_recover : C12_full_statement.
Proof. intros pickle unpickle C bv pre tr s p asy. now apply c12_model_meets_spec. Qed.
Print Assumptions C12_recover.

(* when a whole result can be read back nothing is executed again and the directory is left as it is *)
Theorem C12_recover_hit :
  forall pickle unpickle, codec_ok pickle unpickle ->
  forall bv pre tr s p (asy : bool) r,
    det_trace tr = true -> run pickle unpickle bv (init bv pre) tr = Some s ->
    alive s p -> (pc (procs s p) = Idle \/ pc (procs s p) = Done) ->
    (forall q, q <> p -> alive s q -> holds (pc (procs s q)) = false) ->
    load_result pickle unpickle (gl s) = Some r ->
    r = ok bv /\
    exists s', run pickle unpickle bv s (map (pair p) (hit_actions asy)) = Some s' /\
               pc (procs s' p) = Done /\ ret (procs s' p) = Some (good bv) /\ gl s' = set_lock None (gl s).
Proof. intros pickle unpickle (H1 & H2 & H3) bv pre tr s p asy r. now apply recover_hit. Qed.
Print Assumptions C12_recover_hit.

(* a strict prefix of the pickle, of any length, is never read back as a result *)
Theorem C12_truncation :
  forall pickle unpickle, codec_ok pickle unpickle ->
  forall g r n, resf g = Writing r n -> n < List.length (pickle r) -> load_result pickle unpickle g = None.
Proof. intros pickle unpickle (H1 & H2 & H3) g r n. now apply truncation. Qed.
Print Assumptions C12_truncation.

(* a marker whose owner is dead does not block: under the recovery hypothesis both markers name dead processes *)
Theorem C12_dead_markers :
  forall pickle unpickle bv pre tr s p,
    run pickle unpickle bv (init bv pre) tr = Some s ->
    alive s p -> holds (pc (procs s p)) = false ->
    (forall r, r <> p -> alive s r -> holds (pc (procs s r)) = false) ->
    free (lock (gl s)) (gl s) = true /\ free (slock (gl s)) (gl s) = true.
Proof.
  intros pickle unpickle bv pre tr s p R Ap Hp Oth.
  destruct (markers_free s p (lock_inv_reachable pickle unpickle bv _ _ _ R) Ap Hp Oth) as [M1 M2].
  split; [destruct (lock (gl s)) eqn:E|destruct (slock (gl s)) eqn:E]; cbn; auto.
Qed.
Print Assumptions C12_dead_markers.

Example C12_codec_example : codec_ok toy_pickle toy_unpickle.
Proof. exact toy_codec_ok. Qed.
