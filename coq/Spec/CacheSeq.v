(* Spec/CacheSeq.v — reference semantics for C11 / C13 / C19, stated over what can be observed
   of one submission (cache contents before and after, the executions that happened, what was
   reported), never over pydra's algorithm.  Prop statements and executable versions. *)
From Pydra Require Import Base.Prelude Model.CacheSeq.
Local Open Scope bool_scope.

(* ------------------------------------------------------------------ decidable equalities *)
Definition res_eqb (a b : res) : bool :=
  match a, b with Ok x, Ok y => Nat.eqb x y | Err, Err => true | _, _ => false end.
Definition dir_eqb (a b : dir) : bool :=
  match a, b with
  | Absent, Absent => true | Partial, Partial => true
  | Complete x, Complete y => res_eqb x y | _, _ => false end.
Definition is_ok (r : res) : bool := match r with Ok _ => true | Err => false end.
Definition ev_id (e : event) : ident := match e with EvHit c _ => c | EvRun c _ _ => c end.
Definition is_run (e : event) : bool := match e with EvRun _ _ _ => true | EvHit _ _ => false end.
Definition is_run_of (c : ident) (e : event) : bool :=
  match e with EvRun c' _ _ => Nat.eqb c c' | EvHit _ _ => false end.

(* identities occurring in a task; a task is well formed when no node carries the identity of
   a workflow enclosing it (a workflow cannot contain itself) *)
Fixpoint ids (t : task) : list ident :=
  match t with Leaf c => [c] | Wf c ns => c :: flat_map ids ns end.
Fixpoint wf_taskb (t : task) : bool :=
  match t with
  | Leaf _ => true
  | Wf c ns => negb (existsb (Nat.eqb c) (flat_map ids ns)) && forallb wf_taskb ns
  end.

(* ------------------------------------------------------------------ one observed submission *)
Record observed := {
  o_pre : store;               (* every cache location before the submission *)
  o_sub : submission;          (* task, cache root, read-only list, propagate flag, rerun flag *)
  o_events : list event;       (* jobs entered during the submission, in completion order *)
  o_reported : res;            (* what the submission handed back (Err = failure reported) *)
  o_post : store               (* every cache location afterwards *)
}.

Definition o_root (o : observed) : loc := root (s_cfg (o_sub o)).
Definition o_listed (o : observed) : list loc := all_caches (s_cfg (o_sub o)).
Definition o_top (o : observed) : ident := tid (s_task (o_sub o)).

(* rerun has been requested for identity c by this submission:
   the submitted task itself, or — with propagation on — anything inside it *)
Definition requested (sub : submission) (c : ident) : bool :=
  s_rerun sub && (Nat.eqb c (tid (s_task sub)) || prop (s_cfg sub)).

(* the outcome of the last execution of c among evs, if any *)
Fixpoint last_run (c : ident) (evs : list event) : option res :=
  match evs with
  | [] => None
  | e :: r => match last_run c r with
              | Some x => Some x
              | None => match e with EvRun c' _ x => if Nat.eqb c c' then Some x else None | _ => None end
              end
  end.

(* does the cache root rt hold a successful complete result for c after the events evs,
   given the contents pre before the submission? *)
Definition rok (pre : store) (rt : loc) (evs : list event) (c : ident) : bool :=
  match last_run c evs with
  | Some r => is_ok r
  | None => match pre rt c with Complete (Ok _) => true | _ => false end
  end.
Definition root_ok_after (o : observed) (evs : list event) (c : ident) : bool :=
  rok (o_pre o) (o_root o) evs c.

(* C11 (a) at most once: an execution of c while the root holds its successful result
   happens only on request *)
Definition spec_once (o : observed) : Prop :=
  forall e1 c rr r e2, o_events o = e1 ++ EvRun c rr r :: e2 ->
    root_ok_after o e1 c = true -> requested (o_sub o) c = true.

(* C11 (b) rerun re-executes the task; with propagation every job entered is executed *)
Definition spec_rerun (o : observed) : Prop :=
  s_rerun (o_sub o) = true ->
    (exists r, last_run (o_top o) (o_events o) = Some r) /\
    (prop (s_cfg (o_sub o)) = true -> forall e, In e (o_events o) -> is_run e = true).

(* C11 (c) reuse: a complete successful result in any listed cache => nothing is executed and
   one of the listed results is handed back *)
Definition listed_ok (o : observed) (v : value) : Prop :=
  exists l, In l (o_listed o) /\ o_pre o l (o_top o) = Complete (Ok v).
Definition spec_reuse (o : observed) : Prop :=
  s_rerun (o_sub o) = false -> (exists v, listed_ok o v) ->
    (forall e, In e (o_events o) -> is_run e = false) /\ exists v, listed_ok o v /\ o_reported o = Ok v.

(* C11 (d) only the cache root is written, and there exactly the executed identities:
   their directory holds the outcome of their last execution *)
Definition spec_readonly (o : observed) : Prop :=
  forall l c, l <> o_root o -> o_post o l c = o_pre o l c.
Definition spec_written (o : observed) : Prop :=
  forall c, match last_run c (o_events o) with
            | Some r => o_post o (o_root o) c = Complete r
            | None => o_post o (o_root o) c = o_pre o (o_root o) c
            end.

(* C13 (a) a failure is never served: whatever a job takes from the cache without executing
   is a stored success — present before the submission or produced earlier in it *)
Definition servedp (pre : store) (rt : loc) (listed : list loc) (e1 : list event) (c : ident) (v : value) : Prop :=
  last_run c e1 = Some (Ok v) \/
  exists l, In l listed /\ pre l c = Complete (Ok v) /\ (l = rt -> last_run c e1 = None).
Definition served (o : observed) (e1 : list event) (c : ident) (v : value) : Prop :=
  servedp (o_pre o) (o_root o) (o_listed o) e1 c v.
Definition spec_not_served (o : observed) : Prop :=
  forall e1 c v e2, o_events o = e1 ++ EvHit c v :: e2 -> served o e1 c v.
(* C13 (b) the failure is reported: the submission hands back the outcome of the last
   execution of the submitted task, and a stored failure is re-executed, not handed back *)
Definition spec_reported (o : observed) : Prop :=
  match last_run (o_top o) (o_events o) with
  | Some r => o_reported o = r
  | None => exists v, o_reported o = Ok v
  end.

Definition step_spec_core (o : observed) : Prop :=
  spec_once o /\ spec_rerun o /\ spec_readonly o /\ spec_written o /\ spec_not_served o /\ spec_reported o.
Definition step_spec (o : observed) : Prop := step_spec_core o /\ spec_reuse o.

(* The input class on which "a complete result present in any listed cache is reused" fails on
   the current tree (known finding F11b): a listed location holds an *errored* complete result
   for the submitted identity in front of every successful one. *)
Fixpoint errored_shadow (s : store) (c : ident) (locs : list loc) : bool :=
  match locs with
  | [] => false
  | l :: r => match s l c with
              | Complete Err => existsb (fun l' => match s l' c with Complete (Ok _) => true | _ => false end) r
              | Complete (Ok _) => false
              | _ => errored_shadow s c r
              end
  end.
(* The input class of the repaired finding F11 (witness kept for the driver's classifier on a
   tree without the repair): an incomplete directory listed before a complete result. *)
Fixpoint leftover_shadow (s : store) (c : ident) (locs : list loc) : bool :=
  match locs with
  | [] => false
  | l :: r => match s l c with
              | Partial => existsb (fun l' => match s l' c with Complete (Ok _) => true | _ => false end) r
                           || leftover_shadow s c r
              | Complete _ => false
              | Absent => leftover_shadow s c r
              end
  end.

(* ------------------------------------------------------------------ executable versions *)
(* stores are compared on a finite universe of locations and identities given with the case *)
Definition univ := (list loc * list ident)%type.

Fixpoint splits_ok (f : list event -> event -> bool) (done todo : list event) : bool :=
  match todo with
  | [] => true
  | e :: r => f done e && splits_ok f (done ++ [e]) r
  end.

Definition once_b (o : observed) : bool :=
  splits_ok (fun e1 e => match e with
                         | EvRun c _ _ => negb (root_ok_after o e1 c) || requested (o_sub o) c
                         | _ => true end) [] (o_events o).
Definition rerun_b (o : observed) : bool :=
  negb (s_rerun (o_sub o)) ||
  (match last_run (o_top o) (o_events o) with Some _ => true | None => false end
   && (negb (prop (s_cfg (o_sub o))) || forallb is_run (o_events o))).
Definition first_listed_ok (o : observed) : list value :=
  flat_map (fun l => match o_pre o l (o_top o) with Complete (Ok v) => [v] | _ => [] end) (o_listed o).
Definition reuse_b (o : observed) : bool :=
  s_rerun (o_sub o) ||
  match first_listed_ok o with
  | [] => true
  | vs => forallb (fun e => negb (is_run e)) (o_events o)
          && existsb (fun v => res_eqb (o_reported o) (Ok v)) vs
  end.
Definition readonly_b (u : univ) (o : observed) : bool :=
  forallb (fun l => Nat.eqb l (o_root o) || forallb (fun c => dir_eqb (o_post o l c) (o_pre o l c)) (snd u)) (fst u).
Definition written_b (u : univ) (o : observed) : bool :=
  forallb (fun c => match last_run c (o_events o) with
                    | Some r => dir_eqb (o_post o (o_root o) c) (Complete r)
                    | None => dir_eqb (o_post o (o_root o) c) (o_pre o (o_root o) c) end) (snd u).
Definition option_res_eqb (a b : option res) : bool := option_eqb res_eqb a b.
Definition not_served_b (o : observed) : bool :=
  splits_ok (fun e1 e => match e with
                         | EvHit c v =>
                             option_res_eqb (last_run c e1) (Some (Ok v)) ||
                             existsb (fun l => dir_eqb (o_pre o l c) (Complete (Ok v)) &&
                                               (negb (Nat.eqb l (o_root o)) || option_res_eqb (last_run c e1) None))
                                     (o_listed o)
                         | _ => true end) [] (o_events o).
Definition reported_b (o : observed) : bool :=
  match last_run (o_top o) (o_events o) with
  | Some r => res_eqb (o_reported o) r
  | None => is_ok (o_reported o)
  end.

Definition step_spec_core_b (u : univ) (o : observed) : bool :=
  once_b o && rerun_b o && readonly_b u o && written_b u o && not_served_b o && reported_b o.

(* ------------------------------------------------------------------ whole histories *)
(* C11 over a history: flatten the executions, each tagged with its submission.  Whenever two
   consecutive executions of the same identity under the same cache root are such that the
   first succeeded, the second was requested by a rerun. *)
Inductive hobs := HSubmit (o : observed) | HPlant (l : loc) (c : ident).

Definition plant_store (s : store) (l : loc) (c : ident) : store :=
  match s l c with Absent => set_dir s l c Partial | _ => s end.

(* consecutive observations fit together: what one step left is what the next one found *)
Fixpoint chained (s : store) (h : list hobs) : Prop :=
  match h with
  | [] => True
  | HSubmit o :: r => (forall l c, o_pre o l c = s l c) /\ chained (o_post o) r
  | HPlant l c :: r => chained (plant_store s l c) r
  end.

Definition tagged := (submission * event)%type.
Fixpoint flatten (h : list hobs) : list tagged :=
  match h with
  | [] => []
  | HSubmit o :: r => map (fun e => (o_sub o, e)) (o_events o) ++ flatten r
  | HPlant _ _ :: r => flatten r
  end.
Definition is_run_at (R : loc) (c : ident) (x : tagged) : bool :=
  Nat.eqb (root (s_cfg (fst x))) R && is_run_of c (snd x).

Definition history_once (h : list hobs) : Prop :=
  forall R c t1 sub1 rr1 v t2 sub2 rr2 r2 t3,
    flatten h = t1 ++ (sub1, EvRun c rr1 (Ok v)) :: t2 ++ (sub2, EvRun c rr2 r2) :: t3 ->
    root (s_cfg sub1) = R -> root (s_cfg sub2) = R ->
    forallb (fun x => negb (is_run_at R c x)) t2 = true ->
    requested sub2 c = true.

(* ------------------------------------------------------------------ C13: python return binding *)
(* every mandatory declared output is provided, or the job fails *)
Definition provided (o : oval) : bool := match o with Nothing => false | _ => true end.
Definition outputs_complete (ds : list decl) (outs : list (string * oval)) : Prop :=
  Forall2 (fun d o => fst o = fst d /\ (snd d = true -> provided (snd o) = true)) ds outs.
Fixpoint outputs_complete_b (ds : list decl) (outs : list (string * oval)) : bool :=
  match ds, outs with
  | [], [] => true
  | d :: ds', o :: outs' => String.eqb (fst o) (fst d) && (negb (snd d) || provided (snd o)) && outputs_complete_b ds' outs'
  | _, _ => false
  end.

(* what the return value provides, independent of how pydra walks it *)
Definition provides (ds : list decl) (r : retval) : bool :=
  match r with
  | RNone => true                                        (* None for every output *)
  | RTuple vs => Nat.eqb (List.length ds) 1 || Nat.eqb (List.length vs) (List.length ds)
  | RDict kvs => Nat.eqb (List.length ds) 1 ||
                 forallb (fun d => negb (snd d) || existsb (fun kv => String.eqb (fst d) (fst kv)) kvs) ds
  | ROther _ => Nat.eqb (List.length ds) 1
  end.

(* ------------------------------------------------------------------ C19: in-place mutation *)
(* the body leaves the field names alone; it can only change the objects the fields refer to *)
Fixpoint same_shape (a b : inputs) : Prop :=
  match a, b with
  | [], [] => True
  | (k, _) :: a', (k', _) :: b' => k = k' /\ same_shape a' b'
  | _, _ => False
  end.
(* every field is unchanged, or it is one of the two ways a hash can miss a change:
   the encoding does not discriminate the two values, or the hash collides on the encodings *)
Inductive missed (enc : pyval -> list nat) (H : list nat -> nat) (x y : pyval) : Prop :=
  | NotDiscriminated : x <> y -> enc x = enc y -> missed enc H x y
  | Collision : enc x <> enc y -> H (enc x) = H (enc y) -> missed enc H x y.
Fixpoint unchanged_or_missed (enc : pyval -> list nat) (H : list nat -> nat) (a b : inputs) : Prop :=
  match a, b with
  | (_, x) :: a', (_, y) :: b' => (x = y \/ missed enc H x y) /\ unchanged_or_missed enc H a' b'
  | _, _ => True
  end.
(* executable, for the cases: which fields really differ *)
Fixpoint pyval_eqb (a b : pyval) : bool :=
  match a, b with
  | VInt x, VInt y => Nat.eqb x y
  | VStr x, VStr y => String.eqb x y
  | VList xs, VList ys =>
      (fix go (l1 l2 : list pyval) : bool :=
         match l1, l2 with
         | [], [] => true
         | x :: r1, y :: r2 => pyval_eqb x y && go r1 r2
         | _, _ => false
         end) xs ys
  | VArr s1 d1, VArr s2 d2 => list_eqb Nat.eqb s1 s2 && list_eqb Nat.eqb d1 d2
  | VFile p1 c1, VFile p2 c2 => String.eqb p1 p2 && Nat.eqb c1 c2
  | _, _ => false
  end.
Fixpoint really_changed (a b : inputs) : list string :=
  match a, b with
  | (k, x) :: a', (_, y) :: b' => (if pyval_eqb x y then [] else [k]) ++ really_changed a' b'
  | _, _ => []
  end.
