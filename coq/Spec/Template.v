(* Spec/Template.v — C26 reference semantics.
   (1) "inside the job directory", lexically, on path components;
   (2) the reference reading of a path template, on the *tokenised* template (pieces of str.format), never on
       regexes or string suffix tests: fill the template in with the input file's path stripped of its extension,
       and put the extension (everything after the first dot of the file's name) back at the end iff
       keep_extension is set and the template does not bring an extension of its own;
   (3) the resolved path is job_dir / (last component of the filled-in template).
   Model.Template is imported for the record/result types only. *)
From Pydra Require Import Base.Prelude Base.PyPath Base.PyFormat Model.Template.
Local Open Scope char_scope.
Local Open Scope list_scope.

(* ------------------------------------------------------------------ (1) lexical containment *)
Definition dotdot : list ascii := ["."; "."].
Definition is_dotdot (c : list ascii) : bool := la_eqb c dotdot.

(* follow the components below the job directory: depth after each step, None as soon as a ".." climbs out *)
Fixpoint walk (depth : nat) (cs : list (list ascii)) : option nat :=
  match cs with
  | [] => Some depth
  | c :: r => if is_dotdot c then match depth with O => None | S d => walk d r end
              else walk (S depth) r
  end.

(* p lies strictly below job: same root, p's components extend job's, the extension never climbs out of job
   and ends at least one level below it *)
Definition inside (job p : ppath) : Prop :=
  p_anchor p = p_anchor job /\
  exists rest d, p_comps p = p_comps job ++ rest /\ walk 0 rest = Some (S d).

Definition insideb (job p : ppath) : bool :=
  anchor_eqb (p_anchor p) (p_anchor job) &&
  is_prefix la_eqb (p_comps job) (p_comps p) &&
  match walk 0 (skipn (List.length (p_comps job)) (p_comps p)) with Some (S _) => true | _ => false end.

Definition inside_str (job p : list ascii) : Prop := inside (parse job) (parse p).
Definition inside_strb (job p : list ascii) : bool := insideb (parse job) (parse p).

Definition all_inside (job : list ascii) (r : resolved) : Prop :=
  match r with
  | ROne s => inside_str job s
  | RMany l => Forall (inside_str job) l
  | _ => True
  end.
Definition all_insideb (job : list ascii) (r : resolved) : bool :=
  match r with
  | ROne s => inside_strb job s
  | RMany l => forallb (inside_strb job) l
  | _ => true
  end.

(* same path, lexically *)
Definition same_path (a b : list ascii) : Prop := parse a = parse b.
Definition ppath_eqb (a b : ppath) : bool :=
  anchor_eqb (p_anchor a) (p_anchor b) && list_eqb la_eqb (p_comps a) (p_comps b).
Definition same_pathb (a b : list ascii) : bool := ppath_eqb (parse a) (parse b).

(* ------------------------------------------------------------------ (2) reference reading of a template *)
Definition opt_of {A} (r : res A) : option A := match r with Ok a => Some a | Err _ => None end.

Definition refs (ps : list piece) : list (list ascii) :=
  flat_map (fun p => match p with Field n _ => [n] | Lit _ => [] end) ps.

Fixpoint lookups (names : list (list ascii)) (values : env) : option (list (list ascii * value)) :=
  match names with
  | [] => Some []
  | n :: r => match lookup n values, lookups r values with
              | Some v, Some l => Some ((n, v) :: l)
              | _, _ => None
              end
  end.

(* extension of a file = text after the first '.' of its name; stem path = the path with that (and the dot) removed *)
Fixpoint before_dot (l : list ascii) : list ascii :=
  match l with [] => [] | c :: r => if Ascii.eqb c "." then [] else c :: before_dot r end.
Fixpoint after_dot (l : list ascii) : option (list ascii) :=
  match l with [] => None | c :: r => if Ascii.eqb c "." then Some r else after_dot r end.
Definition spec_ext (f : list ascii) : option (list ascii) := after_dot (pname (parse f)).
Definition spec_stem_path (f : list ascii) : list ascii :=
  pstr (pjoin (pparent (parse f)) (parse (before_dot (pname (parse f))))).

Definition is_file (v : value) : bool := match v with VAtom (APath _) => true | _ => false end.

(* the template has no extension of its own: no '.' in its literal text nor in a format spec *)
Definition no_own_ext (ps : list piece) : bool :=
  forallb (fun p => match p with
                    | Lit c => negb (Ascii.eqb c ".")
                    | Field _ (Some sp) => negb (mem_ascii "." sp)
                    | Field _ None => true
                    end) ps.
Definition last_is_field (n : list ascii) (ps : list piece) : bool :=
  match rev ps with Field m None :: _ => la_eqb m n | _ => false end.

(* values0: the task's input values (decides which reference is *the input file*: a field whose own value is a
   path; elements of a list are plain values); values: the same with list-valued fields replaced by one element *)
Definition spec_elem (keep : bool) (ps : list piece) (values0 values : env) : option (list ascii) :=
  match lookups (refs ps) values0 with
  | None => None
  | Some rv =>
      match filter (fun kv => is_file (snd kv)) rv with
      | [] => opt_of (render_pieces values ps)
      | [(n, VAtom (APath f))] =>
          match opt_of (render_pieces (dict_set n (VAtom (AStr (spec_stem_path f))) values) ps) with
          | None => None
          | Some base =>
              Some (if keep && (last_is_field n ps || no_own_ext ps)
                    then match spec_ext f with Some e => base ++ "." :: e | None => base end
                    else base)
          end
      | _ => None                      (* several file references: the code refuses *)
      end
  end.

Definition spec_pick (ii : nat) (values : env) : env :=
  map (fun kv => match snd kv with
                 | VList l => (fst kv, match nth_error l ii with Some a => VAtom a | None => VNone end)
                 | _ => kv
                 end) values.

Fixpoint all_some {A} (l : list (option A)) : option (list A) :=
  match l with
  | [] => Some []
  | Some x :: r => option_map (cons x) (all_some r)
  | None :: _ => None
  end.

Definition has_brace (t : list ascii) : bool := mem_ascii lbrace t || mem_ascii rbrace t.

Definition v_is_list (v : value) : bool := match v with VList _ => true | _ => false end.
Definition v_len (v : value) : nat := match v with VList l => List.length l | _ => 0 end.

(* None = the reference reading does not determine a value (the code is expected to refuse, or the template uses
   syntax outside the documented {name} / {name:.Nf} forms) *)
Definition spec_single (multi keep : bool) (t : list ascii) (values : env) : option formatted :=
  match opt_of (tokenize t) with
  | None => None
  | Some ps =>
      match refs ps with
      | [] => if has_brace t then None else Some (FOne t)
      | names =>
          match lookups names values with
          | None => None
          | Some rv =>
              if Nat.ltb 1 (List.length (filter (fun kv => is_file (snd kv)) rv)) then None   (* several file references: refused *)
              else if existsb (fun kv => match snd kv with VNone => true | _ => false end) rv then Some FNone
              else
                let lists := filter (fun kv => v_is_list (snd kv)) rv in
                match lists with
                | kv0 :: _ =>
                    if multi then
                      let n := v_len (snd kv0) in
                      if forallb (fun kv => Nat.eqb (v_len (snd kv)) n) lists
                      then option_map FMany (all_some (map (fun ii => spec_elem keep ps values (spec_pick ii values)) (seq 0 n)))
                      else None
                    else option_map FOne (spec_elem keep ps values values)
                | [] => option_map FOne (spec_elem keep ps values values)
                end
          end
      end
  end.

(* (3) job_dir / last component *)
Definition spec_place (job : list ascii) (s : list ascii) : list ascii :=
  pstr (pjoin (parse job) (parse (pname (parse s)))).

Definition spec_resolve (o : outarg) (values : env) (job : list ascii) : option resolved :=
  match o_template o with
  | TOne t =>
      match spec_single (o_multi o) (o_keep o) t values with
      | Some FNone => Some RNone
      | Some (FOne s) => Some (ROne (spec_place job s))
      | Some (FMany l) => Some (RMany (map (spec_place job) l))
      | None => None
      end
  | TMany ts =>
      match all_some (map (fun t => spec_single (o_multi o) (o_keep o) t values) ts) with
      | None => None
      | Some fs =>
          if existsb (fun f => match f with FNone => true | _ => false end) fs then Some RNone
          else option_map (fun l => RMany (map (spec_place job) l))
                          (all_some (map (fun f => match f with FOne s => Some s | _ => None end) fs))
      end
  end.
