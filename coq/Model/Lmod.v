(* Model/Lmod.v — pydra/environments/lmod.py: Lmod.execute / run_lmod_cmd, and the env= handed to
   pydra.environments.base.execute (subprocess.run(cmd, env=env)).

   The regular expression   os\.environ\[Q(.*?)Q\]\s*=\s*Q(.*?)Q   (Q = the class of the two quote
   characters, single and double) applied with re.findall to
   the whole output of `lmod python load …` is modelled exactly (on byte strings) as a backtracking
   matcher: literal prefix, a quote, a lazy non-newline run (shortest first) for the key, then the
   deterministic tail  quote ] ws* = ws* quote (lazy run up to the first quote, no newline).
   re.findall scans left to right and resumes after each match. *)
From Pydra Require Import Base.Prelude.
Local Open Scope char_scope.

Definition chars := list ascii.
Definition nl : ascii := "010".
Definition is_nl (c : ascii) : bool := Ascii.eqb c nl.
Definition dq : ascii := """".
Definition sq : ascii := "'".
Definition is_quote (c : ascii) : bool := Ascii.eqb c sq || Ascii.eqb c dq.
(* \s of a str pattern restricted to ASCII: \t \n \v \f \r, \x1c-\x1f, space *)
Definition is_ws (c : ascii) : bool :=
  let n := nat_of_ascii c in (Nat.leb 9 n && Nat.leb n 13) || (Nat.leb 28 n && Nat.leb n 32).

Definition prefix_lit : chars := la_of "os.environ[".

Fixpoint skip_ws (l : chars) : chars :=
  match l with c :: r => if is_ws c then skip_ws r else l | [] => [] end.

(* (.*?)Q as the last thing in the pattern: the run up to the first quote; '.' refuses a newline *)
Fixpoint lazy_to_quote (l acc : chars) : option (chars * chars) :=
  match l with
  | [] => None
  | c :: r => if is_quote c then Some (rev acc, r)
              else if is_nl c then None else lazy_to_quote r (c :: acc)
  end.

(* Q\]\s*=\s*Q(.*?)Q  — returns (value, rest after the match) *)
Definition tail_match (l : chars) : option (chars * chars) :=
  match l with
  | q :: rb :: r1 =>
      if is_quote q && Ascii.eqb rb "]" then
        match skip_ws r1 with
        | e :: r2 =>
            if Ascii.eqb e "=" then
              match skip_ws r2 with
              | q2 :: r3 => if is_quote q2 then lazy_to_quote r3 [] else None
              | [] => None
              end
            else None
        | [] => None
        end
      else None
  | _ => None
  end.

(* (.*?) for the key followed by the tail: shortest key first, extended one non-newline char at a time *)
Fixpoint key_match (l acc : chars) : option (chars * chars * chars) :=
  match tail_match l with
  | Some (v, rest) => Some (rev acc, v, rest)
  | None => match l with
            | c :: r => if is_nl c then None else key_match r (c :: acc)
            | [] => None
            end
  end.

(* one match attempt at the current position *)
Definition match_here (l : chars) : option (chars * chars * chars) :=
  if is_prefix Ascii.eqb prefix_lit l then
    match skipn (List.length prefix_lit) l with
    | q :: r => if is_quote q then key_match r [] else None
    | [] => None
    end
  else None.

(* re.findall: leftmost matches, resuming where the previous match ended.  [skip] = number of
   characters still covered by the last match (keeps the recursion structural). *)
Fixpoint scan (l : chars) (skip : nat) : list (string * string) :=
  match l with
  | [] => []
  | _ :: r =>
      match skip with
      | S k => scan r k
      | O => match match_here l with
             | Some (k, v, rest) => (str_of k, str_of v) :: scan r (List.length r - List.length rest)
             | None => scan r 0
             end
      end
  end.

Definition findall (s : string) : list (string * string) := scan (la_of s) 0.

(* ---- Python dict as an insertion-ordered association list ---- *)
Definition env := list (string * string).

Fixpoint lookup (k : string) (e : env) : option string :=
  match e with
  | [] => None
  | (k', v) :: r => if String.eqb k k' then Some v else lookup k r
  end.

(* d[k] = v : an existing key keeps its position *)
Fixpoint set_item (e : env) (k v : string) : env :=
  match e with
  | [] => [(k, v)]
  | (k', v') :: r => if String.eqb k k' then (k', v) :: r else (k', v') :: set_item r k v
  end.

Definition set_all (e : env) (kvs : list (string * string)) : env :=
  fold_left (fun d kv => set_item d (fst kv) (snd kv)) kvs e.

(* ---- Lmod.execute ---- *)
Inductive outcome :=
| Ran (child_env : env) (argv : list string)   (* base.execute(cmd_args, env=env) *)
| ErrNoLmod                                     (* MODULESHOME not set: RuntimeError *)
| ErrModule.                                    (* lmod printed exactly "_mlstatus = False\n": RuntimeError *)

Definition mlstatus_false : string := String.append "_mlstatus = False" (String nl EmptyString).

(* caller = os.environ of the calling process; lmod_out = stdout of `lmod python load m1 m2 …`;
   native_argv = job.task._command_args(values=job.inputs) (the vector the native environment runs).
   Since the fix commit (Lmod.execute runs the command in the caller environment): env = dict(os.environ)
   updated key by key with the scanned pairs. *)
Definition execute (caller : env) (lmod_out : string) (native_argv : list string) : outcome :=
  match lookup "MODULESHOME"%string caller with
  | None => ErrNoLmod
  | Some _ =>
      if String.eqb lmod_out mlstatus_false then ErrModule
      else Ran (set_all caller (findall lmod_out)) native_argv
  end.

(* the pinned tree before the fix: env = {} *)
Definition execute_pinned (caller : env) (lmod_out : string) (native_argv : list string) : outcome :=
  match lookup "MODULESHOME"%string caller with
  | None => ErrNoLmod
  | Some _ =>
      if String.eqb lmod_out mlstatus_false then ErrModule
      else Ran (set_all [] (findall lmod_out)) native_argv
  end.

(* subprocess.run(cmd, env=env) refuses (ValueError: illegal environment variable name) an env whose
   keys contain the equals sign; everything else is handed to execve as NAME=value entries.
   Modelled, not verified; used only by the correspondence run to classify that exception. *)
Definition has_eq (s : string) : bool := existsb (Ascii.eqb "=") (la_of s).
Definition exec_rejects (e : env) : bool := existsb (fun kv => has_eq (fst kv)) e.
