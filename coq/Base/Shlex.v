(* Base/Shlex.v — CPython's shlex.split (POSIX mode, whitespace_split=True, no comments) as a character state
   machine, plus shlex.quote / shlex.join.  Started from the design spike (DESIGN Appendix A.2); tokens are kept
   as [list ascii] so that the proofs can work with [app]; [split] is the string-level entry point.
   Tied to CPython on every run of C23/C24 (harness: shlex.split / shlex.join vs [split] / [join] on the same strings). *)
From Pydra Require Import Base.Prelude.
Local Open Scope char_scope.
Local Open Scope list_scope.

Definition la := list ascii.

Definition is_ws (c:ascii) : bool :=
  match c with " " => true | "009" => true | "010" => true | "013" => true | _ => false end.
Definition sq : ascii := "'".
Definition dq : ascii := """".
Definition bsl : ascii := "\".

(* SEsc None = backslash met outside quotes (shlex escapedstate 'a'); SEsc (Some q) = inside the quote q *)
Inductive st := SWs | SWord | SQuote (q:ascii) | SEsc (back: option ascii).
Inductive res := Ok (l : list la) | ErrNoClosingQuote | ErrNoEscaped.

(* tok is accumulated reversed; quoted = "this token had a quoted part" (so '' yields an empty token) *)
Fixpoint lex (s:la) (state:st) (tok:la) (quoted:bool) (acc:list la) : res :=
  let emit := fun acc => if (negb (match tok with [] => true | _ => false end) || quoted)%bool
                         then (rev tok) :: acc else acc in
  match s with
  | [] =>
      match state with
      | SWs => Ok (rev acc)
      | SWord => Ok (rev (emit acc))
      | SQuote _ => ErrNoClosingQuote
      | SEsc _ => ErrNoEscaped
      end
  | c :: r =>
      match state with
      | SWs =>
          if is_ws c then lex r SWs [] false acc
          else if Ascii.eqb c bsl then lex r (SEsc None) [] false acc
          else if (Ascii.eqb c sq || Ascii.eqb c dq)%bool then lex r (SQuote c) [] false acc
          else lex r SWord [c] false acc
      | SWord =>
          if is_ws c then lex r SWs [] false (emit acc)
          else if (Ascii.eqb c sq || Ascii.eqb c dq)%bool then lex r (SQuote c) tok quoted acc
          else if Ascii.eqb c bsl then lex r (SEsc None) tok quoted acc
          else lex r SWord (c :: tok) quoted acc
      | SQuote q =>
          if Ascii.eqb c q then lex r SWord tok true acc
          else if (Ascii.eqb c bsl && Ascii.eqb q dq)%bool then lex r (SEsc (Some q)) tok true acc
          else lex r (SQuote q) (c :: tok) true acc
      | SEsc None => lex r SWord (c :: tok) quoted acc
      | SEsc (Some q) =>
          if (Ascii.eqb c bsl || Ascii.eqb c q)%bool then lex r (SQuote q) (c :: tok) quoted acc
          else lex r (SQuote q) (c :: bsl :: tok) quoted acc
      end
  end.

Definition split_la (s:la) : res := lex s SWs [] false [].

Inductive sres := SOk (l : list string) | SErrNoClosingQuote | SErrNoEscaped.
Definition split (s:string) : sres :=
  match split_la (la_of s) with
  | Ok l => SOk (map str_of l)
  | ErrNoClosingQuote => SErrNoClosingQuote
  | ErrNoEscaped => SErrNoEscaped
  end.

(* ---- shlex.quote / shlex.join (CPython 3.12):
     if not s: return "''" ; if no char outside [A-Za-z0-9_@%+=:,./-] (re.ASCII): return s ;
     return "'" + s.replace("'", "'\"'\"'") + "'"                                            *)
Definition safe_char (c:ascii) : bool :=
  let n := nat_of_ascii c in
  ((48 <=? n) && (n <=? 57) || (65 <=? n) && (n <=? 90) || (97 <=? n) && (n <=? 122))%nat%bool
  || match c with "_" | "@" | "%" | "+" | "=" | ":" | "," | "." | "/" | "-" => true | _ => false end.

Definition esc1 (c:ascii) : la := if Ascii.eqb c sq then [sq; dq; sq; dq; sq] else [c].
Definition esc (a:la) : la := flat_map esc1 a.
Definition always_quote (a:la) : la := sq :: esc a ++ [sq].
Definition quote (a:la) : la :=
  match a with
  | [] => [sq; sq]
  | _ => if forallb safe_char a then a else always_quote a
  end.

Fixpoint join_with (q : la -> la) (args:list la) : la :=
  match args with [] => [] | [a] => q a | a :: rest => q a ++ " " :: join_with q rest end.
Definition join (args : list la) : la := join_with quote args.

Definition quote_s (s:string) : string := str_of (quote (la_of s)).
Definition join_s (l:list string) : string := str_of (join (map la_of l)).

(* ------------------------------------------------------------------ reference notions used by the theorems *)
(* a character that shlex copies into the current word without changing state *)
Definition plain_char (c:ascii) : bool :=
  negb (is_ws c || Ascii.eqb c sq || Ascii.eqb c dq || Ascii.eqb c bsl).
(* not a quote and not a backslash *)
Definition noq_char (c:ascii) : bool := negb (Ascii.eqb c sq || Ascii.eqb c dq || Ascii.eqb c bsl).
(* plain whitespace splitting (Python's str.split() restricted to shlex's whitespace set); cur is reversed *)
Fixpoint words_aux (s cur : la) : list la :=
  match s with
  | [] => match cur with [] => [] | _ => [rev cur] end
  | c :: r => if is_ws c
              then match cur with [] => words_aux r [] | _ => rev cur :: words_aux r [] end
              else words_aux r (c :: cur)
  end.
Definition words (s : la) : list la := words_aux s [].
