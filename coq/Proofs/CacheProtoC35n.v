(* Proofs/CacheProtoC35n.v — C35 for concurrent histories: whenever nobody is inside the critical section of the
   checksum (or the holder has not touched the directory yet) and some execution has gone through the finally
   region, the job directory holds the complete job record and a complete result. Any number of processes, any
   interleaving, no kills, exceptions only inside the try block / its handler (nobody is `dirty`). *)
From Pydra Require Import Base.Prelude.
From Pydra Require Import Model.CacheProto Proofs.CacheProto Proofs.CacheProtoC35 Proofs.CacheProtoC10.
Local Open Scope nat_scope.

(* inside the with block, but the job directory has not been touched yet (before shutil.rmtree) *)
Definition untouched (c : pcT) : bool := match c with Locked | Hit0 | Hit1 | Miss | Pop1 => true | _ => false end.
Definition dir_ok (g : glob) : Prop := dir g = true /\ jobf g = Complete tt /\ exists r, resf g = Complete r.
Definition same_files (g g' : glob) : Prop := dir g' = dir g /\ jobf g' = jobf g /\ resf g' = resf g.
Definition quiet (s : state) : Prop :=
  lock (gl s) = None \/ exists h, lock (gl s) = Some h /\ untouched (pc (procs s h)) = true.
Definition is_cwd_restored (a : action) : bool := match a with ACwdRestored => true | _ => false end.
(* some execution has reached job.cwd_restored, the last statement of the finally block *)
Definition went_through (tr : list event) : bool := existsb (fun e => is_cwd_restored (snd e)) tr.
Definition dn_inv (b : bool) (s : state) : Prop := quiet s -> b = true -> dir_ok (gl s).

Lemma untouched_holds c : untouched c = true -> holds c = true.
Proof. destruct c; cbn; try discriminate; auto. Qed.

Lemma dir_ok_same g g' : same_files g g' -> dir_ok g -> dir_ok g'.
Proof. intros (A & B & C) (D & E & r & F). unfold dir_ok. rewrite A, B, C. eauto. Qed.

Section C35n.
  Variable pickle : res -> list nat.
  Variable unpickle : list nat -> option res.
  Variable bv : val.
  Notation lstep := (lstep pickle unpickle bv).
  Notation step := (step pickle unpickle bv).
  Notation run := (run pickle unpickle bv).
  Notation init := (init bv).

  Lemma dirty_sticky p q g a q' g' : lstep p q g a = Some (q', g') -> dirty q = true -> dirty q' = true.
  Proof. intros H D. inv_lstep H. all: fin H. all: usepc; auto. Qed.

  Lemma lstep_dn p q g a q' g' :
    lstep p q g a = Some (q', g') -> dirty q' = false -> (pc q = ExcHold -> dirty q = true) ->
    (untouched (pc q') = true ->
       same_files g g' /\ (holds (pc q) = true -> untouched (pc q) = true)) /\
    (holds (pc q) = true -> holds (pc q') = false ->
       same_files g g' /\ (untouched (pc q) = true \/ pc q = Fin5)) /\
    (is_cwd_restored a = true -> holds (pc q) = true /\ holds (pc q') = true /\ untouched (pc q') = false).
  Proof.
    intros H D X. inv_lstep H. all: fin H. all: unfold same_files; usepc.
    all: try discriminate D.
    all: try (specialize (X eq_refl); congruence).
    all: repeat split; intros; try discriminate; auto.
  Qed.

  Definition all_alive (s : state) : Prop := forall p, dead (gl s) p = false.
  Definition all_clean (s : state) : Prop := forall p, dirty (procs s p) = false.

  Lemma dirty_back_step s e s1 : step s e = Some s1 -> all_clean s1 -> all_clean s.
  Proof.
    intros H C p0. destruct e as [p a]. apply step_inv in H. destruct H as [_ [[_ ->]|(q' & g' & L & ->)]].
    - apply (C p0).
    - destruct (dirty (procs s p0)) eqn:D; [|reflexivity]. specialize (C p0). cbn in C.
      destruct (Nat.eq_dec p0 p) as [->|Ne].
      + rewrite upd_same in C. pose proof (dirty_sticky _ _ _ _ _ _ L D). congruence.
      + rewrite upd_other in C by assumption. congruence.
  Qed.

  Lemma dirty_back tr : forall s0 s, run s0 tr = Some s -> all_clean s -> all_clean s0.
  Proof.
    induction tr as [|e tr IH]; cbn [CacheProto.run]; intros s0 s R C.
    - inversion R; subst; assumption.
    - destruct (step s0 e) as [s1|] eqn:E; [|discriminate]. eapply dirty_back_step; eauto.
  Qed.

  Lemma dn_step b s e s' :
    lock_inv s -> lock_inv s' -> c35_inv s -> all_alive s -> dn_inv b s ->
    step s e = Some s' -> nocrash (snd e) = true -> all_clean s' ->
    dn_inv (b || is_cwd_restored (snd e)) s'.
  Proof.
    intros (I1 & I1c & _) (I1' & I1c' & _) [HL HF] AL DN H Nc CL. destruct e as [p a]. cbn [snd] in *.
    apply step_inv in H. destruct H as [Dp [[-> _]|(q' & g' & L & ->)]]; [discriminate|].
    pose proof (lstep_lock _ _ _ _ _ _ _ _ _ L) as [Dd Hl].
    assert (Dq' : dirty q' = false) by (specialize (CL p); cbn in CL; now rewrite upd_same in CL).
    assert (X : pc (procs s p) = ExcHold -> dirty (procs s p) = true).
    { destruct (HL p) as (_ & _ & _ & _ & _ & L5 & _). exact L5. }
    destruct (lstep_dn _ _ _ _ _ _ L Dq' X) as (A & B & C).
    assert (NCR : holds (pc (procs s p)) = false -> is_cwd_restored a = false).
    { intros Hh. destruct (is_cwd_restored a) eqn:E; [|reflexivity]. destruct (C eq_refl) as (Y & _). congruence. }
    assert (OUT : holds (pc (procs s p)) = false ->
                  g' = gl s \/ (pc (procs s p) = Waiting /\ g' = set_lock (Some p) (gl s) /\ free (lock (gl s)) (gl s) = true)).
    { intros Hh. destruct (lstep_outside _ _ _ _ _ _ _ _ _ L Hh) as [->|(E1 & _ & ->)]; [now left|right].
      split; [exact E1|]. split; [reflexivity|].
      destruct Hl as [[E _]|[(_ & _ & F & _)|(Hq & _)]]; [|exact F|congruence].
      cbn in E. symmetry in E. pose proof (I1c p E Dp). congruence. }
    unfold dn_inv, quiet, alive in *. cbn [procs gl] in *. intros Q Bt.
    destruct Q as [LN|(h & Lh & Uh)]; cbn [procs gl] in *.
    - (* nobody holds the lock afterwards *)
      destruct (holds (pc (procs s p))) eqn:Hp.
      + (* p was inside: it has just left *)
        pose proof (I1 p Dp Hp) as Lp.
        destruct (holds (pc q')) eqn:Hq'.
        { pose proof (I1' p) as Y. cbn in Y. rewrite upd_same, Dd in Y. specialize (Y Dp Hq'). rewrite LN in Y. discriminate Y. }
        destruct (B eq_refl eq_refl) as (SF & [U|E5]).
        * eapply dir_ok_same; [exact SF|]. apply DN; [right; exists p; auto|].
          destruct (is_cwd_restored a) eqn:E; [destruct (C eq_refl) as (_ & Y & _); congruence|]. now rewrite orb_false_r in Bt.
        * eapply dir_ok_same; [exact SF|].
          destruct (HF p Dp) as (F1 & F2 & F3 & _). rewrite E5 in *. cbn in *.
          repeat split; auto. eexists; apply F2; reflexivity.
      + destruct (OUT eq_refl) as [->|(_ & -> & _)]; [|discriminate LN].
        apply DN; [now left|]. rewrite (NCR eq_refl) in Bt. now rewrite orb_false_r in Bt.
    - destruct (Nat.eq_dec h p) as [->|Ne].
      + rewrite upd_same in Uh. destruct (A Uh) as (SF & UU).
        eapply dir_ok_same; [exact SF|].
        assert (NC : is_cwd_restored a = false).
        { destruct (is_cwd_restored a) eqn:E; [destruct (C eq_refl) as (_ & _ & Y); congruence|reflexivity]. }
        rewrite NC, orb_false_r in Bt.
        destruct (holds (pc (procs s p))) eqn:Hp.
        * apply DN; [right; exists p; split; [now apply I1|now apply UU]|exact Bt].
        * destruct (OUT eq_refl) as [E|(_ & _ & F)].
          -- (* g unchanged and p now untouched without holding before: impossible, but harmless *)
             subst g'. apply DN; [|exact Bt].
             destruct (lock (gl s)) as [h0|] eqn:E0; [|now left].
             assert (h0 = p) by congruence. subst h0.
             pose proof (I1c p eq_refl Dp). congruence.
          -- apply DN; [left|exact Bt]. destruct (lock (gl s)) as [h0|] eqn:E0; [|reflexivity].
             cbn in F. rewrite (AL h0) in F. discriminate.
      + rewrite upd_other in Uh by assumption.
        assert (Hh : holds (pc (procs s h)) = true) by now apply untouched_holds.
        pose proof (I1 h (AL h) Hh) as Lh0.
        assert (Hp : holds (pc (procs s p)) = false).
        { destruct (holds (pc (procs s p))) eqn:Hp; [|reflexivity]. pose proof (I1 p Dp Hp). congruence. }
        destruct (OUT Hp) as [->|(_ & -> & _)]; [|cbn in Lh; congruence].
        apply DN; [right; exists h; auto|]. rewrite (NCR Hp) in Bt. now rewrite orb_false_r in Bt.
  Qed.

  Definition jn (b : bool) (s : state) : Prop := lock_inv s /\ c35_inv s /\ all_alive s /\ dn_inv b s.

  Lemma run_jn tr : forall s0 s b0,
    jn b0 s0 -> run s0 tr = Some s -> nocrash_trace tr = true -> all_clean s -> jn (b0 || went_through tr) s.
  Proof.
    induction tr as [|e tr IH]; cbn [CacheProto.run nocrash_trace forallb went_through existsb]; intros s0 s b0 J R N C.
    - inversion R; subst. now rewrite orb_false_r.
    - destruct (step s0 e) as [s1|] eqn:E; [|discriminate].
      apply andb_true_iff in N. destruct N as [N1 N2].
      rewrite orb_assoc. apply (IH s1); auto.
      destruct J as (LI & CI & AL & DN).
      pose proof (lock_inv_step pickle unpickle bv _ _ _ LI E) as LI1.
      split; [exact LI1|]. split; [exact (c35_inv_step pickle unpickle bv s0 e s1 LI CI E)|]. split.
      + intros p0. destruct e as [p a]. apply step_inv in E. destruct E as [_ [[-> _]|(q' & g' & L & ->)]]; [discriminate|].
        destruct (lstep_lock _ _ _ _ _ _ _ _ _ L) as [Dd _]. unfold all_alive in AL.
        change (dead g' p0 = false). rewrite Dd. apply AL.
      + exact (dn_step b0 s0 e s1 LI LI1 CI AL DN E N1 (dirty_back tr s1 s R C)).
  Qed.

  Lemma jn_init pre : jn pre (init pre).
  Proof.
    split; [apply lock_inv_init|]. split; [apply c35_inv_init|]. split; [intros p; destruct pre; reflexivity|].
    intros _ E. subst pre. unfold dir_ok; cbn. repeat split. eexists; reflexivity.
  Qed.

  (* C35_directory_consistent_n *)
  Theorem directory_consistent_n pre tr s :
    run (init pre) tr = Some s -> nocrash_trace tr = true ->
    (forall p, dirty (procs s p) = false) ->
    lock (gl s) = None ->
    pre = true \/ went_through tr = true ->
    dir (gl s) = true /\ jobf (gl s) = Complete tt /\ (exists r, resf (gl s) = Complete r) /\
    forall p, holds (pc (procs s p)) = false /\ cwd (procs s p) = Home /\ infos (procs s p) = 0.
  Proof.
    intros R N C LN W.
    destruct (run_jn tr (init pre) s pre (jn_init pre) R N C) as ((I1 & _) & [HL _] & AL & DN).
    assert (Bt : pre || went_through tr = true) by (destruct W as [->| ->]; [reflexivity|apply orb_true_r]).
    destruct (DN (or_introl LN) Bt) as (D1 & D2 & D3).
    split; [exact D1|]. split; [exact D2|]. split; [exact D3|].
    intros p.
    assert (Hp : holds (pc (procs s p)) = false).
    { destruct (holds (pc (procs s p))) eqn:Hp; [|reflexivity]. pose proof (I1 p (AL p) Hp). congruence. }
    split; [exact Hp|].
    destruct (finally_region pickle unpickle bv pre tr s p R (C p)) as [F _]. exact (F Hp).
  Qed.

  (* while the checksum is unlocked nothing in its directory changes *)
  Theorem unlocked_directory_stable pre tr s e s' :
    run (init pre) tr = Some s -> nocrash_trace tr = true -> lock (gl s) = None ->
    step s e = Some s' -> nocrash (snd e) = true ->
    dir (gl s') = dir (gl s) /\ jobf (gl s') = jobf (gl s) /\ resf (gl s') = resf (gl s) /\ errf (gl s') = errf (gl s).
  Proof.
    intros R N LN H Nc. destruct e as [p a]. cbn in Nc.
    pose proof (lock_inv_reachable pickle unpickle bv _ _ _ R) as (I1 & _).
    apply step_inv in H. destruct H as [Dp [[-> _]|(q' & g' & L & ->)]]; [discriminate|].
    assert (Hp : holds (pc (procs s p)) = false).
    { destruct (holds (pc (procs s p))) eqn:Hp; [|reflexivity]. pose proof (I1 p Dp Hp). congruence. }
    destruct (lstep_outside _ _ _ _ _ _ _ _ _ L Hp) as [->|(_ & _ & ->)]; cbn; auto.
  Qed.

  (* exception-free steps never make a process dirty *)
  Lemma no_exc_clean p q g a q' g' :
    lstep p q g a = Some (q', g') ->
    match a with AExc | APreHookRaise | APostHookRaise => false | _ => true end = true -> dirty q' = dirty q.
  Proof. intros H D. inv_lstep H; try discriminate D. all: fin H. all: usepc; auto. Qed.

  Definition no_exc (a : action) : bool :=
    match a with AExc | APreHookRaise | APostHookRaise => false | _ => true end.

  Lemma run_no_exc_clean tr : forall s0 s,
    all_clean s0 -> forallb (fun e => no_exc (snd e)) tr = true -> run s0 tr = Some s -> all_clean s.
  Proof.
    induction tr as [|e tr IH]; cbn [CacheProto.run forallb]; intros s0 s C N R.
    - inversion R; subst; assumption.
    - apply andb_true_iff in N. destruct N as [N1 N2].
      destruct (step s0 e) as [s1|] eqn:E; [|discriminate]. apply (IH s1 s); auto.
      intros p0. destruct e as [p a]. apply step_inv in E. destruct E as [_ [[_ ->]|(q' & g' & L & ->)]]; [apply C|].
      cbn. destruct (Nat.eq_dec p0 p) as [->|Ne]; [rewrite upd_same|rewrite upd_other by assumption; apply C].
      rewrite (no_exc_clean _ _ _ _ _ _ L N1). apply C.
  Qed.
End C35n.

(* two submitters: 0 executes, 1 arrives meanwhile, waits, and is served from the cache *)
Definition two_submitters_trace : list event :=
  [(0, APreRun false false); (0, AAcquire); (1, APreRun false false); (0, AChecked); (0, AInfoWritten); (0, ADirCleared);
   (0, ADirCreated); (0, ASaveAcq); (0, AJobBefore); (0, AJobOpened); (0, AJobDumped); (0, AJobAfter); (0, ASaveRel);
   (0, AJobSaved); (0, APopulated); (0, ACwdChanged); (0, APreHook); (0, AAuditStarted); (0, ABodyEnter); (0, ABodyLeft);
   (0, AOutputs); (0, APostHook); (0, AAuditFinal); (0, ASaveAcq); (0, AResBefore); (0, AResOpened); (0, AResDumped);
   (0, AResAfter); (0, AJobBefore); (0, AJobOpened); (0, AJobDumped); (0, AJobAfter); (0, ASaveRel); (0, AResultSaved);
   (0, AInfoRemoved); (0, ACwdRestored); (0, ARelease); (1, AAcquire); (0, ALockReleased); (1, AChecked); (1, AHit);
   (0, APostRun); (1, ARelease); (0, AReturned); (1, AReturned)].

Lemma two_submitters_meet_hypotheses :
  exists s, run toy_pickle toy_unpickle 7 (init 7 false) two_submitters_trace = Some s /\
            nocrash_trace two_submitters_trace = true /\
            (forall p, dirty (procs s p) = false) /\
            lock (gl s) = None /\ went_through two_submitters_trace = true /\
            ret (procs s 0) = Some (Returned (mkRes false (Some 7))) /\ ret (procs s 1) = Some (Returned (mkRes false (Some 7))).
Proof.
  eexists. split; [vm_compute; reflexivity|]. split; [reflexivity|]. split.
  - apply (run_no_exc_clean toy_pickle toy_unpickle 7 two_submitters_trace (init 7 false)).
    + intros p. reflexivity.
    + reflexivity.
    + vm_compute; reflexivity.
  - vm_compute. auto.
Qed.
