(* Proofs/TypingSpec.v — the executable form of the C20 / C21 spec evaluated on the correspondence cases decides
   the Prop form used in the theorems. *)
From Pydra Require Import Base.Prelude Model.Typing Spec.Typing Proofs.Typing.

Section S.
Variable T : tables.

Lemma forallb_Forall_iff {A} (f : A -> bool) (P : A -> Prop) l :
  Forall (fun x => f x = true <-> P x) l -> (forallb f l = true <-> Forall P l).
Proof.
  induction 1 as [|x l Hx Hl IH]; cbn; [split; [constructor|reflexivity]|].
  rewrite andb_true_iff, Hx, IH. split; [intros [? ?]; now constructor|inversion 1; auto].
Qed.

Lemma all_iff {A} (f : A -> bool) (P : A -> Prop) l :
  (forall x, f x = true <-> P x) -> (forallb f l = true <-> Forall P l).
Proof. intros H. apply forallb_Forall_iff. apply Forall_forall. auto. Qed.

Theorem conformsb_spec : forall t v, conformsb T t v = true <-> conforms T t v.
Proof.
  induction t as [c|a IHa|ts IHts|a IHa|k x IHk IHx|fr a IHa|ts IHts|a IHa] using ty_ind';
    intros v; cbn [conformsb conforms].
  - reflexivity.
  - rewrite andb_true_iff. apply and_iff_compat_l.
    destruct v as [| | | | | | | |g l| | |]; try (split; [discriminate|intros [g0 [l0 [E _]]]; discriminate]).
    rewrite (all_iff _ _ l IHa). split; [eauto|intros [g0 [l0 [E H]]]; now inversion E; subst].
  - rewrite andb_true_iff. apply and_iff_compat_l.
    destruct v as [| | | | | | | | |g l| |]; try (split; [discriminate|intros [g0 [l0 [E _]]]; discriminate]).
    assert (forall l,
      (fix go (ts : list ty) (l : list val) : bool :=
         match ts, l with [], [] => true | a :: r, x :: xs => conformsb T a x && go r xs | _, _ => false end) ts l = true
      <-> (fix go (ts : list ty) (l : list val) : Prop :=
         match ts, l with [], [] => True | a :: r, x :: xs => conforms T a x /\ go r xs | _, _ => False end) ts l) as Hgo.
    { induction IHts as [|a ts Ha Hts IH]; intros [|y l']; try (split; [discriminate|contradiction]);
        [split; auto|]. rewrite andb_true_iff, Ha, IH. reflexivity. }
    rewrite Hgo. split; [eauto|intros [g0 [l0 [E H]]]; now inversion E; subst].
  - rewrite andb_true_iff. apply and_iff_compat_l.
    destruct v as [| | | | | | | | |g l| |]; try (split; [discriminate|intros [g0 [l0 [E _]]]; discriminate]).
    rewrite (all_iff _ _ l IHa). split; [eauto|intros [g0 [l0 [E H]]]; now inversion E; subst].
  - rewrite andb_true_iff. apply and_iff_compat_l.
    destruct v as [| | | | | | | | | | |g kv]; try (split; [discriminate|intros [g0 [l0 [E _]]]; discriminate]).
    rewrite (all_iff (fun p => conformsb T k (fst p) && conformsb T x (snd p))
                     (fun p => conforms T k (fst p) /\ conforms T x (snd p)) kv).
    + split; [eauto|intros [g0 [l0 [E H]]]; now inversion E; subst].
    + intros p. now rewrite andb_true_iff, IHk, IHx.
  - rewrite andb_true_iff. apply and_iff_compat_l.
    destruct v as [| | | | | | | | | |g fr' l|]; try (split; [discriminate|intros [g0 [l0 [E _]]]; discriminate]).
    rewrite andb_true_iff, (all_iff _ _ l IHa). split.
    + intros [E H]. apply eqb_prop in E. subst. eauto.
    + intros [g0 [l0 [E H]]]. inversion E; subst. split; [apply eqb_reflx|assumption].
  - induction IHts as [|a ts Ha Hts IH]; cbn; [split; [discriminate|contradiction]|].
    rewrite orb_true_iff, Ha, IH. reflexivity.
  - rewrite andb_true_iff. apply and_iff_compat_l.
    destruct v as [| | | | | | | |g l| | |]; try (split; [discriminate|intros [g0 [l0 [E _]]]; discriminate]).
    rewrite (all_iff _ _ l IHa). split; [eauto|intros [g0 [l0 [E H]]]; now inversion E; subst].
Qed.
End S.
