(* Model/Nested.v — pydra/engine/state.py: input_shape, flatten, State._single_op_splits,
   State._processing_terms + the binary step of State.splits, iter_splits, map_splits,
   for fields whose value is a nested list split with a container dimension.
   No proofs here. *)
From Pydra Require Import Base.Prelude.
Local Open Scope nat_scope.

(* a Python value: an atom (identified by an integer) or a list of values *)
Inductive value : Type :=
| Leaf (z : Z)
| Node (l : list value).

Fixpoint value_eqb (a b : value) {struct a} : bool :=
  match a, b with
  | Leaf x, Leaf y => Z.eqb x y
  | Node l, Node m =>
      (fix go (l m : list value) {struct l} : bool :=
         match l, m with
         | [], [] => true
         | x :: l', y :: m' => value_eqb x y && go l' m'
         | _, _ => false
         end) l m
  | _, _ => false
  end.

(* flatten(vals, cur_depth, max_depth) with d = max_depth - cur_depth levels left to open:
     if cur_depth >= max_depth: [vals]
     else: for val in vals: flatten(val, cur_depth+1, max_depth) if it is a list, else [val] *)
Fixpoint flatten (d : nat) (vals : list value) : list value :=
  match d with
  | 0 => [Node vals]
  | S d' => flat_map (fun val => match val with
                                 | Node ch => flatten d' ch
                                 | Leaf _ => [val]
                                 end) vals
  end.

(* the loop of input_shape over the elements of inp; [f] is the recursive call
   input_shape(value, container_ndim) and [last] is last_shape:
     if isinstance(value, list) and container_ndim > 0:
         cur_shape = f value
         if last_shape is None: last_shape = cur_shape
         elif last_shape != cur_shape: last_shape = None; break
     else: last_shape = None; break                                  *)
Fixpoint scan (f : list value -> list nat) (last : option (list nat)) (inp : list value)
  : option (list nat) :=
  match inp with
  | [] => last
  | Node ch :: rest =>
      let cur := f ch in
      match last with
      | None => scan f (Some cur) rest
      | Some s => if list_eqb Nat.eqb s cur then scan f last rest else None
      end
  | Leaf _ :: _ => None
  end.

(* input_shape(inp, container_ndim) with c = container_ndim - 1 (the value after the decrement
   on its first line; c = 0 also stands for the negative values, which behave the same).
   When the loop ends without a common sub-shape and c > 0 the shape is the one-element tuple holding
   the number of elements flatten() yields at this depth (for an empty inp that is [0] = [len(inp)]). *)
Fixpoint shape_rec (c : nat) (inp : list value) : list nat :=
  match c with
  | 0 => [List.length inp]
  | S c' =>
      match scan (shape_rec c') None inp with
      | Some s => List.length inp :: s           (* shape.extend(last_shape) *)
      | None =>                                  (* elif container_ndim > 0:  (no rectangular shape) *)
          [List.length (flatten (S c) inp)]      (*   shape = [len(list(flatten(inp, max_depth=container_ndim + 1)))] *)
      end
  end.

Definition input_shape (inp : list value) (container_ndim : nat) : list nat :=
  shape_rec (container_ndim - 1) inp.

Definition prod (shape : list nat) : nat := fold_right Nat.mul 1 shape.
Definition range (n : nat) : list nat := seq 0 n.

(* container_ndim_all.get(term, 1)  and  container_ndim.get(k, None) -> len(input_shape(vals)) *)
Definition ndim_shape (cd : option nat) : nat := match cd with Some n => n | None => 1 end.
Definition ndim_flat (cd : option nat) (inp : list value) : nat :=
  match cd with Some n => n | None => List.length (input_shape inp 1) end.

(* what one run of prepare_states can end in *)
Inductive outcome (A : Type) : Type :=
| Jobs (l : list A)
| ShapeError            (* ValueError "... do not have same shape" raised by State.splits *)
| IndexErr.             (* IndexError raised by map_splits: list(flatten(...))[v] *)
Arguments Jobs {A} l.
Arguments ShapeError {A}.
Arguments IndexErr {A}.

Fixpoint sequence {A} (l : list (option A)) : option (list A) :=
  match l with
  | [] => Some []
  | None :: _ => None
  | Some x :: r => match sequence r with Some r' => Some (x :: r') | None => None end
  end.

(* map_splits for one key: list(flatten(ensure_list(inputs[k]), max_depth=…))[v] *)
Definition get_elem (cd : option nat) (inp : list value) (i : nat) : option value :=
  nth_error (flatten (ndim_flat cd inp) inp) i.

(* _single_op_splits: range(prod(input_shape(...)))  — the states_ind of a one-field splitter *)
Definition single_ind (cd : option nat) (inp : list value) : list nat :=
  range (prod (input_shape inp (ndim_shape cd))).

(* splitter = "x":  prepare_states_ind + prepare_states_val *)
Definition split1 (cd : option nat) (inp : list value) : outcome value :=
  match sequence (map (get_elem cd inp) (single_ind cd inp)) with
  | Some l => Jobs l
  | None => IndexErr
  end.

(* splitter = ["x","y"] (Outer, itertools.product) or ("x","y") (Inner, zip after the shape test):
   rpn [x; y; op], both operands are strings: _processing_terms on each, keys = [x; y] *)
Inductive binop : Type := Outer | Inner.

Definition pair_ind (o : binop) (cdx : option nat) (x : list value) (cdy : option nat) (y : list value)
  : option (list (nat * nat)) :=
  let sx := input_shape x (ndim_shape cdx) in
  let sy := input_shape y (ndim_shape cdy) in
  match o with
  | Outer => Some (list_prod (range (prod sx)) (range (prod sy)))
  | Inner => if list_eqb Nat.eqb sx sy then Some (combine (range (prod sx)) (range (prod sy))) else None
  end.

Definition get_pair (cdx : option nat) (x : list value) (cdy : option nat) (y : list value) (p : nat * nat)
  : option (value * value) :=
  match get_elem cdx x (fst p), get_elem cdy y (snd p) with
  | Some a, Some b => Some (a, b)
  | _, _ => None
  end.

Definition split2 (o : binop) (cdx : option nat) (x : list value) (cdy : option nat) (y : list value)
  : outcome (value * value) :=
  match pair_ind o cdx x cdy y with
  | None => ShapeError
  | Some ps => match sequence (map (get_pair cdx x cdy y) ps) with
               | Some l => Jobs l
               | None => IndexErr
               end
  end.

(* ---- flat n-ary splitters [f0, f1, ..., fk] (Outer) and (f0, f1, ..., fk) (Inner).
   splitter2rpn folds them to the left: f0 f1 op f2 op ... fk op.  State.splits then keeps one
   accumulated operand (index tuples, shape) on the stack and combines it with the next field:
   "*" = itertools.product, newshape = shape_L + shape_R;  "." = shape test, zip, newshape = shape_R.
   The keys of each operand travel with it (keys = new_keys_L + new_keys_R), so they stay in field order.  The nested tuples
   ((i0, i1), i2) that product/zip build are kept flattened here (iter_splits flattens them). *)
Definition field := (option nat * list value)%type.           (* (container_ndim entry, value) *)

Definition field_shape (f : field) : list nat := input_shape (snd f) (ndim_shape (fst f)).
Definition field_ind (f : field) : list nat := single_ind (fst f) (snd f).

Definition step_outer (acc : list (list nat)) (r : list nat) : list (list nat) :=
  flat_map (fun t => map (fun j => t ++ [j]) r) acc.
Definition step_inner (acc : list (list nat)) (r : list nat) : list (list nat) :=
  map (fun p => fst p ++ [snd p]) (combine acc r).

(* the "." shape tests along the fold: shape_L (the previous operand's shape) against shape_R *)
Fixpoint chain_eq (s : list nat) (ss : list (list nat)) : bool :=
  match ss with
  | [] => true
  | s' :: r => list_eqb Nat.eqb s s' && chain_eq s' r
  end.

Definition nary_ind (o : binop) (f0 : field) (fs : list field) : option (list (list nat)) :=
  let init := map (fun i => [i]) (field_ind f0) in
  match o with
  | Outer => Some (fold_left step_outer (map field_ind fs) init)
  | Inner => if chain_eq (field_shape f0) (map field_shape fs)
             then Some (fold_left step_inner (map field_ind fs) init) else None
  end.

(* map_splits on one states_ind dict: every key looked up in its own flattened value *)
Fixpoint get_tuple (fs : list field) (t : list nat) : option (list value) :=
  match fs, t with
  | [], [] => Some []
  | f :: fs', i :: t' =>
      match get_elem (fst f) (snd f) i, get_tuple fs' t' with
      | Some a, Some r => Some (a :: r)
      | _, _ => None
      end
  | _, _ => None
  end.

Definition splitN (o : binop) (f0 : field) (fs : list field) : outcome (list value) :=
  match nary_ind o f0 fs with
  | None => ShapeError
  | Some ts => match sequence (map (get_tuple (f0 :: fs)) ts) with
               | Some l => Jobs l
               | None => IndexErr
               end
  end.

(* ==================================================================== tuples inside split values.
   flatten opens lists and tuples alike (isinstance(val, (list, tuple))); input_shape only looks into
   lists (isinstance(value, list)), so a tuple element ends its loop like an atom does.  The value that
   is split is itself a list (Task.split wraps it in a StateArray, a list subclass; ensure_list would wrap
   a top-level tuple as one element — not reachable through Task.split and not modelled). *)
Inductive tvalue : Type :=
| TLeaf (z : Z)
| TList (l : list tvalue)
| TTup (l : list tvalue).

Fixpoint tvalue_eqb (a b : tvalue) {struct a} : bool :=
  let go := fix go (l m : list tvalue) {struct l} : bool :=
              match l, m with
              | [], [] => true
              | x :: l', y :: m' => tvalue_eqb x y && go l' m'
              | _, _ => false
              end in
  match a, b with
  | TLeaf x, TLeaf y => Z.eqb x y
  | TList l, TList m => go l m
  | TTup l, TTup m => go l m
  | _, _ => false
  end.

(* flatten(vals, cur_depth, max_depth): [vals] is the container object itself, d levels are left *)
Fixpoint tflatten (d : nat) (vals : tvalue) : list tvalue :=
  match d with
  | 0 => [vals]
  | S d' =>
      let each := fun val => match val with
                             | TLeaf _ => [val]
                             | _ => tflatten d' val          (* isinstance(val, (list, tuple)) *)
                             end in
      match vals with
      | TList ch => flat_map each ch
      | TTup ch => flat_map each ch
      | TLeaf _ => [vals]                                    (* never called on an atom *)
      end
  end.

Fixpoint tscan (f : list tvalue -> list nat) (last : option (list nat)) (inp : list tvalue)
  : option (list nat) :=
  match inp with
  | [] => last
  | TList ch :: rest =>                                      (* isinstance(value, list) *)
      let cur := f ch in
      match last with
      | None => tscan f (Some cur) rest
      | Some s => if list_eqb Nat.eqb s cur then tscan f last rest else None
      end
  | _ :: _ => None                                           (* atom or tuple: last_shape = None; break *)
  end.

Fixpoint tshape_rec (c : nat) (inp : list tvalue) : list nat :=
  match c with
  | 0 => [List.length inp]
  | S c' =>
      match tscan (tshape_rec c') None inp with
      | Some s => List.length inp :: s
      | None => [List.length (tflatten (S c) (TList inp))]
      end
  end.

Definition tinput_shape (inp : list tvalue) (container_ndim : nat) : list nat :=
  tshape_rec (container_ndim - 1) inp.

Definition tsingle_ind (n : nat) (inp : list tvalue) : list nat := range (prod (tinput_shape inp n)).

(* splitter = "x" with container_ndim = {x: n} *)
Definition tsplit1 (n : nat) (inp : list tvalue) : outcome tvalue :=
  match sequence (map (nth_error (tflatten n (TList inp))) (tsingle_ind n inp)) with
  | Some l => Jobs l
  | None => IndexErr
  end.
