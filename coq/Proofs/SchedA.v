(* Proofs/Sched.v — invariants of the scheduler model (async and sequential loops). *)
From Pydra Require Import Base.Prelude Base.SchedBase Model.Sched Spec.Sched.
From Coq Require Import Permutation.
Local Open Scope nat_scope.

(* ------------------------------------------------------------------ small facts *)
Lemma job_eqb_eq a b : job_eqb a b = true <-> a = b.
Proof.
  unfold job_eqb. destruct a as [a1 a2], b as [b1 b2]; cbn.
  rewrite andb_true_iff, !Nat.eqb_eq. split; [intros [-> ->]; reflexivity| intros E; inversion E; auto].
Qed.
Lemma job_eqb_refl a : job_eqb a a = true.
Proof. apply job_eqb_eq; reflexivity. Qed.
Lemma job_eqb_neq a b : job_eqb a b = false <-> a <> b.
Proof.
  split.
  - intros H E. apply job_eqb_eq in E. congruence.
  - intros H. destruct (job_eqb a b) eqn:E; [apply job_eqb_eq in E; contradiction|reflexivity].
Qed.
Lemma mem_job_In j l : mem_job j l = true <-> In j l.
Proof.
  unfold mem_job. rewrite existsb_exists. split.
  - intros [x [Hx E]]. apply job_eqb_eq in E. subst; auto.
  - intros H. exists j. split; [auto|apply job_eqb_refl].
Qed.
Lemma mem_nat_In x l : mem_nat x l = true <-> In x l.
Proof.
  unfold mem_nat. rewrite existsb_exists. split.
  - intros [y [Hy E]]. apply Nat.eqb_eq in E. subst; auto.
  - intros H. exists x. split; [auto|apply Nat.eqb_refl].
Qed.
Lemma is_nil_true {A} (l : list A) : is_nil l = true <-> l = [].
Proof. destruct l; cbn; split; congruence. Qed.
Lemma is_nil_false {A} (l : list A) : is_nil l = false <-> l <> [].
Proof. destruct l; cbn; split; congruence. Qed.

Lemma filter_all {A} (f : A -> bool) l : (forall x, In x l -> f x = true) -> filter f l = l.
Proof.
  induction l as [|x l IH]; cbn; intros H; [reflexivity|].
  rewrite (H x (or_introl eq_refl)). f_equal. apply IH. intros; apply H; auto.
Qed.
Lemma filter_none {A} (f : A -> bool) l : (forall x, In x l -> f x = false) -> filter f l = [].
Proof.
  induction l as [|x l IH]; cbn; intros H; [reflexivity|].
  rewrite (H x (or_introl eq_refl)). apply IH. intros; apply H; auto.
Qed.

Lemma find_node_some g n nd : find_node g n = Some nd -> In nd g /\ nid nd = n.
Proof.
  induction g as [|x g IH]; cbn; [discriminate|].
  destruct (nid x =? n) eqn:E.
  - intros H; inversion H; subst. apply Nat.eqb_eq in E. auto.
  - intros H. destruct (IH H); auto.
Qed.

(* topological well-formedness, unfolded *)
Lemma topo_b_split seen pre nd rest :
  topo_b seen (pre ++ nd :: rest) = true ->
  (forall p, In p (npreds nd) -> In p seen \/ In p (map nid pre))
  /\ ~ In (nid nd) seen /\ ~ In (nid nd) (map nid pre).
Proof.
  revert seen. induction pre as [|x pre IH]; intros seen; cbn.
  - rewrite !andb_true_iff, forallb_forall, negb_true_iff. intros [[H1 H2] _]. repeat split.
    + intros p Hp. left. apply mem_nat_In. auto.
    + intros H. apply mem_nat_In in H. congruence.
    + tauto.
  - rewrite !andb_true_iff. intros [[_ Hx] H3]. destruct (IH _ H3) as [A [B C]]. repeat split.
    + intros p Hp. destruct (A p Hp) as [[->|]|]; auto.
    + intros H. apply B. right; auto.
    + intros [H|H]; [apply B; left; auto|contradiction].
Qed.

Lemma topo_b_find seen g nd :
  topo_b seen g = true -> In nd g -> find_node g (nid nd) = Some nd.
Proof.
  revert seen. induction g as [|x g IH]; intros seen; cbn; [tauto|].
  rewrite !andb_true_iff. intros [[_ Hx] H3] [->|Hin].
  - rewrite Nat.eqb_refl. reflexivity.
  - destruct (nid x =? nid nd) eqn:E.
    + exfalso. apply Nat.eqb_eq in E.
      apply in_split in Hin. destruct Hin as [l1 [l2 ->]].
      destruct (topo_b_split _ _ _ _ H3) as [_ [B _]]. apply B. left; auto.
    + eapply IH; eauto.
Qed.

(* ------------------------------------------------------------------ the setting *)
Section Inv.
Variable V : Type.
Variable body : nat -> nat -> list (list (option V)) -> V.
Variable fails : job -> bool.
Variable vr : variant.
Hypothesis F14 : fix14 vr = true.
Variable g : graph.
Hypothesis WF : wf_graph g.
Variable kmax : option nat.

Notation world := (world V).
Notation nstate := (nstate V).
Notation sstate := (sstate V).
Notation lstate := (lstate V).

(* ---- the world only grows *)
Definition wle (w w' : world) : Prop :=
  forall j v, lookup j (results w) = Some v -> lookup j (results w') = Some v.
Lemma wle_refl (w : world) : wle w w. Proof. intros j v H; exact H. Qed.
Lemma wle_trans (a b c : world) : wle a b -> wle b c -> wle a c.
Proof. intros H1 H2 j v H. auto. Qed.
Lemma lookup_app j (r : list (job * option V)) j' v :
  lookup j (r ++ [(j', v)]) =
  match lookup j r with Some x => Some x | None => if job_eqb j j' then Some v else None end.
Proof.
  induction r as [|[a b] r IH]; cbn.
  - destruct (job_eqb j j'); reflexivity.
  - destruct (job_eqb j a); [reflexivity|exact IH].
Qed.
Lemma wle_app (w : world) j v vis : wle w (mkW (results w ++ [(j, v)]) vis).
Proof. intros j0 v0 H. cbn. rewrite lookup_app, H. reflexivity. Qed.
Lemma wle_vis (w : world) vis : wle w (mkW (results w) vis).
Proof. intros j v H; exact H. Qed.

Lemma is_ok_mono (w w' : world) j : wle w w' -> is_ok w j = true -> is_ok w' j = true.
Proof.
  unfold is_ok, probe_job. intros H. destruct (lookup j (results w)) as [[x|]|] eqn:E; try discriminate.
  rewrite (H _ _ E). auto.
Qed.
Lemma is_err_mono (w w' : world) j : wle w w' -> is_err w j = true -> is_err w' j = true.
Proof.
  unfold is_err, probe_job. intros H. destruct (lookup j (results w)) as [[x|]|] eqn:E; try discriminate.
  rewrite (H _ _ E). auto.
Qed.
Lemma probe_cases (w : world) j :
  (is_ok w j = true /\ is_err w j = false /\ is_none w j = false)
  \/ (is_ok w j = false /\ is_err w j = true /\ is_none w j = false)
  \/ (is_ok w j = false /\ is_err w j = false /\ is_none w j = true).
Proof. unfold is_ok, is_err, is_none. destruct (probe_job w j); auto. Qed.

(* ---- per-node invariant *)
Definition upstream_ok (w : world) (n : nat) : Prop :=
  forall q, In q (upstream_jobs g n) -> is_ok w q = true.
Lemma upstream_ok_mono (w w' : world) n : wle w w' -> upstream_ok w n -> upstream_ok w' n.
Proof. intros H U q Hq. eapply is_ok_mono; eauto. Qed.

Definition members (s : nstate) : list nat := queued s ++ running s ++ successful s ++ errored s.

Definition inputs_from (w : world) (nd : node) : list (list (option V)) :=
  map (fun p => map (fun i => value_of w (p, i)) (seq 0 (njobs_of g p))) (npreds nd).

Record NInv (w : world) (n : nat) (s : nstate) : Prop := {
  ni_succ : forall i, In i (successful s) -> is_ok w (n, i) = true;
  ni_err : forall i, In i (errored s) -> is_err w (n, i) = true;
  ni_blocked : blocked s = [];
  ni_noflag : started_flag s = false -> members s = [] /\ unrunnable s = false;
  ni_unr : unrunnable s = true -> members s = [];
  ni_part : started_flag s = true -> unrunnable s = false ->
            forall i, i < njobs_of g n -> In i (members s);
  ni_range : forall i, In i (members s) -> i < njobs_of g n;
  ni_upstream : started_flag s = true -> unrunnable s = false -> upstream_ok w n;
  ni_inputs : started_flag s = true -> unrunnable s = false ->
              forall nd, find_node g n = Some nd -> ninputs s = inputs_from w nd;
  ni_nodup : NoDup (members s);
  ni_taint_unr : unrunnable s = true -> tainted_b g fails n = true;
  ni_taint_run : started_flag s = true -> unrunnable s = false -> tainted_b g fails n = false
}.

Lemma value_of_mono (w w' : world) j : wle w w' -> is_ok w j = true -> value_of w' j = value_of w j.
Proof.
  unfold is_ok, probe_job, value_of. intros H. destruct (lookup j (results w)) as [[x|]|] eqn:E; try discriminate.
  rewrite (H _ _ E). auto.
Qed.

Lemma upstream_jobs_in n nd p i :
  find_node g n = Some nd -> In p (npreds nd) -> i < njobs_of g p -> In (p, i) (upstream_jobs g n).
Proof.
  intros F Hp Hi. unfold upstream_jobs. rewrite F. apply in_flat_map. exists p. split; [exact Hp|].
  unfold node_jobs. apply in_map_iff. exists i. split; [reflexivity|]. apply in_seq. lia.
Qed.

Lemma inputs_from_mono (w w' : world) n nd :
  wle w w' -> find_node g n = Some nd -> upstream_ok w n -> inputs_from w' nd = inputs_from w nd.
Proof.
  intros H F U. unfold inputs_from. apply map_ext_in. intros p Hp. apply map_ext_in. intros i Hi.
  apply in_seq in Hi. apply value_of_mono; [exact H|]. apply U. eapply upstream_jobs_in; eauto. lia.
Qed.

Lemma NInv_mono (w w' : world) n s : wle w w' -> NInv w n s -> NInv w' n s.
Proof.
  intros H [A B C D E F G I J K L M]. constructor; auto.
  - intros i Hi. eapply is_ok_mono; eauto.
  - intros i Hi. eapply is_err_mono; eauto.
  - intros Fl U. eapply upstream_ok_mono; eauto.
  - intros Fl U nd Fn. rewrite (J Fl U nd Fn). symmetry. eapply inputs_from_mono; eauto.
Qed.

Lemma NInv_ns0 (w : world) n : NInv w n (ns0 V).
Proof.
  constructor; cbn; try tauto; try discriminate; auto.
  constructor.
Qed.

Lemma members_nil (s : nstate) :
  members s = [] -> queued s = [] /\ running s = [] /\ successful s = [] /\ errored s = [].
Proof.
  unfold members. intros H.
  apply app_eq_nil in H. destruct H as [Hq H]. apply app_eq_nil in H. destruct H as [Hr H].
  apply app_eq_nil in H. tauto.
Qed.

Lemma queued_started (w : world) n (s : nstate) i :
  NInv w n s -> In i (queued s) -> started_flag s = true /\ unrunnable s = false.
Proof.
  intros I Hi. split.
  - destruct (started_flag s) eqn:E; [reflexivity|]. destruct (ni_noflag _ _ _ I E) as [M _].
    destruct (members_nil s M) as [Hq _]. rewrite Hq in Hi. destruct Hi.
  - destruct (unrunnable s) eqn:E; [|reflexivity]. pose proof (ni_unr _ _ _ I E) as M.
    destruct (members_nil s M) as [Hq _]. rewrite Hq in Hi. destruct Hi.
Qed.

(* the node's sets reflect the world (nothing for update_status to do) *)
Definition Fresh (w : world) (n : nat) (s : nstate) : Prop :=
  (forall i, In i (queued s) -> is_none w (n, i) = true /\ mem_job (n, i) (visible w) = false)
  /\ (forall i, In i (running s) -> is_none w (n, i) = true).

Lemma members_nil_started (s : nstate) :
  members s = [] -> unrunnable s = false -> started_flag s = false -> is_started s = false.
Proof.
  unfold members, is_started. intros H U Fl.
  apply app_eq_nil in H. destruct H as [Hq H]. apply app_eq_nil in H. destruct H as [Hr H].
  apply app_eq_nil in H. destruct H as [Hs He]. rewrite Hq, Hs, He, U, Fl. reflexivity.
Qed.

Lemma is_started_flag (w : world) n (s : nstate) : NInv w n s -> is_started s = true -> started_flag s = true.
Proof.
  intros I H. destruct (started_flag s) eqn:E; [reflexivity|].
  destruct (ni_noflag _ _ _ I E) as [M U]. rewrite (members_nil_started s M U E) in H. discriminate.
Qed.

Lemma filter_split3 (w : world) n (l : list nat) i :
  In i l ->
  In i (filter (fun i => is_ok w (n, i)) l) \/ In i (filter (fun i => is_err w (n, i)) l)
  \/ In i (filter (fun i => is_none w (n, i)) l).
Proof.
  intros H. destruct (probe_cases w (n, i)) as [[A _]|[[_ [A _]]|[_ [_ A]]]].
  - left. apply filter_In; auto.
  - right; left. apply filter_In; auto.
  - right; right. apply filter_In; auto.
Qed.

Lemma NoDup_filter {A} (f : A -> bool) l : NoDup l -> NoDup (filter f l).
Proof.
  induction 1 as [|x l Hx Hl IH]; cbn; [constructor|].
  destruct (f x); [constructor; auto|auto]. intros H. apply filter_In in H. tauto.
Qed.

End Inv.
