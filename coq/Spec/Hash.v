(* Spec/Hash.v — reference semantics for C06/C07/C08.  Nothing here mentions how pydra serializes.

   [veqb a b]: a and b are the same value — same Python type and same content: sequences element by
   element, sets as sets (mutual inclusion), dicts and attribute dicts as finite maps, arrays with class,
   dtype, shape and data, functions with their source chunks and their closure / global values.
   Object identities ([id]) play no role. *)
From Pydra Require Import Base.Prelude Model.Hash.
Local Open Scope list_scope.

Definition incl_by {A} (eqv : A -> A -> bool) (l1 l2 : list A) : bool :=
  forallb (fun x => existsb (eqv x) l2) l1.
Definition same_set {A} (eqv : A -> A -> bool) (l1 l2 : list A) : bool :=
  incl_by eqv l1 l2 && incl_by (fun x y => eqv y x) l2 l1.

Fixpoint veqb (fuel : nat) (a b : pyval) : bool :=
  match fuel with
  | 0 => false
  | S f =>
    match a, b with
    | VNone, VNone => true
    | VBool x, VBool y => Bool.eqb x y
    | VInt x, VInt y => Z.eqb x y
    | VFloat x, VFloat y => String.eqb x y
    | VStr x, VStr y => String.eqb x y
    | VBytes x, VBytes y => String.eqb x y
    | VPath c x, VPath d y => String.eqb c d && String.eqb x y
    | VList _ l1, VList _ l2 => list_eqb (veqb f) l1 l2
    | VTuple _ l1, VTuple _ l2 => list_eqb (veqb f) l1 l2
    | VSet _ l1, VSet _ l2 => same_set (veqb f) l1 l2
    | VFrozenset _ l1, VFrozenset _ l2 => same_set (veqb f) l1 l2
    | VDict _ k1, VDict _ k2 =>
        same_set (fun x y => veqb f (fst x) (fst y) && veqb f (snd x) (snd y)) k1 k2
    | VObj _ c a1, VObj _ d a2 =>
        String.eqb c d &&
        same_set (fun x y => String.eqb (fst x) (fst y) && veqb f (snd x) (snd y)) a1 a2
    | VNd _ c t sh x, VNd _ d u sh' y =>
        String.eqb c d && String.eqb t u && list_eqb Nat.eqb sh sh' && String.eqb x y
    | VFunc _ s1 h1, VFunc _ s2 h2 =>
        list_eqb String.eqb s1 s2 &&
        same_set (fun x y => String.eqb (fst x) (fst y) && veqb f (snd x) (snd y)) h1 h2
    | VOpaque _ x, VOpaque _ y => String.eqb x y
    | VRef i, VRef j => Nat.eqb i j
    | _, _ => false
    end
  end.

Definition veq (a b : pyval) : Prop := veqb (S (vdepth a)) a b = true.

(* C08, as statements about an arbitrary "hash this value in this context" function.
   [hash_in ctx v]: the digest of v when hashed after / alongside ctx (one shared memo);
   [hash_alone v] = hash_in [] v. *)
Section C08Spec.
  Variable hash_in : list pyval -> pyval -> res string.
  Definition hash_alone := hash_in [].

  (* equal values hash equally, whatever the iteration / insertion order *)
  Definition deterministic (dom : pyval -> Prop) : Prop :=
    forall a b, dom a -> dom b -> veq a b -> hash_alone a = hash_alone b.
  (* the hash of a value does not depend on what else was hashed alongside it *)
  Definition context_free (dom : list pyval -> pyval -> Prop) : Prop :=
    forall ctx v, dom ctx v -> hash_in ctx v = hash_alone v.
End C08Spec.

(* executable checks used on the correspondence cases *)
Definition opt_str_eqb (a b : option string) : bool := option_eqb String.eqb a b.
(* a pair of values and the two digests observed: equal digests exactly when the values are equal *)
Definition pair_spec_ok (c : pyval * pyval * option string * option string) : bool :=
  let '(a, b, da, db) := c in
  match da, db with
  | Some x, Some y => Bool.eqb (veqb (S (vdepth a)) a b) (String.eqb x y)
  | _, _ => true
  end.
(* one value, its digest alone and its digests in several contexts *)
Definition ctx_spec_ok (c : option string * list (option string)) : bool :=
  let '(alone, others) := c in forallb (opt_str_eqb alone) others.

(* C07: one computation observed in several sessions (hash seeds, insertion orders, pickling round trips):
   every session must report the same identity *)
Definition all_same (l : list (option string)) : bool :=
  match l with [] => true | x :: r => forallb (opt_str_eqb x) r end.
