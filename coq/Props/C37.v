(* C37 — Graph operations keep a valid topological order (pydra/engine/graph.py, DiGraph). *)
From Pydra Require Import Base.Prelude Model.Graph Spec.Graph
  Proofs.GraphSort Proofs.GraphInv Proofs.GraphEdges Proofs.GraphTopo Proofs.GraphLive Proofs.GraphWf.
Local Open Scope nat_scope.

(* Every history of DiGraph operations — constructor, then any list of add_nodes / add_edges /
   remove_nodes / remove_nodes_connections / remove_previous_connections /
   remove_successors_nodes / sorting / sorted_nodes / copy calls, none of which raised, and in
   which add_nodes was only given nodes that are not marked for removal and that no recorded edge
   points to — leaves a graph whose recorded order, if any, lists every remaining node exactly
   once and puts the source of every edge between remaining nodes before its target.
   No acyclicity hypothesis is needed: on a cyclic graph sorting raises (repair F18), and a
   history containing a raising call is not a history that returned. *)
Definition C37_full_statement : Prop :=
  forall (ns : list node) (es : list edge) (ops : list op) (g0 g : graph),
    init ns es = Ok g0 -> run_dom g0 ops = true -> run g0 ops = Ok g ->
    forall s, g_sorted g = Some s -> topo_valid (g_nodes g) (g_edges g) s.

Theorem C37_reachable : C37_full_statement.
Proof. exact reachable_edges. Qed.
Print Assumptions C37_reachable.

(* Without any condition on the calls: the recorded order is valid for the connections recorded
   in the predecessors dictionary (what the submitter reads). *)
Theorem C37_reachable_preds :
  forall (ns : list node) (es : list edge) (ops : list op) (g0 g : graph),
    init ns es = Ok g0 -> run g0 ops = Ok g ->
    forall s, g_sorted g = Some s -> topo_valid (g_nodes g) (pred_edges (g_preds g)) s.
Proof. exact reachable_preds. Qed.
Print Assumptions C37_reachable_preds.

(* One step: the invariant (order valid, predecessors[b] lists a as often as (a,b) is an edge,
   nodes have dictionary entries, no node is both present and marked for removal) is kept by every
   operation that returns. *)
Theorem C37_inv_step :
  forall g o g', inv2 g -> dom_ok g o = true -> step g o = Ok g' ->
                 inv2 g' /\ sorted_ok g' /\ sorted_ok_preds g'.
Proof. exact inv_step. Qed.
Print Assumptions C37_inv_step.

(* sorting alone, from any state whatsoever *)
Theorem C37_sorting_sound :
  forall g presorted g', sorting g presorted = Ok g' ->
    exists l, g' = set_sorted g (Some l) /\
      Permutation.Permutation l (if nonempty presorted then presorted else g_nodes g) /\
      forall a b, In a (if nonempty presorted then presorted else g_nodes g) ->
                  In b (if nonempty presorted then presorted else g_nodes g) ->
                  inW (g_preds g) b a -> before a b l.
Proof. exact sorting_sound. Qed.
Print Assumptions C37_sorting_sound.

(* The hypotheses are met by non-trivial histories: the diamond of test_graph.py, one removal
   through the head-of-list fast path, one through the re-sorting path, a re-added node. *)
Example C37_example :
  let ops := [AddNodes [4]; AddEdges [(3, 4)]; GetSorted; RemoveNodes [0] true; RemoveNodesConnections [0];
              AddNodes [0]; AddEdges [(4, 0)]; RemoveNodes [2] true; RemoveNodesConnections [2]] in
  exists g0 g, init [0; 1; 2; 3] [(0, 1); (0, 2); (1, 3); (2, 3)] = Ok g0 /\
               run_dom g0 ops = true /\ run g0 ops = Ok g /\
               g_sorted g = Some [1; 3; 4; 0] /\ g_nodes g = [1; 3; 4; 0].
Proof. vm_compute. eexists. eexists. repeat split. Qed.

(* ------------------------------------------------------------------------------------------
   A well-formed remove_nodes call succeeds.  [wf_state]: the order invariant, consistent
   dictionaries ([consistent]: predecessors / successors list exactly the edges, every recorded
   node has its entries, no connection to an unknown node) and acyclic connections among all
   recorded nodes.  The precondition is the computable one of the executable reference reading
   (Spec.Graph.pre_opb): distinct nodes of the graph, and with check_ready no remaining
   predecessor.  Then the model returns (no exception value), the result is again well-formed,
   and C37_reachable's conclusion holds for it: a history of well-formed remove_nodes calls
   never raises and always leaves a valid order.
   NOT proved here (checked by the executable reading only): the same for
   remove_nodes_connections, remove_previous_connections and remove_successors_nodes. *)
Theorem C37_wellformed_remove_nodes_succeeds :
  forall g l check_ready,
    wf_state g -> inv2 g -> pre_opb g (RemoveNodes l check_ready) = true ->
    exists g', step g (RemoveNodes l check_ready) = Ok g' /\ wf_state g' /\ inv2 g' /\
               sorted_ok g' /\ sorted_ok_preds g'.
Proof. exact wellformed_remove_nodes. Qed.
Print Assumptions C37_wellformed_remove_nodes_succeeds.

(* combined, for whole histories of such calls on a constructed acyclic graph *)
Fixpoint removals_ok (g : graph) (calls : list (list node * bool)) : bool :=
  match calls with
  | [] => true
  | (l, c) :: r => pre_opb g (RemoveNodes l c) &&
                   match step g (RemoveNodes l c) with Ok g' => removals_ok g' r | Err _ => true end
  end.

Theorem C37_wellformed_removals_never_raise :
  forall ns es g0 calls,
    init ns es = Ok g0 -> acyclic ns es -> removals_ok g0 calls = true ->
    exists g, run g0 (map (fun lc => RemoveNodes (fst lc) (snd lc)) calls) = Ok g /\ sorted_ok g /\ sorted_ok_preds g.
Proof.
  intros ns es g0 calls Hi Ha.
  assert (W : wf_state g0) by (eapply init_wf; eauto).
  assert (I2 : inv2 g0) by (eapply init_inv2; eauto).
  clear Hi Ha. revert g0 W I2. induction calls as [|[l c] r IH]; intros g0 W I2 H.
  - exists g0. split; [reflexivity|]. split; intros s E.
    + apply sorted_valid_edges; auto.
    + apply sorted_valid_preds; auto. exact (proj1 I2).
  - cbn [removals_ok] in H. apply andb_true_iff in H. destruct H as [P H].
    destruct (wellformed_remove_nodes g0 l c W I2 P) as [g1 [S1 [W1 [I1 _]]]]. rewrite S1 in H.
    destruct (IH g1 W1 I1 H) as [g [R Q]]. exists g. split; [|exact Q].
    cbn [map fst snd]. unfold run in *. cbn [foldM]. rewrite S1. cbn [bind]. exact R.
Qed.
Print Assumptions C37_wellformed_removals_never_raise.

(* the hypotheses are met: the diamond of test_graph.py, removed front to back, unsorted *)
Example C37_wellformed_example :
  exists g0, init [0; 1; 2; 3] [(0, 1); (0, 2); (1, 3); (2, 3)] = Ok g0 /\
             acyclic [0; 1; 2; 3] [(0, 1); (0, 2); (1, 3); (2, 3)] /\
             removals_ok g0 [([0], true); ([2; 1], false); ([3], false)] = true.
Proof.
  eexists. split; [vm_compute; reflexivity|]. split; [|vm_compute; reflexivity].
  apply (topo_valid_acyclic _ _ [0; 1; 2; 3]). split; [repeat constructor; cbn; intuition lia|].
  split; [reflexivity|]. intros a b H _ _. cbn in H.
  repeat (destruct H as [H|H]; [inversion H; subst; cbn; lia|]). contradiction.
Qed.

(* ------------------------------------------------------------------------------------------
   Well-formed remove_nodes_connections and remove_previous_connections calls succeed.
   [wf2] = [wf_state] plus: the keys of `successors` are unique, and a node marked for removal still
   has its `predecessors` entry.  Preconditions: Spec.Graph.pre_opb (distinct nodes that are marked
   for removal; no remaining predecessor for remove_nodes_connections, no remaining successor for
   remove_previous_connections).  Each theorem covers exactly the operation it names;
   remove_successors_nodes is NOT covered. *)
From Pydra Require Import Proofs.GraphWf2.

Theorem C37_wellformed_remove_nodes_connections_succeeds :
  forall g l, wf2 g -> inv2 g -> pre_opb g (RemoveNodesConnections l) = true ->
    exists g', step g (RemoveNodesConnections l) = Ok g' /\ wf2 g' /\ inv2 g' /\ sorted_ok g' /\ sorted_ok_preds g'.
Proof. intros g l W I P. exact (wellformed_removal_step g (RemoveNodesConnections l) W I eq_refl P). Qed.
Print Assumptions C37_wellformed_remove_nodes_connections_succeeds.

Theorem C37_wellformed_remove_previous_connections_succeeds :
  forall g l, wf2 g -> inv2 g -> pre_opb g (RemovePreviousConnections l) = true ->
    exists g', step g (RemovePreviousConnections l) = Ok g' /\ wf2 g' /\ inv2 g' /\ sorted_ok g' /\ sorted_ok_preds g'.
Proof. intros g l W I P. exact (wellformed_removal_step g (RemovePreviousConnections l) W I eq_refl P). Qed.
Print Assumptions C37_wellformed_remove_previous_connections_succeeds.

(* remove_nodes again, now keeping the stronger [wf2] so that the three operations compose *)
Theorem C37_wellformed_remove_nodes_keeps_wf2 :
  forall g l c, wf2 g -> inv2 g -> pre_opb g (RemoveNodes l c) = true ->
    exists g', step g (RemoveNodes l c) = Ok g' /\ wf2 g' /\ inv2 g' /\ sorted_ok g' /\ sorted_ok_preds g'.
Proof. intros g l c W I P. exact (wellformed_removal_step g (RemoveNodes l c) W I eq_refl P). Qed.
Print Assumptions C37_wellformed_remove_nodes_keeps_wf2.

(* C37_wellformed_removals_never_raise extended to histories mixing the three operations:
   constructor with acyclic edges, then any list of remove_nodes / remove_nodes_connections /
   remove_previous_connections calls each meeting its precondition in the state it is made in
   ([history_ok], computable) — never raises, ends with a valid order. *)
Theorem C37_wellformed_removal_history_never_raises :
  forall ns es g0 ops,
    init ns es = Ok g0 -> acyclic ns es -> history_ok g0 ops = true ->
    exists g, run g0 ops = Ok g /\ sorted_ok g /\ sorted_ok_preds g.
Proof. exact wellformed_removal_history. Qed.
Print Assumptions C37_wellformed_removal_history_never_raises.

(* met by the protocol of test_graph.py on the diamond: remove + disconnect, layer by layer *)
Example C37_wellformed_history_example :
  exists g0, init [0; 1; 2; 3] [(0, 1); (0, 2); (1, 3); (2, 3)] = Ok g0 /\
    history_ok g0 [RemoveNodes [0] true; RemoveNodesConnections [0];
                   RemoveNodes [1; 2] true; RemoveNodesConnections [2; 1];
                   RemoveNodes [3] false; RemovePreviousConnections [3]] = true /\
    run g0 [RemoveNodes [0] true; RemoveNodesConnections [0];
            RemoveNodes [1; 2] true; RemoveNodesConnections [2; 1];
            RemoveNodes [3] false; RemovePreviousConnections [3]]
      = Ok (mkG [] [] [] [] None []).
Proof. eexists. split; [vm_compute; reflexivity|]. split; vm_compute; reflexivity. Qed.

(* ------------------------------------------------------------------------------------------
   remove_successors_nodes: the analogue of the three theorems above is FALSE, and this is
   machine-checked rather than noted: on the chain 0->1->2, after remove_nodes(2, check_ready=False)
   and remove_nodes(0) (a state that is wf2 and inv2, and on which Spec.Graph.pre_opb accepts
   remove_successors_nodes(0)), the call returns, its result still has a valid order (C37's own
   statement holds: C37_reachable covers it), but it is no longer well-formed: edge (1,2) and
   predecessors[2]=[1] stay recorded although node 1 has been popped (a follower's successor
   that is already marked for removal is not itself treated as a follower).  Replayed against
   pydra/engine/graph.py: identical state (design/C37.md).  An internal inconsistency after an
   unusual call order, not a violation of C37. *)
From Pydra Require Import Proofs.GraphWf3.

Theorem C37_wellformed_remove_successors_nodes_refuted :
  exists g g', wf2 g /\ inv2 g /\ pre_opb g (RemoveSuccessorsNodes 0) = true /\
               step g (RemoveSuccessorsNodes 0) = Ok g' /\
               ~ wf2 g' /\ ~ consistent g' /\ sorted_ok g' /\ sorted_ok_preds g'.
Proof. exact remove_successors_nodes_breaks_wf2. Qed.
Print Assumptions C37_wellformed_remove_successors_nodes_refuted.

(* the pre-state of the witness is reached from the constructor by two well-formed remove_nodes calls *)
Example C37_refuted_witness_reachable :
  exists g0, init [0; 1; 2] [(0, 1); (1, 2)] = Ok g0 /\
             run g0 [RemoveNodes [2] false; RemoveNodes [0] true] = Ok w_pre.
Proof. exact w_pre_reached. Qed.

(* What IS proved for remove_successors_nodes: on a node without successors (the last node of a
   failed branch) it coincides with remove_nodes_connections, hence succeeds and keeps wf2.
   The general positive statement needs a hypothesis excluding the witness above (no follower has
   a successor already marked for removal) and the depth bound of the traversal; not proved. *)
Theorem C37_wellformed_remove_successors_nodes_leaf_partial :
  forall g n, wf2 g -> inv2 g -> pre_opb g (RemoveSuccessorsNodes n) = true ->
    dget (g_succs g) n = Some [] ->
    exists g', step g (RemoveSuccessorsNodes n) = Ok g' /\ wf2 g' /\ inv2 g' /\ sorted_ok g' /\ sorted_ok_preds g'.
Proof. exact wellformed_remove_successors_leaf. Qed.
Print Assumptions C37_wellformed_remove_successors_nodes_leaf_partial.

Example C37_leaf_example :
  let ops := [RemoveNodes [0] true; RemoveNodesConnections [0]; RemoveNodes [1; 2] true;
              RemoveNodesConnections [2; 1]; RemoveNodes [3] true] in
  let g0 := mkG [0; 1; 2; 3] [(0, 1); (0, 2); (1, 3); (2, 3)] [(0, []); (1, [0]); (2, [0]); (3, [1; 2])]
                [(0, [1; 2]); (1, [3]); (2, [3]); (3, [])] None [] in
  let g := mkG [] [] [(3, [])] [(3, [])] None [3] in
  init [0; 1; 2; 3] [(0, 1); (0, 2); (1, 3); (2, 3)] = Ok g0 /\ history_ok g0 ops = true /\
  run g0 ops = Ok g /\ pre_opb g (RemoveSuccessorsNodes 3) = true /\ dget (g_succs g) 3 = Some [] /\
  step g (RemoveSuccessorsNodes 3) = Ok (mkG [] [] [] [] None []).
Proof. vm_compute. repeat split. Qed.

(* ------------------------------------------------------------------------------------------
   The model's fuel for _checking_successors_nodes (depth = |keys| + 1) is not a hidden
   assumption: whatever the traversal returns with some depth it returns with every larger
   depth, so the bound only fixes where Python's endless recursion is reported as ERecursion. *)
From Pydra Require Import Proofs.GraphFuel.

Theorem C37_successor_traversal_fuel_irrelevant :
  forall d d' sd n l, d <= d' -> succ_all d sd n = Ok l -> succ_all d' sd n = Ok l.
Proof. exact succ_all_fuel_irrelevant. Qed.
Print Assumptions C37_successor_traversal_fuel_irrelevant.

(* ------------------------------------------------------------------------------------------
   A step towards the positive statement for remove_successors_nodes: the followers it removes
   are exactly the nodes of the graph met by the traversal, each once — so every
   remove_nodes(nd, check_ready=False) it issues names a node of the graph not named before. *)
From Pydra Require Import Proofs.GraphFollowers.

Theorem C37_followers_spec :
  forall ns all, NoDup (collect_followers ns all []) /\
                 (forall x, In x (collect_followers ns all []) <-> In x all /\ In x ns).
Proof. exact followers_spec. Qed.
Print Assumptions C37_followers_spec.

(* the hypothesis is met: the chain 0->1->2 explored from 0 with depth 3 (and hence with depth 4 = |keys|+1) *)
Example C37_fuel_example :
  succ_all 3 [(0, [1]); (1, [2]); (2, [])] 0 = Ok [1; 2] /\
  succ_all 4 [(0, [1]); (1, [2]); (2, [])] 0 = Ok [1; 2] /\
  succ_all 2 [(0, [1]); (1, [2]); (2, [])] 0 = Err ERecursion.
Proof. repeat split; vm_compute; reflexivity. Qed.
