#!/bin/bash
# finalize.sh [thorough-parallelism] — last pass on the unchanged tree: anchors, manifest, indexes, thorough then quick
cd /verif || exit 2
export PYTHONPATH=/verif:/repo
/venv/bin/python -m harness.lib.mkanchors
/venv/bin/python -m harness.lib.mkmanifest
python3-vt -c "import json,jsonschema; jsonschema.validate(json.load(open('/verif/MANIFEST.json')), json.load(open('/root/.vp/MANIFEST.schema.json'))); print('manifest valid')"
./check_all thorough ${1:-4} > /tmp/final-thorough.txt 2>&1
cat /tmp/final-thorough.txt
./check_all quick 3 > /tmp/final-quick.txt 2>&1
cat /tmp/final-quick.txt
python3-vt - <<'P'
import json, jsonschema, glob
sch = json.load(open('/root/.vp/EVIDENCE.schema.json'))
bad = 0
for f in sorted(glob.glob('/verif/evidence/C*.json')):
    d = json.load(open(f))
    try:
        jsonschema.validate(d, sch)
        c = d['coverage']
        assert d['tier'] == 'quick' and c['obligations'] == c['discharged'] >= 1 and d.get('violations', 0) == 0, (d['tier'], c['obligations'], c['discharged'], d.get('violations'))
    except Exception as e:
        bad += 1; print('BAD', f, str(e)[:200])
print('evidence files:', len(glob.glob('/verif/evidence/C*.json')), 'bad:', bad)
P
/venv/bin/python -m harness.lib.mkindex
./seeded/mkreadme.py
