"""Task definitions (with source on disk, so bytes_repr_function uses the AST path) used by the C06/C07 drivers,
and the harness's reading of which (name, value) pairs Task._compute_hashes feeds to the hash."""
import typing as ty

import attrs
from pydra.compose import python


@python.define
def Ident(x: ty.Any) -> ty.Any:
    return x


def checksum_fields(task):
    """[(name, value)] in the order Task._compute_hashes hashes them (mirror of its loop)."""
    from pydra.utils.general import get_fields
    from pydra.compose.base.field import Out
    out = []
    for field in get_fields(task):
        if isinstance(field, Out):
            continue
        if getattr(task, field.name) is attrs.NOTHING:
            continue
        if getattr(field, "container_path", False):
            continue
        out.append((field.name, getattr(task, field.name)))
    out.append(("Outputs", task.Outputs))
    return out
