From Pydra Require Import Base.Prelude Base.PyPath Model.Mount Spec.Mount.
From Coq Require Import Sorting.Sorted.
Local Open Scope string_scope.

Lemma anchor_eqb_spec a b : anchor_eqb a b = true <-> a = b.
Proof. destruct a, b; cbn; split; congruence. Qed.

Lemma comp_prefixb_spec m p : comp_prefixb m p = true <-> comp_prefix m p.
Proof.
  unfold comp_prefixb, comp_prefix, rel_to.
  rewrite andb_true_iff, anchor_eqb_spec, (is_prefix_spec la_eqb la_eqb_spec).
  split; intros [H1 H2]; split; auto.
Qed.

Definition len_desc (t : table) : Prop :=
  StronglySorted (fun a b => String.length (fst b) <= String.length (fst a)) t.

Lemma insert_len_In e l x : In x (insert_len e l) <-> x = e \/ In x l.
Proof.
  induction l as [|y l IH]; simpl.
  - intuition (subst; auto).
  - destruct (Nat.leb (String.length (fst y)) (String.length (fst e))); simpl.
    + intuition (subst; auto).
    + rewrite IH. intuition (subst; auto).
Qed.

Lemma insert_len_sorted e l : len_desc l -> len_desc (insert_len e l).
Proof.
  unfold len_desc. induction 1 as [|y l Hs IH Hall]; cbn [insert_len].
  - constructor; constructor.
  - destruct (Nat.leb_spec (String.length (fst y)) (String.length (fst e))) as [Hlt|Hge].
    + constructor; [constructor; assumption|].
      constructor; [lia|]. rewrite Forall_forall in *. intros z Hz. specialize (Hall z Hz). lia.
    + constructor; [exact IH|]. rewrite Forall_forall in *. intros z Hz.
      apply insert_len_In in Hz. destruct Hz as [->|Hz]; [lia|auto].
Qed.

Lemma sort_len_sorted l : len_desc (sort_len l).
Proof. induction l as [|e l IH]; cbn; [constructor|apply insert_len_sorted, IH]. Qed.

Lemma sort_len_In l x : In x (sort_len l) <-> In x l.
Proof. induction l as [|e l IH]; cbn; [tauto|]. rewrite insert_len_In, IH. intuition congruence. Qed.

Lemma filter_sorted {A} (R : A -> A -> Prop) f l : StronglySorted R l -> StronglySorted R (filter f l).
Proof.
  induction 1 as [|x l Hs IH Hall]; cbn; [constructor|].
  destruct (f x); [|exact IH]. constructor; [exact IH|].
  rewrite Forall_forall in *. intros y Hy. apply filter_In in Hy. apply Hall, Hy.
Qed.

Lemma parse_table_sorted m : len_desc (parse_table m).
Proof. unfold parse_table. apply filter_sorted, sort_len_sorted. Qed.

(* every entry kept by parse_table was on some line of the mount output *)
Lemma parse_table_subset m e : In e (parse_table m) -> In e m.
Proof. unfold parse_table. intros H. apply filter_In in H. apply sort_len_In, H. Qed.

(* first match in a length-descending table is a longest match *)
Lemma find_longest t path :
  len_desc t -> is_mount_of t path (find (matches_entry path) t).
Proof.
  unfold len_desc. induction 1 as [|x l Hs IH Hall]; cbn.
  - intros e' [].
  - unfold matches_entry at 1. fold (comp_prefixb (fst x) path).
    destruct (comp_prefixb (fst x) path) eqn:E.
    + cbn. split; [now left|]. split; [now apply comp_prefixb_spec|].
      intros e' [<-|Hin] _; [lia|]. rewrite Forall_forall in Hall. apply Hall, Hin.
    + fold (matches_entry path). destruct (find (matches_entry path) l) as [e|] eqn:F; cbn in *.
      * destruct IH as (Hin & Hp & Hmax). split; [now right|]. split; [exact Hp|].
        intros e' [<-|Hin'] Hc; [apply comp_prefixb_spec in Hc; congruence| now apply Hmax].
      * intros e' [<-|Hin'] Hc; [apply comp_prefixb_spec in Hc; congruence| now apply (IH e')].
Qed.

Theorem get_mount_longest_component_prefix matches path :
  is_mount_of (parse_table matches) path (find (matches_entry path) (parse_table matches)).
Proof. apply find_longest, parse_table_sorted. Qed.

(* what get_mount hands to its callers, in terms of find *)
Lemma get_mount_find t path :
  get_mount t path = match find (matches_entry path) t with
                     | Some e => (str_of (render (parse (la_of (fst e)))), snd e)
                     | None => default_mount end.
Proof. reflexivity. Qed.

(* siblings sharing a string prefix are never confused: /data is not the mount of /data2/x *)
Lemma sibling_not_component_prefix :
  comp_prefixb "/data" "/data2/x" = false /\ comp_prefixb "/data" "/data/x" = true.
Proof. split; vm_compute; reflexivity. Qed.

Theorem sibling_never_confused t path e :
  find (matches_entry path) t = Some e -> comp_prefix (fst e) path.
Proof.
  intros H. apply find_some in H. destruct H as [_ H]. now apply comp_prefixb_spec.
Qed.

(* the executable spec agrees with the model on length-descending tables with pairwise
   distinct lengths among matches — used only as a sanity lemma for the case files *)
Example nonvacuous :
  let t := parse_table [("/data", "cifs"); ("/data/sub", "ext4"); ("/data2", "cifs"); ("/", "ext4")] in
  get_mount t "/data/sub/f" = ("/data/sub", "ext4") /\
  get_mount t "/data2/x" = ("/data2", "cifs") /\
  get_mount t "/data22" = ("/", "ext4") /\ len_desc t /\ List.length t = 3.
Proof. cbn zeta. repeat split; try (vm_compute; reflexivity). apply parse_table_sorted. Qed.
