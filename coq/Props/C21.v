(* C21 — Accepted lazy connections are honoured at run time.
   [check_type live t s] models TypeParser(t).check_type(s) with superclass_auto_cast off;
   [coerce live W false t v] models TypeParser(t)(v). *)
From Pydra Require Import Base.Prelude Model.Typing Spec.Typing Proofs.Typing Proofs.TypingNss Proofs.TypingStatic.
From Pydra Require Import Generated.TypingTables Proofs.TypingLive Proofs.TypingStaticLive.

(* the property at full strength: every statically accepted connection s -> t (s not the unchecked Any), every
   value of type s fitting t's fixed tuple lengths, in a world where the named paths suit the formats *)
Definition C21_full_statement : Prop :=
  forall (W : world) (t s : ty) (v : val),
    world_total W -> scalar_based t = true -> scalar_based s = true -> s <> TBase KAny ->
    check_type live t s = Ok tt -> conforms live s v -> arity_ok t v = true ->
    not_rejected (coerce live W false t v).

(* false: list[list[int]] -> set[list[int]] is accepted, [[1]] is rejected (finding F21b) *)
Theorem C21_refuted_unhashable : ~ C21_full_statement.
Proof. exact c21_refuted_unhashable. Qed.
Print Assumptions C21_refuted_unhashable.

(* outside that class (set items / dict keys of t of hashable types) it holds *)
Theorem C21_partial :
  forall (W : world) (t s : ty) (v : val),
    world_total W -> c21_target_ok t = true -> scalar_based s = true -> s <> TBase KAny ->
    check_type live t s = Ok tt -> conforms live s v -> arity_ok t v = true ->
    not_rejected (coerce live W false t v).
Proof. exact live_static_dynamic. Qed.
Print Assumptions C21_partial.
