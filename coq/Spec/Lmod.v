(* Spec/Lmod.v — C39 reference semantics.  A module-load output is a sequence of statements of the
   Python program that `lmod python load` prints: assignments to os.environ entries and other lines.
   Executing that program on a copy of the caller environment gives the environment the command must see:
   the last assignment to a variable wins, every other variable is passed through unchanged.
   The text of the program (render) is ordinary Python string-literal syntax, as Lmod prints it
   (double quotes, backslash escapes) plus the quoting/spacing variants the property quantifies over.
   Nothing here mentions regular expressions or pydra's scanning algorithm. *)
From Pydra Require Import Base.Prelude Model.Lmod.
Local Open Scope char_scope.

Definition bslash : ascii := "\".

Record style := {
  key_dq : bool;            (* key in double (true) or single quotes *)
  val_dq : bool;            (* value in double (true) or single quotes *)
  ws_before : chars;        (* blanks before the equals sign *)
  ws_after : chars;         (* blanks after it *)
  trailer : chars           (* rest of the line after the closing quote, e.g. a semicolon or a comment *)
}.

Inductive stmt :=
| Assign (sty : style) (k v : string)   (* os.environ[k] = v *)
| Other (line : string).                (* any other line: _mlstatus = True, a comment, … *)

(* ---- meaning: run the assignments in order on the caller environment ---- *)
Fixpoint final (stmts : list stmt) (k : string) : option string :=
  match stmts with
  | [] => None
  | s :: r =>
      match final r k with
      | Some v => Some v
      | None => match s with
                | Assign _ k' v => if String.eqb k k' then Some v else None
                | Other _ => None
                end
      end
  end.

Definition spec_lookup (caller : env) (stmts : list stmt) (k : string) : option string :=
  match final stmts k with Some v => Some v | None => lookup k caller end.

(* the environment of the executed process: each variable once, with the value above *)
Definition spec_child_env (caller : env) (stmts : list stmt) (child : env) : Prop :=
  NoDup (map fst child) /\ forall k, lookup k child = spec_lookup caller stmts k.

(* ---- text of the program ---- *)
Definition qc (double : bool) : ascii := if double then dq else sq.

Fixpoint escape (q : ascii) (l : chars) : chars :=
  match l with
  | [] => []
  | c :: r => if Ascii.eqb c bslash || Ascii.eqb c q then bslash :: c :: escape q r else c :: escape q r
  end.

Definition render_stmt (s : stmt) : chars :=
  match s with
  | Assign sty k v =>
      prefix_lit ++ qc (key_dq sty) :: escape (qc (key_dq sty)) (la_of k) ++ qc (key_dq sty) :: "]" ::
      ws_before sty ++ "=" :: ws_after sty ++
      qc (val_dq sty) :: escape (qc (val_dq sty)) (la_of v) ++ qc (val_dq sty) :: trailer sty ++ [nl]
  | Other line => la_of line ++ [nl]
  end.

Definition render (stmts : list stmt) : chars := flat_map render_stmt stmts.

(* ---- the domain ---- *)
Definition is_blank (c : ascii) : bool := Ascii.eqb c " " || Ascii.eqb c "009".
Definition no_nl (l : chars) : bool := forallb (fun c => negb (is_nl c)) l.
Definition no_lbracket (l : chars) : bool := forallb (fun c => negb (Ascii.eqb c "[")) l.
(* contains neither kind of quote, no backslash and no newline: needs no escaping in either quoting *)
Definition plain (l : chars) : bool :=
  forallb (fun c => negb (is_quote c) && negb (Ascii.eqb c bslash) && negb (is_nl c)) l.

Definition wf_style (sty : style) : bool :=
  forallb is_blank (ws_before sty) && forallb is_blank (ws_after sty) &&
  no_nl (trailer sty) && no_lbracket (trailer sty).

(* well-formed output: variable names are plain, values are any single-line byte strings, the other
   lines (and the trailers) are single lines that do not open a bracket *)
Definition wf_stmt (s : stmt) : bool :=
  match s with
  | Assign sty k v => wf_style sty && plain (la_of k) && no_nl (la_of v)
  | Other line => no_nl (la_of line) && no_lbracket (la_of line)
  end.

(* the class on which the unchanged scanner is right: values need no escaping either *)
Definition plain_stmt (s : stmt) : bool :=
  match s with
  | Assign _ _ v => plain (la_of v)
  | Other _ => true
  end.

(* ---- executable version used on the correspondence cases ---- *)
Fixpoint nodupb (l : list string) : bool :=
  match l with [] => true | x :: r => negb (existsb (String.eqb x) r) && nodupb r end.

Definition assigned (stmts : list stmt) : list string :=
  flat_map (fun s => match s with Assign _ k _ => [k] | Other _ => [] end) stmts.

Definition spec_env_ok (caller : env) (stmts : list stmt) (child : env) : bool :=
  nodupb (map fst child) &&
  forallb (fun k => option_eqb String.eqb (lookup k child) (spec_lookup caller stmts k))
          (map fst child ++ map fst caller ++ assigned stmts).
