(* Proofs/StateWfSel.v — C03: the zip of inputs_ind with states_ind, element by element.
   Every pair (index columns, state tuple) produced for a node is made of one choice (i, t) per upstream
   state — i the position of t in that state's final list — and looking a connected field / an inherited
   axis up in the two dictionaries gives back i / the coordinate stored in t. *)
From Pydra Require Import Base.Prelude Model.StateWf Spec.StateWf Proofs.StateWfLists Proofs.StateWfInv.
Local Open Scope nat_scope.

Lemma In_combine_same {A} (l : list A) x y : In (x, y) (combine l l) -> x = y /\ In x l.
Proof.
  induction l as [|a l IH]; cbn; [intros []|]. intros [E|H]; [inversion E; subst; split; [reflexivity | left; reflexivity]|].
  destruct (IH H) as [H1 H2]. split; [exact H1 | right; exact H2].
Qed.
Lemma In_combine_seq {A B} (g : nat -> A) (L : list B) u t :
  In (u, t) (combine (map g (seq 0 (List.length L))) L) -> exists i, i < List.length L /\ u = g i /\ nth_error L i = Some t.
Proof.
  assert (G : forall s, In (u, t) (combine (map g (seq s (List.length L))) L) -> exists i, i < List.length L /\ u = g (s + i) /\ nth_error L i = Some t).
  { induction L as [|b L IH]; intros s; cbn; [intros []|]. intros [E|H].
    - inversion E; subst. exists 0. split; [lia|]. split; [f_equal; lia | reflexivity].
    - destruct (IH (S s) H) as [i [H1 [H2 H3]]]. exists (S i). split; [lia|]. split; [rewrite H2; f_equal; lia | exact H3]. }
  intros H. destruct (G 0 H) as [i [H1 [H2 H3]]]. exists i. auto.
Qed.
Lemma lookup_repeat ks i k : In k ks -> lookup (combine ks (repeat i (List.length ks))) k = Some i.
Proof.
  induction ks as [|k0 ks IH]; cbn; [intros []|]. intros H.
  destruct (key_eqb k0 k) eqn:E; [reflexivity|]. apply IH. destruct H as [H|H]; [|exact H].
  subst. rewrite key_eqb_refl in E. discriminate E.
Qed.

Section Sel.
Variables (n : nat) (cf : nat -> list nat) (Fx : nat -> list key) (indf : nat -> list (list nat)).
Variable len : key -> nat.

Definition kin (x : nat) : list key := map (fun f => (n, f)) (cf x).
Definition cols (x : nat) : list (list nat) := map (fun i => repeat i (List.length (cf x))) (seq 0 (List.length (indf x))).

Fixpoint sel (U : list nat) (a_in a_st : list nat) : Prop :=
  match U with
  | [] => a_in = [] /\ a_st = []
  | x :: U' => exists i t r_in r_st,
      i < List.length (indf x) /\ nth_error (indf x) i = Some t /\
      a_in = repeat i (List.length (cf x)) ++ r_in /\ a_st = t ++ r_st /\ sel U' r_in r_st
  end.

Lemma In_pprods_sel U : forall a_in a_st,
  In (a_in, a_st) (pprods (map (fun x => combine (cols x) (indf x)) U)) -> sel U a_in a_st.
Proof.
  induction U as [|x U IH]; intros a_in a_st H.
  - cbn in H. destruct H as [E|[]]. inversion E. split; reflexivity.
  - change (pprods (map (fun x0 => combine (cols x0) (indf x0)) (x :: U)))
      with (pprod2 (combine (cols x) (indf x)) (pprods (map (fun x0 => combine (cols x0) (indf x0)) U))) in H.
    apply In_pprod2 in H. destruct H as [[u t] [[r_in r_st] [H1 [H2 E]]]]. cbn in E. inversion E; subst.
    unfold cols in H1. apply In_combine_seq in H1. destruct H1 as [i [Hi [-> Ht]]].
    cbn. exists i, t, r_in, r_st. repeat split; try assumption. apply IH. exact H2.
Qed.

Hypothesis Hlen : forall x t, In t (indf x) -> List.length t = List.length (Fx x).

Lemma sel_lengths U : forall a_in a_st, sel U a_in a_st ->
  List.length a_in = List.length (flat_map kin U) /\ List.length a_st = List.length (flat_map Fx U).
Proof.
  induction U as [|x U IH]; intros a_in a_st H; cbn in H.
  - destruct H as [-> ->]. split; reflexivity.
  - destruct H as [i [t [r_in [r_st [Hi [Ht [-> [-> Hs]]]]]]]]. destruct (IH _ _ Hs) as [L1 L2].
    assert (Lk : List.length (kin x) = List.length (cf x)) by (unfold kin; apply map_length).
    pose proof (Hlen x t (nth_error_In _ _ Ht)) as Lt.
    cbn [flat_map]. rewrite !app_length, repeat_length. split; lia.
Qed.

Lemma sel_lookup U : forall a_in a_st,
  sel U a_in a_st -> NoDup U ->
  (forall x y f, In x U -> In y U -> x <> y -> In f (cf x) -> ~ In f (cf y)) ->
  (forall x y k, In x U -> In y U -> x <> y -> In k (Fx x) -> ~ In k (Fx y)) ->
  forall Kt_in T_in Kt T x, In x U ->
  exists i t, i < List.length (indf x) /\ nth_error (indf x) i = Some t /\
    (forall f, In f (cf x) -> lookup (combine (flat_map kin U ++ Kt_in) (a_in ++ T_in)) (n, f) = Some i) /\
    (forall k, In k (Fx x) -> lookup (combine (flat_map Fx U ++ Kt) (a_st ++ T)) k = lookup (combine (Fx x) t) k).
Proof.
  induction U as [|x0 U IH]; intros a_in a_st Hs Hnd Hcf HF Kt_in T_in Kt T x Hx; [contradiction|].
  cbn in Hs. destruct Hs as [i [t [r_in [r_st [Hi [Ht [-> [-> Hs]]]]]]]].
  inversion Hnd as [|? ? Hnotin HndU]; subst.
  pose proof (Hlen x0 t (nth_error_In _ _ Ht)) as Lt.
  cbn [flat_map]. rewrite <- !app_assoc.
  destruct Hx as [<-|Hx].
  - exists i, t. split; [exact Hi|]. split; [exact Ht|]. split.
    + intros f Hf. rewrite lookup_combine_app_l.
      * unfold kin. rewrite <- (map_length (fun f0 => (n, f0)) (cf x0)). apply lookup_repeat. apply in_map. exact Hf.
      * unfold kin. rewrite map_length, repeat_length. reflexivity.
      * unfold kin. apply in_map. exact Hf.
    + intros k Hk. rewrite lookup_combine_app_l; [reflexivity | symmetry; exact Lt | exact Hk].
  - assert (Hne : x <> x0) by (intros ->; contradiction).
    destruct (IH _ _ Hs HndU
                (fun a b f Ha Hb => Hcf a b f (or_intror Ha) (or_intror Hb))
                (fun a b k Ha Hb => HF a b k (or_intror Ha) (or_intror Hb))
                Kt_in T_in Kt T x Hx) as [i' [t' [Hi' [Ht' [L1 L2]]]]].
    exists i', t'. split; [exact Hi'|]. split; [exact Ht'|]. split.
    + intros f Hf. rewrite lookup_combine_app_r; [apply L1; exact Hf | unfold kin; rewrite map_length, repeat_length; reflexivity |].
      unfold kin. intros Hin. apply in_map_iff in Hin. destruct Hin as [f' [E Hf']]. inversion E; subst f'.
      exact (Hcf x x0 f (or_intror Hx) (or_introl eq_refl) Hne Hf Hf').
    + intros k Hk. rewrite lookup_combine_app_r; [apply L2; exact Hk | symmetry; exact Lt |].
      intros Hin. exact (HF x x0 k (or_intror Hx) (or_introl eq_refl) Hne Hk Hin).
Qed.
End Sel.
