(* Proofs/ShellAssign.v — the positions define() hands out (remaining_positions) and the order they induce. *)
From Pydra Require Import Base.Prelude Base.Shlex Model.Shell Spec.Shell Proofs.ShellOrder.
From Coq Require Import Sorting.Sorted Sorting.Permutation FinFun.
Local Open Scope list_scope.
Local Open Scope Z_scope.

Definition set_spos (f : sfield) (p : Z) : sfield := mkS (sf_name f) (sf_ty f) (sf_argstr f) (Some p) (sf_sep f).
(* define()'s walk over the fields, on the spec-level records *)
Fixpoint sassign (fs : list sfield) (free : list Z) : list sfield :=
  match fs with
  | [] => []
  | f :: r => match sf_pos f with
              | Some _ => f :: sassign r free
              | None => match free with p :: free' => set_spos f p :: sassign r free' | [] => f :: sassign r [] end
              end
  end.
(* the unpositioned fields with the positions they receive *)
Fixpoint implicit (fs : list sfield) (free : list Z) : list sfield :=
  match fs with
  | [] => []
  | f :: r => match sf_pos f with
              | Some _ => implicit r free
              | None => match free with p :: free' => set_spos f p :: implicit r free' | [] => [] end
              end
  end.

Lemma to_field_set_spos f p : to_field (set_spos f p) = set_pos (to_field f) p.
Proof. reflexivity. Qed.

Lemma assign_to_field : forall fs free,
  (List.length (filter pos_none fs) <= List.length free)%nat ->
  assign (map to_field fs) free = Good (map to_field (sassign fs free)).
Proof.
  induction fs as [|f fs IH]; intros free H; [reflexivity|].
  cbn [map assign sassign]. cbn [filter] in H. change (pos_none f) with (match sf_pos f with None => true | Some _ => false end) in H.
  change (f_pos (to_field f)) with (sf_pos f).
  destruct (sf_pos f) as [p|].
  - rewrite IH by exact H. reflexivity.
  - destruct free as [|q free]; [cbn in H; lia|].
    cbn [List.length] in H. rewrite IH by lia. cbn. reflexivity.
Qed.

Lemma pos_neg_set f q : pos_neg (set_spos f q) = (q <? 0). Proof. reflexivity. Qed.
Lemma pos_nonneg_set f q : pos_nonneg (set_spos f q) = (0 <=? q). Proof. reflexivity. Qed.
Lemma pos_neg_eq f : pos_neg f = match sf_pos f with Some p => p <? 0 | None => false end. Proof. reflexivity. Qed.
Lemma pos_nonneg_eq f : pos_nonneg f = match sf_pos f with Some p => 0 <=? p | None => false end. Proof. reflexivity. Qed.

Lemma sassign_filter_neg : forall fs free, Forall (fun q => 0 <= q) free ->
  filter pos_neg (sassign fs free) = filter pos_neg fs.
Proof.
  induction fs as [|f fs IH]; intros free H; [reflexivity|].
  cbn [sassign]. destruct (sf_pos f) as [p|] eqn:E.
  - cbn [filter]. rewrite IH by exact H. reflexivity.
  - destruct free as [|q free].
    + cbn [filter]. rewrite IH by constructor. reflexivity.
    + inversion H; subst. cbn [filter]. rewrite pos_neg_set, (pos_neg_eq f), E.
      assert (q <? 0 = false) by lia. rewrite H0. apply IH. assumption.
Qed.

Lemma sassign_filter_nonneg : forall fs free, Forall (fun q => 0 <= q) free ->
  (List.length (filter pos_none fs) <= List.length free)%nat ->
  Permutation (filter pos_nonneg (sassign fs free)) (filter pos_nonneg fs ++ implicit fs free).
Proof.
  induction fs as [|f fs IH]; intros free H Hl; [reflexivity|].
  cbn [sassign implicit]. cbn [filter] in Hl. change (pos_none f) with (match sf_pos f with None => true | Some _ => false end) in Hl.
  destruct (sf_pos f) as [p|] eqn:E.
  - cbn [filter]. rewrite (pos_nonneg_eq f), E. destruct (0 <=? p).
    + cbn. constructor. apply IH; assumption.
    + apply IH; assumption.
  - destruct free as [|q free]; [cbn in Hl; lia|]. inversion H; subst. cbn [List.length] in Hl.
    cbn [filter]. rewrite pos_nonneg_set, (pos_nonneg_eq f), E.
    assert (0 <=? q = true) by lia. rewrite H0.
    rewrite (IH free) by (assumption || lia). apply Permutation_middle.
Qed.

Lemma implicit_keys : forall fs free, (List.length (filter pos_none fs) <= List.length free)%nat ->
  map posz (implicit fs free) = firstn (List.length (filter pos_none fs)) free.
Proof.
  induction fs as [|f fs IH]; intros free Hl; [reflexivity|].
  cbn [implicit]. cbn [filter] in *. change (pos_none f) with (match sf_pos f with None => true | Some _ => false end) in *. destruct (sf_pos f) as [p|].
  - apply IH, Hl.
  - destruct free as [|q free]; [cbn in Hl; lia|]. cbn [List.length] in *. cbn. f_equal. apply IH. lia.
Qed.

(* ------------------------------------------------------------------ distinctness of the assigned positions *)
Lemma zmem_In x l : zmem x l = true <-> In x l.
Proof.
  unfold zmem. rewrite existsb_exists. split.
  - intros (y & Hy & E). apply Z.eqb_eq in E. now subst.
  - intros H. exists x. split; [exact H|apply Z.eqb_refl].
Qed.
Lemma has_dup_NoDup l : has_dup l = false -> NoDup l.
Proof.
  induction l as [|x l IH]; cbn; [constructor|].
  intros H. apply orb_false_iff in H as [H1 H2]. constructor; [|auto].
  intros Hin. apply zmem_In in Hin. congruence.
Qed.

Lemma seq_sorted n : forall s, StronglySorted Z.lt (map Z.of_nat (seq s n)).
Proof.
  induction n as [|n IH]; intros s; cbn; constructor; [apply IH|].
  rewrite Forall_forall. intros z Hz. apply in_map_iff in Hz as (k & <- & Hk). apply in_seq in Hk. lia.
Qed.

Lemma free_slots_props fields :
  NoDup (free_slots fields) /\ Forall (fun q => 0 <= q) (free_slots fields)
  /\ (forall q, In q (free_slots fields) -> ~ In q (used_slots fields))
  /\ StronglySorted Z.lt (free_slots fields).
Proof.
  unfold free_slots. set (rng := map Z.of_nat (seq 0 (List.length fields + 1))).
  assert (Srng : StronglySorted Z.lt rng).
  { apply seq_sorted. }
  repeat split.
  - apply NoDup_filter. unfold rng. apply Injective_map_NoDup; [intros a b; apply Nat2Z.inj|apply seq_NoDup].
  - rewrite Forall_forall. intros q Hq. apply filter_In in Hq as [Hq _]. unfold rng in Hq.
    apply in_map_iff in Hq as (k & <- & _). lia.
  - intros q Hq Hu. apply filter_In in Hq as [_ Hq]. apply negb_true_iff in Hq.
    apply zmem_In in Hu. congruence.
  - clear -Srng. induction Srng as [|x l S IH F]; cbn; [constructor|].
    destruct (negb _); [|exact IH]. constructor; [exact IH|].
    rewrite Forall_forall in *. intros y Hy. apply filter_In in Hy as [Hy _]. auto.
Qed.

Lemma firstn_In {T} (n : nat) (l : list T) x : In x (firstn n l) -> In x l.
Proof. revert l; induction n; intros [|y l]; cbn; try tauto. intros [->|H]; auto. Qed.

Lemma NoDup_firstn {T} (n : nat) (l : list T) : NoDup l -> NoDup (firstn n l).
Proof.
  revert l; induction n; intros [|y l] H; cbn; try constructor.
  - inversion H; subst. intros Hin. apply firstn_In in Hin. contradiction.
  - inversion H; subst. auto.
Qed.

(* slots of the assigned positions = the used slots plus the slots taken from the free list *)
Lemma slots_perm n : forall fs free,
  (List.length (filter pos_none fs) <= List.length free)%nat ->
  Permutation (map (fun f => slot n (posz f)) (sassign fs free))
              (flat_map (fun f => match f_pos f with Some p => [slot n p] | None => [] end) (map to_field fs)
               ++ map (slot n) (firstn (List.length (filter pos_none fs)) free)).
Proof.
  induction fs as [|f fs IH]; intros free Hl; [reflexivity|].
  cbn [sassign map flat_map]. change (f_pos (to_field f)) with (sf_pos f).
  cbn [filter] in Hl |- *. change (pos_none f) with (match sf_pos f with None => true | Some _ => false end) in Hl |- *.
  destruct (sf_pos f) as [p|] eqn:E.
  - cbn [map app]. unfold posz at 1. rewrite E. constructor. apply IH, Hl.
  - destruct free as [|q free]; [cbn in Hl; lia|]. cbn [List.length] in Hl |- *.
    cbn [map app firstn]. unfold posz at 1. cbn [set_spos sf_pos].
    rewrite (IH free) by lia. apply Permutation_middle.
Qed.

Theorem assigned_NoDup : forall fs,
  has_dup (used_slots (map to_field fs)) = false ->
  (List.length (filter pos_none fs) <= List.length (free_slots (map to_field fs)))%nat ->
  NoDup (0 :: map posz (sassign fs (free_slots (map to_field fs)))).
Proof.
  intros fs Hd Hl. set (fields := map to_field fs) in *. set (n := num_args fields).
  destruct (free_slots_props fields) as (Fnd & Fnn & Fdis & _).
  apply (NoDup_map_inv (slot n)).
  cbn [map]. change (slot n 0) with 0. rewrite map_map.
  eapply Permutation_NoDup.
  - apply Permutation_sym. apply perm_skip. apply (slots_perm n fs (free_slots fields) Hl).
  - rewrite app_comm_cons. change (0 :: flat_map _ (map to_field fs)) with (used_slots fields).
    apply has_dup_NoDup in Hd.
    assert (E : map (slot n) (firstn (List.length (filter pos_none fs)) (free_slots fields))
                = firstn (List.length (filter pos_none fs)) (free_slots fields)).
    { rewrite <- (map_id (firstn _ _)) at 2. apply map_ext_in. intros q Hq. apply firstn_In in Hq.
      rewrite Forall_forall in Fnn. specialize (Fnn q Hq). unfold slot. assert (q <? 0 = false) by lia. now rewrite H. }
    rewrite E. clear E.
    (* NoDup (used ++ prefix of free) *)
    induction (used_slots fields) as [|u us IHu]; cbn.
    + apply NoDup_firstn, Fnd.
    + inversion Hd; subst. constructor.
      * intros Hin. apply in_app_or in Hin as [Hin|Hin]; [contradiction|].
        apply firstn_In in Hin. apply (Fdis u Hin). now left.
      * apply IHu; [assumption|]. intros q Hq Hu. apply (Fdis q Hq). now right.
Qed.
