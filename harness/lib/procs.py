"""Fresh interpreters under checkpoint control (used by C10 / C12 / C35).

Parent side:  `Child` starts `/venv/bin/python -c "from harness.lib import procs; procs.child_main()" cfg.json`
with NIPYPE_PYDRA_VERIF=1, its own $VERIF_PLAN and a shared $VERIF_TRACE; `Gate` parks every child at every
checkpoint of pydra/utils/verif_hooks.py and lets exactly one of them move at a time, so that the interleaving
of checkpoint labels is chosen by the caller (the trace file records what really happened).

Child side: builds one of a few tasks, submits it with Submitter(worker="debug", cache_root=...) and writes what
the caller observed (outcome, os.getcwd(), hook log) to a JSON file.
"""
import json
import os
import subprocess
import sys
import time

VERIF = os.path.dirname(os.path.dirname(os.path.dirname(os.path.abspath(__file__))))
PY = "/venv/bin/python"


# ------------------------------------------------------------------ child side
def _hook(log, name, raises, chdir=""):
    def fn(*a, **k):
        with open(log, "a") as f:
            f.write(name + "\n")
        if chdir:
            os.chdir(chdir)
        if raises:
            raise RuntimeError("verif: hook %s raises" % name)

    fn.__name__ = "hook_" + name
    return fn


def _tasks():
    from pydra.compose import python, shell, workflow

    @python.define
    def Work(x: int, side: str, delay: float = 0.0, fail: bool = False, flaky: str = "", chdir: str = "") -> int:
        """The task body: leaves one line per execution in the side file."""
        import os as _os
        import time as _time

        with open(side, "a") as f:
            f.write("%d %d\n" % (_os.getpid(), x))
        if chdir:
            _os.chdir(chdir)        # user code that moves the process and does not come back
        if delay:
            _time.sleep(delay)
        if flaky and _os.path.exists(flaky):
            _os.unlink(flaky)
            raise ValueError("verif: flaky body fails this time")
        if fail:
            raise ValueError("verif: body fails")
        return 2 * x + 1

    @workflow.define
    def Wf(x: int, side: str, delay: float = 0.0, fail: bool = False) -> int:
        a = workflow.add(Work(x=x, side=side, delay=delay, fail=fail), name="a")
        b = workflow.add(Work(x=a.out, side=side), name="b")
        return b.out

    return {"python": Work, "workflow": Wf, "shell": shell}


def build_task(cfg):
    t = _tasks()
    kind = cfg.get("task", "python")
    if kind == "python":
        return t["python"](x=cfg.get("x", 3), side=cfg["side"], delay=cfg.get("delay", 0.0),
                           fail=cfg.get("fail", False), flaky=cfg.get("flaky", ""), chdir=cfg.get("chdir", ""))
    if kind == "workflow":
        return t["workflow"](x=cfg.get("x", 3), side=cfg["side"], delay=cfg.get("delay", 0.0),
                             fail=cfg.get("fail", False))
    if kind == "shell":
        # the body is /bin/sh running a script the parent wrote (one line per execution into the side file)
        Sh = t["shell"].define("sh <script:str>")
        return Sh(script=cfg["script"])
    raise ValueError(kind)


def write_shell_body(path, cfg):
    with open(path, "w") as f:
        f.write("echo $$ >> %s\n" % cfg["side"])
        if cfg.get("delay"):
            f.write("sleep %s\n" % cfg["delay"])
        f.write("echo %d\n" % (2 * cfg.get("x", 3) + 1))
        if cfg.get("fail"):
            f.write("exit 3\n")


def expected_value(cfg):
    x = cfg.get("x", 3)
    if cfg.get("task", "python") == "workflow":
        return 2 * (2 * x + 1) + 1
    return 2 * x + 1


def _outputs_value(cfg, outputs):
    if outputs is None:
        return None
    if cfg.get("task", "python") == "shell":
        return int(str(outputs.stdout).strip() or -1)
    return outputs.out


def child_main():
    cfg = json.load(open(sys.argv[1]))
    from pydra.utils.verif_hooks import checkpoint
    from pydra.engine.submitter import Submitter
    from pydra.engine.hooks import TaskHooks

    home = os.getcwd()
    if cfg.get("thread_subs"):
        # the submitters are THREADS of this interpreter: each its own Submitter / Job, one report list per thread
        import threading
        reports = [{"submissions": []} for _ in cfg["thread_subs"]]
        lock = threading.Lock()

        def body(k):
            with lock:
                tids = json.load(open(cfg["tids"])) if os.path.exists(cfg["tids"]) else {}
                tids["T%d" % k] = threading.get_ident()
                with open(cfg["tids"] + ".tmp", "w") as f:
                    json.dump(tids, f)
                os.replace(cfg["tids"] + ".tmp", cfg["tids"])
            _submit_all(cfg, cfg["thread_subs"][k], reports[k], home, threaded=True,
                        flush=lambda: _flush(cfg, {"threads": reports}, lock))

        ts = [threading.Thread(target=body, args=(k,), name="T%d" % k) for k in range(len(cfg["thread_subs"]))]
        [t.start() for t in ts]
        [t.join() for t in ts]
        return
    report = {"submissions": []}
    _submit_all(cfg, cfg["submissions"], report, home, threaded=False, flush=lambda: _flush(cfg, report, None))


def _flush(cfg, report, lock):
    if lock is not None:
        lock.acquire()
    try:
        with open(cfg["report"] + ".tmp", "w") as f:
            json.dump(report, f)
        os.replace(cfg["report"] + ".tmp", cfg["report"])
    finally:
        if lock is not None:
            lock.release()


def _submit_all(cfg, submissions, report, home, threaded, flush):
    from pydra.utils.verif_hooks import checkpoint
    from pydra.engine.submitter import Submitter
    from pydra.engine.hooks import TaskHooks

    for sub_i, sc in enumerate(submissions):
        task = build_task(sc)
        hooks = None
        if sc.get("hook_log"):
            r = sc.get("hook_raises", "")
            hooks = TaskHooks(**{h: _hook(sc["hook_log"], h, r == h,
                                          sc.get("hook_chdir", "") if h == "post_run_task" else "")
                                 for h in ("pre_run", "post_run", "pre_run_task", "post_run_task")})
        obs = {}
        try:
            kw = {"n_procs": 2} if sc.get("worker") == "cf" else {}     # a pool of 2 processes instead of one per cpu
            with Submitter(worker=sc.get("worker", "debug"), cache_root=cfg["cache_root"], **kw) as sub:
                res = sub(task, hooks=hooks, rerun=sc.get("rerun", False))
            checkpoint("drv.returned")
            obs = {"outcome": "returned", "errored": bool(res.errored), "out": _outputs_value(sc, res.outputs),
                   "cache_dir": os.path.basename(str(res.cache_dir))}
        except Exception as e:  # noqa
            checkpoint("drv.raised")
            obs = {"outcome": "raised", "exc": type(e).__name__, "msg": str(e)[:200]}
        cwd = os.getcwd()
        obs["cwd"] = "home" if cwd == home else ("indir" if os.path.dirname(cwd) == os.path.realpath(cfg["cache_root"])
                                                 or os.path.dirname(cwd) == cfg["cache_root"] else cwd)
        obs["cwd_name"] = os.path.basename(cwd)
        if threaded:
            obs["cwd"] = "home"          # the working directory belongs to the process, not to a thread: not observed
        report["submissions"].append(obs)
        flush()
        if sc.get("restore_cwd", True) and not threaded:
            os.chdir(home)


# ------------------------------------------------------------------ parent side
class Child:
    def __init__(self, idx, workdir, cache_root, submissions, rules, trace, repo=None, home=None, track=False,
                 thread_subs=None):
        self.idx = idx
        self.kids = set()
        self.tids_path = os.path.join(workdir, "tids%d.json" % idx)
        self.n_threads = len(thread_subs) if thread_subs else 0
        self.cfg_path = os.path.join(workdir, "cfg%d.json" % idx)
        self.plan_path = os.path.join(workdir, "plan%d.json" % idx)
        self.report_path = os.path.join(workdir, "report%d.json" % idx)
        self.home = home or os.path.join(workdir, "home%d" % idx)
        os.makedirs(self.home, exist_ok=True)
        with open(self.cfg_path, "w") as f:
            json.dump({"cache_root": cache_root, "submissions": submissions, "report": self.report_path,
                       "thread_subs": thread_subs, "tids": self.tids_path}, f)
        with open(self.plan_path, "w") as f:
            json.dump({"rules": rules}, f)
        env = dict(os.environ)
        repo = repo or os.environ.get("VERIF_REPO", "/repo")
        env.update(PYTHONPATH=VERIF + ":" + repo, NIPYPE_PYDRA_VERIF="1", VERIF_TRACE=trace,
                   VERIF_PLAN=self.plan_path, PYTHONHASHSEED="0", NO_ET="1", PYTHONDONTWRITEBYTECODE="1")
        # own session: the whole tree (cf worker pool) can be removed at the end; output to a file, because
        # orphaned pool processes would keep a pipe open
        self.out_path = os.path.join(workdir, "out%d.txt" % idx)
        self._out = open(self.out_path, "wb")
        self.proc = subprocess.Popen([PY, "-c", "from harness.lib import procs; procs.child_main()", self.cfg_path],
                                     cwd=self.home, env=env, stdout=self._out, stderr=subprocess.STDOUT,
                                     start_new_session=True)
        self.pid = self.proc.pid
        self.output = None
        if track:
            import threading
            threading.Thread(target=self._watch, daemon=True).start()

    def _watch(self):
        """pids of the processes this child starts (cf worker pool): their trace lines belong to this submitter"""
        while self.proc.poll() is None:
            for pid in [self.pid] + list(self.kids):
                try:
                    for t in os.listdir("/proc/%d/task" % pid):
                        with open("/proc/%d/task/%s/children" % (pid, t)) as f:
                            self.kids.update(int(x) for x in f.read().split())
                except (OSError, ValueError):
                    pass
            time.sleep(0.03)

    def poll(self):
        return self.proc.poll()

    def finish(self, timeout):
        """Wait for the exit; returns the return code, or None (and kills) on a hang."""
        try:
            rc = self.proc.wait(timeout=timeout)
        except subprocess.TimeoutExpired:
            self.kill_tree()
            self.proc.wait()
            rc = None
        self._out.close()
        try:
            with open(self.out_path, "rb") as f:
                self.output = f.read().decode("utf-8", "replace")
        except OSError:
            self.output = ""
        return rc

    def kill_tree(self):
        import signal
        try:
            os.killpg(self.pid, signal.SIGKILL)
        except (OSError, ProcessLookupError):
            pass

    def report(self, thread=None):
        try:
            with open(self.report_path) as f:
                d = json.load(f)
            return d["submissions"] if thread is None else d["threads"][thread]["submissions"]
        except (OSError, ValueError, KeyError, IndexError):
            return []

    def tids(self):
        try:
            with open(self.tids_path) as f:
                return json.load(f)
        except (OSError, ValueError):
            return {}


class Actor:
    """One submitter as the gate and the model see it: a child process, or one thread (T<k>) of a child."""

    def __init__(self, child, idx, thread=None):
        self.child, self.idx, self.thread = child, idx, thread
        self.pid = child.pid

    def poll(self):
        return self.child.poll()

    def tid(self):
        return None if self.thread is None else self.child.tids().get("T%d" % self.thread)

    def owns(self, pid, tid):
        if pid != self.child.pid:
            return False
        return self.thread is None or tid == self.tid()

    def gate_file(self, gate_dir, n):
        if self.thread is None:
            return os.path.join(gate_dir, "c%d.%d" % (self.child.idx, n))
        return os.path.join(gate_dir, "c%d.T%d.%d" % (self.child.idx, self.thread, n))


def read_trace(path):
    """[(pid, tid, label, key)] in the order the lines reached the file."""
    out = []
    try:
        with open(path) as f:
            for ln in f:
                parts = ln.split()
                if len(parts) == 3 and ln.endswith("\n"):
                    pt = parts[0].split(".")
                    out.append((int(pt[0]), int(pt[1]), parts[1], parts[2]))
    except OSError:
        pass
    return out


def gate_rule(gate_dir, idx, timeout=120, threaded=False):
    """Plan rule: park at every checkpoint until <gate_dir>/c<idx>.<n> (threads: c<idx>.<thread name>.<n>) exists;
    n counts the checkpoints of the thread that hits it."""
    name = "c%d.{thread}.{n}" % idx if threaded else "c%d.{n}" % idx
    return {"label": "*", "nth": None, "action": "wait", "file": os.path.join(gate_dir, name), "timeout": timeout}


class Gate:
    """Lets one parked child at a time pass its checkpoint; `choose(parked_indices, lines)` picks it."""

    def __init__(self, gate_dir, trace, children):
        self.gate_dir = gate_dir
        self.trace = trace
        self.children = [c if isinstance(c, Actor) else Actor(c, c.idx) for c in children]
        self.released = {c.idx: 0 for c in self.children}
        os.makedirs(gate_dir, exist_ok=True)

    def lines(self):
        cnt = {c.idx: 0 for c in self.children}
        for pid, tid, _label, _key in read_trace(self.trace):
            for c in self.children:
                if c.owns(pid, tid):
                    cnt[c.idx] += 1
                    break
        return cnt

    def drive(self, choose, deadline):
        """Run until every child has exited. Returns False on timeout (children killed by caller)."""
        # start only when every child is parked at its first checkpoint (interpreter start-up differs a lot)
        while time.time() < deadline:
            cnt = self.lines()
            if all(cnt[c.idx] > 0 or c.poll() is not None for c in self.children):
                break
            time.sleep(0.02)
        while time.time() < deadline:
            alive = [c for c in self.children if c.poll() is None]
            if not alive:
                return True
            cnt = self.lines()
            parked = [c.idx for c in alive if cnt[c.idx] > self.released[c.idx]]
            try:
                choose.alive = {c.idx for c in alive}
            except AttributeError:
                pass
            pick = choose(parked, cnt) if parked else None
            if parked and pick is None:
                # the scripted child is not parked yet (still running, or blocked on the lock): wait for it
                time.sleep(0.02)
                continue
            if parked:
                i, settle = pick if isinstance(pick, tuple) else (pick, 0)
                n = self.released[i] + 1
                ch = [c for c in self.children if c.idx == i][0]
                open(ch.gate_file(self.gate_dir, n), "w").close()
                self.released[i] = n
                # give the released child a moment to reach its next checkpoint (or to block on the lock);
                # `settle` seconds when the schedule needs it to get as far as it can before anybody else moves
                t_end = time.time() + max(0.25, settle)
                ch = [c for c in self.children if c.idx == i][0]
                while time.time() < t_end and ch.poll() is None and self.lines()[i] <= n:
                    time.sleep(0.004)
            else:
                time.sleep(0.01)
        return False


# ------------------------------------------------------------------ trace -> model events (Model/CacheProto.v)
ACTION = {
    "job.lock_acquired": "AAcquire", "job.cache_checked": "AChecked", "job.cache_hit": "AHit",
    "job.info_written": "AInfoWritten", "job.dir_cleared": "ADirCleared", "job.dir_created": "ADirCreated",
    "save.lock_acquired": "ASaveAcq", "save.result.before": "AResBefore", "save.result.opened": "AResOpened",
    "save.result.dumped": "AResDumped", "save.result.after": "AResAfter", "save.job.before": "AJobBefore",
    "save.job.opened": "AJobOpened", "save.job.dumped": "AJobDumped", "save.job.after": "AJobAfter",
    "save.lock_released": "ASaveRel", "job.job_saved": "AJobSaved", "job.populated": "APopulated",
    "job.cwd_changed": "ACwdChanged", "job.pre_hook_done": "APreHook", "job.audit_started": "AAuditStarted",
    "job.body_enter": "ABodyEnter", "job.body_left": "ABodyLeft", "job.outputs_collected": "AOutputs",
    "error.before": "AErrBefore", "error.opened": "AErrOpened", "error.dumped": "AErrDumped",
    "error.after": "AErrAfter", "job.error_recorded": "AErrRecorded", "job.post_hook_done": "APostHook",
    "job.audit_finalised": "AAuditFinal", "job.result_saved": "AResultSaved", "job.info_removed": "AInfoRemoved",
    "job.cwd_restored": "ACwdRestored", "job.lock_released": "ALockReleased", "job.post_run_done": "APostRun",
    "drv.returned": "AReturned", "drv.raised": "ARaisedOut",
}
OPEN_LABELS = {"save.result.opened": "_result.pklz", "save.result.dumped": "_result.pklz",
               "save.job.opened": "_job.pklz", "save.job.dumped": "_job.pklz",
               "error.opened": "_error.pklz", "error.dumped": "_error.pklz"}
ALL_LABELS = ["job.pre_run_done"] + [k for k in ACTION if not k.startswith("drv.")]


def file_status(path):
    """0 absent, 1 partial (does not unpickle), 2 whole."""
    import pickle
    import cloudpickle as cp
    if not os.path.exists(path):
        return 0
    try:
        with open(path, "rb") as f:
            cp.load(f)
        return 2
    except (pickle.UnpicklingError, EOFError, AttributeError, ImportError, IndexError, ValueError, TypeError, KeyError):
        return 1


def observe_cache(cache_root, key):
    """What the model's observe_g looks at, read from the real cache root (except the body counter)."""
    d = os.path.join(cache_root, key)
    return {
        "lock": os.path.exists(os.path.join(cache_root, key + ".lock")),
        "slock": os.path.exists(os.path.join(cache_root, key + "_save.lock")),
        "dir": os.path.isdir(d),
        "job": file_status(os.path.join(d, "_job.pklz")),
        "res": file_status(os.path.join(d, "_result.pklz")),
        "err": file_status(os.path.join(d, "_error.pklz")),
        "infos": len([f for f in os.listdir(cache_root) if f.endswith("_info.json")]),
        "listing": sorted(os.listdir(cache_root)) + (["%s/%s" % (key[:10], f) for f in sorted(os.listdir(d))] if os.path.isdir(d) else []),
    }


TERMINAL = ("job.post_run_done", "job.cache_hit", "drv.returned", "drv.raised")


def events_for(trace, children, key, plain=False, top=None):
    """Translate the recorded lines that concern checksum `key` into model events.

    children: {os pid: dict(idx=model pid, subs=[submission cfgs], inject=(label, nth) | None,
                            crashed=bool, crash_file_status=int|None)}
    Environment events are inserted from what the harness itself arranged (failing body, raising hook,
    injected exception, kill) -- never guessed from the trace.
    plain=True: `key` is a node job of a submitted workflow: none of the arranged events concerns it except a kill;
    its runs have no caller line (drv.*), so the caller's read is added when the same submitter runs it again.
    For workflows (sub cfg `_infer_body_raise`) "the body raised" is read off the trace: the body of a workflow
    fails exactly when one of its node jobs was made to fail / was killed.
    """
    ev = []
    sub_no = {}
    hits = {}
    last_label = {}
    pending_body = {}
    all_plain = plain
    for pid, _tid, label, k in trace:
        ch = children.get(pid)
        if ch is None or (k not in ("-", key)):
            continue
        i = ch["idx"]
        # top: {model pid: checksum that submitter submitted itself}; a submitter that reaches `key` only as a node
        # of its workflow is treated like in plain mode
        plain = all_plain or (top is not None and top.get(i) != key)
        if plain and k == "-":
            continue
        if label == "job.pre_run_done":
            sub_no[i] = sub_no.get(i, -1) + 1
            if plain and last_label.get(i) is not None:
                ev.append((i, "AReturned"))
        sc = ch["subs"][min(sub_no.get(i, 0), len(ch["subs"]) - 1)]
        if plain:
            sc = {"_infer_body_raise": True}
        if pending_body.pop(i, False):
            if sc.get("chdir"):
                ev.append((i, "AChdir"))          # the body ran and moved the process
            if label == "error.before" and (sc.get("_body_raises") or sc.get("_infer_body_raise")):
                ev.append((i, "ABodyRaise"))
        if label == "job.pre_run_done":
            ev.append((i, "(APreRun %s %s)" % ("true" if sc.get("rerun") else "false", "true" if sc.get("_async") else "false")))
        else:
            ev.append((i, ACTION[label]))
        if plain and label == "job.cache_hit" and not ch.get("crashed"):
            ev.append((i, "ARelease"))        # a node job that hits returns from inside the with block: no later line
        last_label[i] = label
        hits[(i, label)] = hits.get((i, label), 0) + 1
        if label == "job.body_enter":
            pending_body[i] = True
        inj = None if plain else ch.get("inject")
        if inj and inj[0] == label and inj[1] == hits[(i, label)]:
            ev.append((i, "AExc"))
            pending_body.pop(i, None)
        if label == "job.post_hook_done" and sc.get("hook_chdir"):
            ev.append((i, "AChdir"))
        hr = sc.get("hook_raises")
        if hr == "pre_run_task" and label == ("job.populated" if sc.get("_async") else "job.cwd_changed"):
            ev.append((i, "APreHookRaise"))
        if hr == "post_run_task" and label in ("job.outputs_collected", "job.error_recorded"):
            ev.append((i, "APostHookRaise"))
    # a killed process dies right after its last recorded label (later lines of other processes come after)
    inserts = []
    done_idx = set()
    for pid, ch in children.items():
        i = ch["idx"]
        if i in done_idx:
            continue
        done_idx.add(i)
        # the submitter itself was killed, or (cf worker) the pool process running this job was
        killed_here = ch.get("killed_worker") and last_label.get(i) is not None and last_label.get(i) not in TERMINAL \
            and last_label.get(i) == ch.get("kill_label")
        if ch.get("crashed") or killed_here:
            pos = max([k for k, (j, _) in enumerate(ev) if j == i], default=-1) + 1
            extra = []
            st = (ch.get("crash_status") or {}).get(key, ch.get("crash_file_status"))
            if last_label.get(i) in OPEN_LABELS and st is not None:
                extra.append((i, "(AProgress %d)" % {0: 0, 1: 2, 2: 4}[st]))
            extra.append((i, "ACrash"))
            inserts.append((pos, extra))
    for pos, extra in sorted(inserts, key=lambda t: -t[0]):
        ev[pos:pos] = extra
    return ev


def coq_events(ev):
    return "[" + "; ".join("(%d, %s)" % (i, a) for i, a in ev) + "]"


# ------------------------------------------------------------------ scenarios (shared by c10 / c12 / c35)
def resolve_keys(trace):
    """job.pre_run_done is recorded before the checksum is known ('-'): give it the key of the next job.* line
    of the same thread. drv.* lines keep '-' (they belong to the outermost submission)."""
    out = list(trace)
    for i, (pid, tid, label, k) in enumerate(out):
        if label == "job.pre_run_done" and k == "-":
            for pid2, tid2, label2, k2 in out[i + 1:]:
                if pid2 == pid and tid2 == tid and label2.startswith("job.") and k2 != "-":
                    out[i] = (pid, tid, label, k2)
                    break
    return out


def outcome_literal(o):
    if o is None:
        return "None"
    if o["outcome"] == "returned":
        return "(Some (Returned (mkRes %s %s)))" % ("true" if o["errored"] else "false",
                                                    "None" if o["out"] is None else "(Some %d)" % o["out"])
    if "has no result" in o.get("msg", "") or "has a lockfile" in o.get("msg", ""):
        return "(Some NoResult)"
    return "(Some Raised)"


def run_scenario(sc, workroot=None):
    """Run one scenario (see harness/c10.py for the format) on the code in $VERIF_REPO. Returns a dict with the
    translated events, the observations and the Gallina literal of the trace_case."""
    import random
    import shutil
    import tempfile
    t0 = time.time()
    wd = tempfile.mkdtemp(prefix="verif-cp-", dir=workroot)
    all_children = []
    try:
        cache = os.path.join(wd, "cache")
        os.makedirs(cache)
        trace = os.path.join(wd, "trace")
        side = os.path.join(wd, "side")
        open(side, "w").close()
        base = dict(sc.get("task", {"task": "python"}))
        base["side"] = side
        if base.get("flaky"):
            base["flaky"] = os.path.join(wd, "flaky")
            open(base["flaky"], "w").close()
        elsewhere = os.path.join(wd, "elsewhere")
        os.makedirs(elsewhere)
        if base.get("chdir"):
            base["chdir"] = elsewhere
        if base.get("task") == "shell":
            base["script"] = os.path.join(wd, "body.sh")
            write_shell_body(base["script"], base)
        timeout = sc.get("timeout", 90)
        if sc.get("pre"):
            c = Child(99, wd, cache, [dict(base)], [], os.path.join(wd, "trace_pre"))
            all_children.append(c)
            if c.finish(timeout) != 0:
                raise RuntimeError("preparatory run failed: " + (c.output or "")[-400:])
        children = {}
        infos = []
        idx = 0
        hang = False
        runs_stage = []
        runs_stage_by_x = []
        thread_pid = {}
        thread_actors = []
        for st_no, stage in enumerate(sc["stages"]):
            chs = []
            gate_dir = os.path.join(wd, "gate%d" % st_no)
            actors = []
            for cd in stage["children"]:
                subs = []
                for sd in cd.get("subs", [{}]):
                    s = dict(base)
                    s.update(sd)
                    s["hook_log"] = os.path.join(wd, "hooks%d" % idx)
                    s["_body_raises"] = bool(s.get("_body_raises", s.get("fail")))
                    s["_async"] = s.get("worker") == "cf" and s.get("task") == "workflow"
                    s["_infer_body_raise"] = s.get("task") == "workflow"
                    if s.get("hook_chdir"):
                        s["hook_chdir"] = elsewhere
                    subs.append(s)
                rules = list(cd.get("rules", []))
                nthr = int(cd.get("threads", 0))
                if stage.get("gate"):
                    rules.append(gate_rule(gate_dir, idx, timeout=timeout, threaded=bool(nthr)))
                if nthr:
                    # the submitters are `nthr` threads of ONE interpreter: one model process per thread
                    tsubs = []
                    for k in range(nthr):
                        tsubs.append([dict(x, hook_log=os.path.join(wd, "hooks%d" % (idx + k))) for x in subs])
                    child = Child(idx, wd, cache, [], rules, trace, thread_subs=tsubs)
                    all_children.append(child)
                    for k in range(nthr):
                        actors.append(Actor(child, idx + k, k))
                        thread_actors.append(actors[-1])
                    chs.append((child, tsubs, cd))
                    idx += nthr
                    continue
                chs.append((Child(idx, wd, cache, subs, rules, trace,
                                  track=any(x.get("worker") == "cf" for x in subs)), subs, cd))
                all_children.append(chs[-1][0])
                actors.append(Actor(chs[-1][0], idx))
                idx += 1
            deadline = time.time() + timeout
            if stage.get("gate"):
                rng = random.Random(stage["gate"].get("seed", 0))
                pol = stage["gate"].get("policy", "random")
                state = {"cur": None, "left": 0}

                script = [list(x) for x in stage["gate"].get("script", [])]
                base_idx = actors[0].idx

                def choose(parked, cnt, rng=rng, pol=pol, state=state):
                    # scripted prefix: [child position in the stage, number of checkpoints to pass, settle seconds]
                    while script and script[0][1] <= 0:
                        script.pop(0)
                    if script:
                        want = base_idx + script[0][0]
                        if want not in getattr(choose, "alive", {want}):
                            script.pop(0)                  # that child has finished
                            return choose(parked, cnt)
                        if want not in parked:
                            patience = script[0][3] if len(script[0]) > 3 else 30.0
                            if state.get("waited", 0) * 0.02 >= patience:
                                state["waited"] = 0
                                script.pop(0)              # blocked (on a lock): go on with the rest
                                return choose(parked, cnt)
                            if state.get("waited", 0) < 1500:      # ~30 s, then give the script up
                                state["waited"] = state.get("waited", 0) + 1
                                return None
                            del script[:]
                        else:
                            state["waited"] = 0
                            script[0][1] -= 1
                            last = script[0][1] <= 0
                            return (want, script[0][2] if (last and len(script[0]) > 2) else 0)
                    if pol == "roundrobin":
                        state["cur"] = min(parked, key=lambda i: (cnt[i], i))
                        return state["cur"]
                    if pol == "bursts":
                        if state["cur"] in parked and state["left"] > 0:
                            state["left"] -= 1
                            return state["cur"]
                        state["cur"] = rng.choice(parked)
                        state["left"] = rng.randrange(1, 12)
                        return state["cur"]
                    return rng.choice(parked)

                Gate(gate_dir, trace, actors).drive(choose, deadline)
            for c, subs, cd in chs:
                rc = c.finish(max(1.0, deadline - time.time()))
                if rc is None:
                    hang = True
                if c.n_threads:
                    for k in range(c.n_threads):
                        tid = c.tids().get("T%d" % k)
                        synth = -(c.idx + k + 1)          # trace lines of this thread are re-labelled with this pid
                        thread_pid[(c.pid, tid)] = synth
                        hl = subs[k][0]["hook_log"]
                        children[synth] = dict(idx=c.idx + k, subs=subs[k], inject=None, crashed=False, rc=rc,
                                               killed_worker=False, kill_label=None, pids=[synth])
                        infos.append(dict(idx=c.idx + k, rc=rc, report=c.report(thread=k),
                                          hooks=open(hl).read().split() if os.path.exists(hl) else [], pid=c.pid,
                                          tail=(c.output or "")[-400:] if rc != 0 else ""))
                    continue
                rep = c.report()
                hl = subs[0]["hook_log"]
                hooks = open(hl).read().split() if os.path.exists(hl) else []
                kill = [r for r in cd.get("rules", []) if r.get("action") in ("exit", "truncate")]
                children[c.pid] = dict(idx=c.idx, subs=subs, inject=tuple(cd["inject"]) if cd.get("inject") else None,
                                       # rc None: the harness's own watchdog killed the whole tree (SIGKILL) - a kill like any other
                                       crashed=(rc == 137 or rc is None), rc=rc,
                                       killed_worker=bool(kill) and rc not in (137, None),
                                       kill_label=kill[0]["label"] if kill else None, pids=[c.pid] + sorted(c.kids))
                for kp in c.kids:
                    children[kp] = children[c.pid]
                infos.append(dict(idx=c.idx, rc=rc, report=rep, hooks=hooks, pid=c.pid,
                                  tail=(c.output or "")[-400:] if rc not in (0, 137) else ""))
            lines_now = open(side).read().splitlines()
            runs_stage.append(len(lines_now))
            bx = {}
            for ln in lines_now:
                bx[ln.split()[-1]] = bx.get(ln.split()[-1], 0) + 1
            runs_stage_by_x.append(bx)
            # what a killed process left in the file it had open, looked at before anybody repairs it
            tr_now = resolve_keys(read_trace(trace))
            for c, subs, cd in chs:
                ch = children.get(c.pid)
                if ch is None:
                    continue
                if ch["crashed"] or ch["killed_worker"]:
                    for kk in {k for p, _, l, k in tr_now if p in ch["pids"] and k != "-"}:
                        mine = [l for p, _, l, k in tr_now if p in ch["pids"] and k == kk]
                        if mine and mine[-1] in OPEN_LABELS:
                            ch.setdefault("crash_status", {})[kk] = file_status(os.path.join(cache, kk, OPEN_LABELS[mine[-1]]))
        tr = resolve_keys(read_trace(trace))
        tr = [(thread_pid.get((pid, tid), pid), tid, l, k) for pid, tid, l, k in tr]
        main_keys = [k for pid, _, l, k in tr if l == "job.lock_acquired" and pid in children]
        keys = []
        for k in main_keys:
            if k not in keys:
                keys.append(k)
        # the submitted task's own checksum: the first job that acquired a lock in any child
        key = keys[0] if keys else "-"
        if key == "-":
            # nobody took the lock (every submitter was served without it): any keyed label, else the directory
            key = next((k for pid, _, l, k in tr if k != "-" and pid in children), "-")
        if key == "-":
            dirs = [d for d in sorted(os.listdir(cache)) if os.path.isdir(os.path.join(cache, d))]
            key = dirs[0] if dirs else "-"
        g = observe_cache(cache, key) if key != "-" else None
        top = {}
        for pid, _, l, k in tr:
            if l == "job.lock_acquired" and pid in children and children[pid]["idx"] not in top:
                top[children[pid]["idx"]] = k
        if sc.get("focus_prefix"):
            # the checksum under test is reached by different routes (directly / as a node of a workflow)
            key = next((k for pid, _, l, k in tr if l == "job.lock_acquired" and pid in children
                        and k.startswith(sc["focus_prefix"])), key)
            g = observe_cache(cache, key) if key != "-" else None
        ev = events_for(tr, children, key, top=top if sc.get("focus_prefix") else None)
        node_keys = []
        for pid, _, l, k in tr:
            if pid in children and k not in ("-", key) and k not in node_keys:
                node_keys.append(k)
        node_events = {k: events_for(tr, children, k, plain=True) for k in node_keys}
        if sc.get("focus_prefix"):
            infos = [dict(c, direct=(top.get(c["idx"]) == key)) for c in infos]
        # info files left behind by node jobs (each job writes <uid>_info.json of its own)
        node_infos_left = 0
        for k in node_keys:
            per = {}
            for pid, _, l, kk in tr:
                if kk == k and pid in children:
                    i = children[pid]["idx"]
                    per[i] = per.get(i, 0) + (l == "job.info_written") - (l == "job.info_removed")
            node_infos_left += sum(v for v in per.values() if v > 0)
        runs_all = open(side).read().splitlines()
        by_x = {}
        for ln in runs_all:
            parts = ln.split()
            by_x[parts[-1]] = by_x.get(parts[-1], 0) + 1
        labels = {}
        for pid, _, l, k in tr:
            if pid in children and k in ("-", key):
                labels.setdefault(children[pid]["idx"], []).append(l)
        res = dict(name=sc.get("name", ""), key=key, keys=keys, events=ev, cache=g, children=infos, hang=hang,
                   runs=len(runs_all), labels=labels, wall=round(time.time() - t0, 2),
                   n_trace=len(tr), runs_stage=runs_stage, node_events=node_events, runs_by_x=by_x,
                   runs_stage_by_x=runs_stage_by_x, node_infos_left=node_infos_left)
        if sc.get("collect_files") and key != "-":
            res["files"] = {}
            for fn in ("_result.pklz", "_job.pklz", "_error.pklz"):
                fp = os.path.join(cache, key, fn)
                if os.path.exists(fp):
                    with open(fp, "rb") as f:
                        res["files"][fn] = f.read()
        return res
    finally:
        for c in all_children:
            c.kill_tree()
        shutil.rmtree(wd, ignore_errors=True)


def case_literal(sc, res, bv):
    """Gallina literal of type Model.CacheProto.trace_case for a finished scenario."""
    g = res["cache"] or dict(lock=False, slock=False, dir=False, job=0, res=0, err=0, infos=0)
    runs = res["runs"]        # the preparatory run, if any, left one line as well (= the model's initial runs := 1)
    if sc.get("focus_prefix"):
        runs = res["runs_by_x"].get(str(sc["task"].get("x", 3)), 0)
    elif sc.get("task", {}).get("task") == "workflow":
        # the body of a workflow is the expansion of its graph: it leaves no line of its own
        runs = sum(1 for _, a in res["events"] if a in ("ABodyLeft", "ABodyRaise")) + (1 if sc.get("pre") else 0)
    gl = "(%s, %s, %s, %d, %d, %d, %d, %d)" % (
        "true" if g["lock"] else "false", "true" if g["slock"] else "false", "true" if g["dir"] else "false",
        g["job"], g["res"], g["err"], runs, max(0, g["infos"] - res.get("node_infos_left", 0)))
    pl = []
    for ch in res["children"]:
        if ch.get("direct") is False:
            continue          # reached the checksum as a node of its workflow: its caller got the workflow's outputs
        rep = ch["report"]
        last = rep[-1] if (rep and ch["rc"] == 0) else None
        pl.append("(%d, %s, %s, %d, %d)" % (
            ch["idx"], outcome_literal(last), "true" if (last is None or last["cwd"] == "home") else "false",
            ch["hooks"].count("pre_run_task"), ch["hooks"].count("post_run_task")))
    return "(%s, %d, %s, %s, [%s])" % ("true" if sc.get("pre") else "false", bv, coq_events(res["events"]), gl,
                                       "; ".join(pl))
