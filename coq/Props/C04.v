(* C04 — Splitting nested containers visits every inner element.
   Model/Nested.v follows pydra/engine/state.py after the repair of finding F04 (input_shape falls back
   to the flattened element count when the nesting is not rectangular). *)
From Pydra Require Import Base.Prelude Model.Nested Spec.Nested Proofs.Nested.
Local Open Scope nat_scope.

(* the property at full strength: a one-field splitter over any list value — any depth, any inner
   lengths, regular or ragged — and any container dimension >= 1 runs exactly the elements at that depth *)
Definition C04_full_statement : Prop :=
  forall (n : nat) (l : list value), 1 <= n -> single_ok n (Node l) (split1 (Some n) l).

Theorem C04_full : C04_full_statement.
Proof. exact single_full. Qed.
Print Assumptions C04_full.

(* same, including the default (no container_ndim entry = container dimension 1) *)
Theorem C04_full_default :
  forall (cd : option nat) (l : list value),
    1 <= ndim_shape cd -> split1 cd l = Jobs (elements_at_depth (ndim_shape cd) (Node l)).
Proof. exact split1_full. Qed.
Print Assumptions C04_full_default.

(* the sentence that failed on ragged input before the repair: the index range covers flatten's elements *)
Theorem C04_count :
  forall (n : nat) (l : list value), 1 <= n -> prod (input_shape l n) = List.length (flatten n l).
Proof. exact prod_input_shape. Qed.
Print Assumptions C04_count.

(* on rectangular values the shape is the dimension vector (what inner splitters compare) *)
Theorem C04_shape_rect :
  forall (n : nat) (l : list value),
    1 <= n -> rectangular n (Node l) -> input_shape l n = dims n (Node l).
Proof. exact input_shape_rect. Qed.
Print Assumptions C04_shape_rect.

(* as an operand of an outer splitter [x, y] (either operand nested, each with its own dimension) *)
Theorem C04_outer :
  forall (cdx : option nat) (x : list value) (cdy : option nat) (y : list value),
    1 <= ndim_shape cdx -> 1 <= ndim_shape cdy ->
    outer_ok (ndim_shape cdx) (Node x) (ndim_shape cdy) (Node y) (split2 Outer cdx x cdy y).
Proof. exact split2_outer. Qed.
Print Assumptions C04_outer.

(* as an operand of an inner splitter (x, y): all elements paired by position, or rejected for unequal
   shapes — never an IndexError, never a partial pairing, and never rejected when both are rectangular
   with equal dimensions *)
Theorem C04_inner :
  forall (cdx : option nat) (x : list value) (cdy : option nat) (y : list value),
    1 <= ndim_shape cdx -> 1 <= ndim_shape cdy ->
    inner_ok (ndim_shape cdx) (Node x) (ndim_shape cdy) (Node y) (split2 Inner cdx x cdy y).
Proof. exact split2_inner. Qed.
Print Assumptions C04_inner.

Theorem C04_inner_rect :
  forall (cdx : option nat) (x : list value) (cdy : option nat) (y : list value),
    1 <= ndim_shape cdx -> 1 <= ndim_shape cdy ->
    rectangular (ndim_shape cdx) (Node x) -> rectangular (ndim_shape cdy) (Node y) ->
    dims (ndim_shape cdx) (Node x) = dims (ndim_shape cdy) (Node y) ->
    split2 Inner cdx x cdy y =
    Jobs (combine (elements_at_depth (ndim_shape cdx) (Node x)) (elements_at_depth (ndim_shape cdy) (Node y))).
Proof. exact split2_inner_rect. Qed.
Print Assumptions C04_inner_rect.

(* the boolean checks the driver evaluates on every observed case decide the Prop specs above *)
Theorem C04_exec_spec_sound :
  (forall n v o, single_okb n v o = true <-> single_ok n v o) /\
  (forall nx x ny y o, outer_okb nx x ny y o = true <-> outer_ok nx x ny y o) /\
  (forall nx x ny y o, inner_okb nx x ny y o = true <-> inner_ok nx x ny y o).
Proof. exact (conj single_okb_spec (conj outer_okb_spec inner_okb_spec)). Qed.
Print Assumptions C04_exec_spec_sound.

(* sanity of the recursive definition of "rectangular": every level above n is uniform *)
Theorem C04_rect_levels :
  forall (n : nat) (v : value) (k : nat),
    rectangular n v -> k < n -> level_uniform (elements_at_depth k v).
Proof. exact rect_level_uniform. Qed.
Print Assumptions C04_rect_levels.

(* ---- any number of fields: flat n-ary outer splitter [f0, ..., fk] and inner splitter (f0, ..., fk),
   every field with its own container dimension >= 1 (None = plain list, dimension 1), any number of
   them nested, in any position.  Each field contributes its elements at its depth. *)
Theorem C04_outer_n :
  forall (f0 : field) (fs : list field),
    Forall field_ok (f0 :: fs) ->
    outer_n_ok (map op_of (f0 :: fs)) (splitN Outer f0 fs).
Proof. exact splitN_outer. Qed.
Print Assumptions C04_outer_n.

Theorem C04_inner_n :
  forall (f0 : field) (fs : list field),
    Forall field_ok (f0 :: fs) ->
    inner_n_ok (map op_of (f0 :: fs)) (splitN Inner f0 fs).
Proof. exact splitN_inner. Qed.
Print Assumptions C04_inner_n.

(* the boolean checks the driver evaluates on the n-ary cases decide the Prop specs of C04_outer_n / C04_inner_n *)
Theorem C04_exec_spec_sound_n :
  (forall ops o, outer_n_okb ops o = true <-> outer_n_ok ops o) /\
  (forall ops o, inner_n_okb ops o = true <-> inner_n_ok ops o).
Proof. exact (conj outer_n_okb_spec inner_n_okb_spec). Qed.
Print Assumptions C04_exec_spec_sound_n.

(* ---- tuples as containers inside the split value (Model: tvalue/tflatten/tshape_rec/tsplit1): flatten opens
   lists and tuples, input_shape only lists; a one-field splitter over a list whose inner containers are any mix
   of lists and tuples still runs exactly the elements at depth n (both kinds opened), depth first *)
Theorem C04_full_tuples :
  forall (n : nat) (l : list tvalue), 1 <= n -> tsplit1 n l = Jobs (telements n (TList l)).
Proof. exact tsplit1_full. Qed.
Print Assumptions C04_full_tuples.
