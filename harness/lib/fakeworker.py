"""Controlled fake asynchronous pydra Worker + case runner (Group D: C14-C17).

Runs INSIDE a fresh interpreter (`/venv/bin/python`, PYTHONPATH=$VERIF_REPO:/verif):

    python -m harness.lib.fakeworker <cases.json> <out.json>

The fake worker's `run` coroutine parks every launched job on an `asyncio.Event`; the
harness owns the events and, once per loop iteration of `Submitter.expand_workflow_async`
(hooked at `fetch_finished`, i.e. exactly one oracle step between two consecutive calls of
`Submitter.get_runnable_tasks`), applies one *oracle step*:

    step = {"c": [c0, c1, ...], "vis": [b0, b1, ...]}
      pending = launched-and-unfinished jobs in launch order
      for c in cs (at least one):  complete pending[c mod len(pending)]   (runs the real Job.run in process)
      vis: the i-th still-pending job has its lock marker present iff vis[i] is true

so the completion order, the failures (a fixed set of failing jobs consulted by the task
body) and which jobs the submitter sees as running are dictated, never timed.
The same oracle is what Model.Sched.run_async consumes.

Constraints found by the design spike: this class must be a plain (non-attrs) class in an
importable module with its own __getstate__; all control state is module level.
"""
import asyncio
import json
import os
import shutil
import sys
import tempfile
import time
import traceback
import typing as ty

import cloudpickle as cp

from pydra.compose import python, workflow
from pydra.engine import submitter as _sub
from pydra.engine.submitter import Submitter
from pydra.workers import base as _wbase


# --------------------------------------------------------------------------- control state
class _Ctl:
    def reset(self, oracle=(), fail=()):
        self.oracle = list(oracle)
        self.step = 0
        self.fail = {tuple(f) for f in fail}
        self.pending = []          # job ids launched and not finished, launch order
        self.events = {}           # jid -> asyncio.Event
        self.jobs = {}             # jid -> Job (the submitter's object)
        self.tasks = {}            # jid -> asyncio task running FakeWorker.run
        self.markers = {}          # jid -> lock path currently created by us
        self.launch_log = []       # per loop iteration: list of jids launched
        self.cur_launch = []
        self.polls = []            # per poll: dict(tasks=[jid], nodes={name: {...}})
        self.steps = []            # decisions actually taken: dict(done=[jid], vis=[jid], npending=int)
        self.bodies = []           # (jid) in order of body entry
        self.order = []            # node names in graph.sorted_nodes order
        self.preds = {}
        self.launched_all = []
        self.maxlive = 0
        self.evlog = []            # ('L', jid) / ('F', jid, ok) in real order
        self.mode = 'async'


CTL = _Ctl()
CTL.reset()


def _jid(job):
    return (job.name, -1 if job.state_index is None else int(job.state_index))


# --------------------------------------------------------------------------- the task body
def _record_side(kind, nid, x):
    path = os.environ.get("VERIF_SIDE_FILE")
    if path:
        with open(path, "a") as f:
            f.write("%s %d %d %d %.6f\n" % (kind, nid, x, os.getpid(), time.time()))


FAIL_MESSAGES = [
    "verif-fail n%d %d",
    "verif-fail n%d %d: missing key {x} in {cfg!r}",
    "verif-fail n%d %d: unbalanced { brace",
    "verif-fail n%d %d: closing } only, 100%% done, %%s %%d {0} {}",
    "verif-fail n%d %d: line one\n  line {two}\n\ttabbed }}",
    "verif-fail n%d %d: non-ASCII \u00e9\u00df\u2713 \u4e2d\u6587 {\u00fc}",
]


@python.define
def Body(nid: int, x: int = -1, a: ty.Any = None, b: ty.Any = None, c: ty.Any = None,
         failset: ty.Any = (), dur: ty.Any = ()) -> ty.Any:
    """Injective tagging body: output determines node, split index and every input value."""
    from harness.lib import fakeworker as fw
    jid = ("n%d" % nid, x)
    sync = fw.CTL.mode in ("sync", "rerun_sync")
    fw.CTL.bodies.append(jid)
    if sync:
        fw.CTL.evlog.append(("L", jid))
    fw._record_side("enter", nid, x)
    for (n, i, d) in dur:
        if n == nid and i == x:
            time.sleep(d)
    fw._record_side("leave", nid, x)
    if (nid, x) in {tuple(t) for t in failset}:
        if sync:
            fw.CTL.evlog.append(("F", jid, False))
        # the error text is something the scheduling loop processes: format-special characters, newlines, non-ASCII
        raise Exception(fw.FAIL_MESSAGES[(3 * nid + x) % len(fw.FAIL_MESSAGES)] % (nid, x))
    if sync:
        fw.CTL.evlog.append(("F", jid, True))
    gen_file = os.environ.get("VERIF_GEN_FILE")
    if gen_file:
        # "rerun over a warm cache" scenarios: the body is not a pure function of its inputs (it reads the
        # generation of the run from a file outside the cache), so a stale upstream value is visible downstream
        return [nid, x, a, b, c, int(open(gen_file).read())]
    return [nid, x, a, b, c]


@python.define
def BodyS(nid: int, p: int, q: int, r: int) -> ty.Any:
    """Body of a node split over three fields (state-propagating shapes of C17)."""
    return [nid, [p, q, r]]


@python.define
def BodyD(nid: int, src: ty.Any) -> ty.Any:
    """Consumer that inherits the state left by a partial combiner and reads its group element-wise."""
    return [nid, _canon(src)]


@python.define
def Half(x: int) -> float:
    """Declared float, returns an int for even x: the stored output is coerced to 3.0."""
    return x // 2 if x % 2 == 0 else x / 2


@python.define
def Pair(x: int) -> list[int]:
    """Declared list[int], returns a tuple: the stored output is coerced to a list."""
    return (x, x + 1)


@python.define
def Describe(v: ty.Any, w: ty.Any) -> str:
    return "%r:%s %r:%s" % (v, type(v).__name__, w, type(w).__name__)


def make_coerce_workflow(nodes):
    """nodes: [dict(id=0, kind='half', xs=[..]|x=int), dict(id=1, kind='pair', ...), dict(id=2, kind='describe', preds=[0, 1])]"""
    names = ["o%d" % n["id"] for n in nodes]

    @workflow.define(outputs={nm: ty.Any for nm in names})
    def VerifCoerceWf(spec: ty.Any):
        outs = {}
        for n in spec:
            n = dict(n)
            if n["kind"] in ("half", "pair"):
                cls = Half if n["kind"] == "half" else Pair
                if n.get("xs") is not None:
                    t = cls().split(x=list(n["xs"])).combine("x")
                else:
                    t = cls(x=n["x"])
            else:
                t = Describe(v=outs[n["preds"][0]], w=outs[n["preds"][1]])
            node = workflow.add(t, name="n%d" % n["id"])
            outs[n["id"]] = node.out
        return tuple(outs[dict(m)["id"]] for m in spec)

    spec = tuple(tuple(sorted((k, tuple(v) if isinstance(v, list) else v) for k, v in n.items()))
                 for n in nodes)
    return VerifCoerceWf(spec=spec)


@python.define
def Third(x: float) -> float:
    return x / 3


@python.define
def SumUp(xs: ty.Any) -> float:
    return sum(xs)


def _hook_log(tag, job):
    path = os.environ.get("VERIF_HOOK_LOG")
    if path:
        with open(path, "a") as f:
            f.write("%s %s %s\n" % (tag, job.name, job.state_index))


def hook_pre_run(job, *a, **k):
    _hook_log("pre_run", job)


def hook_pre_run_task(job, *a, **k):
    _hook_log("pre_run_task", job)


def hook_post_run_task(job, result, *a, **k):
    """Observable effect on the outputs: they are rounded to two digits."""
    _hook_log("post_run_task", job)
    if result.outputs is not None:
        result.outputs.out = round(result.outputs.out, 2)


def hook_post_run(job, result, *a, **k):
    _hook_log("post_run", job)


def make_hook_workflow(nodes):
    """nodes: [dict(id=0, kind='third', xs=[floats]), dict(id=1, kind='sumup', preds=[0])]; every node carries the
    four node-level hooks (workflow.add(..., hooks=...))."""
    from pydra.engine.hooks import TaskHooks
    names = ["o%d" % n["id"] for n in nodes]

    @workflow.define(outputs={nm: ty.Any for nm in names})
    def VerifHookWf(spec: ty.Any):
        outs = {}
        for n in spec:
            n = dict(n)
            if n["kind"] == "third":
                t = Third().split(x=[float(v) for v in n["xs"]]).combine("x")
            else:
                t = SumUp(xs=outs[n["preds"][0]])
            node = workflow.add(t, name="n%d" % n["id"],
                                hooks=TaskHooks(pre_run=hook_pre_run, pre_run_task=hook_pre_run_task,
                                                post_run_task=hook_post_run_task, post_run=hook_post_run))
            outs[n["id"]] = node.out
        return tuple(outs[dict(m)["id"]] for m in spec)

    spec = tuple(tuple(sorted((k, tuple(v) if isinstance(v, list) else v) for k, v in n.items()))
                 for n in nodes)
    return VerifHookWf(spec=spec)


def make_state_workflow(nodes):
    """nodes: [dict(id, kind='s3', dims=[np, nq, nr], combine=[...]), dict(id, kind='down', preds=[up])]."""
    names = ["o%d" % n["id"] for n in nodes]

    @workflow.define(outputs={nm: ty.Any for nm in names})
    def VerifStateWf(spec: ty.Any):
        outs = {}
        for n in spec:
            n = dict(n)
            if n["kind"] == "s3":
                dims = n["dims"]
                t = BodyS(nid=n["id"]).split(["p", "q", "r"], p=list(range(dims[0])), q=list(range(dims[1])),
                                             r=list(range(dims[2])))
                if n["combine"]:
                    t = t.combine(list(n["combine"]))
            else:
                t = BodyD(nid=n["id"], src=outs[n["preds"][0]])
            node = workflow.add(t, name="n%d" % n["id"])
            outs[n["id"]] = node.out
        return tuple(outs[dict(m)["id"]] for m in spec)

    spec = tuple(tuple(sorted((k, tuple(v) if isinstance(v, list) else v) for k, v in n.items()))
                 for n in nodes)
    return VerifStateWf(spec=spec)


def make_workflow(nodes, failset=(), dur=()):
    if any(n.get("kind") in ("third", "sumup") for n in nodes):
        return make_hook_workflow(nodes)
    if any(n.get("kind") in ("half", "pair", "describe") for n in nodes):
        return make_coerce_workflow(nodes)
    if any(n.get("kind") for n in nodes):
        return make_state_workflow(nodes)
    """nodes: list of dict(id=int, preds=[ids] (<=3), split=None|int).  Split nodes are combined, so
    the job count of a node is fixed by the spec (1, or `split`)."""
    names = ["o%d" % n["id"] for n in nodes]

    @workflow.define(outputs={nm: ty.Any for nm in names})
    def VerifWf(spec: ty.Any, failset: ty.Any, dur: ty.Any):
        outs = {}
        for n in spec:
            n = dict(n)
            kw = dict(nid=n["id"], failset=failset, dur=dur)
            for slot, p in zip("abc", n["preds"]):
                kw[slot] = outs[p]
            t = Body(**kw)
            if n["split"] is not None:
                t = t.split(x=list(range(n["split"]))).combine("x")
            node = workflow.add(t, name="n%d" % n["id"])
            outs[n["id"]] = node.out
        return tuple(outs[n["id"]] for n in (dict(m) for m in spec))

    spec = tuple(tuple(sorted((k, tuple(v) if isinstance(v, list) else v) for k, v in n.items()))
                 for n in nodes)
    return VerifWf(spec=spec, failset=tuple(tuple(f) for f in failset),
                   dur=tuple(tuple(d) for d in dur))


# --------------------------------------------------------------------------- the fake worker
class FakeWorker(_wbase.Worker):
    _plugin_name = "verif-fake"

    def __init__(self, **kw):
        self.loop = None

    def __getstate__(self):
        return {"loop": None}

    def __setstate__(self, state):
        self.loop = None

    async def run(self, job, rerun: bool = False):
        jid = _jid(job)
        CTL.evlog.append(("L", jid))
        CTL.cur_launch.append(jid)
        CTL.launched_all.append(jid)
        if jid not in CTL.events:
            CTL.events[jid] = asyncio.Event()
            CTL.jobs[jid] = job
            CTL.pending.append(jid)
            CTL.maxlive = max(CTL.maxlive, len(CTL.pending))
        # a job launched a second time (a defect the spec check reports) shares the first launch's event
        await CTL.events[jid].wait()
        # like the cf worker: the job is cloudpickled and run from the copy
        job2 = cp.loads(cp.dumps(job))
        try:
            res = job2.run(rerun=rerun)
        except BaseException:
            CTL.evlog.append(("F", jid, False))
            raise
        CTL.evlog.append(("F", jid, True))
        return res

    def close(self):
        pass


def _node_state(n):
    def keys(d):
        return sorted(-1 if k is None else int(k) for k in d)
    return dict(
        started=n.blocked is not None,
        blocked=keys(n.blocked) if n.blocked is not None else [],
        queued=keys(n.queued), running=keys(n.running), successful=keys(n.successful),
        errored=keys(n.errored), unrunnable=bool(n.unrunnable),
    )


_orig_get_runnable = Submitter.get_runnable_tasks
_orig_fetch = Submitter.fetch_finished


def _get_runnable(self, graph):
    if not CTL.order:
        CTL.order = [n.name for n in graph.sorted_nodes]
        CTL.preds = {n.name: [p.name for p in graph.predecessors[n.name]] for n in graph.sorted_nodes}
    try:
        tasks = _orig_get_runnable(self, graph)
    except BaseException as e:
        CTL.polls.append(dict(raised=type(e).__name__))
        raise
    CTL.polls.append(dict(tasks=[_jid(t) for t in tasks],
                          nodes={n.name: _node_state(n) for n in graph.sorted_nodes}))
    return tasks


async def _fetch_finished(self, futures):
    if futures and isinstance(self.worker, FakeWorker):
        # let the freshly created asyncio tasks reach their park position (registers them as pending)
        for _ in range(3):
            await asyncio.sleep(0)
    CTL.launch_log.append(CTL.cur_launch)
    CTL.cur_launch = []
    if futures and isinstance(self.worker, FakeWorker):
        step = CTL.oracle[CTL.step] if CTL.step < len(CTL.oracle) else {}
        CTL.step += 1
        cs = list(step.get("c") or [0])
        done = []
        npend = len(CTL.pending)
        byname = {f.get_name(): f for f in futures}
        for c in cs:
            if not CTL.pending:
                break
            jid = CTL.pending.pop(c % len(CTL.pending))
            m = CTL.markers.pop(jid, None)
            if m is not None and os.path.exists(m):
                os.unlink(m)
            CTL.events[jid].set()
            fut = byname[CTL.jobs[jid].checksum]
            spins = 0
            while not fut.done():
                await asyncio.sleep(0)
                spins += 1
                if spins > 100000:
                    raise RuntimeError("verif harness: released job %r never completed" % (jid,))
            done.append(jid)
        vis = list(step.get("vis") or [])
        seen = []
        for i, jid in enumerate(CTL.pending):
            want = i < len(vis) and bool(vis[i])
            lock = str(CTL.jobs[jid].lockfile)
            if want:
                if jid not in CTL.markers:
                    with open(lock, "w") as f:
                        f.write(str(os.getpid()))
                    CTL.markers[jid] = lock
                seen.append(jid)
            elif jid in CTL.markers:
                m = CTL.markers.pop(jid)
                if os.path.exists(m):
                    os.unlink(m)
        CTL.steps.append(dict(done=done, vis=seen, npending=npend))
    return await _orig_fetch(self, futures)


class _FastAsyncio:
    """asyncio proxy for pydra.engine.submitter: the stall loop's sleep(1) becomes sleep(0)."""

    def __getattr__(self, name):
        return getattr(asyncio, name)

    @staticmethod
    async def sleep(t, *a, **k):
        return await asyncio.sleep(0)


def install():
    Submitter.get_runnable_tasks = _get_runnable
    Submitter.fetch_finished = _fetch_finished
    _sub.asyncio = _FastAsyncio()


# --------------------------------------------------------------------------- running one case
def _canon(v):
    if isinstance(v, (list, tuple)):
        return [_canon(x) for x in v]
    if v is None or isinstance(v, (int, str, bool)):
        return v
    try:
        return [_canon(x) for x in list(v)]
    except TypeError:
        return repr(type(v).__name__)


def _gens(v, acc):
    if isinstance(v, (list, tuple)):
        if len(v) == 6 and isinstance(v[0], int) and isinstance(v[5], int):
            acc.add(v[5])
            for u in v[2:5]:
                _gens(u, acc)
        else:
            for u in v:
                _gens(u, acc)
    return acc


def _failed_names(msg):
    import re
    return sorted(set(re.findall(r"Job '(n\d+(?:\(\d+\))?)',", msg)))


def run_case(case):
    """case: dict(nodes, k (None = inf), fail [[nid, x]], oracle [...], mode 'async'|'sync'|'cf',
    n_procs, dur).  Returns the canonical observation."""
    mode = case.get("mode", "async")
    os.chdir("/tmp")
    tmp = tempfile.mkdtemp(prefix="verif-sched-", dir="/tmp")
    obs = {}
    side = None
    try:
        CTL.reset(case.get("oracle") or [], [("n%d" % f[0], f[1]) for f in case.get("fail") or []])
        CTL.mode = mode
        if mode == "cf":
            side = os.path.join(tmp, "side.log")
            os.environ["VERIF_SIDE_FILE"] = side
        else:
            os.environ.pop("VERIF_SIDE_FILE", None)
        if mode.startswith("hook"):
            os.environ["VERIF_HOOK_LOG"] = os.path.join(tmp, "hooks.log")
        else:
            os.environ.pop("VERIF_HOOK_LOG", None)
        wf = make_workflow(case["nodes"], failset=case.get("fail") or [], dur=case.get("dur") or [])
        cache = os.path.join(tmp, "cache")
        rerun = mode.startswith("rerun")
        if rerun:
            # first run (debug worker) fills the cache; the observed run is the forced re-run over it
            gen_file = os.path.join(tmp, "generation")
            if mode == "rerun":
                # pure bodies: same checksums in both runs, every job has a stale result (what the model's
                # warm start assumes); staleness shows in the start/finish order only
                os.environ.pop("VERIF_GEN_FILE", None)
            else:
                os.environ["VERIF_GEN_FILE"] = gen_file
            with open(gen_file, "w") as f:
                f.write("1")
            with Submitter(worker="debug", cache_root=cache) as sub:
                sub(wf, raise_errors=True)
            with open(gen_file, "w") as f:
                f.write("2")
            CTL.reset(case.get("oracle") or [], [])
            CTL.mode = mode
            wf = make_workflow(case["nodes"], failset=case.get("fail") or [], dur=case.get("dur") or [])
        else:
            os.environ.pop("VERIF_GEN_FILE", None)
        kw = {}
        if case.get("k") is not None:
            kw["max_concurrent"] = int(case["k"])
        if mode in ("async", "rerun", "rerun_gen", "state", "coerce", "hook"):
            worker = FakeWorker
        elif mode in ("sync", "rerun_sync", "state_sync", "coerce_sync", "hook_sync"):
            worker = "debug"
        else:
            worker = "cf"
            kw["n_procs"] = int(case.get("n_procs") or 2)
        try:
            with Submitter(worker=worker, cache_root=cache, **kw) as sub:
                res = sub(wf, raise_errors=True, rerun=rerun)
            obs["outcome"] = "ok"
            if mode.startswith("hook"):
                obs["outputs"] = [repr(getattr(res.outputs, "o%d" % n["id"])) for n in case["nodes"]]
                hl = os.environ.get("VERIF_HOOK_LOG")
                obs["hook_calls"] = sorted(open(hl).read().split("\n")[:-1]) if hl and os.path.exists(hl) else []
            elif mode.startswith("coerce"):
                # the exact Python values and types matter here (3 vs 3.0, tuple vs list)
                obs["outputs"] = [repr(getattr(res.outputs, "o%d" % n["id"])) for n in case["nodes"]]
            else:
                obs["outputs"] = _canon([getattr(res.outputs, "o%d" % n["id"]) for n in case["nodes"]])
            if rerun and mode != "rerun":
                obs["generations"] = sorted(_gens(obs["outputs"], set()))
        except Exception as e:  # noqa
            msg = str(e)
            obs["outcome"] = "error"
            obs["exc"] = type(e).__name__
            obs["failed_named"] = _failed_names(msg)
            obs["msg"] = msg[:300]
            obs["tb"] = traceback.format_exc()[-1500:]
        obs["order"] = CTL.order
        obs["preds"] = CTL.preds
        obs["polls"] = CTL.polls
        obs["launches"] = CTL.launch_log + ([CTL.cur_launch] if CTL.cur_launch else [])
        obs["steps"] = CTL.steps
        obs["bodies"] = CTL.bodies
        obs["evlog"] = CTL.evlog
        obs["maxlive"] = CTL.maxlive
        if side and os.path.exists(side):
            ev = []
            for line in open(side):
                kind, nid, x, pid, t = line.split()
                ev.append((float(t), kind, int(nid), int(x)))
            ev.sort()
            live = 0
            peak = 0
            for _, kind, _, _ in ev:
                live += 1 if kind == "enter" else -1
                peak = max(peak, live)
            obs["cf_peak"] = peak
            obs["cf_bodies"] = sorted((n, x) for _, kind, n, x in ev if kind == "enter")
    finally:
        os.chdir("/tmp")   # Job.run may have been interrupted (watchdog) inside its cache directory
        for m in list(CTL.markers.values()):
            if os.path.exists(m):
                os.unlink(m)
        shutil.rmtree(tmp, ignore_errors=True)
    return obs


def main(argv):
    install()
    cases = json.load(open(argv[1]))
    out = []
    import signal

    class Watchdog(BaseException):
        pass

    def _alarm(signum, frame):
        raise Watchdog("verif harness: case watchdog")

    signal.signal(signal.SIGALRM, _alarm)
    for case in cases:
        try:
            signal.alarm(400 if case.get("mode") == "cf" else 150)
            try:
                out.append(run_case(case))
            finally:
                signal.alarm(0)
        except BaseException as e:  # noqa
            out.append(dict(outcome="harness-error", exc=type(e).__name__, msg=str(e)[:500],
                            tb=traceback.format_exc()[-3000:]))
    with open(argv[2], "w") as f:
        json.dump(out, f)


if __name__ == "__main__":
    main(sys.argv)
