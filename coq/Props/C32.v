(* C32 — Task definitions survive dictionary round trips. *)
From Pydra Require Import Base.Prelude Model.DictRT Spec.DictRT Proofs.DictRT.
Local Open Scope string_scope.

(* The property at full strength: for every attribute schema (names, defaults, converters — read from the live
   field classes by the driver), every table of type shapes and every class that define() could have built,
   re-creating the class from its dictionary form succeeds and gives the same definition. *)
Definition C32_full_statement : Prop :=
  forall (sch : fclass -> schema) (type_shape : string -> shape) (fresh_position : list frec -> frec -> aval)
         (c : taskcls),
    schema_okb sch = true -> wf_clsb sch c = true ->
    exists c', structure sch type_shape fresh_position (unstructure sch c) = Some c' /\ same_definition c' c.

(* Refuted (after the two repairs in /repo): an outarg without path_template is rebuilt as a plain output and
   rejected (F32b); a tuple default on an Any-typed field comes back as a list (F32c). *)
Theorem C32_refuted : ~ C32_full_statement.
Proof. exact full_statement_refuted. Qed.
Print Assumptions C32_refuted.

Theorem C32_refuted_collection_default :
  exists c', structure ex_sch ex_shape (fun _ _ => AS SNone) (unstructure ex_sch wit_any_tuple) = Some c' /\
             same_definitionb c' wit_any_tuple = false.
Proof. exact any_tuple_not_restored. Qed.
Print Assumptions C32_refuted_collection_default.

(* The round trip, for every schema and every well-formed class outside the two excluded (computable) classes:
   fields, types, defaults, metadata (help, argstr, position, sep, allowed_values, requires, path_template ...)
   equal attribute by attribute in Python's ==, outputs likewise, xor equal as a set of sets. *)
Theorem C32_roundtrip :
  forall (sch : fclass -> schema) (type_shape : string -> shape) (fresh_position : list frec -> frec -> aval)
         (c : taskcls),
    schema_okb sch = true -> wf_clsb sch c = true -> restorableb sch type_shape c = true ->
    exists c', structure sch type_shape fresh_position (unstructure sch c) = Some c' /\ same_definition c' c.
Proof. exact structure_unstructure. Qed.
Print Assumptions C32_roundtrip.

(* Key lemma, one field: restoring the defaults that were dropped gives the field back. *)
Theorem C32_restore_defaults_drop_defaults :
  forall (sch : fclass -> schema) (type_shape : string -> shape) (r : frec),
    NoDup (map aname (sch (fcls r))) -> complete sch r -> reconvertibleb sch type_shape r = true ->
    exists r', restore sch type_shape (fcls r) (fname r) (unstructure_field sch r) = Some r' /\
               field_equiv r' r /\ fcls r' = fcls r /\ fname r' = fname r.
Proof. exact restore_unstructure_field. Qed.
Print Assumptions C32_restore_defaults_drop_defaults.

(* The executable comparison the driver evaluates on observed classes implies the relation. *)
Theorem C32_spec_exec : forall c c', same_definitionb c c' = true -> same_definition c c'.
Proof. exact same_definitionb_sound. Qed.
Print Assumptions C32_spec_exec.

(* non-vacuity: a shell class with a requirement (with allowed values), an allowed-values set, a tuple default
   under a tuple type, dropped defaults, an outarg with a template and an xor group meets every hypothesis *)
Definition ex_cls : taskcls :=
  let a := {| fcls := CArg; fname := "a";
              fvals := [("type", AS (SObj "str | None")); ("default", AS SNone); ("help", AS (SStr "the a"));
                        ("requires", AReqs [[("b", None); ("t", Some [SInt 1; SInt 2])]; [("b", None)]]);
                        ("allowed_values", ASet []); ("argstr", AS (SStr "-a")); ("position", AS (SInt 2))] |} in
  let b := {| fcls := CArg; fname := "b";
              fvals := [("type", AS (SObj "bool")); ("default", AS (SBool false)); ("help", AS (SStr ""));
                        ("requires", AReqs []); ("allowed_values", ASet []); ("argstr", AS (SStr "-b"));
                        ("position", AS (SInt 1))] |} in
  let t := {| fcls := CArg; fname := "t";
              fvals := [("type", AS (SObj "tuple[int, int]")); ("default", ATuple [SInt 1; SInt 2]); ("help", AS (SStr ""));
                        ("requires", AReqs []); ("allowed_values", ASet [SStr "u"; SStr "v"]); ("argstr", AS (SStr ""));
                        ("position", AS (SInt 3))] |} in
  let o := {| fcls := COutarg; fname := "o";
              fvals := [("type", AS (SObj "File")); ("default", AS SNoDefault); ("help", AS (SStr ""));
                        ("requires", AReqs []); ("argstr", AS (SStr "-o")); ("position", AS (SInt 4));
                        ("path_template", AS (SStr "{a}_out")); ("keep_extension", AS (SBool true))] |} in
  let p := {| fcls := COut; fname := "p";
              fvals := [("type", AS (SObj "int")); ("default", AS SNoDefault); ("help", AS (SStr ""));
                        ("requires", AReqs []); ("callable", AS (SObj "f"))] |} in
  {| tkind := "shell"; tname := "cmd"; texec := SStr "cmd"; cinputs := [a; b; t; o]; coutputs := [o; p];
     cxor := [[Some "a"; Some "t"; None]] |}.
Example C32_roundtrip_applies :
  schema_okb ex_sch = true /\ wf_clsb ex_sch ex_cls = true /\ restorableb ex_sch ex_shape ex_cls = true /\
  List.length (dinputs (unstructure ex_sch ex_cls)) = 3 /\
  lookup "a" (dinputs (unstructure ex_sch ex_cls)) =
    Some [("type", US (SObj "str | None")); ("default", US SNone); ("help", US (SStr "the a"));
          ("requires", UReqs [[("b", None); ("t", Some [SInt 1; SInt 2])]; [("b", None)]]);
          ("argstr", US (SStr "-a")); ("position", US (SInt 2))].
Proof. vm_compute. repeat split. Qed.
