"""Shared generator of shell-task definitions and values for C22/C23/C24 (group F), their encoding as Gallina
terms for Model/Shell.v + Spec/Shell.v, and the observation of the current pydra implementation.

Importing this module has no side effects (pydra is imported inside the functions that need it).

A *case* is a JSON-able dict:
  form    "functional" | "class"
  exe     str | [str]                       value of the `executable` field (str is not split by pydra)
  fields  [{name, ty, elem, optional, argstr, pos, sep, file}]
            ty     bool|str|int|float|path|list|multi      elem: element kind for list/multi
            argstr None | {"words": [[piece]], "dots": bool}   piece = ["lit", text] | ["self"] | ["other", name]
  values  {name: None | bool | ["str", s] | ["int", n] | ["float", repr, nonzero] | ["path", s] | [atoms...]}
            (a list value is {"list": [atom, ...]})
  append  [str] | {"str": s}                append_args (a str is shlex-split by pydra's converter)
"""
import json
import os
import shlex

from . import coqio

IMPORTS = ["Base.Shlex", "Model.Shell", "Spec.Shell"]
PRELUDE = "Notation L := la_of.\n"

NAMES = ["a", "b", "c", "alpha", "beta", "zeta", "mid", "inp", "x1", "y_2", "B", "Zed", "opt", "k9", "flag", "num"]

# characters that go through shlex / str.format / the bracket clean-up untouched
BENIGN = "abcxyzABZ0123456789-_./=:+@%$*;~#&|<>()!?^"
BENIGN_WORDS = ["x", "in.txt", "out_1", "7", "a-b", "$HOME", "*.nii", "a;b", "k=v", "p/q/r.ext", "#c", "(1)", "~u", "A&B",
                "é", "日本", "😀x", "naïve",
                # non-ASCII whitespace in the interior: not whitespace for shlex (only blank, tab, CR, LF are), so these
                # are ordinary bytes for the model and must arrive as ONE argument (str.split() would break them).
                # Never at the edge of a value: Python's str.strip() in argstr_formatting strips Unicode whitespace,
                # which the byte-string model cannot express.
                "10\u00a0mm", "Shot_10.30\u202fAM", "全\u3000角", "a\u0085b", "a\u2009b", "x\u2028y",
                # values containing text the code itself treats specially elsewhere: the '...' repetition marker,
                # brackets and commas of the clean-up, separators, flag-like text
                "wait...", "a...b", "...", "....x", "v1...2...3", "[x]", "a,,b", "x[1],y", "-f", "--flag", "k:v;w+z",
                "-D=1", "--opt=val", "=", "-"]
# ASCII control characters that str.split()/str.strip() treat as whitespace but shlex does not (interior only)
CONTROL_WS_WORDS = ["x\x0cy", "p\x1cq", "a\x1db", "a\x1eb", "m\x1fn", "v\x0bw"]
# the C23 alphabet: whitespace, quotes, backslash, shell metacharacters, unicode, brackets/commas (bracket clean-up)
NASTY = " \t'\"\\$*;[],"
NASTY_WORDS = ["a b", "it's", 'say "hi"', "back\\slash", "tab\there", "a  b", " lead", "trail ", "'q'", '"q"', "\\", "'", '"',
               "a\\ b", "$(x) `y`", "*?;|&", "a[,b", "[ x ]", ",]", "[,", "x,]y", "é è", "日 本", "a\nb", "new\n", "'a'\n",
               "\"x", "x'", "a'b'c", "''", '""', "\\'", "\\\"", "a\\", "a\x0bb", "\x1fa", "a\x1c",
               # tokens that still carry an outer quote pair after shlex (split_cmd's regular expression strips it)
               "\"'x y'\"", "\\\"z\\\"", "'\"a\"'", "\\'k\\'", "\"'n'\n\"",
               # arguments mixing '-', '=' and blanks in every order (free arguments pass through untouched; quoted, a
               # templated value keeps its blank inside ONE argument: --t='My Study' -> "--t=My Study")
               "-D NAME=some value", "--title=My Study", "-x a=b c", "-o=a b", "- =", "=- x", "a =b", "-a b", "--k v=w",
               "-=x y", "'My Study'", "\"some value\"", "NAME='a b'", "-D 'N=a b'", "wait... for it"]
BRACE_WORDS = ["{", "}", "a{b", "{x}", "{{", "}}", "{}", "a}b", "{a}}", "{{a}}", "{zz}", "}{"]


# ------------------------------------------------------------------ generation
def _word(rng, nasty=0.0, braces=0.0):
    r = rng.random()
    if r < braces:
        return rng.choice(BRACE_WORDS)
    if r < braces + nasty:
        if rng.random() < 0.5:
            return rng.choice(NASTY_WORDS)
        if rng.random() < 0.15:
            return rng.choice(CONTROL_WS_WORDS)
        n = rng.randint(1, 6)
        return "".join(rng.choice(NASTY + "abé") for _ in range(n))
    if rng.random() < 0.5:
        return rng.choice(BENIGN_WORDS)
    return "".join(rng.choice(BENIGN) for _ in range(rng.randint(1, 6)))


FLAGS = ["-f", "--flag", "-x", "--out", "-I", "--k", "-9", "+z", "--a.b", "-v"]
PRE = ["--t=", "-o", "pre-", "k:", "--in.file=", "["]
POST = ["", "", ".ext", "-post", "]", ",z"]
SEPS = [" ", " ", ",", ";", ":", "+", ""]


def gen_argstr(rng, ty, name, others):
    """argstr AST for a field of kind ty"""
    r = rng.random()
    if ty == "bool":
        return {"words": [[["lit", rng.choice(FLAGS)]]], "dots": False}
    if r < 0.05:
        return None
    dots = ty in ("list", "multi") and rng.random() < 0.45
    if r < 0.15:
        return {"words": [], "dots": dots}                                   # argstr "" (or "...")
    if r < 0.55:
        ws = [[["lit", rng.choice(FLAGS)]]]
        if rng.random() < 0.1:
            ws.append([["lit", rng.choice(FLAGS)]])
        return {"words": ws, "dots": dots}
    # templated
    form = rng.random()
    if form < 0.4:
        pre = rng.choice(PRE)
        # "[" only with "]": pydra's clean-up of "[," / ",]" around an empty value is intended behaviour the
        # property statement does not talk about
        ws = [[["lit", pre], ["self"], ["lit", "]" if pre == "[" else rng.choice([p for p in POST if p != "]"])]]]
    elif form < 0.7:
        ws = [[["lit", rng.choice(FLAGS)]], [["self"]]]
    elif form < 0.8:
        ws = [[["self"]]]
    elif form < 0.9 or not others:
        ws = [[["lit", rng.choice(FLAGS)]], [["self"], ["lit", rng.choice([",", ":", "-"])], ["self"]]]
    else:
        ws = [[["lit", rng.choice(FLAGS)]], [["self"]], [["lit", "r="], ["other", rng.choice(others)]]]
    ws = [[p for p in w if not (p[0] == "lit" and p[1] == "")] for w in ws]
    return {"words": ws, "dots": dots}


def gen_positions(rng, n, mode=None):
    """list of n explicit positions (int or None)"""
    mode = mode or rng.choice(["none", "none", "dense", "dense", "sparse", "sparse", "mixed", "collide"])
    pos = [None] * n
    idx = list(range(n))
    rng.shuffle(idx)
    if mode == "dense":
        k = rng.randint(0, n)
        for j, i in enumerate(idx[:k]):
            pos[i] = j + 1
    elif mode == "sparse":
        k = rng.randint(0, n)
        cand = rng.sample(range(1, n + 5), min(k, n + 4))
        for i, p in zip(idx[:k], cand):
            pos[i] = p
    elif mode == "mixed":
        k = rng.randint(0, n)
        cand = rng.sample(range(1, n + 3), min(k, n + 2))
        for i, p in zip(idx[:k], cand):
            pos[i] = p
    elif mode == "collide":
        for i in idx[:rng.randint(0, n)]:
            pos[i] = rng.choice([0, 1, 2, n, n + 1, -1, -2, -n - 1])
        return pos, mode
    if mode != "none" and rng.random() < 0.5:
        free = [i for i in range(n) if pos[i] is None]
        rng.shuffle(free)
        negs = rng.sample([-1, -2, -3, -4, -7], min(len(free), rng.randint(0, 3)))
        for i, p in zip(free, negs):
            pos[i] = p
    return pos, mode


def gen_definition(rng, max_fields=6, form=None, pos_mode=None, kinds=None, file_dir=None):
    """file_dir: when given, about a third of the path-valued fields become fileformats File fields whose values are
    existing files created under that directory (the caller removes it)"""
    n = rng.choice([0, 1, 2, 2, 3, 3, 4, 5, max_fields])
    names = rng.sample(NAMES, n)
    kinds = kinds or ["bool", "str", "str", "int", "float", "path", "list", "list", "multi"]
    pos, mode = gen_positions(rng, n, pos_mode)
    fields = []
    for i, nm in enumerate(names):
        ty = rng.choice(kinds)
        elem = rng.choice(["str", "str", "int", "path"]) if ty in ("list", "multi") else None
        others = [f["name"] for f in fields if f["ty"] in ("str", "int")]
        # every kind comes in a plain and an Optional (`T | None`, default None) variant -- flags included
        f = {"name": nm, "ty": ty, "elem": elem, "optional": rng.random() < (0.4 if ty == "bool" else 0.6),
             "argstr": gen_argstr(rng, ty, nm, others), "pos": pos[i],
             "sep": rng.choice(SEPS) if ty in ("list", "multi") else " ",
             "file": bool(file_dir) and (ty == "path" or elem == "path") and rng.random() < 0.35}
        if ty == "list" and has_placeholder(f) and not f["argstr"]["dots"] and f["sep"] == " ":
            # a blank-joined list inside a templated argument has no agreed reading (see design/C22.md): not generated
            f["sep"] = rng.choice([",", ";", ":", "+"])
        fields.append(f)
    form = form or ("class" if rng.random() < 0.2 else "functional")
    return {"form": form, "exe": "echo", "fields": fields, "values": {}, "append": [], "pos_mode": mode,
            "file_dir": file_dir}


def gen_atom(rng, kind, nasty=0.0, braces=0.0, falsy=0.0):
    if kind == "int":
        if rng.random() < falsy:
            return ["int", 0]
        return ["int", rng.choice([1, 2, 7, 42, -3, 100, 65536, -1])]
    if kind == "float":
        x = 0.0 if rng.random() < falsy else rng.choice([1.5, -2.25, 3.0, 1e-05, 1.5e+20, 0.1, 100.0])
        return ["float", str(x), bool(x)]
    if kind == "path":
        w = _word(rng, nasty, 0.0)
        w = w.replace("\x00", "")
        return ["path", w if w not in ("", ".") and not w.endswith("/") and "//" not in w and "/./" not in w
                and not w.startswith("./") and not w.endswith("/.") else "p"]
    if rng.random() < falsy:
        return ["str", ""]
    return ["str", _word(rng, nasty, braces)]


def gen_values(rng, case, nasty=0.0, braces=0.0, falsy=0.05, unset=0.3):
    vals = {}
    for f in case["fields"]:
        ty = f["ty"]
        if f["optional"] and rng.random() < unset:
            vals[f["name"]] = None
        elif ty == "bool":
            vals[f["name"]] = rng.random() < 0.6
        elif ty in ("list", "multi"):
            n = rng.choice([0, 1, 2, 2, 3]) if f["optional"] or ty == "list" else rng.choice([1, 2, 3])
            vals[f["name"]] = {"list": [gen_atom(rng, f["elem"], nasty, braces if f["argstr"] and any(
                p[0] != "lit" for w in f["argstr"]["words"] for p in w) else 0.0) for _ in range(n)]}
        else:
            templ = bool(f["argstr"]) and any(p[0] != "lit" for w in f["argstr"]["words"] for p in w)
            # 0 / 0.0 inside a template is an ordinary value (only `if value:` on a placeholder-free argstr drops it)
            fz = max(falsy, 0.25) if templ and ty in ("int", "float") and falsy > 0 else falsy
            vals[f["name"]] = gen_atom(rng, ty, nasty, braces if templ else 0.0, fz)
    for f in case["fields"]:
        v = vals.get(f["name"])
        if f.get("file") and v is not None:
            atoms = v["list"] if isinstance(v, dict) else [v]
            for a in atoms:
                name = a[1].replace("/", "_").replace("\x00", "")
                if name in ("", ".", ".."):
                    name = "f"
                a[1] = os.path.join(case["file_dir"], name)
    ensure_files(case, vals)
    case["values"] = vals
    r = rng.random()
    if r < 0.5:
        case["append"] = []
    elif r < 0.9:
        case["append"] = [_word(rng, nasty, 0.0) for _ in range(rng.randint(1, 3))]
    else:
        case["append"] = {"str": " ".join(_word(rng, nasty * 0.5, 0.0) for _ in range(rng.randint(1, 3)))}
    if rng.random() < 0.15:
        case["exe"] = rng.choice([["docker", "run"], ["env", "-i", "prog"], "my prog" if nasty else "prog", ["p"]])
    return case


def ensure_files(case, vals=None):
    """create the (empty) files that File-typed fields point to -- only under /tmp/verif-*"""
    vals = case["values"] if vals is None else vals
    for f in case["fields"]:
        v = vals.get(f["name"])
        if not f.get("file") or v is None:
            continue
        for a in (v["list"] if isinstance(v, dict) else [v]):
            if a[0] == "path" and a[1].startswith("/tmp/verif-"):
                os.makedirs(os.path.dirname(a[1]), exist_ok=True)
                if not os.path.exists(a[1]):
                    open(a[1], "w").close()


# ------------------------------------------------------------------ rendering (what pydra is given)
def render_argstr(f):
    a = f["argstr"]
    if a is None:
        return None
    def piece(p):
        if p[0] == "lit":
            return p[1]
        return "{" + (f["name"] if p[0] == "self" else p[1]) + "}"
    return " ".join("".join(piece(p) for p in w) for w in a["words"]) + ("..." if a["dots"] else "")


def has_placeholder(f):
    return bool(f["argstr"]) and any(p[0] != "lit" for w in f["argstr"]["words"] for p in w)


def py_type(f):
    from pathlib import Path
    from fileformats.generic import File
    from pydra.utils.typing import MultiInputObj
    base = {"str": str, "int": int, "float": float, "path": File if f.get("file") else Path, "bool": bool}
    ty = f["ty"]
    if ty == "list":
        t = list[base[f["elem"]]]
    elif ty == "multi":
        t = MultiInputObj[base[f["elem"]]]
    else:
        t = base[ty]
    if f["optional"]:
        t = t | None
    return t


def _arg_kwargs(f):
    kw = dict(argstr=render_argstr(f), sep=f["sep"])
    if f["pos"] is not None:
        kw["position"] = f["pos"]
    if f["optional"]:
        kw["default"] = None
    elif f["ty"] == "bool":
        kw["default"] = False
    return kw


def build(case):
    """the pydra task class for the case's definition (raises what pydra raises)"""
    import types
    from pydra.compose import shell
    fields = case["fields"]
    if case["form"] == "functional":
        return shell.define("echo", inputs=[shell.arg(name=f["name"], type=py_type(f), **_arg_kwargs(f)) for f in fields],
                            name="Gen")
    ns = {"executable": "echo", "__annotations__": {}}
    for f in fields:
        ns["__annotations__"][f["name"]] = py_type(f)
        ns[f["name"]] = shell.arg(**_arg_kwargs(f))
    ns["Outputs"] = type("Outputs", (shell.Outputs,), {})
    klass = types.new_class("GenK", (shell.Task,), {}, lambda d: d.update(ns))
    return shell.define(klass)


def py_atom(a):
    from pathlib import Path
    k = a[0]
    if k == "str":
        return a[1]
    if k == "int":
        return a[1]
    if k == "float":
        return float(a[1])
    if k == "path":
        return Path(a[1])
    raise ValueError(a)


def py_value(v):
    if v is None or isinstance(v, bool):
        return v
    if isinstance(v, dict):
        return [py_atom(a) for a in v["list"]]
    return py_atom(v)


def instantiate(defn, case):
    kw = {n: py_value(v) for n, v in case["values"].items()}
    app = case["append"]
    kw["append_args"] = app["str"] if isinstance(app, dict) else list(app)
    kw["executable"] = case["exe"]
    return defn(**kw)


def classify_exc(e):
    msg = str(e)
    if isinstance(e, ValueError) and "No closing quotation" in msg:
        return "ENoClosingQuote"
    if isinstance(e, ValueError) and "No escaped character" in msg:
        return "ENoEscaped"
    if isinstance(e, ValueError) and "overlapping positions" in msg:
        return "EOverlap"
    if isinstance(e, (KeyError, IndexError)) or (isinstance(e, ValueError) and any(
            s in msg for s in ("Single '}'", "Single '{'", "expected '}'", "unexpected '{'", "unmatched '{'",
                               "cannot switch from", "Invalid format", "Unknown format", "Max string recursion"))):
        return "EFormat"
    return "EOther:%s:%s" % (type(e).__name__, msg[:160])


def observe(case):
    """Run the current implementation.  Returns
       {"positions": {name: pos} | None, "argv": [..] | None, "error": enum | None, "stage": "define"|"init"|"argv",
        "cmdline": str | None, "cmdline_error": enum | None}
    argv is what pydra.environments.native.Native.execute hands to pydra.environments.base.execute."""
    import types
    from pydra.environments import base, native
    from pydra.utils.general import get_fields, attrs_values
    out = {"positions": None, "argv": None, "error": None, "stage": None, "cmdline": None, "cmdline_error": None}
    ensure_files(case)
    try:
        defn = build(case)
    except Exception as e:  # noqa
        out.update(error=classify_exc(e), stage="define")
        return out
    out["positions"] = {f.name: f.position for f in get_fields(defn) if f.name not in ("executable", "append_args")}
    try:
        task = instantiate(defn, case)
    except Exception as e:  # noqa
        out.update(error=classify_exc(e), stage="init")
        return out
    rec = []
    orig = base.execute
    base.execute = lambda cmd, **kw: (rec.append(list(cmd)) or (0, "", ""))
    try:
        native.Native().execute(types.SimpleNamespace(task=task, inputs=attrs_values(task), name="verif"))
        out["argv"] = [str(a) for a in rec[0]]
    except Exception as e:  # noqa
        out.update(error=classify_exc(e), stage="argv")
    finally:
        base.execute = orig
    try:
        out["cmdline"] = task.cmdline
    except Exception as e:  # noqa
        out["cmdline_error"] = classify_exc(e)
    return out


CHILD = "import sys,json; sys.stdout.write(json.dumps(sys.argv[1:]))"


def observe_child(case, cache_root):
    """Really execute the task with a python child as the executable; returns the child's sys.argv[1:] (after the
    case's own executable words) or {"error": ...}."""
    import sys
    c2 = dict(case)
    exe = case["exe"] if isinstance(case["exe"], list) else [case["exe"]]
    c2["exe"] = [sys.executable, "-c", CHILD] + exe
    try:
        defn = build(c2)
        task = instantiate(defn, c2)
        outputs = task(cache_root=cache_root)
        return json.loads(outputs.stdout)
    except Exception as e:  # noqa
        return {"error": classify_exc(e)}


# ------------------------------------------------------------------ Gallina encoding
def L(s):
    return "(L %s)" % coqio.string(s)


def enc_piece(p):
    if p[0] == "lit":
        return "(Lit %s)" % L(p[1])
    if p[0] == "self":
        return "Self"
    return "(Other %s)" % L(p[1])


TY = {"bool": "TBool", "str": "TStr", "int": "TInt", "float": "TFloat", "path": "TPath", "list": "TList", "multi": "TMulti"}


def enc_sargstr(a):
    if a is None:
        return "SANone"
    return "(SA %s %s)" % (coqio.lst([coqio.lst([enc_piece(p) for p in w]) for w in a["words"]]), coqio.boolean(a["dots"]))


def enc_sfield(f):
    ty = "(TOpt %s)" % TY[f["ty"]] if f["optional"] else TY[f["ty"]]
    return "(mkS %s %s %s %s %s)" % (L(f["name"]), ty, enc_sargstr(f["argstr"]),
                                      coqio.option(None if f["pos"] is None else coqio.z(f["pos"])), L(f["sep"]))


def enc_atom(a):
    k = a[0]
    if k == "str":
        return "(AStr %s)" % L(a[1])
    if k == "int":
        return "(AInt %s)" % coqio.z(a[1])
    if k == "float":
        return "(AFloat %s %s)" % (L(a[1]), coqio.boolean(a[2]))
    if k == "path":
        import pathlib
        return "(APath %s)" % L(str(pathlib.PurePosixPath(a[1])))
    raise ValueError(a)


def enc_value(v):
    if v is None:
        return "VNone"
    if isinstance(v, bool):
        return "(VBool %s)" % coqio.boolean(v)
    if isinstance(v, dict):
        return "(VList %s)" % coqio.lst([enc_atom(a) for a in v["list"]])
    return "(VAtom %s)" % enc_atom(v)


def enc_vals(case):
    return coqio.lst([coqio.pair(L(f["name"]), enc_value(case["values"].get(f["name"]))) for f in case["fields"]])


def enc_exe(e):
    return "(EStr %s)" % L(e) if isinstance(e, str) else "(EList %s)" % coqio.lst([L(x) for x in e])


def enc_app(a):
    return "(AppStr %s)" % L(a["str"]) if isinstance(a, dict) else "(AppList %s)" % coqio.lst([L(x) for x in a])


def enc_form(case):
    return "ClassForm" if case["form"] == "class" else "Functional"


def enc_las(l):
    return coqio.lst([L(x) for x in l])


def enc_result_argv(obs):
    """observed argv / error as a [result (list la)]; unknown errors become a value the model never produces"""
    if obs["argv"] is not None:
        return "(Good %s)" % enc_las(obs["argv"])
    e = obs["error"] or "EOther"
    if e in ("ENoClosingQuote", "ENoEscaped", "EFormat", "EOverlap"):
        return "(Bad %s)" % e
    return "(Bad EUnsupported)"


def enc_inputs(case):
    """(form, exe, sfields, vals, appargs, rendered argstrs as pydra got them)"""
    rendered = coqio.lst([coqio.option(None if render_argstr(f) is None else L(render_argstr(f))) for f in case["fields"]])
    return coqio.pair(enc_form(case), enc_exe(case["exe"]), coqio.lst([enc_sfield(f) for f in case["fields"]]),
                      enc_vals(case), enc_app(case["append"]), rendered)


def enc_positions(case, obs):
    if obs["positions"] is None:
        return "None"
    return "(Some %s)" % coqio.lst([coqio.option(None if obs["positions"].get(f["name"]) is None
                                                 else coqio.z(obs["positions"][f["name"]])) for f in case["fields"]])


# definitions shared by the three drivers' case files
COMMON_DEFS = PRELUDE + """
Definition inputs_t := (form * exe * list sfield * vals_t * appargs * list (option la))%type.
Definition res_eqb (a b : result (list la)) : bool :=
  match a, b with
  | Good x, Good y => list_eqb la_eqb x y
  | Bad ENoClosingQuote, Bad ENoClosingQuote | Bad ENoEscaped, Bad ENoEscaped | Bad EFormat, Bad EFormat
  | Bad EOverlap, Bad EOverlap => true
  | _, _ => false
  end.
Definition in_argv (i : inputs_t) : result (list la) :=
  let '(fm, e, fs, vals, app, _) := i in task_argv fm e (map to_field fs) vals app.
Definition rendered_ok (i : inputs_t) : bool :=
  let '(_, _, fs, _, _, r) := i in list_eqb (option_eqb la_eqb) (map (fun f => f_argstr (to_field f)) fs) r.
(* positions pydra assigned, by field (in the case's field order), against the model's define *)
Definition positions_ok (i : inputs_t) (obs : option (list (option Z))) : bool :=
  let '(fm, _, fs, _, _, _) := i in
  match define fm (map to_field fs), obs with
  | Good fs', Some ps =>
      forallb (fun fp => let '(f, p) := fp in
                 option_eqb Z.eqb p
                   (match find (fun g => la_eqb (f_name g) (sf_name f)) fs' with Some g => f_pos g | None => None end))
              (combine fs ps) && Nat.eqb (List.length ps) (List.length fs)
  | Bad EOverlap, None => true
  | _, _ => false
  end.
"""


# ------------------------------------------------------------------ shared evaluation of argv cases (C22, C23)
ARGV_DEFS = COMMON_DEFS + """
Definition case_t := (inputs_t * option (list (option Z)) * result (list la))%type.
Definition dom (c : case_t) : bool :=
  let '((fm, e, fs, vals, app, _), _, _) := c in
  c22_in_domain fm e fs vals && match app with AppList _ => true | AppStr _ => false end.
Definition tie_all (c : case_t) : bool :=
  let '(i, pos, obs) := c in rendered_ok i && positions_ok i pos && res_eqb (in_argv i) obs.
Definition spec_ok (c : case_t) : bool :=
  let '((fm, e, fs, vals, app, _), _, obs) := c in
  match append_args_conv app with
  | Good a => c22_ok fm e fs vals a obs
  | Bad _ => match obs with Bad ENoClosingQuote | Bad ENoEscaped => true | _ => false end
  end.
(* bit 0: model != implementation; bit 1: implementation != spec; bit 2: outside the domain of C22_partial *)
Definition code (c : case_t) : nat :=
  (if tie_all c then 0 else 1) + (if spec_ok c then 0 else 2) + (if dom c then 0 else 4).
Definition show (r : result (list la)) := match r with Good l => inl (map str_of l) | Bad e => inr e end.
"""


def evaluate_argv(ctx, name, cases, shard=120):
    """observe every case on the implementation and evaluate model/spec/domain in Coq.
    Returns (observations, codes); code bits: 1 model!=impl, 2 impl!=spec, 4 outside the domain of C22_partial."""
    obs = [observe(c) for c in cases]
    terms = [coqio.pair(enc_inputs(c), enc_positions(c, o), enc_result_argv(o)) for c, o in zip(cases, obs)]
    codes = coqio.run_case_codes(ctx.scratch, name, IMPORTS, "case_t", terms, "code", extra=ARGV_DEFS, shard=shard)
    return obs, codes


def spec_term(c):
    app = enc_las(c["append"]) if isinstance(c["append"], list) else \
        "(match append_args_conv %s with Good a => a | _ => [] end)" % enc_app(c["append"])
    return "map str_of (spec_argv %s %s %s %s)" % (
        enc_exe(c["exe"]), coqio.lst([enc_sfield(f) for f in c["fields"]]), enc_vals(c), app)


def model_term(c):
    return ("(match define %s (map to_field %s) with Good fs => inl (map f_pos fs) | Bad e => inr e end, show (in_argv %s))"
            % (enc_form(c), coqio.lst([enc_sfield(f) for f in c["fields"]]), enc_inputs(c)))


def strip_case(c):
    return {k: c[k] for k in ("form", "exe", "fields", "values", "append")}


def fill_expected(ctx, pending, extra=None):
    """pending: list of (Failure, Gallina term); evaluates all terms in one coqc run and stores them as .expected"""
    if not pending:
        return []
    try:
        vals = coqio.eval_terms(ctx.scratch, "expected", IMPORTS, [t for _, t in pending], extra=extra or ARGV_DEFS)
    except Exception as e:  # noqa
        vals = ["coq evaluation failed: %s" % e] * len(pending)
    out = []
    for (f, _), v in zip(pending, vals):
        f.expected = v
        out.append(f)
    return out


# CPython shlex vs Base/Shlex.v on the same strings
SHLEX_ALPHABET = ["a", "b", " ", "'", "x", '"', "\\", "\t", "$", "*", ";", "\n", "é", "\r", "-", "=", "#"]
SHLEX_DEFS = PRELUDE + """
Definition lex_eqb (a b : res) : bool :=
  match a, b with
  | Ok x, Ok y => list_eqb la_eqb x y
  | ErrNoClosingQuote, ErrNoClosingQuote | ErrNoEscaped, ErrNoEscaped => true
  | _, _ => false
  end.
Definition shlex_case := (la * res * list la * la)%type.
(* bit 0: split differs from CPython; bit 1: join differs from CPython (on the tokens CPython produced) *)
Definition shlex_code (c : shlex_case) : nat :=
  let '(s, r, toks, joined) := c in
  (if lex_eqb (split_la s) r then 0 else 1) + (if la_eqb (join toks) joined then 0 else 2).
"""


def gen_shlex_strings(rng, n):
    out = []
    for _ in range(n):
        k = rng.randint(0, 12)
        out.append("".join(rng.choice(SHLEX_ALPHABET) for _ in range(k)))
    return out


def enc_lex_result(s):
    try:
        toks = shlex.split(s)
        return "(Ok %s)" % enc_las(toks), toks
    except ValueError as e:
        if "No closing quotation" in str(e):
            return "ErrNoClosingQuote", None
        if "No escaped character" in str(e):
            return "ErrNoEscaped", None
        raise


def check_shlex(ctx, name, strings, extra_token_lists=()):
    """Returns (n, bad) where bad = list of (string, cpython_result, code) on which Base/Shlex.v differs from CPython.
    For every string s: Shlex.split_la s vs shlex.split(s); and Shlex.join vs shlex.join on the tokens (or on [s])."""
    terms, meta = [], []
    for s in strings:
        r, toks = enc_lex_result(s)
        toks = toks if toks is not None else [s]
        terms.append(coqio.pair(L(s), r, enc_las(toks), L(shlex.join(toks))))
        meta.append((s, r))
    for toks in extra_token_lists:
        j = shlex.join(toks)
        r, _ = enc_lex_result(j)
        terms.append(coqio.pair(L(j), r, enc_las(toks), L(j)))
        meta.append((j, r))
    codes = coqio.run_case_codes(ctx.scratch, name, ["Base.Shlex", "Model.Shell"], "shlex_case", terms, "shlex_code",
                                 extra=SHLEX_DEFS, shard=400)
    bad = [(meta[i][0], meta[i][1], k) for i, k in enumerate(codes) if k]
    return len(terms), bad
