(* Proofs/StateClass.v — C02: a syntactic class on which good_removalb is proved: flat outer products. *)
From Coq Require Import Permutation Sorting.Sorted.
From Pydra Require Import Base.Prelude Model.State Spec.State Proofs.State Proofs.StateSpell Proofs.StateComb Proofs.StateProj.

Definition flat_outer (fs : list nat) : spl := Outer (map Fld fs).

Lemma rpn_flat_outer f fs : rpn (flat_outer (f :: fs)) = TF f :: flat_map (fun y => [TF y; TMul]) fs.
Proof.
  unfold flat_outer. cbn [map rpn app]. f_equal. induction fs as [|y fs IH]; cbn [map flat_map rpn app]; [reflexivity|].
  rewrite IH. reflexivity.
Qed.

(* ---------------------------------------------------------------- the axis bookkeeping on a flat outer product *)
Definition axes_tab (fs : list nat) (i : nat) : gmap := combine fs (map (fun j => [j]) (seq i (List.length fs))).

Lemma gset_fresh k v g : ~ In k (map fst g) -> gset k v g = g ++ [(k, v)].
Proof.
  induction g as [|[k' v'] g IH]; intros H; cbn [gset app]; [reflexivity|].
  destruct (Nat.eqb k k') eqn:E; [apply Nat.eqb_eq in E; subst; exfalso; apply H; left; reflexivity|].
  rewrite IH; [reflexivity| intros Hin; apply H; right; exact Hin].
Qed.

Lemma axes_tab_fst fs i : map fst (axes_tab fs i) = fs.
Proof.
  unfold axes_tab. revert i. induction fs as [|f fs IH]; intros i; cbn; [reflexivity|]. f_equal. apply IH.
Qed.

Lemma axes_tab_snoc fs i y : axes_tab (fs ++ [y]) i = axes_tab fs i ++ [(y, [i + List.length fs])].
Proof.
  unfold axes_tab. revert i. induction fs as [|f fs IH]; intros i; cbn [app List.length seq map combine].
  - rewrite Nat.add_0_r. reflexivity.
  - f_equal. rewrite IH. replace (i + S (List.length fs)) with (S i + List.length fs) by lia. reflexivity.
Qed.

(* running the tail [y; *; y'; *; ...] from an evaluated left operand *)
Lemma groups_run_tail : forall ys done m,
  NoDup (done ++ ys) -> m = List.length done -> m >= 1 ->
  groups_run (flat_map (fun y => [TF y; TMul]) ys) [GVal (seq 0 m)] (axes_tab done 0) (Some (m - 1)) =
  inr ([GVal (seq 0 (m + List.length ys))], axes_tab (done ++ ys) 0).
Proof.
  induction ys as [|y ys IH]; intros done m N Hm Hge; cbn [flat_map app groups_run List.length].
  - rewrite app_nil_r, Nat.add_0_r. reflexivity.
  - cbn [tok_eqb groups_binop gc_next].
    replace (S (m - 1)) with m by lia.
    rewrite gset_fresh.
    2:{ rewrite axes_tab_fst. apply NoDup_remove_2 in N. intros H. apply N. apply in_or_app. left. exact H. }
    assert (E1 : axes_tab done 0 ++ [(y, [m])] = axes_tab (done ++ [y]) 0).
    { rewrite axes_tab_snoc. subst m. reflexivity. }
    rewrite E1. assert (E2 : seq 0 m ++ [m] = seq 0 (S m)) by (rewrite seq_S; reflexivity).
    rewrite E2. replace (Some m) with (Some (S m - 1)) by (f_equal; lia).
    rewrite (IH (done ++ [y]) (S m)).
    + rewrite <- app_assoc. cbn [app]. replace (S m + List.length ys) with (m + S (List.length ys)) by lia. reflexivity.
    + rewrite <- app_assoc. exact N.
    + rewrite app_length. cbn. lia.
    + lia.
Qed.

Lemma groups_run_flat f1 f2 fs : NoDup (f1 :: f2 :: fs) ->
  groups_run (rpn (flat_outer (f1 :: f2 :: fs))) [] [] None =
  inr ([GVal (seq 0 (2 + List.length fs))], axes_tab (f1 :: f2 :: fs) 0).
Proof.
  intros N. rewrite rpn_flat_outer. cbn [flat_map app groups_run tok_eqb groups_binop gc_next].
  assert (D : Nat.eqb f2 f1 = false).
  { apply Nat.eqb_neq. intros ->. inversion N as [|? ? H _]; subst. apply H. left. reflexivity. }
  cbn [gset]. rewrite D.
  change ([(f1, [0]); (f2, [1])]) with (axes_tab [f1; f2] 0). change [0; 1] with (seq 0 2).
  change (Some 1) with (Some (2 - 1)).
  rewrite (groups_run_tail fs [f1; f2] 2); [reflexivity| exact N| reflexivity| lia].
Qed.

(* ---------------------------------------------------------------- combiner_all on a flat outer product *)
Lemma gget_axes_tab F : forall i c, NoDup F -> In c F ->
  exists j, j < List.length F /\ nth j F 0 = c /\ gget c (axes_tab F i) = Some [i + j].
Proof.
  unfold axes_tab. induction F as [|f F IH]; intros i c N H; [contradiction|]. inversion N as [|? ? Hf N']; subst.
  cbn [List.length seq map combine gget]. destruct (Nat.eqb c f) eqn:E.
  - apply Nat.eqb_eq in E. subst. exists 0. cbn. split; [lia|]. split; [reflexivity|]. f_equal. f_equal. lia.
  - destruct H as [->|H]; [rewrite Nat.eqb_refl in E; discriminate|].
    destruct (IH (S i) c N' H) as (j & Lj & Nj & G). exists (S j). cbn [nth]. split; [lia|]. split; [exact Nj|].
    rewrite G. f_equal. f_equal. lia.
Qed.

Lemma filter_axes_none k : forall F b, k < b ->
  filter (fun kv : nat * list nat => memb k (snd kv)) (axes_tab F b) = [].
Proof.
  unfold axes_tab. induction F as [|g F IH]; intros b Hb; [reflexivity|].
  cbn [List.length seq map combine filter snd memb existsb].
  assert (E : Nat.eqb k b = false) by (apply Nat.eqb_neq; lia). rewrite E. cbn [orb]. apply IH. lia.
Qed.

Lemma fields_of_axes_tab F : forall i j, NoDup F -> j < List.length F ->
  map fst (filter (fun kv => memb (i + j) (snd kv)) (axes_tab F i)) = [nth j F 0].
Proof.
  induction F as [|f F IH]; intros i j N Hj; cbn [List.length] in Hj; [lia|].
  inversion N as [|? ? Hf N']; subst.
  change (axes_tab (f :: F) i) with ((f, [i]) :: axes_tab F (S i)).
  cbn [filter snd memb existsb]. destruct j as [|j].
  - rewrite Nat.add_0_r, Nat.eqb_refl. cbn [orb map fst nth]. rewrite filter_axes_none by lia. reflexivity.
  - assert (E : Nat.eqb (i + S j) i = false) by (apply Nat.eqb_neq; lia). rewrite E. cbn [orb nth].
    replace (i + S j) with (S i + j) by lia. apply IH; [exact N'| lia].
Qed.

Lemma ready_check_ok : forall grs stack removed,
  (forall g, In g grs -> In g stack \/ In g removed) -> ready_check grs stack removed <> None.
Proof.
  induction grs as [|g grs IH]; intros stack removed H; cbn [ready_check]; [discriminate|].
  destruct (memb g stack) eqn:Ms.
  - apply IH. intros g' Hg'. destruct (H g' (or_intror Hg')) as [Hs|Hr]; [|right; right; exact Hr].
    destruct (Nat.eq_dec g' g) as [->|Hne]; [right; left; reflexivity|]. left.
    clear - Hs Hne. induction stack as [|x st IHs]; [contradiction|]. cbn [remove_first].
    destruct (Nat.eqb g x) eqn:E.
    + apply Nat.eqb_eq in E. subst. destruct Hs as [->|Hs]; [congruence| exact Hs].
    + destruct Hs as [->|Hs]; [left; reflexivity| right; apply IHs; exact Hs].
  - destruct (memb g removed) eqn:Mr.
    + apply IH. intros g' Hg'. apply H. right. exact Hg'.
    + exfalso. destruct (H g (or_introl eq_refl)) as [Hs|Hr]; apply memb_In in Hs || apply memb_In in Hr; congruence.
Qed.

(* ---------------------------------------------------------------- sort_set is canonical *)
Lemma nat_insert_in x l y : In y (nat_insert x l) <-> y = x \/ In y l.
Proof.
  induction l as [|z l IH]; cbn [nat_insert]; [cbn; intuition|].
  destruct (Nat.ltb x z) eqn:L; [cbn; intuition|]. destruct (Nat.eqb x z) eqn:E.
  - apply Nat.eqb_eq in E. subst. cbn. intuition.
  - cbn [In]. rewrite IH. intuition.
Qed.

Lemma nat_insert_sorted x l : StronglySorted lt l -> StronglySorted lt (nat_insert x l).
Proof.
  induction l as [|z l IH]; intros S; cbn [nat_insert]; [repeat constructor|].
  inversion S as [|? ? S' F]; subst. destruct (Nat.ltb x z) eqn:L.
  - apply Nat.ltb_lt in L. constructor; [exact S|]. constructor; [exact L|].
    eapply Forall_impl; [|exact F]. intros a Ha. cbn in Ha. lia.
  - destruct (Nat.eqb x z) eqn:E; [exact S|]. apply Nat.ltb_ge in L. apply Nat.eqb_neq in E.
    constructor; [apply IH; exact S'|]. apply Forall_forall. intros a Ha. apply nat_insert_in in Ha as [->|Ha]; [lia|].
    rewrite Forall_forall in F. apply F. exact Ha.
Qed.

Lemma sort_set_in l y : In y (sort_set l) <-> In y l.
Proof. unfold sort_set. induction l as [|x l IH]; cbn [fold_right]; [reflexivity|]. rewrite nat_insert_in, IH. cbn. intuition. Qed.

Lemma sort_set_sorted l : StronglySorted lt (sort_set l).
Proof. unfold sort_set. induction l as [|x l IH]; cbn [fold_right]; [constructor| apply nat_insert_sorted; exact IH]. Qed.

Lemma sorted_ext (a : list nat) : forall b, StronglySorted lt a -> StronglySorted lt b ->
  (forall x, In x a <-> In x b) -> a = b.
Proof.
  induction a as [|x a IH]; intros [|y b] Sa Sb H.
  - reflexivity.
  - exfalso. apply (H y). left. reflexivity.
  - exfalso. apply (H x). left. reflexivity.
  - inversion Sa as [|? ? Sa' Fa]; inversion Sb as [|? ? Sb' Fb]; subst. rewrite Forall_forall in Fa, Fb.
    assert (x = y).
    { destruct (proj1 (H x) (or_introl eq_refl)) as [E|Hx]; [congruence|].
      destruct (proj2 (H y) (or_introl eq_refl)) as [E|Hy]; [congruence|].
      specialize (Fa y Hy). specialize (Fb x Hx). lia. }
    subst y. f_equal. apply IH; [assumption|assumption|]. intros z. split; intros Hz.
    + destruct (proj1 (H z) (or_intror Hz)) as [E|Hz']; [subst; specialize (Fa z Hz); lia| exact Hz'].
    + destruct (proj2 (H z) (or_intror Hz)) as [E|Hz']; [subst; specialize (Fb z Hz); lia| exact Hz'].
Qed.

Lemma sort_set_ext a b : (forall x, In x a <-> In x b) -> sort_set a = sort_set b.
Proof. intros H. apply sorted_ext; try apply sort_set_sorted. intros x. rewrite !sort_set_in. apply H. Qed.

(* ---------------------------------------------------------------- linked fields of a flat outer product *)
Lemma axes_flat_outer F : axes (flat_outer F) = map (fun f => [f]) F.
Proof. unfold flat_outer. cbn [axes]. induction F as [|f F IH]; cbn [map flat_map axes app]; [reflexivity| now rewrite IH]. Qed.

Lemma linked_flat_outer F comb : linked (flat_outer F) comb = filter (fun f => memb f comb) F.
Proof.
  unfold linked. rewrite axes_flat_outer. induction F as [|f F IH]; cbn [map flat_map filter existsb]; [reflexivity|].
  rewrite orb_false_r, IH. destruct (memb f comb); reflexivity.
Qed.

Lemma combiner_all_flat f1 f2 fs comb : NoDup (f1 :: f2 :: fs) -> comb <> [] ->
  (forall c, In c comb -> In c (f1 :: f2 :: fs)) ->
  combiner_all_of (rpn (flat_outer (f1 :: f2 :: fs))) comb = inr (sort_set (linked (flat_outer (f1 :: f2 :: fs)) comb)).
Proof.
  intros N Hne Hsub. set (F := f1 :: f2 :: fs) in *.
  unfold combiner_all_of. pose proof (groups_run_flat f1 f2 fs N) as G. fold F in G.
  assert (Shape : exists t1 t2 t3 p, rpn (flat_outer F) = t1 :: t2 :: t3 :: p).
  { unfold F. rewrite rpn_flat_outer. cbn [flat_map app]. eauto. }
  destruct Shape as (t1 & t2 & t3 & p & Ep). rewrite Ep in *. rewrite G.
  destruct comb as [|c0 comb']; [congruence|]. set (comb := c0 :: comb') in *.
  assert (A : forallb (fun c => match gget c (axes_tab F 0) with Some _ => true | None => false end) comb = true).
  { apply forallb_forall. intros c Hc. destruct (gget_axes_tab F 0 c N (Hsub c Hc)) as (j & _ & _ & E). rewrite E. reflexivity. }
  rewrite A. cbn [negb].
  set (grs := flat_map (fun c => match gget c (axes_tab F 0) with Some v => v | None => [] end) comb).
  assert (R : ready_check grs (seq 0 (2 + List.length fs)) [] <> None).
  { apply ready_check_ok. intros g Hg. left. unfold grs in Hg. apply in_flat_map in Hg as (c & Hc & Hg).
    destruct (gget_axes_tab F 0 c N (Hsub c Hc)) as (j & Lj & _ & E). rewrite E in Hg. destruct Hg as [<-|[]].
    apply in_seq. unfold F in Lj. cbn [List.length] in Lj. lia. }
  destruct (ready_check grs (seq 0 (2 + List.length fs)) []) as [r|]; [|congruence].
  assert (Goal' : inr (A := cerr) (sort_set (flat_map (fun gr => map fst (filter (fun kv : nat * list nat => memb gr (snd kv)) (axes_tab F 0))) grs)) = inr (sort_set (linked (flat_outer F) comb))); [|destruct t1; exact Goal'].
  f_equal. apply sort_set_ext. intros x. rewrite linked_flat_outer. rewrite filter_In, memb_In. unfold grs.
  rewrite in_flat_map. split.
  - intros (g & Hg & Hx). apply in_flat_map in Hg as (c & Hc & Hg).
    destruct (gget_axes_tab F 0 c N (Hsub c Hc)) as (j & Lj & Nj & E). rewrite E in Hg. destruct Hg as [<-|[]].
    rewrite (fields_of_axes_tab F 0 j N Lj) in Hx. destruct Hx as [<-|[]]. rewrite Nj. split; [apply Hsub; exact Hc| exact Hc].
  - intros [HxF Hxc]. destruct (gget_axes_tab F 0 x N HxF) as (j & Lj & Nj & E).
    exists (0 + j). split.
    + apply in_flat_map. exists x. split; [exact Hxc|]. rewrite E. left. reflexivity.
    + rewrite (fields_of_axes_tab F 0 j N Lj). left. exact Nj.
Qed.

(* ---------------------------------------------------------------- remove_inp_from_splitter_rpn on a flat outer product *)
Section Remove.
  Variable rm : list nat.
  Definition keepr (f : nat) : bool := negb (memb f rm).
  Definition pairs (l : list nat) : list tok := flat_map (fun y => [TMul; TF y]) l.

  (* positions of the signs / inputs that survive, for the scan order l starting at index ii *)
  Fixpoint SG (l : list nat) (ii : nat) : list nat :=
    match l with [] => [] | y :: l' => (if keepr y then [ii] else []) ++ SG l' (S (S ii)) end.
  Fixpoint IN (l : list nat) (ii : nat) : list nat :=
    match l with [] => [] | y :: l' => (if keepr y then [S ii] else []) ++ IN l' (S (S ii)) end.

  Lemma SG_ge l : forall ii x, In x (SG l ii) -> ii <= x.
  Proof.
    induction l as [|y l IH]; intros ii x H; cbn [SG] in H; [contradiction|]. apply in_app_or in H as [H|H].
    - destruct (keepr y); [destruct H as [<-|[]]; lia| contradiction].
    - apply IH in H. lia.
  Qed.
  Lemma IN_ge l : forall ii x, In x (IN l ii) -> S ii <= x.
  Proof.
    induction l as [|y l IH]; intros ii x H; cbn [IN] in H; [contradiction|]. apply in_app_or in H as [H|H].
    - destruct (keepr y); [destruct H as [<-|[]]; lia| contradiction].
    - apply IH in H. lia.
  Qed.

  Lemma loop_pairs : forall l ii sgn inp k tail,
    remove_loop (pairs l ++ tail) ii rm sgn inp (repeat 1 k) =
    remove_loop tail (ii + 2 * List.length l) rm (rev (SG l ii) ++ sgn) (rev (IN l ii) ++ inp)
                (repeat 1 (List.length (SG l ii) + k)).
  Proof.
    induction l as [|y l IH]; intros ii sgn inp k tail.
    - cbn [pairs flat_map app List.length SG IN rev]. rewrite Nat.add_0_r. reflexivity.
    - cbn [pairs flat_map app remove_loop SG IN]. fold (pairs l). unfold keepr at 1 2 3. destruct (memb y rm) eqn:M; cbn [negb app].
      + cbn [Nat.leb tl]. rewrite IH. cbn [List.length]. f_equal. lia.
      + change (1 :: repeat 1 k) with (repeat 1 (S k)). rewrite IH. cbn [List.length rev]. rewrite <- !app_assoc. cbn [app].
        f_equal; [lia|]. f_equal. lia.
  Qed.
End Remove.

Section Remove2.
  Variable rm : list nat.
  Notation keepr := (keepr rm).
  Notation SG := (SG rm).
  Notation IN := (IN rm).

  Lemma SG_lt l : forall ii x, In x (SG l ii) -> x < ii + 2 * List.length l.
  Proof.
    induction l as [|y l IH]; intros ii x H; cbn [StateClass.SG] in H; [contradiction|]. apply in_app_or in H as [H|H].
    - destruct (keepr y); [destruct H as [<-|[]]; cbn; lia| contradiction].
    - apply IH in H. cbn [List.length]. lia.
  Qed.
  Lemma IN_lt l : forall ii x, In x (IN l ii) -> x < ii + 2 * List.length l.
  Proof.
    induction l as [|y l IH]; intros ii x H; cbn [StateClass.IN] in H; [contradiction|]. apply in_app_or in H as [H|H].
    - destruct (keepr y); [destruct H as [<-|[]]; cbn; lia| contradiction].
    - apply IH in H. cbn [List.length]. lia.
  Qed.

  Fixpoint kp_pairs (l : list nat) (ii : nat) (K : list nat) : list tok :=
    match l with
    | [] => []
    | y :: l' => (if memb ii K then [TMul] else []) ++ (if memb (S ii) K then [TF y] else []) ++ kp_pairs l' (S (S ii)) K
    end.

  Lemma kp_split K t : forall l ii,
    keep_positions (pairs l ++ t) ii K = kp_pairs l ii K ++ keep_positions t (ii + 2 * List.length l) K.
  Proof.
    induction l as [|y l IH]; intros ii; cbn [pairs flat_map app kp_pairs List.length].
    - rewrite Nat.add_0_r. reflexivity.
    - fold (pairs l). cbn [keep_positions]. rewrite IH.
      replace (S (S ii) + 2 * List.length l) with (ii + 2 * S (List.length l)) by lia.
      destruct (memb ii K), (memb (S ii) K); reflexivity.
  Qed.

  (* signs that survive when the most recent surviving sign is popped at the end *)
  Fixpoint SGD (l : list nat) (ii : nat) : list nat :=
    match l with
    | [] => []
    | y :: l' => if keepr y then (match SG l' (S (S ii)) with [] => [] | _ => ii :: SGD l' (S (S ii)) end)
                 else SGD l' (S (S ii))
    end.
  Definition OUTK (l : list nat) : list tok := flat_map (fun y => if keepr y then [TMul; TF y] else []) l.
  Fixpoint OUT1 (l : list nat) (ii : nat) : list tok :=
    match l with
    | [] => []
    | y :: l' => if keepr y then (match SG l' (S (S ii)) with [] => [TF y] | _ => [TMul; TF y] ++ OUT1 l' (S (S ii)) end)
                 else OUT1 l' (S (S ii))
    end.

  Lemma removelast_SG l : forall ii, removelast (SG l ii) = SGD l ii.
  Proof.
    induction l as [|y l IH]; intros ii; cbn [StateClass.SG SGD]; [reflexivity|].
    destruct (keepr y); cbn [app]; [|apply IH].
    destruct (SG l (S (S ii))) as [|z zs] eqn:E; [reflexivity|]. rewrite <- IH, E. reflexivity.
  Qed.

  Lemma SGD_in l ii x : In x (SGD l ii) -> In x (SG l ii).
  Proof. rewrite <- removelast_SG. revert x. induction (SG l ii) as [|a s IH]; intros x H; [contradiction|].
    cbn [removelast] in H. destruct s; [contradiction|]. destruct H as [<-|H]; [left; reflexivity| right; apply IH; exact H]. Qed.

  Lemma tl_rev {A} (X : list A) : tl (rev X) = rev (removelast X).
  Proof.
    induction X as [|x X IH]; [reflexivity|]. cbn [rev removelast]. destruct X as [|x' X']; [reflexivity|].
    cbn [rev] in *. destruct (rev X') as [|r rs] eqn:E; cbn [app tl] in *; rewrite <- IH; reflexivity.
  Qed.

  Lemma kp_keep K : forall l ii,
    (forall x, ii <= x < ii + 2 * List.length l -> (memb x K = true <-> In x (SG l ii) \/ In x (IN l ii))) ->
    kp_pairs l ii K = OUTK l.
  Proof.
    induction l as [|y l IH]; intros ii H; [reflexivity|]. cbn [kp_pairs OUTK flat_map]. fold (OUTK l).
    rewrite (IH (S (S ii))).
    2:{ intros x Hx. rewrite (H x) by (cbn [List.length]; lia). cbn [StateClass.SG StateClass.IN]. rewrite !in_app_iff.
        destruct (keepr y); cbn [In]; split; intros [A|A]; try tauto; try (destruct A as [A|A]; [lia|tauto]). }
    pose proof (H ii ltac:(cbn [List.length]; lia)) as H0. pose proof (H (S ii) ltac:(cbn [List.length]; lia)) as H1.
    cbn [StateClass.SG StateClass.IN] in H0, H1. rewrite !in_app_iff in H0, H1.
    destruct (keepr y) eqn:Ky.
    - assert (E0 : memb ii K = true) by (apply H0; left; left; left; reflexivity).
      assert (E1 : memb (S ii) K = true) by (apply H1; right; left; left; reflexivity).
      rewrite E0, E1. reflexivity.
    - assert (E0 : memb ii K = false).
      { destruct (memb ii K); [|reflexivity]. exfalso. destruct (proj1 H0 eq_refl) as [[[]|A]|[[]|A]];
          [apply SG_ge in A; lia| apply IN_ge in A; lia]. }
      assert (E1 : memb (S ii) K = false).
      { destruct (memb (S ii) K); [|reflexivity]. exfalso. destruct (proj1 H1 eq_refl) as [[[]|A]|[[]|A]];
          [apply SG_ge in A; lia| apply IN_ge in A; lia]. }
      rewrite E0, E1. reflexivity.
  Qed.

  Lemma kp_drop K : forall l ii,
    (forall x, ii <= x < ii + 2 * List.length l -> (memb x K = true <-> In x (SGD l ii) \/ In x (IN l ii))) ->
    kp_pairs l ii K = OUT1 l ii.
  Proof.
    induction l as [|y l IH]; intros ii H; [reflexivity|]. cbn [kp_pairs OUT1].
    pose proof (H ii ltac:(cbn [List.length]; lia)) as H0. pose proof (H (S ii) ltac:(cbn [List.length]; lia)) as H1.
    cbn [SGD StateClass.IN] in H0, H1. rewrite !in_app_iff in H1. rewrite in_app_iff in H0.
    assert (Hrest : forall x, S (S ii) <= x < S (S ii) + 2 * List.length l ->
                    (memb x K = true <-> In x (SGD l (S (S ii))) \/ In x (IN l (S (S ii))))).
    { intros x Hx. rewrite (H x) by (cbn [List.length]; lia). cbn [SGD StateClass.IN]. rewrite in_app_iff.
      destruct (keepr y); [destruct (SG l (S (S ii))) as [|z zs] eqn:E|].
      - assert (D : SGD l (S (S ii)) = []) by (rewrite <- removelast_SG, E; reflexivity). rewrite D. cbn [In].
        split; intros [A|A]; try tauto; destruct A as [A|A]; [lia|tauto].
      - cbn [In]. split; intros [A|A]; try tauto; destruct A as [A|A]; try lia; tauto.
      - cbn [In]. tauto. }
    rewrite (IH (S (S ii)) Hrest).
    assert (NoS : forall A, In (S ii) (SGD l (S (S ii))) -> A) by (intros A0 A; apply SGD_in, SG_ge in A; lia).
    assert (NoI : forall A, In (S ii) (IN l (S (S ii))) -> A) by (intros A0 A; apply IN_ge in A; lia).
    assert (NoS0 : forall A, In ii (SGD l (S (S ii))) -> A) by (intros A0 A; apply SGD_in, SG_ge in A; lia).
    assert (NoI0 : forall A, In ii (IN l (S (S ii))) -> A) by (intros A0 A; apply IN_ge in A; lia).
    destruct (keepr y) eqn:Ky.
    - assert (E1 : memb (S ii) K = true) by (apply H1; right; left; left; reflexivity).
      destruct (SG l (S (S ii))) as [|z zs] eqn:E.
      + assert (E0 : memb ii K = false).
        { destruct (memb ii K); [|reflexivity]. exfalso. destruct (proj1 H0 eq_refl) as [[]|[[A|[]]|A]]; [lia| exact (NoI0 _ A)]. }
        rewrite E0, E1. cbn [app].
        assert (D : OUT1 l (S (S ii)) = []).
        { clear - E. revert E. generalize (S (S ii)). induction l as [|w l IHl]; intros b E; [reflexivity|].
          cbn [StateClass.SG OUT1] in *. destruct (keepr w); [discriminate| apply IHl; exact E]. }
        rewrite D. reflexivity.
      + assert (E0 : memb ii K = true) by (apply H0; left; left; reflexivity).
        rewrite E0, E1. reflexivity.
    - assert (E0 : memb ii K = false).
      { destruct (memb ii K); [|reflexivity]. exfalso. destruct (proj1 H0 eq_refl) as [A|[[]|A]]; [exact (NoS0 _ A)| exact (NoI0 _ A)]. }
      assert (E1 : memb (S ii) K = false).
      { destruct (memb (S ii) K); [|reflexivity]. exfalso. destruct (proj1 H1 eq_refl) as [A|[[]|A]]; [exact (NoS _ A)| exact (NoI _ A)]. }
      rewrite E0, E1. reflexivity.
  Qed.
End Remove2.

(* ---------------------------------------------------------------- assembling *)
Definition rpnl (F : list nat) : list tok :=
  match F with [] => [] | g :: gs => TF g :: flat_map (fun y => [TF y; TMul]) gs end.

Lemma filter_rev {A} (p : A -> bool) l : filter p (rev l) = rev (filter p l).
Proof.
  induction l as [|x l IH]; [reflexivity|]. cbn [rev filter]. rewrite filter_app, IH. cbn [filter].
  destruct (p x); cbn [rev]; [reflexivity| apply app_nil_r].
Qed.

Lemma rev_signed rest : rev (flat_map (fun y => [TF y; TMul]) rest) = pairs (rev rest).
Proof.
  unfold pairs. induction rest as [|y r IH]; [reflexivity|].
  change (flat_map (fun y0 => [TF y0; TMul]) (y :: r)) with ([TF y; TMul] ++ flat_map (fun y0 => [TF y0; TMul]) r).
  rewrite rev_app_distr, IH. cbn [rev app]. rewrite flat_map_app. reflexivity.
Qed.

Section Assemble.
  Variable rm : list nat.
  Notation keepr := (keepr rm).

  Lemma SG_nil_filter l : forall ii, SG rm l ii = [] -> filter keepr l = [].
  Proof. induction l as [|y l IH]; intros ii H; [reflexivity|]. cbn [SG filter] in *. destruct (keepr y); [discriminate| eapply IH; exact H]. Qed.
  Lemma SG_cons_filter l : forall ii z zs, SG rm l ii = z :: zs -> filter keepr l <> [].
  Proof.
    induction l as [|y l IH]; intros ii z zs H; [discriminate|]. cbn [SG filter] in *. destruct (keepr y); [discriminate|].
    eapply IH. exact H.
  Qed.

  Lemma rev_OUTK l : rev (OUTK rm l) = flat_map (fun y => [TF y; TMul]) (rev (filter keepr l)).
  Proof.
    unfold OUTK. induction l as [|y l IH]; [reflexivity|]. cbn [flat_map filter]. rewrite rev_app_distr, IH.
    destruct (keepr y); cbn [rev app]; [|rewrite app_nil_r; reflexivity]. rewrite flat_map_app. reflexivity.
  Qed.

  Lemma rev_OUT1 l : forall ii, rev (OUT1 rm l ii) = rpnl (rev (filter keepr l)).
  Proof.
    induction l as [|y l IH]; intros ii; [reflexivity|]. cbn [OUT1 filter]. destruct (keepr y); [|apply IH].
    destruct (SG rm l (S (S ii))) as [|z zs] eqn:E.
    - rewrite (SG_nil_filter l _ E). reflexivity.
    - pose proof (SG_cons_filter l _ z zs E) as Hne. rewrite rev_app_distr, IH. cbn [rev app].
      destruct (rev (filter keepr l)) as [|g gs] eqn:R.
      + exfalso. apply Hne. rewrite <- (rev_involutive (filter keepr l)), R. reflexivity.
      + cbn [rpnl app]. rewrite flat_map_app. cbn [flat_map app]. reflexivity.
  Qed.

  Theorem remove_flat f1 rest :
    remove_rpn (rpn (flat_outer (f1 :: rest))) rm = Some (rpnl (filter keepr (f1 :: rest))).
  Proof.
    unfold remove_rpn. rewrite rpn_flat_outer. cbn [rev]. rewrite rev_signed. set (l := rev rest).
    change (@nil nat) with (repeat 1 0) at 3.
    rewrite (loop_pairs rm l 0 [] [] 0 [TF f1]). rewrite !app_nil_r, Nat.add_0_r. cbn [Nat.add].
    assert (Frest : filter keepr rest = rev (filter keepr l)).
    { unfold l. rewrite filter_rev, rev_involutive. reflexivity. }
    assert (K1 : keepr f1 = negb (memb f1 rm)) by reflexivity.
    cbn [filter]. rewrite K1. cbn [remove_loop]. destruct (memb f1 rm) eqn:M; cbn [negb]; [|].
    2:{ (* the first field survives *)
      f_equal.
      rewrite kp_split. rewrite (kp_keep rm).
      + cbn [keep_positions Nat.add]. 
        assert (MN : memb (2 * List.length l) (rev (SG rm l 0) ++ 2 * List.length l :: rev (IN rm l 0)) = true).
        { apply memb_In. apply in_or_app. right. left. reflexivity. }
        rewrite MN. rewrite rev_app_distr. cbn [rev app rpnl]. rewrite rev_OUTK, Frest. reflexivity.
      + intros x Hx. rewrite memb_In, in_app_iff. cbn [In]. rewrite <- !in_rev. split.
        * intros [A|[A|A]]; [left; exact A| lia| right; exact A].
        * intros [A|A]; [left; exact A| right; right; exact A]. }
    - (* the first field is removed: the most recent surviving sign is popped *)
      assert (Res : forall sgn', (forall x, In x sgn' <-> In x (SGD rm l 0)) ->
                    rev (keep_positions (pairs l ++ [TF f1]) 0 (sgn' ++ rev (IN rm l 0))) = rpnl (filter keepr rest)).
      { intros sgn' Hs. rewrite kp_split. rewrite (kp_drop rm).
        - cbn [keep_positions Nat.add].
          assert (MN : memb (2 * List.length l) (sgn' ++ rev (IN rm l 0)) = false).
          { destruct (memb (2 * List.length l) (sgn' ++ rev (IN rm l 0))) eqn:E; [|reflexivity]. exfalso. apply memb_In in E. apply in_app_or in E as [E|E].
            - apply Hs, SGD_in, SG_lt in E. lia.
            - apply in_rev, IN_lt in E. lia. }
          rewrite MN, app_nil_r, rev_OUT1, Frest. reflexivity.
        - intros x Hx. rewrite memb_In, in_app_iff, <- in_rev, Hs. reflexivity. }
      destruct (SG rm l 0) as [|z zs] eqn:ES.
      + cbn [List.length repeat rev app]. f_equal. apply (Res []). intros x. rewrite <- removelast_SG, ES. reflexivity.
      + cbn [List.length repeat Nat.add Nat.leb]. f_equal. apply (Res (tl (rev (z :: zs)))).
        intros x. rewrite tl_rev, <- in_rev, <- ES, removelast_SG. reflexivity.
  Qed.
End Assemble.

(* ---------------------------------------------------------------- the class theorem *)
Lemma pruned_list_flds gone F : pruned_list gone (map Fld F) = map Fld (filter (keepf gone) F).
Proof.
  induction F as [|f F IH]; [reflexivity|]. cbn [map]. rewrite pruned_list_cons. cbn [prune filter]. unfold keepf at 1.
  destruct (memb f gone); cbn [negb map]; rewrite IH; reflexivity.
Qed.

Lemma leaves_flat_outer F : leaves (flat_outer F) = F.
Proof. unfold flat_outer. cbn [leaves]. induction F as [|f F IH]; cbn; [reflexivity| now rewrite IH]. Qed.

Lemma list_eqb_refl {A} (eqb : A -> A -> bool) (H : forall x y, eqb x y = true <-> x = y) l : list_eqb eqb l l = true.
Proof. apply (list_eqb_spec eqb H). reflexivity. Qed.

Theorem good_removal_flat_outer f1 f2 fs comb :
  NoDup (f1 :: f2 :: fs) -> comb <> [] -> (forall c, In c comb -> In c (f1 :: f2 :: fs)) ->
  good_removalb (flat_outer (f1 :: f2 :: fs)) comb = true.
Proof.
  intros N Hne Hsub. unfold good_removalb.
  rewrite (combiner_all_flat f1 f2 fs comb N Hne Hsub).
  rewrite (list_eqb_refl Nat.eqb Nat.eqb_eq). cbn [andb]. rewrite remove_flat.
  set (F := f1 :: f2 :: fs) in *. set (gone := linked (flat_outer F) comb).
  assert (Ef : filter (keepr (sort_set gone)) F = filter (keepf gone) F).
  { apply filter_ext. intros x. unfold keepr, keepf. f_equal. apply Bool.eq_true_iff_eq. rewrite !memb_In. apply sort_set_in. }
  rewrite Ef. unfold flat_outer at 1. rewrite prune_outer, pruned_list_flds.
  destruct (filter (keepf gone) F) as [|g gs] eqn:EF.
  - reflexivity.
  - cbn [map]. change (Outer (Fld g :: map Fld gs)) with (flat_outer (g :: gs)). rewrite rpn_flat_outer.
    apply (list_eqb_refl tok_eqb tok_eqb_eq).
Qed.

Theorem flat_outer_groups e f1 f2 fs comb :
  NoDup (f1 :: f2 :: fs) -> comb <> [] -> (forall c, In c comb -> In c (f1 :: f2 :: fs)) ->
  (forall f, In f (f1 :: f2 :: fs) -> nprod (e f) >= 1) ->
  groups_of (prepare_combined e (flat_outer (f1 :: f2 :: fs)) comb) = spec_groups e (flat_outer (f1 :: f2 :: fs)) comb.
Proof.
  intros N Hne Hsub Pos. set (F := f1 :: f2 :: fs) in *.
  assert (W : wfb (flat_outer F) = true).
  { unfold flat_outer, F. cbn [map wfb]. clear. cbn [forallb wfb]. induction fs as [|y r IH]; cbn; auto. }
  assert (Fl : flat_innerb (flat_outer F) = true).
  { unfold flat_outer. cbn [flat_innerb]. clear. induction F as [|y r IH]; cbn; auto. }
  assert (ND : NoDup (leaves (flat_outer F))) by (rewrite leaves_flat_outer; exact N).
  assert (Pos' : forall f, In f (leaves (flat_outer F)) -> nprod (e f) >= 1) by (rewrite leaves_flat_outer; exact Pos).
  rewrite (combined_pruned e (flat_outer F) comb W ND Hne Pos' (good_removal_flat_outer f1 f2 fs comb N Hne Hsub)).
  apply pruned_is_distinct; try assumption. apply linked_closed; assumption.
Qed.
