(* Proofs/HashExamples.v — the hypotheses of the C08 theorems are satisfiable on non-trivial values, and the
   PathLike-key witness is a genuine failure of discrimination (same digest, different values, no collision). *)
From Pydra Require Import Base.Prelude Base.PySort Model.Hash Spec.Hash Proofs.HashSort Proofs.HashCtx
     Proofs.HashInjStr Proofs.HashInj Proofs.HashOrder Proofs.HashDom Proofs.HashRefuted Proofs.HashTask.
Local Open Scope list_scope.
Local Open Scope string_scope.

(* {"k": [1, (2.5, b"x")], "s": {3, 4}} with an object inside *)
Definition ex_val : pyval :=
  VDict 1 [(VStr "k", VList 2 [VInt 1; VTuple 3 [VFloat (hx "0000000000000440"); VBytes "x"]]);
           (VStr "s", VSet 4 [VInt 3; VInt 4]);
           (VInt 7, VObj 5 "vmod.Pa" [("a", VNone); ("b", VPath "pathlib.PosixPath" "/x");
                                      ("arr", VNd 6 "numpyndarray" "float64" [2; 3] (hx "000000000000f03f0000000000000040"))])].

Example ex_inj_dom : inj_dom ex_val.
Proof. apply (inj_domb_sound 5). vm_compute. reflexivity. Qed.

Definition ex_val2 : pyval :=
  VDict 1 [(VStr "k", VList 2 [VInt 1; VTuple 3 [VFloat (hx "0000000000000440"); VBytes "x"]]);
           (VStr "s", VSet 4 [VInt 3; VInt 4]);
           (VStr "o", VObj 5 "vmod.Pa" [("a", VNone); ("b", VPath "pathlib.PosixPath" "/x")])].
Example ex_sortable : sortable ex_val2.
Proof. apply (sortableb_sound 5). vm_compute. reflexivity. Qed.

(* aliasing without a cycle: l = [1]; v = [l, l] *)
Definition ex_l : pyval := VList 1 [VInt 1].
Definition ex_v : pyval := VList 2 [ex_l; ex_l].
Definition ex_env (i : nat) : option pyval :=
  match i with 1 => Some ex_l | 2 => Some ex_v | _ => None end.

Example ex_wf : wf ex_env [] ex_v.
Proof.
  assert (Hint : forall o, wf ex_env o (VInt 1)).
  { intros o. constructor; [intros i; discriminate|intros i; discriminate|intros x []]. }
  assert (Hl : wf ex_env [2] ex_l).
  { constructor.
    - intros i; discriminate.
    - intros i E. inversion E; subst. split; [reflexivity|]. intros [E'|[]]. discriminate.
    - intros x [<-|[]]. apply Hint. }
  constructor.
  - intros i; discriminate.
  - intros i E. inversion E; subst. split; [reflexivity|intros []].
  - intros x [<-|[<-|[]]]; exact Hl.
Qed.

Example ex_hashable_acyclic : forall H, hashable_acyclic H ex_env ex_v.
Proof. intros H. split; [exact ex_wf|]. eexists. vm_compute. reflexivity. Qed.

(* the PathLike-key pair: different values, identical bytes, and no collision anywhere below them *)
Definition pk_a : pyval := pk_d1 (VInt 10115) (VStr "x").
Definition pk_b : pyval := pk_d2 toyH (VInt 10115) (VStr "x").

Lemma pathkey_not_discriminated :
  ~ veq pk_a pk_b /\ (exists d, digest toyH pk_a = Ok d /\ digest toyH pk_b = Ok d) /\
  ~ collision toyH (S (vdepth pk_a)) pk_a (S (vdepth pk_b)) pk_b.
Proof.
  split; [vm_compute; discriminate|]. split.
  - eexists. split; vm_compute; reflexivity.
  - apply no_collb_sound. vm_compute. reflexivity.
Qed.

(* ------------------------------------------------------------------ C07 *)
(* the same set seen in two sessions: other iteration order, other identity *)
Definition ex_s1 : pyval := VSet 3 [VInt 2; VInt 1].
Definition ex_s2 : pyval := VSet 4 [VInt 1; VInt 2].
Definition ex_env1 (i : nat) : option pyval := match i with 3 => Some ex_s1 | _ => None end.
Definition ex_env2 (i : nat) : option pyval := match i with 4 => Some ex_s2 | _ => None end.

Lemma wf_atom_int : forall env o z, wf env o (VInt z).
Proof. intros. constructor; [intros i; discriminate|intros i; discriminate|intros x []]. Qed.

Example ex_session_hyps :
  forall H,
    Proofs.HashTask.session_variant [("x", ex_s1)] [("x", ex_s2)] /\
    (forall kv, In kv [("x", ex_s1)] -> sortable (snd kv) /\ hashable_acyclic H ex_env1 (snd kv)) /\
    (forall kv, In kv [("x", ex_s2)] -> hashable_acyclic H ex_env2 (snd kv)).
Proof.
  intros H. split; [|split].
  - constructor; [|constructor]. split; [reflexivity|]. apply ro_set. apply Permutation.perm_swap.
  - intros kv [<-|[]]. cbn [snd]. split; [apply (sortableb_sound 3); vm_compute; reflexivity|]. split.
    + constructor; [intros i; discriminate| |].
      * intros i E. inversion E; subst. split; [reflexivity|intros []].
      * intros x [<-|[<-|[]]]; apply wf_atom_int.
    + eexists. vm_compute. reflexivity.
  - intros kv [<-|[]]. cbn [snd]. split.
    + constructor; [intros i; discriminate| |].
      * intros i E. inversion E; subst. split; [reflexivity|intros []].
      * intros x [<-|[<-|[]]]; apply wf_atom_int.
    + eexists. vm_compute. reflexivity.
Qed.

(* a task input frozenset({frozenset({1,2}), frozenset({3,4})}) in the two iteration orders two hash seeds give *)
Lemma checksum_seed_dependent :
  Proofs.HashTask.session_variant [("x", po_s1)] [("x", po_s2)] /\
  checksum toyH "python" [("x", po_s1)] <> checksum toyH "python" [("x", po_s2)].
Proof.
  split.
  - constructor; [|constructor]. split; [reflexivity|]. apply ro_fset. apply Permutation.perm_swap.
  - vm_compute. intros E. discriminate E.
Qed.
