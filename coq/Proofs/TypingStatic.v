(* Proofs/TypingStatic.v — C21: a connection accepted by the static check is honoured by the run-time coercion.

   [static_dynamic]: for tables satisfying the computable condition [tables_c21] (re-checked on the live tables on
   every run), in a world where every named path suits every format, if [check T t s] accepts, the target t is
   in the theorem's domain ([c21_target_ok]: hashable set-item / dict-key types), the value
   conforms to s and fits t's fixed tuple lengths, then [coerce T W false t v] is not a rejection. *)
From Pydra Require Import Base.Prelude Model.Typing Spec.Typing Proofs.Typing Proofs.TypingNss.
Local Open Scope string_scope.

(* ------------------------------------------------------------------ generic helpers *)
(* "not rejected": an accepted value, or a place where the model does not speak *)
Definition NR {A} (r : result A) : Prop := forall e, r = Err e -> e = EUnmodelled.
Definition NoOther {A} (r : result A) : Prop := r <> Err EOther.

Lemma NR_ok {A} (x : A) : NR (Ok x).
Proof. intros e H; discriminate. Qed.
Lemma NR_unm {A} : NR (@Err A EUnmodelled).
Proof. intros e H; now inversion H. Qed.

Lemma forall_res_ok {A} (f : A -> result unit) l : forall_res f l = Ok tt -> forall x, In x l -> f x = Ok tt.
Proof.
  induction l as [|y l IH]; cbn; intros H x [].
  - subst. destruct (f x) as [[]|]; [reflexivity|discriminate].
  - destruct (f y); [|discriminate]. auto.
Qed.

Lemma map_res_nr {A B} (f : A -> result B) l : Forall (fun x => NR (f x)) l -> NR (map_res f l).
Proof.
  induction 1 as [|x l Hx Hl IH]; cbn; [apply NR_ok|].
  destruct (f x) as [y|e] eqn:E.
  - destruct (map_res f l) as [ys|e] eqn:E2; [apply NR_ok|]. intros e' He. inversion He; subst. now apply IH.
  - intros e' He. inversion He; subst. now apply Hx.
Qed.

Lemma map_res_noother {A B} (f : A -> result B) l : (forall x, NoOther (f x)) -> NoOther (map_res f l).
Proof.
  intros Hf. induction l as [|x l IH]; cbn; [discriminate|].
  destruct (f x) as [y|e] eqn:E.
  - destruct (map_res f l) as [ys|e]; [discriminate|]. intros He. inversion He; subst. now apply IH.
  - intros He. inversion He; subst. now apply (Hf x).
Qed.

Lemma first_ok_nr {A B} (f : A -> result B) l :
  (exists x, In x l /\ NR (f x)) -> (forall x, In x l -> NoOther (f x)) -> NR (first_ok f l).
Proof.
  induction l as [|y l IH]; intros [x [Hx Hn]] Ho; [destruct Hx|]. cbn.
  destruct (f y) as [z|e] eqn:E; [apply NR_ok|]. destruct e.
  - apply IH.
    + destruct Hx as [->|Hx]; [|exists x; auto]. specialize (Hn _ E). discriminate.
    + intros a Ha. apply Ho. now right.
  - exfalso. apply (Ho y); [now left|exact E].
  - apply NR_unm.
Qed.

Lemma first_ok_noother {A B} (f : A -> result B) l : (forall x, In x l -> NoOther (f x)) -> NoOther (first_ok f l).
Proof.
  induction l as [|y l IH]; intros Hf; cbn; [discriminate|].
  destruct (f y) as [z|e] eqn:E; [discriminate|]. destruct e; [apply IH; intros; apply Hf; now right| |discriminate].
  exfalso. apply (Hf y); [now left|exact E].
Qed.

(* ------------------------------------------------------------------ conditions on the tables *)
Definition targets : list cls := scalar_value_classes.
Definition origins : list cls := [CList; CTuple; CSet; CFrozenset; CDict].
Definition static_classes : list cls := (scalar_bases ++ origins ++ [CMulti])%list.

Definition res_ok {A} (r : result A) : bool := match r with Ok _ => true | Err _ => false end.
Definition static_ok (T : tables) (k c : cls) : bool :=
  res_ok (check_type_coercible_gen T false false false (SCls k) c).
Definition dyn_ok (T : tables) (kv c : cls) : bool := res_ok (check_type_coercible T false kv c).
(* the class of a value conforming to a type whose head class is k *)
Definition belowb (T : tables) (kv k : cls) : bool :=
  cls_eqb k KAny || sub T kv k || (cls_eqb k CMulti && sub T kv CList).
Definition pathish_classes : list cls := [CStr; CPath; CFile FFile; CFile FText; CFile FDir].
(* the builtin whose behaviour values of class kv have *)
Definition shape_of_class (T : tables) (kv : cls) : cls :=
  match kv with KSub n => match nth_error (t_subs T) n with Some b => b | None => kv end | _ => kv end.
(* the constructor call [c(v)] cannot fail on a value of class kv (given a world that accepts every path) *)
Definition ctor_safe (T : tables) (kv c : cls) : bool :=
  match c with
  | CBool | CInt | CFloat | CStr => true
  | CPath | CFile _ => existsb (cls_eqb (shape_of_class T kv)) pathish_classes
  | _ => false
  end.

(* issubclass is transitive where the proof composes it *)
Definition tc_trans (T : tables) : bool :=
  forallb (fun kv => forallb (fun k => forallb (fun c =>
     implb (sub T kv k && sub T k c) (sub T kv c)) targets) (scalar_bases ++ origins)) (value_classes T).
(* a MultiInputObj field holds a plain list *)
Definition tc_multi (T : tables) : bool := forallb (fun c => implb (sub T CMulti c) (sub T CList c)) targets.
(* a Union source type is never coercible to a plain class (issubclass(typing.Union, ...) raises) *)
Definition tc_union (T : tables) : bool :=
  forallb (fun c => negb (res_ok (matches_criteria T (SUnionForm) c (t_coercible T)))) targets.
(* static coercibility of a class implies run-time coercibility (and a total constructor) of its subclasses *)
Definition tc_basic (T : tables) : bool :=
  forallb (fun k => forallb (fun c => forallb (fun kv =>
       implb (static_ok T k c && belowb T kv k)
             (is_subclass T kv c || (dyn_ok T kv c && ctor_safe T kv c))) (value_classes T)) targets) static_classes.
Definition tc_origin (T : tables) : bool :=
  forallb (fun k => forallb (fun o => forallb (fun kv =>
       implb (static_ok T k o && belowb T kv k && negb (cls_eqb k o))
             (is_subclass T kv o || dyn_ok T kv o)) (value_classes T)) origins) (origins ++ [CMulti]).
Definition tc_notfs (T : tables) : bool := forallb (fun o => negb (sub T o KFileSet)) origins.
(* no collection(-shaped value) is an instance of a scalar class *)
Definition tc_hash (T : tables) : bool :=
  forallb (fun kv => forallb (fun c => negb (sub T kv c)) scalar_value_classes) (classes_of_shapes T origins).
(* an instance of a container class has that container's shape *)
Definition tc_shape (T : tables) : bool :=
  forallb (fun kv => forallb (fun o => implb (sub T kv o) (cls_eqb (shape_of_class T kv) o)) origins) (value_classes T).
Definition tc_tuple (T : tables) : bool :=
  forallb (fun o => negb (sub T o CTuple)) [CList; CSet; CFrozenset; CDict; CMulti].
Definition tc_dict (T : tables) : bool := negb (static_ok T CTuple CDict).

Definition tables_c21 (T : tables) : bool :=
  tc_trans T && tc_multi T && tc_union T && tc_basic T && tc_origin T && tc_notfs T && tc_hash T && tc_tuple T
  && tc_dict T && tc_shape T.

Section Static.
Variable T : tables.
Variable W : world.
Hypothesis WF : tables_wf T = true.
Hypothesis TC : tables_c21 T = true.
Hypothesis WT : forall f p, w_check W f p = None.

Lemma tc_parts :
  tc_trans T = true /\ tc_multi T = true /\ tc_union T = true /\ tc_basic T = true /\ tc_origin T = true /\
  tc_notfs T = true /\ tc_hash T = true /\ tc_tuple T = true /\ tc_dict T = true /\ tc_shape T = true.
Proof. pose proof TC as H. unfold tables_c21 in H. rewrite !andb_true_iff in H. tauto. Qed.

Lemma h_trans kv k c : In kv (value_classes T) -> In k (scalar_bases ++ origins) -> In c targets ->
  sub T kv k = true -> sub T k c = true -> sub T kv c = true.
Proof.
  intros Hkv Hk Hc H1 H2. destruct tc_parts as [H _]. unfold tc_trans in H.
  rewrite forallb_forall in H. specialize (H _ Hkv). rewrite forallb_forall in H. specialize (H _ Hk).
  rewrite forallb_forall in H. specialize (H _ Hc). rewrite H1, H2 in H. exact H.
Qed.

Lemma h_multi c : In c targets -> sub T CMulti c = true -> sub T CList c = true.
Proof.
  intros Hc H1. destruct tc_parts as [_ [H _]]. unfold tc_multi in H.
  rewrite forallb_forall in H. specialize (H _ Hc). rewrite H1 in H. exact H.
Qed.

Lemma h_union c : In c targets -> res_ok (matches_criteria T SUnionForm c (t_coercible T)) = false.
Proof.
  intros Hc. destruct tc_parts as [_ [_ [H _]]]. unfold tc_union in H.
  rewrite forallb_forall in H. specialize (H _ Hc). now apply negb_true_iff in H.
Qed.

Lemma h_basic k c kv : In k static_classes -> In c targets -> In kv (value_classes T) ->
  static_ok T k c = true -> belowb T kv k = true ->
  is_subclass T kv c = true \/ (dyn_ok T kv c = true /\ ctor_safe T kv c = true).
Proof.
  intros Hk Hc Hkv H1 H2. destruct tc_parts as [_ [_ [_ [H _]]]]. unfold tc_basic in H.
  rewrite forallb_forall in H. specialize (H _ Hk). rewrite forallb_forall in H. specialize (H _ Hc).
  rewrite forallb_forall in H. specialize (H _ Hkv). rewrite H1, H2 in H. cbn in H.
  apply orb_true_iff in H. destruct H as [H|H]; [left; exact H|right; now apply andb_true_iff in H].
Qed.

Lemma h_origin k o kv : In k (origins ++ [CMulti]) -> In o origins -> In kv (value_classes T) ->
  static_ok T k o = true -> belowb T kv k = true -> cls_eqb k o = false ->
  is_subclass T kv o = true \/ dyn_ok T kv o = true.
Proof.
  intros Hk Ho Hkv H1 H2 H3. destruct tc_parts as [_ [_ [_ [_ [H _]]]]]. unfold tc_origin in H.
  rewrite forallb_forall in H. specialize (H _ Hk). rewrite forallb_forall in H. specialize (H _ Ho).
  rewrite forallb_forall in H. specialize (H _ Hkv). rewrite H1, H2, H3 in H. cbn in H.
  now apply orb_true_iff in H.
Qed.

Lemma h_notfs o : In o origins -> sub T o KFileSet = false.
Proof.
  intros Ho. destruct tc_parts as [_ [_ [_ [_ [_ [H _]]]]]]. unfold tc_notfs in H.
  rewrite forallb_forall in H. specialize (H _ Ho). now apply negb_true_iff in H.
Qed.

Lemma h_hash kv c : In kv (classes_of_shapes T origins) -> In c scalar_value_classes -> sub T kv c = false.
Proof.
  intros Hkv Hc. destruct tc_parts as [_ [_ [_ [_ [_ [_ [H _]]]]]]]. unfold tc_hash in H.
  rewrite forallb_forall in H. specialize (H _ Hkv). rewrite forallb_forall in H. specialize (H _ Hc).
  now apply negb_true_iff in H.
Qed.

Lemma h_tuple o : In o [CList; CSet; CFrozenset; CDict; CMulti] -> sub T o CTuple = false.
Proof.
  intros Ho. destruct tc_parts as [_ [_ [_ [_ [_ [_ [_ [H _]]]]]]]]. unfold tc_tuple in H.
  rewrite forallb_forall in H. specialize (H _ Ho). now apply negb_true_iff in H.
Qed.

Lemma h_dict : static_ok T CTuple CDict = false.
Proof. destruct tc_parts as [_ [_ [_ [_ [_ [_ [_ [_ [H _]]]]]]]]]. unfold tc_dict in H. now apply negb_true_iff in H. Qed.

Lemma h_shape kv o : In kv (value_classes T) -> In o origins -> sub T kv o = true -> shape_of_class T kv = o.
Proof.
  intros Hkv Ho Hs. destruct tc_parts as [_ [_ [_ [_ [_ [_ [_ [_ [_ H]]]]]]]]]. unfold tc_shape in H.
  rewrite forallb_forall in H. specialize (H _ Hkv). rewrite forallb_forall in H. specialize (H _ Ho).
  rewrite Hs in H. now apply cls_eqb_eq.
Qed.

Lemma shape_class v : shape_of_class T (class_of T v) = base_class v.
Proof.
  destruct (class_of_cases T v) as [->|[n [-> Hn]]].
  - pose proof (base_class_value v) as H. destruct (base_class v); try reflexivity. cbn in H. intuition discriminate.
  - cbn. now rewrite Hn.
Qed.

(* ------------------------------------------------------------------ nothing but the file system raises a non-TypeError *)
Lemma ctc_cls_err sac a b e : check_type_coercible T sac a b = Err e -> e = ETypeError.
Proof.
  unfold check_type_coercible, check_type_coercible_gen.
  assert (forall crit, exists m, matches_criteria T (SCls a) b crit = Ok m) as Hm.
  { induction crit as [|[x y] crit [m Hm]]; cbn; [eauto|]. rewrite Hm. eauto. }
  destruct (cls_eqb a b); [discriminate|]. destruct (sac && _); [discriminate|].
  destruct (Hm (t_coercible T)) as [m1 ->]. destruct m1; [|now inversion 1].
  destruct (Hm (t_not_coercible T)) as [m2 ->]. destruct m2; [now inversion 1|discriminate].
Qed.

Lemma check_coercible_err sac v c e : check_coercible T sac v c = Err e -> e = ETypeError.
Proof. unfold check_coercible. destruct (_ && _); [discriminate|]. apply ctc_cls_err. Qed.

Lemma dedupe_str_single x : dedupe_str [x] [] = [x].
Proof. reflexivity. Qed.

Lemma fileset_ctor_noother f ps : NoOther (fileset_ctor W f ps).
Proof.
  unfold fileset_ctor, NoOther.
  assert (forall l, existsb (fun p => match w_check W f p with Some EOther => true | _ => false end) l = false) as Hx.
  { induction l as [|p l IH]; cbn; [reflexivity|]. now rewrite WT. }
  rewrite Hx. destruct (dedupe_str _ _) as [|p [|q r]]; try discriminate. now rewrite WT.
Qed.

Lemma mk_set_noother fr l : NoOther (mk_set fr l).
Proof. unfold mk_set, NoOther. destruct (forallb hashable l); discriminate. Qed.

Lemma construct_container_noother c l : c <> CMulti -> In c (origins ++ [CMulti]) -> NoOther (construct_container c l).
Proof.
  intros Hn Hc. unfold NoOther. cbn in Hc.
  destruct Hc as [<-|[<-|[<-|[<-|[<-|[<-|[]]]]]]]; cbn; try discriminate; try apply mk_set_noother.
Qed.

Lemma construct_noother c v : NoOther (construct W c v).
Proof.
  unfold NoOther. destruct c; cbn; try discriminate.
  - destruct v; discriminate.
  - destruct (num_of v); discriminate.
  - destruct (py_str v); discriminate.
  - destruct v; try discriminate; destruct (bytes_of _); discriminate.
  - destruct v; discriminate.
  - destruct (is_pathish v); [apply fileset_ctor_noother|].
    destruct v; try discriminate; (destruct (all_some _); [apply fileset_ctor_noother|discriminate]).
  - destruct (iter v) as [l|e] eqn:E; [discriminate|]. destruct v; cbn in E; try discriminate; now inversion E.
  - destruct (iter v) as [l|e] eqn:E; [discriminate|]. destruct v; cbn in E; try discriminate; now inversion E.
  - destruct (iter v) as [l|e] eqn:E; [apply mk_set_noother|]. destruct v; cbn in E; try discriminate; now inversion E.
  - destruct (iter v) as [l|e] eqn:E; [apply mk_set_noother|]. destruct v; cbn in E; try discriminate; now inversion E.
  - destruct v; discriminate.
Qed.

Lemma iter_err v e : iter v = Err e -> e = ETypeError.
Proof. destruct v; cbn; try discriminate; now inversion 1. Qed.

Lemma enter_err sac o v e : enter T sac o v = Err e -> e = ETypeError.
Proof.
  unfold enter. destruct (is_instance T v o); [discriminate|].
  destruct (check_coercible T sac v o) eqn:E; [discriminate|]. inversion 1; subst. eapply check_coercible_err; eassumption.
Qed.

Lemma keep_noother o v items : NoOther (keep o v items).
Proof.
  unfold keep, NoOther. destruct o; try discriminate; destruct v as [| | | | | | | | | |k fr l0|]; try discriminate;
    destruct fr; try discriminate; destruct (forallb hashable items); discriminate.
Qed.

Lemma build_noother c v inst r : In c origins -> NoOther r -> NoOther (build c v inst r).
Proof.
  intros Hc Hr. unfold build. destruct r as [l|e]; [|intros He; inversion He; subst; now apply Hr].
  destruct inst; [apply keep_noother|].
  apply construct_container_noother; [|apply in_or_app; now left].
  intros ->. cbn in Hc. intuition discriminate.
Qed.

Lemma seq_noother sac o f v :
  In o origins -> (forall x, NoOther (f x)) -> NoOther (coerce_seq T sac o f v).
Proof.
  intros Ho Hf. unfold coerce_seq.
  destruct (enter T sac o v) as [inst|e] eqn:E; [|apply enter_err in E; subst; discriminate].
  destruct (iter v) as [items|e] eqn:Ei; [|apply iter_err in Ei; subst; discriminate].
  apply build_noother; [exact Ho|]. now apply map_res_noother.
Qed.

Lemma zip_noother (fs : list (val -> result val)) :
  Forall (fun f => forall x, NoOther (f x)) fs -> forall items, NoOther (zip_res fs items).
Proof.
  induction 1 as [|f fs Hf Hfs IH]; intros items; cbn; [discriminate|].
  destruct items as [|x items]; [discriminate|].
  destruct (f x) as [y|e] eqn:E1; [|intros He; inversion He; subst; now apply (Hf x)].
  destruct (zip_res fs items) as [ys|e] eqn:E2; [discriminate|]. intros He. inversion He; subst. now apply (IH items).
Qed.

Lemma dict_noother fk fx :
  (forall x, NoOther (fk x)) -> (forall x, NoOther (fx x)) -> forall kv acc, NoOther (dict_res fk fx kv acc).
Proof.
  intros Hk Hx. induction kv as [|[a b] kv IH]; intros acc; cbn; [discriminate|].
  destruct (fk a) as [a'|e] eqn:E1; [|intros He; inversion He; subst; now apply (Hk a)].
  destruct (fx b) as [b'|e] eqn:E2; [|intros He; inversion He; subst; now apply (Hx b)].
  destruct (hashable a'); [apply IH|discriminate].
Qed.

Lemma coerce_noother sac : forall t v, NoOther (coerce T W sac t v).
Proof.
  induction t as [c|a IHa|ts IHts|a IHa|k x IHk IHx|fr a IHa|ts IHts|a IHa] using ty_ind'; intros v; cbn [coerce].
  - unfold coerce_basic, NoOther. destruct (is_instance T v c); [discriminate|].
    destruct (check_coercible T sac v c) as [u|e] eqn:E; [apply construct_noother|].
    apply check_coercible_err in E. subst. discriminate.
  - apply seq_noother; [cbn; tauto|exact IHa].
  - unfold coerce_tuple.
    destruct (enter T sac CTuple v) as [cl|e] eqn:E; [|apply enter_err in E; subst; discriminate].
    destruct (iter v) as [items|e] eqn:Ei; [|apply iter_err in Ei; subst; discriminate].
    destruct (Nat.eqb _ _); [|discriminate].
    apply build_noother; [cbn; tauto|]. apply zip_noother.
    rewrite Forall_forall in *. intros f Hf. apply in_map_iff in Hf. destruct Hf as [p [<- Hp]]. now apply IHts.
  - apply seq_noother; [cbn; tauto|exact IHa].
  - unfold coerce_dict.
    destruct (enter T sac CDict v) as [cl|e] eqn:E; [|apply enter_err in E; subst; discriminate].
    destruct v; try discriminate.
    pose proof (dict_noother _ _ IHk IHx kv []) as Hd. unfold NoOther in *.
    destruct (dict_res _ _ kv []) as [d|e]; [discriminate|]. intros He. inversion He; subst. now apply Hd.
  - apply seq_noother; [destruct fr; cbn; tauto|exact IHa].
  - apply first_ok_noother. rewrite Forall_forall in IHts. intros a Ha. apply IHts, Ha.
  - unfold coerce_multi.
    assert (NoOther (wrap1 (coerce T W sac a v))) as Hw.
    { unfold wrap1, NoOther. destruct (coerce T W sac a v) as [y|e] eqn:E; [discriminate|].
      intros He. inversion He; subst. now apply (IHa v). }
    destruct (is_vstr T v); [exact Hw|].
    destruct (match iter v with Ok items => map_res (coerce T W sac a) items | Err e => Err e end) as [l|e] eqn:E;
      [discriminate|].
    destruct e; [exact Hw| |discriminate].
    exfalso. destruct (iter v) as [items|e] eqn:Ei; [|apply iter_err in Ei; subst; discriminate].
    revert E. now apply map_res_noother.
Qed.

(* ------------------------------------------------------------------ values of a type, by class *)
Lemma not_coll_hashable v : is_coll v = false -> hashable v = true.
Proof. destruct v; cbn; try discriminate; reflexivity. Qed.

Lemma is_instance_sub v c : c <> KAny -> is_instance T v c = sub T (class_of T v) c.
Proof.
  intros Hc. unfold is_instance, is_subclass. pose proof (class_of_not_any T v).
  destruct c; try congruence; destruct (class_of T v); try congruence; reflexivity.
Qed.

Lemma targets_not_any c : In c targets -> c <> KAny.
Proof. intros H ->. cbn in H. intuition discriminate. Qed.
Lemma scalar_value_not_any c : In c scalar_value_classes -> c <> KAny.
Proof. intros H ->. cbn in H. intuition discriminate. Qed.

Lemma coll_class_in v : is_coll v = true -> In (class_of T v) (classes_of_shapes T origins).
Proof. intros H. apply class_in_shapes. apply is_coll_shape in H. exact H. Qed.

Lemma instance_scalar_not_coll v c :
  In c scalar_value_classes -> is_instance T v c = true -> is_coll v = false.
Proof.
  intros Hc H. rewrite is_instance_sub in H by (now apply scalar_value_not_any).
  destruct (is_coll v) eqn:E; [|reflexivity]. apply coll_class_in in E.
  rewrite (h_hash _ _ E Hc) in H. discriminate.
Qed.

Lemma conforms_union_inv ts v : conforms T (TUnion ts) v -> exists a, In a ts /\ conforms T a v.
Proof.
  cbn [conforms]. induction ts as [|a ts IH]; [intros []|]. intros [H|H].
  - exists a; split; [now left|exact H].
  - destruct (IH H) as [b [Hb Hc]]. exists b; split; [now right|exact Hc].
Qed.

Definition is_base (s : ty) : bool := match s with TBase _ => true | _ => false end.
Definition is_union (s : ty) : bool := match s with TUnion _ => true | _ => false end.

Lemma py_isinstance_sub v o : o <> KAny -> py_isinstance T v o = true -> sub T (class_of T v) o = true.
Proof. intros Ho H. unfold py_isinstance in H. destruct o; try exact H; congruence. Qed.

Lemma belowb_sub kv k : sub T kv k = true -> belowb T kv k = true.
Proof. intros H. unfold belowb. rewrite H. now rewrite orb_true_r. Qed.

(* a value of a container type: its class, its items *)
Lemma conforms_coll s v :
  is_base s = false -> is_union s = false -> conforms T s v ->
  is_coll v = true /\ iter v = Ok (items_of v) /\ belowb T (class_of T v) (origin_of s) = true /\
  Forall (fun x => exists a, In a (fst (targs s)) /\ conforms T a x) (items_of v).
Proof.
  intros Hb Hu Hc.
  destruct s as [c|a|ts|a|k x|fr a|ts|a]; try discriminate; cbn [conforms] in Hc; destruct Hc as [Hi Hc].
  - destruct Hc as [g [l [-> Hl]]]. split; [reflexivity|]. split; [reflexivity|].
    split; [apply belowb_sub, py_isinstance_sub; [discriminate|exact Hi]|].
    cbn. eapply Forall_impl; [|exact Hl]. intros x Hx. exists a. split; [now left|exact Hx].
  - destruct Hc as [g [l [-> Hl]]]. split; [reflexivity|]. split; [reflexivity|].
    split; [apply belowb_sub, py_isinstance_sub; [discriminate|exact Hi]|].
    cbn [items_of targs fst]. clear Hb Hu Hi. revert l Hl. induction ts as [|a ts IH]; intros [|x l] Hl; try contradiction; [constructor|].
    destruct Hl as [Hx Hl]. constructor.
    + exists a. split; [now left|exact Hx].
    + eapply Forall_impl; [|apply IH, Hl]. intros y [b [Hb' Hy]]. exists b. split; [now right|exact Hy].
  - destruct Hc as [g [l [-> Hl]]]. split; [reflexivity|]. split; [reflexivity|].
    split; [apply belowb_sub, py_isinstance_sub; [discriminate|exact Hi]|].
    cbn. eapply Forall_impl; [|exact Hl]. intros x Hx. exists a. split; [now left|exact Hx].
  - destruct Hc as [g [kv [-> Hl]]]. split; [reflexivity|]. split; [reflexivity|].
    split; [apply belowb_sub, py_isinstance_sub; [discriminate|exact Hi]|].
    cbn [items_of targs fst]. clear Hi Hb Hu. induction Hl as [|[a b] kv [Ha _] _ IH]; cbn; [constructor|].
    constructor; [|exact IH]. exists k. split; [now left|exact Ha].
  - destruct Hc as [g [l [-> Hl]]]. split; [reflexivity|]. split; [reflexivity|].
    split; [apply belowb_sub, py_isinstance_sub; [destruct fr; discriminate|exact Hi]|].
    cbn. eapply Forall_impl; [|exact Hl]. intros x Hx. exists a. split; [now left|exact Hx].
  - destruct Hc as [g [l [-> Hl]]]. split; [reflexivity|]. split; [reflexivity|].
    split; [unfold belowb; cbn [origin_of cls_eqb]; rewrite (py_isinstance_sub _ CList ltac:(discriminate) Hi);
            cbn; apply orb_true_r|].
    cbn. eapply Forall_impl; [|exact Hl]. intros x Hx. exists a. split; [now left|exact Hx].
Qed.

Lemma conforms_below s v :
  is_union s = false -> conforms T s v -> belowb T (class_of T v) (origin_of s) = true.
Proof.
  intros Hu Hc. destruct (is_base s) eqn:Hb.
  - destruct s; try discriminate. cbn [conforms] in Hc. unfold belowb, py_isinstance in *. cbn [origin_of].
    destruct c; first [reflexivity | (unfold sub; rewrite Hc; cbn; rewrite ?orb_true_r; reflexivity)].
  - now apply conforms_coll.
Qed.

Lemma targs_scalar s : scalar_based s = true -> Forall (fun a => scalar_based a = true) (fst (targs s)).
Proof.
  destruct s as [c|a|ts|a|k x|fr a|ts|a]; cbn [targs fst scalar_based]; intros H.
  - constructor.
  - constructor; [exact H|constructor].
  - apply Forall_forall. rewrite forallb_forall in H. exact H.
  - constructor; [exact H|constructor].
  - apply andb_true_iff in H. destruct H. constructor; [assumption|]. constructor; [assumption|constructor].
  - constructor; [exact H|constructor].
  - apply Forall_forall. rewrite forallb_forall in H. exact H.
  - constructor; [exact H|constructor].
Qed.

(* ------------------------------------------------------------------ plain-class targets *)
Lemma is_subclass_ty_unfold s c :
  c <> KAny ->
  is_subclass_ty T s c =
  match s with
  | TBase KAny => false
  | TUnion ts => forallb (fun a => is_subclass_ty T a c) ts
  | _ => sub T (origin_of s) c
  end.
Proof. intros Hc. destruct s; destruct c; try congruence; reflexivity. Qed.

Lemma subclass_ty_instance c (Hc : In c targets) :
  forall s v, scalar_based s = true -> is_subclass_ty T s c = true -> conforms T s v -> is_instance T v c = true.
Proof.
  pose proof (targets_not_any _ Hc) as Hn.
  assert (forall v o, In o origins -> py_isinstance T v o = true -> sub T o c = true ->
                      sub T (class_of T v) c = true) as Hcont.
  { intros v o Ho Hi Hs. eapply (h_trans _ o); [apply class_of_value|apply in_or_app; now right|exact Hc| |exact Hs].
    apply py_isinstance_sub; [|exact Hi]. intros ->. cbn in Ho. intuition discriminate. }
  induction s as [k|a IHa|ts IHts|a IHa|k x IHk IHx|fr a IHa|ts IHts|a IHa] using ty_ind';
    intros v Hs H Hv; rewrite is_subclass_ty_unfold in H by exact Hn; rewrite is_instance_sub by exact Hn.
  - destruct (cls_eqb k KAny) eqn:Ek; [apply cls_eqb_eq in Ek; subst; discriminate|].
    assert (sub T k c = true) as H' by (destruct k; try exact H; discriminate).
    cbn [conforms] in Hv. unfold py_isinstance in Hv.
    assert (sub T (class_of T v) k = true) as Hv' by (destruct k; try exact Hv; discriminate).
    cbn [scalar_based] in Hs. apply existsb_exists in Hs. destruct Hs as [k' [Hk' Heq]]. apply cls_eqb_eq in Heq. subst k'.
    eapply (h_trans _ k); [apply class_of_value|apply in_or_app; now left|exact Hc|exact Hv'|exact H'].
  - destruct Hv as [Hi _]. apply (Hcont v CList); [cbn; tauto|exact Hi|exact H].
  - destruct Hv as [Hi _]. apply (Hcont v CTuple); [cbn; tauto|exact Hi|exact H].
  - destruct Hv as [Hi _]. apply (Hcont v CTuple); [cbn; tauto|exact Hi|exact H].
  - destruct Hv as [Hi _]. apply (Hcont v CDict); [cbn; tauto|exact Hi|exact H].
  - destruct Hv as [Hi _]. destruct fr; [apply (Hcont v CFrozenset)|apply (Hcont v CSet)]; try exact Hi; try exact H; cbn; tauto.
  - apply conforms_union_inv in Hv. destruct Hv as [a [Ha Hv]].
    rewrite forallb_forall in H. cbn [scalar_based] in Hs. rewrite forallb_forall in Hs. rewrite Forall_forall in IHts.
    rewrite <- is_instance_sub by exact Hn. eapply IHts; eauto.
  - destruct Hv as [Hi _]. cbn [origin_of] in H. apply (Hcont v CList); [cbn; tauto|exact Hi|now apply h_multi].
Qed.

Lemma ctor_safe_nr v c : ctor_safe T (class_of T v) c = true -> NR (construct W c v).
Proof.
  intros H. destruct c; cbn [ctor_safe] in H; try (exfalso; discriminate H); cbn [construct].
  - apply NR_ok.
  - destruct v; try apply NR_ok; apply NR_unm.
  - destruct (num_of v); [apply NR_ok|apply NR_unm].
  - destruct (py_str v); [apply NR_ok|apply NR_unm].
  - rewrite shape_class in H.
    destruct v as [| | | | | | |f'| | |k fr|]; try destruct fr; cbn in H; try discriminate; apply NR_ok.
  - rewrite shape_class in H.
    assert (exists s, is_pathish v = Some s) as [s ->].
    { destruct v as [| | | | | | |f'| | |k fr|]; try destruct fr; cbn in H; try discriminate; cbn; eauto. }
    unfold fileset_ctor. cbn [map dedupe_str existsb rev app]. rewrite WT. cbn. apply NR_ok.
Qed.

Lemma dyn_basic_nr v c :
  dyn_ok T (class_of T v) c = true -> ctor_safe T (class_of T v) c = true -> NR (coerce_basic T W false c v).
Proof.
  intros Hd Hs. unfold coerce_basic. destruct (is_instance T v c); [apply NR_ok|].
  assert (exists u, check_coercible T false v c = Ok u) as [u ->].
  { unfold check_coercible. destruct (_ && _); [eauto|]. unfold dyn_ok in Hd.
    destruct (check_type_coercible T false (class_of T v) c); [eauto|discriminate]. }
  now apply ctor_safe_nr.
Qed.

Lemma static_ok_of same s c :
  same = false -> check_type_coercible_gen T false same false s c = Ok tt ->
  res_ok (check_type_coercible_gen T false false false s c) = true.
Proof. intros -> H. now rewrite H. Qed.

Lemma origin_static s : scalar_based s = true -> is_union s = false -> In (origin_of s) static_classes.
Proof.
  intros Hs Hu. unfold static_classes.
  destruct s as [c|a|ts|a|k x|fr a|ts|a]; try discriminate; cbn [origin_of].
  - cbn [scalar_based] in Hs. apply existsb_exists in Hs. destruct Hs as [k' [Hk' Heq]]. apply cls_eqb_eq in Heq.
    subst. apply in_or_app. now left.
  - apply in_or_app; right; cbn; tauto.
  - apply in_or_app; right; cbn; tauto.
  - apply in_or_app; right; cbn; tauto.
  - apply in_or_app; right; cbn; tauto.
  - destruct fr; apply in_or_app; right; cbn; tauto.
  - apply in_or_app; right; cbn; tauto.
Qed.

Lemma basic_nr c s v :
  In c targets -> scalar_based s = true -> check_basic T s c = Ok tt -> conforms T s v ->
  NR (coerce_basic T W false c v).
Proof.
  intros Hc Hs H Hv. unfold check_basic in H.
  destruct (is_subclass_ty T s c) eqn:E.
  { unfold coerce_basic. rewrite (subclass_ty_instance c Hc s v Hs E Hv). apply NR_ok. }
  destruct (is_union s) eqn:Hu.
  { destruct s; try discriminate. cbn in H. unfold check_type_coercible_gen in H. cbn in H.
    pose proof (h_union c Hc) as Hx. destruct (matches_criteria T SUnionForm c (t_coercible T)); [discriminate|discriminate]. }
  set (same := match s with TBase k => cls_eqb k c | _ => false end) in H.
  destruct same eqn:Esame.
  { destruct s; try discriminate. subst same. apply cls_eqb_eq in Esame. subst c0.
    cbn [conforms] in Hv. unfold coerce_basic. rewrite <- (py_isinstance_is_instance T v c), Hv. apply NR_ok. }
  assert (src_of s = SCls (origin_of s)) as Hsrc by (destruct s; try discriminate; reflexivity).
  rewrite Hsrc in H. pose proof (static_ok_of _ _ _ eq_refl H) as Hst.
  destruct (h_basic (origin_of s) c (class_of T v) (origin_static s Hs Hu) Hc (class_of_value T v) Hst
              (conforms_below s v Hu Hv)) as [Hi|[Hd Hctor]].
  - unfold coerce_basic, is_instance. rewrite Hi. apply NR_ok.
  - now apply dyn_basic_nr.
Qed.

(* ------------------------------------------------------------------ whatever is stored under a hashable_ty type is hashable *)
Lemma zip_res_all (g : ty -> val -> result val) (Q : val -> Prop) : forall ts items l,
  Forall (fun a => forall x y, g a x = Ok y -> Q y) ts -> zip_res (map g ts) items = Ok l -> Forall Q l.
Proof.
  induction ts as [|a ts IH]; intros items l HF H; cbn in H.
  - inversion H; constructor.
  - destruct items as [|x items]; [inversion H; constructor|].
    inversion HF as [|? ? Ha Hts]; subst.
    destruct (g a x) as [y|] eqn:E; [|discriminate].
    destruct (zip_res (map g ts) items) as [ys|] eqn:E2; [|discriminate]. inversion H; subst.
    constructor; [eapply Ha; exact E|eapply IH; eauto].
Qed.

Lemma hashable_out sac : forall a, hashable_ty a = true ->
  forall x y, coerce T W sac a x = Ok y -> hashable y = true.
Proof.
  induction a as [c|a IHa|ts IHts|a IHa|k x0 IHk IHx|fr a IHa|ts IHts|a IHa] using ty_ind';
    intros Ha x y H; cbn [hashable_ty] in Ha; try discriminate; cbn [coerce] in H.
  - apply existsb_exists in Ha. destruct Ha as [c' [Hc' Heq]]. apply cls_eqb_eq in Heq. subst c'.
    apply not_coll_hashable. unfold coerce_basic in H. destruct (is_instance T x c) eqn:E.
    + inversion H; subst. eapply instance_scalar_not_coll; eassumption.
    + destruct (check_coercible T sac x c); [|discriminate]. apply (construct_class T) in H. destruct H as [Hcls Hbase].
      destruct (is_coll y) eqn:Ey; [|reflexivity]. exfalso. apply is_coll_shape in Ey.
      assert (base_class y = c) as Hb.
      { destruct (class_of_cases T y) as [E'|[n [E' _]]]; [congruence|].
        rewrite E' in Hcls. subst c. cbn in Hbase. intuition congruence. }
      rewrite Hb in Ey. cbn in Hc', Ey. intuition congruence.
  - destruct (coerce_tuple_shape T WF sac _ _ _ H) as [_ [items [l [k [_ [_ [Hz ->]]]]]]]. cbn.
    apply forallb_forall.
    assert (Forall (fun z => hashable z = true) l) as HF.
    { eapply (zip_res_all (coerce T W sac)); [|exact Hz].
      rewrite forallb_forall in Ha. rewrite Forall_forall in *. intros p Hp x' y' Hc. eapply IHts; eauto. }
    rewrite Forall_forall in HF. exact HF.
  - destruct (coerce_seq_shape T WF sac _ _ _ _ H) as [_ [items [l [_ [Hl [[k ->] _]]]]]]. cbn.
    apply map_res_ok in Hl. apply forallb_forall.
    assert (Forall (fun z => hashable z = true) l) as HF.
    { eapply Forall2_right; [exact Hl|]. intros i z' _ HR. exact (IHa Ha _ _ HR). }
    rewrite Forall_forall in HF. exact HF.
  - destruct fr; [|discriminate].
    destruct (coerce_seq_shape T WF sac _ _ _ _ H) as [_ [items [l [_ [_ [[k ->] _]]]]]]. reflexivity.
  - apply first_ok_ok in H. destruct H as [a [Hin Hc]].
    rewrite forallb_forall in Ha. rewrite Forall_forall in IHts. eapply IHts; eauto.
Qed.

(* ------------------------------------------------------------------ container targets *)
Lemma container_args_inv po s args ell :
  container_args T po s = Ok (args, ell) ->
  is_base s = false /\ is_union s = false /\ targs s = (args, ell) /\
  check_type_coercible_gen T false (cls_eqb (origin_of s) po) false (SCls (origin_of s)) po = Ok tt.
Proof.
  unfold container_args.
  destruct s as [c|a|ts|a|k x|fr a|ts|a]; try discriminate; cbn [src_of origin_of];
    try (destruct (check_type_coercible_gen T false _ false _ po) as [[]|] eqn:E; [|discriminate];
         intros H; inversion H; subst; repeat split; reflexivity).
Qed.

Lemma origin_container s : is_base s = false -> is_union s = false -> In (origin_of s) (origins ++ [CMulti]).
Proof. destruct s as [c|a|ts|a|k x|fr a|ts|a]; try discriminate; intros _ _; try destruct fr; cbn; tauto. Qed.

Lemma origins_not_any o : In o origins -> o <> KAny /\ o <> CMulti.
Proof. intros H. split; intros ->; cbn in H; intuition discriminate. Qed.

Lemma enter_static o s v :
  In o origins -> is_base s = false -> is_union s = false ->
  check_type_coercible_gen T false (cls_eqb (origin_of s) o) false (SCls (origin_of s)) o = Ok tt ->
  conforms T s v ->
  exists inst, enter T false o v = Ok inst /\ (inst = true -> base_class v = o).
Proof.
  intros Ho Hb Hu Hst Hv. destruct (conforms_coll s v Hb Hu Hv) as [_ [_ [Hbelow _]]].
  destruct (origins_not_any o Ho) as [Hna Hnm].
  unfold enter. destruct (is_instance T v o) eqn:E.
  - exists true. split; [reflexivity|]. intros _. rewrite is_instance_sub in E by exact Hna.
    rewrite <- shape_class. apply h_shape; [apply class_of_value|exact Ho|exact E].
  - exists false. split; [|discriminate].
    assert (check_coercible T false v o = check_type_coercible T false (class_of T v) o) as ->.
    { unfold check_coercible. rewrite (h_notfs o Ho). now rewrite andb_false_r. }
    rewrite is_instance_sub in E by exact Hna.
    destruct (cls_eqb (origin_of s) o) eqn:Esame.
    + apply cls_eqb_eq in Esame. rewrite Esame in Hbelow. unfold belowb in Hbelow. rewrite E in Hbelow.
      destruct o; cbn in Hbelow; try discriminate; congruence.
    + pose proof (static_ok_of _ _ _ eq_refl Hst) as Hs.
      destruct (h_origin _ _ _ (origin_container s Hb Hu) Ho (class_of_value T v) Hs Hbelow Esame) as [Hi|Hd].
      * unfold is_subclass in Hi. pose proof (class_of_not_any T v).
        destruct o; try congruence; destruct (class_of T v); try congruence; rewrite Hi in E; discriminate.
      * unfold dyn_ok in Hd. destruct (check_type_coercible T false (class_of T v) o); [reflexivity|discriminate].
Qed.

Lemma keep_nr o v l :
  In o [CList; CTuple; CSet; CFrozenset] -> base_class v = o ->
  (o = CSet \/ o = CFrozenset -> forallb hashable l = true) -> NR (keep o v l).
Proof.
  intros Ho Hb Hh. unfold keep.
  destruct Ho as [<-|[<-|[<-|[<-|[]]]]];
    destruct v as [| | | | | | |f| | |k fr l0|]; try destruct fr; try destruct f; cbn in Hb; try discriminate;
    try apply NR_ok; rewrite Hh by tauto; apply NR_ok.
Qed.

Lemma coerce_seq_nr o f v :
  In o [CList; CTuple; CSet; CFrozenset] ->
  (exists inst, enter T false o v = Ok inst /\ (inst = true -> base_class v = o)) ->
  iter v = Ok (items_of v) ->
  Forall (fun x => NR (f x)) (items_of v) ->
  (o = CSet \/ o = CFrozenset -> forall x y, f x = Ok y -> hashable y = true) ->
  NR (coerce_seq T false o f v).
Proof.
  intros Ho [inst [He Hinst]] Hi HF Hh. unfold coerce_seq. rewrite He, Hi. unfold build.
  destruct (map_res f (items_of v)) as [l|e] eqn:E.
  - assert (o = CSet \/ o = CFrozenset -> forallb hashable l = true) as Hl.
    { intros Hs. apply forallb_forall. intros y Hy. apply map_res_ok in E.
      assert (Forall (fun y => hashable y = true) l) as HF'.
      { eapply Forall2_right; [exact E|]. intros x y' _ HR. exact (Hh Hs _ _ HR). }
      rewrite Forall_forall in HF'. auto. }
    destruct inst; [apply keep_nr; auto|].
    destruct Ho as [<-|[<-|[<-|[<-|[]]]]]; cbn [construct_container]; try apply NR_ok;
      unfold mk_set; rewrite Hl by tauto; apply NR_ok.
  - intros e' He'. inversion He'; subst. exact (map_res_nr f _ HF _ E).
Qed.

Definition IHP (p : ty) : Prop :=
  forall s v, scalar_based s = true -> check T p s = Ok tt -> conforms T s v -> arity_ok p v = true ->
              NR (coerce T W false p v).

Lemma items_nr pa (IHp : IHP pa) args items :
  forall_res (check T pa) args = Ok tt -> Forall (fun a => scalar_based a = true) args ->
  Forall (fun x => exists a, In a args /\ conforms T a x) items -> forallb (arity_ok pa) items = true ->
  Forall (fun x => NR (coerce T W false pa x)) items.
Proof.
  intros Hc Hs Hi Ha. rewrite Forall_forall in *. rewrite forallb_forall in Ha. intros x Hx.
  destruct (Hi x Hx) as [a [Hin Hconf]]. apply (IHp a x); auto. now apply (forall_res_ok _ _ Hc).
Qed.

Lemma vstr_not_coll v : is_coll v = true -> is_vstr T v = false.
Proof.
  intros H. apply coll_class_in in H. unfold is_vstr.
  rewrite !is_instance_sub by discriminate.
  rewrite (h_hash _ CStr H ltac:(cbn; tauto)), (h_hash _ CBytes H ltac:(cbn; tauto)). reflexivity.
Qed.

(* the view check_tuple takes of the source arguments *)
Lemma tuple_args_inv s args ell args' ell' :
  is_base s = false -> is_union s = false -> targs s = (args, ell) -> tuple_args T s (args, ell) = Ok (args', ell') ->
  args' = args /\
  ((ell' = true /\ exists a, args = [a]) \/ (ell' = false /\ exists ts, s = TTuple ts /\ args = ts)).
Proof.
  intros Hb Hu Ht. unfold tuple_args. cbn [fst].
  destruct (sub T (origin_of s) CTuple) eqn:Es.
  - intros H. inversion H; subst. split; [reflexivity|].
    destruct s as [c|a|ts|a|k x|fr a|ts|a]; try discriminate; cbn in Ht; inversion Ht; subst; cbn [origin_of] in Es;
      try (rewrite h_tuple in Es by (try destruct fr; cbn; tauto); discriminate).
    + right. eauto.
    + left. eauto.
  - destruct args as [|a [|b r]]; try discriminate. intros H. inversion H; subst. split; [reflexivity|]. left. eauto.
Qed.

Lemma zip_nr_var a : forall ps items,
  Forall IHP ps -> scalar_based a = true -> (forall p, In p ps -> check T p a = Ok tt) ->
  Forall (conforms T a) items ->
  (fix go (ts : list ty) (l : list val) : bool :=
     match ts, l with a :: r, x :: xs => arity_ok a x && go r xs | _, _ => true end) ps items = true ->
  NR (zip_res (map (coerce T W false) ps) items).
Proof.
  induction ps as [|p ps IH]; intros items HP Hs Hc Hi Ha; cbn; [apply NR_ok|].
  destruct items as [|x items]; [apply NR_ok|].
  inversion HP as [|? ? Hp HPs]; subst. inversion Hi as [|? ? Hx Hxs]; subst.
  apply andb_true_iff in Ha. destruct Ha as [Ha1 Ha2].
  pose proof (Hp a x Hs (Hc p (or_introl eq_refl)) Hx Ha1) as Hn.
  destruct (coerce T W false p x) as [y|e] eqn:E; [|intros e' He'; inversion He'; subst; now apply Hn].
  pose proof (IH items HPs Hs (fun q Hq => Hc q (or_intror Hq)) Hxs Ha2) as Hn2.
  destruct (zip_res _ items) as [ys|e]; [apply NR_ok|]. intros e' He'. inversion He'; subst. now apply Hn2.
Qed.

Lemma zip_nr_fixed : forall ps ts items,
  Forall IHP ps -> Forall (fun a => scalar_based a = true) ts ->
  (fix go (ps args : list ty) : result unit :=
     match ps, args with
     | p' :: pr, a :: ar => match check T p' a with Err e => Err e | Ok _ => go pr ar end
     | _, _ => Ok tt
     end) ps ts = Ok tt ->
  (fix go (ts : list ty) (l : list val) : Prop :=
     match ts, l with [], [] => True | a :: r, x :: xs => conforms T a x /\ go r xs | _, _ => False end) ts items ->
  (fix go (ts : list ty) (l : list val) : bool :=
     match ts, l with a :: r, x :: xs => arity_ok a x && go r xs | _, _ => true end) ps items = true ->
  NR (zip_res (map (coerce T W false) ps) items).
Proof.
  induction ps as [|p ps IH]; intros ts items HP Hs Hc Hi Ha; cbn; [apply NR_ok|].
  destruct items as [|x items]; [apply NR_ok|].
  destruct ts as [|a ts]; [contradiction|]. destruct Hi as [Hx Hxs].
  inversion HP as [|? ? Hp HPs]; subst. inversion Hs as [|? ? Hsa Hsts]; subst.
  apply andb_true_iff in Ha. destruct Ha as [Ha1 Ha2].
  destruct (check T p a) as [[]|] eqn:Ec; [|discriminate].
  pose proof (Hp a x Hsa Ec Hx Ha1) as Hn.
  destruct (coerce T W false p x) as [y|e] eqn:E; [|intros e' He'; inversion He'; subst; now apply Hn].
  pose proof (IH ts items HPs Hsts Hc Hxs Ha2) as Hn2.
  destruct (zip_res _ items) as [ys|e]; [apply NR_ok|]. intros e' He'. inversion He'; subst. now apply Hn2.
Qed.

Lemma dict_res_nr fk fx : forall kv acc,
  Forall (fun p => NR (fk (fst p)) /\ (forall y, fk (fst p) = Ok y -> hashable y = true) /\ NR (fx (snd p))) kv ->
  NR (dict_res fk fx kv acc).
Proof.
  induction kv as [|[a b] kv IH]; intros acc H; cbn; [apply NR_ok|].
  inversion H as [|? ? [H1 [H2 H3]] Hr]; subst. cbn in H1, H2, H3.
  destruct (fk a) as [a'|e] eqn:Ea; [|intros e' He'; inversion He'; subst; now apply H1].
  destruct (fx b) as [b'|e] eqn:Eb; [|intros e' He'; inversion He'; subst; now apply H3].
  rewrite (H2 _ eq_refl). now apply IH.
Qed.

Lemma base_target c :
  c21_target_ok (TBase c) = true -> c = KAny \/ In c targets.
Proof.
  cbn [c21_target_ok]. intros H.
  apply orb_true_iff in H. destruct H as [H|H]; [left; now apply cls_eqb_eq|right].
  apply existsb_exists in H. destruct H as [c' [Hin Heq]]. apply cls_eqb_eq in Heq. now subst c'.
Qed.

Lemma check_union_inv ps s v :
  check T (TUnion ps) s = Ok tt -> conforms T s v -> scalar_based s = true ->
  exists p' s', In p' ps /\ check T p' s' = Ok tt /\ conforms T s' v /\ scalar_based s' = true.
Proof.
  intros H Hv Hs.
  destruct s as [c|a|ts|a|k x|fr a|ts|a]; cbn [check] in H;
    try (apply first_ok_ok in H; destruct H as [p' [Hin Hc]]; destruct (check T p' _) as [[]|] eqn:E in Hc; 
         try discriminate; eexists p', _; repeat split; eassumption).
  apply conforms_union_inv in Hv. destruct Hv as [a [Ha Hv]].
  pose proof (forall_res_ok _ _ H a Ha) as H1. cbn beta in H1.
  apply first_ok_ok in H1. destruct H1 as [p' [Hin Hc]].
  cbn [scalar_based] in Hs. rewrite forallb_forall in Hs.
  exists p', a. repeat split; auto.
Qed.

(* ------------------------------------------------------------------ the main induction *)
Theorem static_dynamic_check :
  forall t, c21_target_ok t = true -> IHP t.
Proof.
  induction t as [c|pa IHa|ps IHps|pa IHa|pk pv IHk IHv|fr pa IHa|ps IHps|pa IHa] using ty_ind';
    intros Hok s v Hs H Hv Har.
  - (* plain class *)
    cbn [coerce]. destruct (base_target c Hok) as [->|Hc].
    + unfold coerce_basic, is_instance, is_subclass. apply NR_ok.
    + cbn [check] in H. eapply basic_nr; eassumption.
  - (* list[pa] *)
    cbn [c21_target_ok] in Hok. cbn [check] in H. cbn [coerce].
    destruct (container_args T CList s) as [[args ell]|] eqn:Ec; [|discriminate].
    destruct (container_args_inv _ _ _ _ Ec) as [Hb [Hu [Ht Hst]]].
    destruct (conforms_coll s v Hb Hu Hv) as [Hcoll [Hiter [_ Hitems]]]. rewrite Ht in Hitems. cbn [fst] in Hitems.
    assert (forall_res (check T pa) args = Ok tt) as Hf by (destruct args; [discriminate|exact H]).
    pose proof (targs_scalar s Hs) as Hsa. rewrite Ht in Hsa. cbn [fst] in Hsa.
    apply coerce_seq_nr; [cbn; tauto|eapply enter_static; eauto; cbn; tauto|exact Hiter| |intros [E|E]; discriminate].
    eapply (items_nr pa (IHa Hok)); eauto.
  - (* tuple[p1..pn] *)
    cbn [c21_target_ok] in Hok. cbn [check] in H. cbn [coerce].
    destruct (container_args T CTuple s) as [[args ell]|] eqn:Ec; [|discriminate].
    destruct (container_args_inv _ _ _ _ Ec) as [Hb [Hu [Ht Hst]]].
    destruct (conforms_coll s v Hb Hu Hv) as [Hcoll [Hiter [_ Hitems]]]. rewrite Ht in Hitems. cbn [fst] in Hitems.
    pose proof (targs_scalar s Hs) as Hsa. rewrite Ht in Hsa. cbn [fst] in Hsa.
    assert (Forall IHP ps) as HP.
    { rewrite forallb_forall in Hok. rewrite Forall_forall in *. intros p Hp. apply IHps; auto. }
    cbn [arity_ok] in Har. rewrite Hcoll in Har. cbn in Har. apply andb_true_iff in Har. destruct Har as [Hlen Hgo].
    apply Nat.eqb_eq in Hlen.
    assert (NR (zip_res (map (coerce T W false) ps) (items_of v))) as Hz.
    { destruct (tuple_args T s (args, ell)) as [[args' ell']|] eqn:Eta; [|discriminate].
      destruct (tuple_args_inv _ _ _ _ _ Hb Hu Ht Eta) as [-> [[-> [a ->]]|[-> [ts [-> ->]]]]].
      - inversion Hsa; subst.
        apply (zip_nr_var a); auto.
        + intros p Hp. apply (forall_res_ok _ _ H p Hp).
        + eapply Forall_impl; [|exact Hitems]. intros x [a' [[<-|[]] Hx]]. exact Hx.
      - destruct (Nat.eqb _ _); [|discriminate].
        destruct Hv as [_ [g [l [-> Hl]]]]. cbn [items_of] in *.
        eapply zip_nr_fixed; eauto. }
    destruct (enter_static CTuple s v ltac:(cbn; tauto) Hb Hu Hst Hv) as [inst [He Hinst]].
    unfold coerce_tuple. rewrite He, Hiter.
    rewrite map_length, Hlen, Nat.eqb_refl. unfold build.
    destruct (zip_res _ (items_of v)) as [l|e] eqn:E.
    + destruct inst; [apply keep_nr; [cbn; tauto|auto|intros [E'|E']; discriminate]|apply NR_ok].
    + intros e' He'. inversion He'; subst. now apply Hz.
  - (* tuple[pa, ...] *)
    cbn [c21_target_ok] in Hok. cbn [check] in H. cbn [coerce].
    destruct (container_args T CTuple s) as [[args ell]|] eqn:Ec; [|discriminate].
    destruct (container_args_inv _ _ _ _ Ec) as [Hb [Hu [Ht Hst]]].
    destruct (conforms_coll s v Hb Hu Hv) as [Hcoll [Hiter [_ Hitems]]]. rewrite Ht in Hitems. cbn [fst] in Hitems.
    pose proof (targs_scalar s Hs) as Hsa. rewrite Ht in Hsa. cbn [fst] in Hsa.
    assert (forall_res (check T pa) args = Ok tt) as Hf.
    { destruct (tuple_args T s (args, ell)) as [[args' ell']|] eqn:Eta; [|discriminate].
      destruct (tuple_args_inv _ _ _ _ _ Hb Hu Ht Eta) as [-> [[-> [a ->]]|[-> _]]].
      - cbn. now rewrite H.
      - exact H. }
    apply coerce_seq_nr; [cbn; tauto|eapply enter_static; eauto; cbn; tauto|exact Hiter| |intros [E|E]; discriminate].
    eapply (items_nr pa (IHa Hok)); eauto.
  - (* dict[pk, pv] *)
    cbn [c21_target_ok] in Hok. apply andb_true_iff in Hok. destruct Hok as [Hok Hokv].
    apply andb_true_iff in Hok. destruct Hok as [Hokk Hhk].
    cbn [check] in H. cbn [coerce].
    destruct (container_args T CDict s) as [[args ell]|] eqn:Ec; [|discriminate].
    destruct (container_args_inv _ _ _ _ Ec) as [Hb [Hu [Ht Hst]]].
    destruct args as [|k [|x [|? ?]]]; try discriminate.
    destruct s as [c|a|ts|a|k' x'|fr a|ts|a]; try discriminate; cbn in Ht; inversion Ht; subst.
    + (* a 2-tuple source cannot be coercible to a dict *)
      cbn [origin_of] in Hst. pose proof (static_ok_of _ _ _ eq_refl Hst) as Hx.
      fold (static_ok T CTuple CDict) in Hx. rewrite h_dict in Hx. discriminate.
    + destruct (check T pk k) as [[]|] eqn:Ek; [|discriminate].
      cbn [scalar_based] in Hs. apply andb_true_iff in Hs. destruct Hs as [Hsk Hsx].
      destruct Hv as [Hinst [g [kv [-> Hkv]]]]. cbn [arity_ok] in Har. rewrite forallb_forall in Har.
      unfold coerce_dict.
      assert (enter T false CDict (VDict g kv) = Ok true) as ->.
      { unfold enter. rewrite <- py_isinstance_is_instance. now rewrite Hinst. }
      assert (NR (dict_res (coerce T W false pk) (coerce T W false pv) kv [])) as Hd.
      { apply dict_res_nr. rewrite Forall_forall in *. intros [a b] Hp. destruct (Hkv _ Hp) as [Ha Hb']. cbn in *.
        specialize (Har _ Hp). cbn in Har. apply andb_true_iff in Har. destruct Har as [Ar1 Ar2].
        repeat split.
        - apply (IHk Hokk k a); auto.
        - intros y Hy. eapply hashable_out; eauto.
        - apply (IHv Hokv x b); auto. }
      destruct (dict_res _ _ kv []) as [d|e]; [apply NR_ok|]. intros e' He'. inversion He'; subst. now apply Hd.
  - (* set[pa] / frozenset[pa] *)
    cbn [c21_target_ok] in Hok. apply andb_true_iff in Hok. destruct Hok as [Hok Hh].
    cbn [check] in H. cbn [coerce]. set (o := if fr then CFrozenset else CSet) in *.
    assert (In o [CList; CTuple; CSet; CFrozenset]) as Ho by (destruct fr; cbn; tauto).
    assert (In o origins) as Ho' by (destruct fr; cbn; tauto).
    destruct (container_args T o s) as [[args ell]|] eqn:Ec; [|discriminate].
    destruct (container_args_inv _ _ _ _ Ec) as [Hb [Hu [Ht Hst]]].
    destruct (conforms_coll s v Hb Hu Hv) as [Hcoll [Hiter [_ Hitems]]]. rewrite Ht in Hitems. cbn [fst] in Hitems.
    assert (forall_res (check T pa) args = Ok tt) as Hf by (destruct args; [discriminate|exact H]).
    pose proof (targs_scalar s Hs) as Hsa. rewrite Ht in Hsa. cbn [fst] in Hsa.
    apply coerce_seq_nr; [exact Ho|eapply enter_static; eauto|exact Hiter| |].
    + eapply (items_nr pa (IHa Hok)); eauto.
    + intros _ x y Hy. eapply hashable_out; eauto.
  - (* Union *)
    cbn [c21_target_ok] in Hok. cbn [coerce].
    destruct (check_union_inv ps s v H Hv Hs) as [p' [s' [Hin [Hc [Hv' Hs']]]]].
    apply first_ok_nr; [|intros; apply coerce_noother].
    exists p'. split; [exact Hin|].
    rewrite forallb_forall in Hok. rewrite Forall_forall in IHps.
    cbn [arity_ok] in Har. rewrite forallb_forall in Har.
    apply (IHps p' Hin (Hok p' Hin) s' v); auto.
  - (* MultiInputObj[pa], accepted as a sequence *)
    cbn [c21_target_ok] in Hok. cbn [check] in H. cbn [coerce].
    destruct (container_args T CMulti s) as [[args ell]|] eqn:Ec; [|discriminate].
    destruct (container_args_inv _ _ _ _ Ec) as [Hb [Hu [Ht Hst]]].
    destruct (conforms_coll s v Hb Hu Hv) as [Hcoll [Hiter [_ Hitems]]]. rewrite Ht in Hitems. cbn [fst] in Hitems.
    assert (forall_res (check T pa) args = Ok tt) as Hf by (destruct args; [discriminate|exact H]).
    pose proof (targs_scalar s Hs) as Hsa. rewrite Ht in Hsa. cbn [fst] in Hsa.
    cbn [arity_ok] in Har. apply andb_true_iff in Har. destruct Har as [_ Har].
    unfold coerce_multi. rewrite (vstr_not_coll v Hcoll), Hiter.
    assert (NR (map_res (coerce T W false pa) (items_of v))) as Hm.
    { apply map_res_nr. eapply (items_nr pa (IHa Hok)); eauto. }
    destruct (map_res _ (items_of v)) as [l|e]; [apply NR_ok|].
    rewrite (Hm e eq_refl). apply NR_unm.
Qed.

(* TypeParser(t).check_type(s): the check above, or — for a MultiInputObj target — the check against its item type *)
Lemma check_type_unfold p s :
  s <> TBase KAny ->
  check_type T p s =
  match check T p s with
  | Err ETypeError =>
      match p with
      | TMulti a => match check_type T a s with Ok _ => Ok tt | Err e => Err e end
      | _ => Err ETypeError
      end
  | r => r
  end.
Proof. intros Hs. destruct p; destruct s as [[]| | | | | | |]; try reflexivity; congruence. Qed.

Theorem static_dynamic :
  forall t s v, c21_target_ok t = true -> scalar_based s = true -> s <> TBase KAny ->
    check_type T t s = Ok tt -> conforms T s v -> arity_ok t v = true ->
    NR (coerce T W false t v).
Proof.
  induction t as [c|pa IHa|ps IHps|pa IHa|pk pv IHk IHv|fr pa IHa|ps IHps|pa IHa] using ty_ind';
    intros s v Hok Hs Hna H Hv Har; rewrite check_type_unfold in H by exact Hna;
    try (apply (static_dynamic_check _ Hok s v Hs); [|exact Hv|exact Har];
         destruct (check T _ s) as [[]|[]]; try discriminate; reflexivity).
  destruct (check T (TMulti pa) s) as [[]|e] eqn:Ec.
  - apply (static_dynamic_check _ Hok s v Hs Ec Hv Har).
  - destruct e; try discriminate.
    destruct (check_type T pa s) as [[]|] eqn:Ea; [|discriminate].
    cbn [c21_target_ok] in Hok. cbn [arity_ok] in Har. apply andb_true_iff in Har. destruct Har as [Har _].
    pose proof (IHa s v Hok Hs Hna Ea Hv Har) as Hn.
    cbn [coerce]. unfold coerce_multi.
    assert (NR (wrap1 (coerce T W false pa v))) as Hw.
    { unfold wrap1. destruct (coerce T W false pa v) as [y|e]; [apply NR_ok|].
      intros e' He'. inversion He'; subst. now apply Hn. }
    destruct (is_vstr T v); [exact Hw|].
    destruct (match iter v with Ok items => map_res (coerce T W false pa) items | Err e => Err e end) as [l|e] eqn:E;
      [apply NR_ok|].
    destruct e; [exact Hw| |apply NR_unm].
    exfalso. destruct (iter v) as [items|e] eqn:Ei; [|apply iter_err in Ei; subst; discriminate].
    revert E. apply map_res_noother. intros x. apply coerce_noother.
Qed.

End Static.
