(* Model/DictRT.v — pydra/utils/general.py: unstructure / structure / filter_out_defaults, with the part of
   define() that structure() relies on (compose/base/helpers.py ensure_field_objects, the field
   converters of compose/base/field.py, the merge of outarg fields into the inputs and the position
   pass of compose/shell/builder.py).  Attribute schemas (names, order, defaults, converters) are
   parameters: the driver reads them from the live field classes on every run. *)
From Pydra Require Import Base.Prelude.
Local Open Scope string_scope.

(* ---------------------------------------------------------------- attribute values *)
Inductive scalar :=
| SNone
| SBool (b : bool)
| SInt (z : Z)
| SStr (s : string)
| SObj (id : string)        (* a class, type alias, function, enum member ...: compared by identity *)
| SNoDefault.               (* NO_DEFAULT *)

Definition req := (string * option (list scalar))%type.    (* Requirement(name, allowed_values) *)

(* values held by a field object *)
Inductive aval :=
| AS (s : scalar)
| AList (l : list scalar)
| ATuple (l : list scalar)
| ASet (l : list scalar)                  (* set / frozenset in its iteration order *)
| ADict (l : list (string * scalar))
| AReqs (l : list (list req)).            (* list[RequirementSet] *)

(* values found in the dictionary form *)
Inductive uval :=
| US (s : scalar)
| UList (l : list scalar)
| UDict (l : list (string * scalar))
| UReqs (l : list (list req)).            (* [{"requirements": [{"name": n (, "allowed_values": [..])}]}];
                                             the option is "key present" *)

(* Python == *)
Definition seq (a b : scalar) : bool :=
  match a, b with
  | SNone, SNone => true
  | SBool x, SBool y => Bool.eqb x y
  | SInt x, SInt y => Z.eqb x y
  | SBool x, SInt y | SInt y, SBool x => Z.eqb y (if x then 1 else 0)%Z
  | SStr x, SStr y => String.eqb x y
  | SObj x, SObj y => String.eqb x y
  | SNoDefault, SNoDefault => true
  | _, _ => false
  end.

Definition sub_s (a b : list scalar) : bool := forallb (fun x => existsb (seq x) b) a.
Definition kv_eq (a b : string * scalar) : bool := String.eqb (fst a) (fst b) && seq (snd a) (snd b).
Definition sub_kv (a b : list (string * scalar)) : bool := forallb (fun x => existsb (kv_eq x) b) a.
Definition req_eq (a b : req) : bool :=
  String.eqb (fst a) (fst b) && option_eqb (list_eqb seq) (snd a) (snd b).

Definition aeq (a b : aval) : bool :=
  match a, b with
  | AS x, AS y => seq x y
  | AList x, AList y => list_eqb seq x y
  | ATuple x, ATuple y => list_eqb seq x y
  | ASet x, ASet y => sub_s x y && sub_s y x
  | ADict x, ADict y => sub_kv x y && sub_kv y x
  | AReqs x, AReqs y => list_eqb (list_eqb req_eq) x y
  | _, _ => false
  end.

(* syntactic equality *)
Definition scalar_eqb (a b : scalar) : bool :=
  match a, b with
  | SNone, SNone | SNoDefault, SNoDefault => true
  | SBool x, SBool y => Bool.eqb x y
  | SInt x, SInt y => Z.eqb x y
  | SStr x, SStr y | SObj x, SObj y => String.eqb x y
  | _, _ => false
  end.
Definition kv_eqb (a b : string * scalar) : bool := String.eqb (fst a) (fst b) && scalar_eqb (snd a) (snd b).
Definition req_eqb (a b : req) : bool :=
  String.eqb (fst a) (fst b) && option_eqb (list_eqb scalar_eqb) (snd a) (snd b).
Definition aval_eqb (a b : aval) : bool :=
  match a, b with
  | AS x, AS y => scalar_eqb x y
  | AList x, AList y | ATuple x, ATuple y | ASet x, ASet y => list_eqb scalar_eqb x y
  | ADict x, ADict y => list_eqb kv_eqb x y
  | AReqs x, AReqs y => list_eqb (list_eqb req_eqb) x y
  | _, _ => false
  end.

(* ---------------------------------------------------------------- schemas and fields *)
Inductive conv :=
| CvId
| CvFrozenset            (* converter=frozenset *)
| CvRequires             (* requires_converter *)
| CvDefault.             (* convert_default_value: TypeParser coercion to the field's type *)

Record attr := { aname : string; adefault : aval; aconv : conv }.   (* Factory defaults: the factory's product *)
Definition schema := list attr.

Inductive fclass := CArg | COut | COutarg.

(* what TypeParser turns a serialised default into, as far as the container kind goes *)
Inductive shape := ShScalar | ShList | ShTuple | ShSet | ShDict | ShAny.

Record frec := {
  fcls : fclass;
  fname : string;
  fvals : list (string * aval)                  (* every attribute but `name`, in schema order *)
}.

Record taskcls := {
  tkind : string;                               (* "python" | "shell" *)
  tname : string;
  texec : scalar;                               (* function / executable *)
  cinputs : list frec;                          (* get_fields(cls) minus executor and BASE_ATTRS; outarg fields included *)
  coutputs : list frec;                         (* get_fields(cls.Outputs) minus BASE_ATTRS; outarg fields included *)
  cxor : list (list (option string))
}.

Record taskdict := {
  dkind : string;
  dname : string;
  dexec : scalar;
  dinputs : list (string * list (string * uval));
  doutputs : list (string * list (string * uval));
  dxor : list (list (option string))
}.

Section WithSchemas.
  Variable sch : fclass -> schema.

  Definition default_of (c : fclass) (a : string) : option aval :=
    match find (fun x => String.eqb (aname x) a) (sch c) with Some x => Some (adefault x) | None => None end.

  (* ---------------------------------------------------------------- unstructure *)
  (* full_val_serializer (after attrs.asdict recursed into RequirementSet / Requirement with the same filter) *)
  Definition ser (v : aval) : uval :=
    match v with
    | AS s => US s
    | AList l | ATuple l | ASet l => UList l
    | ADict l => UDict l
    | AReqs l => UReqs l
    end.

  (* filter_out_defaults: `value == atr.default` (or the Factory's product) *)
  Definition is_default (c : fclass) (a : string) (v : aval) : bool :=
    match default_of c a with Some d => aeq v d | None => false end.

  Definition unstructure_field (r : frec) : list (string * uval) :=
    flat_map (fun p => if is_default (fcls r) (fst p) (snd p) then [] else [(fst p, ser (snd p))]) (fvals r).

  Definition is_outarg (r : frec) : bool := match fcls r with COutarg => true | _ => false end.

  Definition unstructure (c : taskcls) : taskdict :=
    {| dkind := tkind c; dname := tname c; dexec := texec c;
       dinputs := map (fun r => (fname r, unstructure_field r)) (filter (fun r => negb (is_outarg r)) (cinputs c));
       doutputs := map (fun r => (fname r, unstructure_field r)) (coutputs c);
       dxor := cxor c |}.

  (* ---------------------------------------------------------------- structure = define applied to the dictionary *)
  Definition coerce (sh : shape) (u : uval) : aval :=
    match u with
    | US s => AS s
    | UList l => match sh with ShTuple => ATuple l | ShSet => ASet l | _ => AList l end
    | UDict l => ADict l
    | UReqs l => AReqs l
    end.

  Definition convert (cv : conv) (sh : shape) (u : uval) : aval :=
    match cv, u with
    | CvFrozenset, UList l => ASet l
    | CvRequires, UReqs l => AReqs l
    | CvDefault, _ => coerce sh u
    | _, US s => AS s
    | _, UList l => AList l
    | _, UDict l => ADict l
    | _, UReqs l => AReqs l
    end.

  Definition lookup {A} (k : string) (l : list (string * A)) : option A :=
    match find (fun p => String.eqb (fst p) k) l with Some p => Some (snd p) | None => None end.

  Definition has_key {A} (k : string) (l : list (string * A)) : bool :=
    existsb (fun p => String.eqb (fst p) k) l.

  (* the field class called with the dictionary as keywords: unexpected keyword -> TypeError; missing attributes take their defaults *)
  (* the container kind of the field's type: the driver's table for type objects ([type_shape]),
     looked up through the "type" entry of the dictionary or, when absent, the schema default *)
  Variable type_shape : string -> shape.
  Definition shape_of_type (v : option aval) : shape :=
    match v with Some (AS (SObj id)) => type_shape id | _ => ShAny end.
  Definition dict_shape (c : fclass) (d : list (string * uval)) : shape :=
    match lookup "type" d with
    | Some (US s) => shape_of_type (Some (AS s))
    | Some _ => ShAny
    | None => shape_of_type (default_of c "type")
    end.

  Definition restore (c : fclass) (n : string) (d : list (string * uval)) : option frec :=
    let sh := dict_shape c d in
    if forallb (fun p => existsb (fun x => String.eqb (aname x) (fst p)) (sch c)) d then
      Some {| fcls := c; fname := n;
              fvals := map (fun x => (aname x, match lookup (aname x) d with
                                               | Some u => convert (aconv x) sh u
                                               | None => adefault x
                                               end)) (sch c) |}
    else None.

  (* ensure_field_objects: an output dict is an outarg iff it has the key "path_template" *)
  Definition out_class (d : list (string * uval)) : fclass :=
    if has_key "path_template" d then COutarg else COut.

  Fixpoint all_some {A} (l : list (option A)) : option (list A) :=
    match l with
    | [] => Some []
    | None :: _ => None
    | Some x :: r => match all_some r with Some r' => Some (x :: r') | None => None end
    end.

  (* position pass of shell define(): only fields whose position is None get one *)
  Variable fresh_position : list frec -> frec -> aval.
  Definition position_is_none (r : frec) : bool :=
    match lookup "position" (fvals r) with Some (AS SNone) => true | _ => false end.
  Definition set_position (p : aval) (r : frec) : frec :=
    {| fcls := fcls r; fname := fname r;
       fvals := map (fun q => if String.eqb (fst q) "position" then (fst q, p) else q) (fvals r) |}.
  Definition assign_positions (l : list frec) : list frec :=
    map (fun r => if position_is_none r then set_position (fresh_position l r) r else r) l.

  Definition structure (d : taskdict) : option taskcls :=
    match all_some (map (fun p => restore CArg (fst p) (snd p)) (dinputs d)),
          all_some (map (fun p => restore (out_class (snd p)) (fst p) (snd p)) (doutputs d)) with
    | Some ins, Some outs =>
        let outargs := filter is_outarg outs in
        let ins' := assign_positions (ins ++ outargs) in
        (* outarg objects are shared between inputs and outputs: they carry the assigned position in both *)
        let outs' := map (fun r => if is_outarg r
                                   then match find (fun q => String.eqb (fname q) (fname r)) (filter is_outarg ins') with
                                        | Some q => q | None => r end
                                   else r) outs in
        Some {| tkind := dkind d; tname := dname d; texec := dexec d;
                cinputs := ins'; coutputs := outs'; cxor := dxor d |}
    | _, _ => None
    end.

  (* ---------------------------------------------------------------- computable side conditions
     (what define() guarantees for a class it built, and the excluded classes of C32_partial) *)
  Definition field_shape (r : frec) : shape := shape_of_type (lookup "type" (fvals r)).

  Definition conv_of (c : fclass) (a : string) : conv :=
    match find (fun x => String.eqb (aname x) a) (sch c) with Some x => aconv x | None => CvId end.

  (* every attribute that is written to the dictionary comes back through its converter *)
  Definition reconvertibleb (r : frec) : bool :=
    forallb (fun p => is_default (fcls r) (fst p) (snd p)
                      || aeq (convert (conv_of (fcls r) (fst p)) (field_shape r) (ser (snd p))) (snd p)) (fvals r).

  Definition completeb (r : frec) : bool :=
    list_eqb String.eqb (map fst (fvals r)) (map aname (sch (fcls r))).

  Fixpoint nodupb (l : list string) : bool :=
    match l with [] => true | x :: r => negb (existsb (String.eqb x) r) && nodupb r end.

  Definition schema_okb : bool :=
    nodupb (map aname (sch CArg)) && nodupb (map aname (sch COut)) && nodupb (map aname (sch COutarg))
    && negb (existsb (fun x => String.eqb (aname x) "path_template") (sch COut)).

  (* an outarg is recognised again only if its path_template is written to the dictionary *)
  Definition templatedb (r : frec) : bool :=
    match fcls r with
    | COutarg => match lookup "path_template" (fvals r) with
                 | Some v => negb (is_default COutarg "path_template" v)
                 | None => false
                 end
    | _ => true
    end.

  Definition frec_eqb (a b : frec) : bool :=
    match fcls a, fcls b with CArg, CArg | COut, COut | COutarg, COutarg => true | _, _ => false end
    && String.eqb (fname a) (fname b)
    && list_eqb (fun p q => String.eqb (fst p) (fst q) && aval_eqb (snd p) (snd q)) (fvals a) (fvals b).

  (* shape of a class built by define(): inputs are the plain arguments followed by the outarg fields of the
     outputs; plain arguments are args, outputs are outs or outargs; names are unique; every field that has
     a position attribute has a position *)
  Definition wf_clsb (c : taskcls) : bool :=
    let plain := filter (fun r => negb (is_outarg r)) (cinputs c) in
    list_eqb frec_eqb (cinputs c) (plain ++ filter is_outarg (coutputs c))
    && forallb (fun r => match fcls r with CArg => true | _ => false end) plain
    && forallb (fun r => match fcls r with CArg => false | _ => true end) (coutputs c)
    && nodupb (map fname (coutputs c))
    && forallb completeb (cinputs c) && forallb completeb (coutputs c)
    && forallb (fun r => negb (position_is_none r)) (cinputs c).

  Definition restorableb (c : taskcls) : bool :=
    forallb reconvertibleb (cinputs c) && forallb reconvertibleb (coutputs c)
    && forallb templatedb (coutputs c).
End WithSchemas.
