(* Proofs/ShellContrib.v — C22/C23: what _command_pos_args/_format_arg return for one field is the reference
   contribution, for every field and value inside [field_ok]. *)
From Pydra Require Import Base.Prelude Base.Shlex Model.Shell Spec.Shell Proofs.Shlex Proofs.ShellStr
  Proofs.ShellTemplate Proofs.ShellField.
Local Open Scope char_scope.
Local Open Scope list_scope.

Lemma la_eqb_refl a : la_eqb a a = true.
Proof. unfold la_eqb. induction a as [|c a IH]; cbn; [reflexivity|]. now rewrite Ascii.eqb_refl, IH. Qed.
Lemma la_eqb_eq a b : la_eqb a b = true -> a = b.
Proof. unfold la_eqb. apply (list_eqb_spec Ascii.eqb ascii_eqb_iff). Qed.

Lemma map_result_good {A B} (f : A -> result B) (h : A -> B) l :
  (forall x, In x l -> f x = Good (h x)) -> map_result f l = Good (map h l).
Proof.
  induction l as [|x l IH]; intros H; [reflexivity|]. cbn [map_result map].
  rewrite (H x (or_introl eq_refl)). cbn [bind]. rewrite IH by (intros y Hy; apply H; now right). reflexivity.
Qed.

Lemma argstr_strip n ws dots : dots_text_ok n ws dots = true ->
  replace_all ellipsis [] (render_words n ws ++ (if dots then ellipsis else [])) = render_words n ws
  /\ ends_with ellipsis (render_words n ws ++ (if dots then ellipsis else [])) = dots.
Proof.
  unfold dots_text_ok. destruct dots; intros H; apply negb_true_iff in H.
  - split; [now apply repl_ellipsis_tail|apply ends_with_app].
  - rewrite app_nil_r. split; [now apply repl_absent|].
    destruct (ends_with ellipsis (render_words n ws)) eqn:E; [|reflexivity].
    apply ends_with_occurs in E. congruence.
Qed.

Lemma atom_ok_inv ws a : atom_ok ws a = true ->
  benign_text (render_atom a) = true /\ (has_ph ws = true \/ truthy_atom a = true).
Proof.
  unfold atom_ok, atom_benign. intros H. apply andb_true_iff in H as [H1 H2]. split; [exact H1|].
  apply orb_true_iff in H2. tauto.
Qed.

Definition field_hyps (f : sfield) (ws : list word) (dots : bool) : Prop :=
  sf_argstr f = SA ws dots /\ valid_ident (sf_name f) = true /\ forallb word_ok ws = true
  /\ dots_text_ok (sf_name f) ws dots = true.

Section OneField.
Variables (f : sfield) (ws : list word) (dots : bool).
Hypothesis FH : field_hyps f ws dots.
Let Ha : sf_argstr f = SA ws dots := proj1 FH.
Let Hn : valid_ident (sf_name f) = true := proj1 (proj2 FH).
Let Hws : forallb word_ok ws = true := proj1 (proj2 (proj2 FH)).
Let Hdt : dots_text_ok (sf_name f) ws dots = true := proj2 (proj2 (proj2 FH)).

Let argstr := render_words (sf_name f) ws ++ (if dots then ellipsis else []).
Lemma f_argstr_eq : f_argstr (to_field f) = Some argstr.
Proof. unfold to_field. cbn. now rewrite Ha. Qed.

(* a single atom through _format_arg *)
Lemma format_atom valsM valsS a : lookup valsM (sf_name f) = VAtom a ->
  atom_ok ws a = true -> inert ws valsS (render_atom a) = true ->
  format_arg (to_field f) argstr valsM = Good (occurrence ws valsS (render_atom a)).
Proof.
  intros Hl Hok Hin. destruct (atom_ok_inv ws a Hok) as [Hb Ht].
  unfold format_arg. change (f_name (to_field f)) with (sf_name f). rewrite Hl.
  destruct (argstr_strip _ _ _ Hdt) as [E _]. fold argstr in E. rewrite E.
  now apply (scalar_ok (sf_name f) ws Hws).
Qed.

Lemma format_atoms valsM valsS l :
  forallb (fun a => atom_ok ws a && inert ws valsS (render_atom a)) l = true ->
  map_result (fun a => format_arg (to_field f) argstr ((sf_name f, VAtom a) :: valsM)) l
  = Good (map (fun a => occurrence ws valsS (render_atom a)) l).
Proof.
  intros H. apply map_result_good. intros a Hin. rewrite forallb_forall in H. specialize (H a Hin).
  apply andb_true_iff in H as [H1 H2]. apply format_atom; auto. cbn [lookup]. now rewrite la_eqb_refl.
Qed.

(* ---- lists *)
Lemma split_cmd_nil : split_cmd [] = Good [].
Proof. reflexivity. Qed.

Lemma forallb_benign_concat (LL : list (list la)) :
  forallb (forallb benign_text) LL = true -> forallb benign_text (List.concat LL) = true.
Proof.
  induction LL as [|L LL IH]; [reflexivity|]. cbn. intros H. apply andb_true_iff in H as [H1 H2].
  now rewrite forallb_app, H1, IH.
Qed.

(* every element becomes " " ++ T a; the parts are joined by a blank *)
Lemma split_parts {A} (T : A -> la) (W : A -> list la) (l : list A) :
  (forall a, In a l -> forallb noq_char (T a) = true /\ words (T a) = W a /\ forallb benign_text (W a) = true) ->
  split_cmd (join_sep [" "] (map (fun a => sp ++ T a) l)) = Good (List.concat (map W l)).
Proof.
  intros H. apply split_cmd_text.
  - apply forallb_join; [reflexivity|]. rewrite forallb_forall. intros t Ht. apply in_map_iff in Ht as (a & <- & Ha0).
    unfold sp. cbn. apply (H a Ha0).
  - rewrite words_join, map_map. f_equal. apply map_ext_in. intros a Ha0. unfold sp. cbn [app].
    change (" "%char :: T a) with ([] ++ " "%char :: T a). rewrite words_space. cbn. apply (H a Ha0).
  - apply forallb_benign_concat. rewrite forallb_forall. intros L HL. apply in_map_iff in HL as (a & <- & Ha0). apply (H a Ha0).
Qed.

Lemma templ_facts valsS v : benign_text v = true ->
  let W := map (inst_word valsS v) ws in
  forallb noq_char (occ_text ws valsS v) = true /\ words (occ_text ws valsS v) = W /\ forallb benign_text W = true.
Proof.
  intros Hv W. destruct (benign_text_inv v Hv) as [Hvn Hvb].
  assert (Hb : forallb benign_text W = true)
    by (apply inst_words_benign; auto; left; destruct v; [congruence|reflexivity]).
  repeat split; [|unfold occ_text; rewrite words_join; now apply words_of_benign|exact Hb].
  unfold occ_text. apply join_benign; [apply benign_noq|reflexivity|exact Hb].
Qed.

Lemma plain_facts valsS v : has_ph ws = false -> benign_text v = true ->
  let T := render_words (sf_name f) ws ++ sp ++ v in
  let W := map (inst_word valsS v) ws ++ [v] in
  forallb noq_char T = true /\ words T = W /\ forallb benign_text W = true.
Proof.
  intros Hph Hv T W. destruct (benign_text_inv v Hv) as [Hvn Hvb].
  pose proof (inst_words_benign valsS v ws Hws Hvb (or_intror Hph)) as Hb.
  assert (E : render_words (sf_name f) ws = join_sep [" "] (map (inst_word valsS v) ws))
    by (unfold render_words; now rewrite (inst_render_words_noph (sf_name f) valsS v ws Hws Hph)).
  unfold T, W. rewrite E. unfold sp. cbn [app]. repeat split.
  - rewrite forallb_app. cbn [forallb]. rewrite (join_benign noq_char _ benign_noq eq_refl Hb).
    cbn. eapply forallb_impl; [|exact Hvb]. apply benign_noq.
  - rewrite words_space, words_join, (words_of_benign _ Hb). f_equal. apply words_solid; [exact Hvn|].
    eapply forallb_impl; [|exact Hvb]. apply benign_not_ws.
  - rewrite forallb_app, Hb. cbn. now rewrite Hv.
Qed.

Lemma occurrence_templ valsS v : has_ph ws = true -> benign_text v = true ->
  occurrence ws valsS v = map (inst_word valsS v) ws.
Proof.
  intros Hph Hv. unfold occurrence. rewrite Hph. apply filter_nonempty_benign. apply (templ_facts valsS v Hv).
Qed.

Lemma env_self valsM a : env_of ((sf_name f, VAtom a) :: valsM) (sf_name f) = Good (render_atom a).
Proof. unfold env_of. cbn [lookup]. now rewrite la_eqb_refl. Qed.

(* '...' with a blank separator *)
Lemma format_dots valsM valsS l : dots = true -> sf_sep f = [" "] ->
  lookup valsM (sf_name f) = VList l ->
  forallb atom_benign l = true -> forallb (fun a => inert ws valsS (render_atom a)) l = true ->
  format_arg (to_field f) argstr valsM = Good (List.concat (map (fun a => occurrence ws valsS (render_atom a)) l)).
Proof.
  intros Hd Hsep Hl Hok Hin. unfold format_arg. change (f_name (to_field f)) with (sf_name f). rewrite Hl.
  destruct (argstr_strip _ _ _ Hdt) as [E E2]. fold argstr in E, E2. rewrite E, E2, Hd.
  change (f_sep (to_field f)) with (sf_sep f). rewrite Hsep.
  destruct (has_brace_words (sf_name f) ws Hws) as [A B]. rewrite A, B.
  rewrite forallb_forall in Hok, Hin.
  destruct (has_ph ws) eqn:Hph; cbn [andb].
  - rewrite (map_result_good _ (fun a => sp ++ occ_text ws valsS (render_atom a))).
    + cbn [bind]. rewrite (split_parts (fun a => occ_text ws valsS (render_atom a)) (fun a => map (inst_word valsS (render_atom a)) ws)).
      * f_equal. f_equal. apply map_ext_in. intros a Ha0. symmetry. apply occurrence_templ; [exact Hph|].
        apply (Hok a Ha0).
      * intros a Ha0. apply templ_facts. apply (Hok a Ha0).
    + intros a Ha0. pose proof (Hok a Ha0) as Hb. unfold atom_benign in Hb. specialize (Hin a Ha0).
      unfold inert in Hin. rewrite Hph in Hin. cbn in Hin.
      unfold argstr_formatting. rewrite render_flat.
      rewrite (fmt_pieces (sf_name f) Hn _ valsS (render_atom a) (env_self valsM a)) by (apply flat_nb, words_ok_nb, Hws).
      rewrite <- occ_flat. cbn [bind]. rewrite bracket_fix_id; [reflexivity|exact Hin|].
      unfold occ_text. apply join_edges. apply (templ_facts valsS (render_atom a) Hb).
  - replace (map (fun a => sp ++ render_words (sf_name f) ws ++ sp ++ render_atom a) l)
      with (map (fun a => sp ++ (render_words (sf_name f) ws ++ sp ++ render_atom a)) l) by reflexivity.
    rewrite (split_parts (fun a => render_words (sf_name f) ws ++ sp ++ render_atom a)
                         (fun a => map (inst_word valsS (render_atom a)) ws ++ [render_atom a])).
    + f_equal. f_equal. apply map_ext_in. intros a Ha0. unfold occurrence. now rewrite Hph.
    + intros a Ha0. apply plain_facts; [exact Hph|]. apply (Hok a Ha0).
Qed.

Lemma atoms_benign l : forallb atom_benign l = true -> forallb benign_text (map render_atom l) = true.
Proof.
  intros H. rewrite forallb_forall in *. intros t Ht. apply in_map_iff in Ht as (a & <- & Ha0).
  apply (H a Ha0).
Qed.

(* joined by a blank: separate arguments after the flag words *)
Lemma format_join_blank valsM valsS l : dots = false -> sf_sep f = [" "] -> has_ph ws = false ->
  lookup valsM (sf_name f) = VList l -> forallb atom_benign l = true ->
  format_arg (to_field f) argstr valsM
  = Good (match l with [] => [] | _ => map (inst_word valsS []) ws ++ map render_atom l end).
Proof.
  intros Hd Hsep Hph Hl Hok. unfold format_arg. change (f_name (to_field f)) with (sf_name f). rewrite Hl.
  destruct (argstr_strip _ _ _ Hdt) as [E E2]. fold argstr in E, E2. rewrite E, E2, Hd.
  change (f_sep (to_field f)) with (sf_sep f). rewrite Hsep.
  unfold format_scalar. destruct (has_brace_words (sf_name f) ws Hws) as [A B]. rewrite A, B, Hph. cbn [andb].
  destruct l as [|a l]; [reflexivity|].
  pose proof (atoms_benign _ Hok) as Hb.
  assert (Hne : join_sep [" "] (map render_atom (a :: l)) <> []).
  { cbn [map forallb] in Hb. apply andb_true_iff in Hb as [Hb1 _]. destruct (benign_text_inv _ Hb1) as [Hx _].
    cbn [map]. destruct (map render_atom l); cbn; destruct (render_atom a); try congruence; discriminate. }
  destruct (join_sep [" "] (map render_atom (a :: l))) as [|c s] eqn:Es; [congruence|]. cbn [negb]. rewrite <- Es.
  pose proof (inst_words_benign valsS [] ws Hws eq_refl (or_intror Hph)) as Hbw.
  assert (Er : render_words (sf_name f) ws = join_sep [" "] (map (inst_word valsS []) ws))
    by (unfold render_words; now rewrite (inst_render_words_noph (sf_name f) valsS [] ws Hws Hph)).
  rewrite Er. unfold sp. cbn [app]. apply split_cmd_text.
  - rewrite forallb_app. cbn [forallb]. rewrite (join_benign noq_char _ benign_noq eq_refl Hbw).
    cbn. apply (join_benign noq_char _ benign_noq eq_refl Hb).
  - rewrite words_space, !words_join, (words_of_benign _ Hbw), (words_of_benign _ Hb). reflexivity.
  - now rewrite forallb_app, Hbw, Hb.
Qed.

Lemma join_atoms_benign sep l : forallb benign_char sep = true -> l <> [] -> forallb atom_benign l = true ->
  benign_text (join_sep sep (map render_atom l)) = true.
Proof.
  intros Hs Hne Hok. pose proof (atoms_benign _ Hok) as Hb. unfold benign_text. apply andb_true_iff. split.
  - destruct l as [|a l]; [congruence|]. cbn [map forallb] in Hb. apply andb_true_iff in Hb as [Hb1 _].
    destruct (benign_text_inv _ Hb1) as [Hx _]. cbn [map].
    destruct (map render_atom l); cbn; destruct (render_atom a); try congruence; reflexivity.
  - apply forallb_join; [exact Hs|]. eapply forallb_impl; [|exact Hb]. intros w Hw. apply (benign_text_inv w Hw).
Qed.

(* joined by a benign separator: one word *)
Lemma format_join_sep valsM valsS l : dots = false -> forallb benign_char (sf_sep f) = true -> l <> [] ->
  lookup valsM (sf_name f) = VList l -> forallb atom_benign l = true ->
  inert ws valsS (join_sep (sf_sep f) (map render_atom l)) = true ->
  format_arg (to_field f) argstr valsM = Good (occurrence ws valsS (join_sep (sf_sep f) (map render_atom l))).
Proof.
  intros Hd Hsep Hne Hl Hok Hin. unfold format_arg. change (f_name (to_field f)) with (sf_name f). rewrite Hl.
  destruct (argstr_strip _ _ _ Hdt) as [E E2]. fold argstr in E, E2. rewrite E, E2, Hd.
  change (f_sep (to_field f)) with (sf_sep f).
  pose proof (join_atoms_benign _ l Hsep Hne Hok) as Hb.
  destruct (join_sep (sf_sep f) (map render_atom l)) as [|c s] eqn:Es; [discriminate Hb|]. cbn [negb]. rewrite <- Es in *.
  apply (scalar_ok (sf_name f) ws Hws); auto.
Qed.

Lemma format_empty_list valsM : dots = false -> has_ph ws = false -> lookup valsM (sf_name f) = VList [] ->
  format_arg (to_field f) argstr valsM = Good [].
Proof.
  intros Hd Hph Hl. unfold format_arg. change (f_name (to_field f)) with (sf_name f). rewrite Hl.
  destruct (argstr_strip _ _ _ Hdt) as [E E2]. fold argstr in E, E2. rewrite E, E2, Hd. cbn [map join_sep].
  destruct (f_sep (to_field f)); cbn [join_sep negb];
  unfold format_scalar; destruct (has_brace_words (sf_name f) ws Hws) as [A B]; rewrite A, B, Hph; reflexivity.
Qed.
End OneField.

(* ------------------------------------------------------------------ the per-field theorem *)
Lemma spec_contrib_set_pos f p vals : spec_contrib (mkS (sf_name f) (sf_ty f) (sf_argstr f) p (sf_sep f)) vals = spec_contrib f vals.
Proof. reflexivity. Qed.

Theorem contrib_ok (f : sfield) (valsM valsS : vals_t) ws dots :
  sf_argstr f = SA ws dots ->
  field_ok f valsS = true ->
  lookup valsM (sf_name f) = lookup valsS (sf_name f) ->
  lookup valsS (sf_name f) <> VNone ->
  command_pos_args (to_field f) valsM = Good (Some (sf_pos f, spec_contrib f valsS)).
Proof.
  intros Ha Hok Hl Hnn. unfold field_ok in Hok. rewrite Ha in Hok.
  apply andb_true_iff in Hok as [Hn Hok]. apply andb_true_iff in Hok as [Hok Hv]. apply andb_true_iff in Hok as [Hws Hdt].
  assert (FH : field_hyps f ws dots) by (repeat split; assumption).
  pose proof (f_argstr_eq f ws dots FH) as Harg.
  unfold command_pos_args. rewrite Harg. change (f_ty (to_field f)) with (sf_ty f).
  change (f_name (to_field f)) with (sf_name f). change (f_pos (to_field f)) with (sf_pos f).
  unfold spec_contrib. rewrite Ha.
  destruct (lookup valsS (sf_name f)) as [|b|a|l] eqn:Ev; [congruence| | |].
  - (* flag *)
    destruct (optional_type (sf_ty f)); try discriminate Hv. apply andb_true_iff in Hv as [Hph Hd].
    apply negb_true_iff in Hph, Hd. subst dots. rewrite app_nil_r in *.
    destruct (has_brace_words (sf_name f) ws Hws) as [A _]. rewrite A, Hph, Hl.
    destruct b; reflexivity.
  - (* scalar *)
    assert (Hat : atom_ok ws a = true /\ inert ws valsS (render_atom a) = true)
      by (destruct (optional_type (sf_ty f)); try discriminate Hv; now apply andb_true_iff in Hv).
    destruct Hat as [H1 H2].
    assert (E : format_arg (to_field f) (render_words (sf_name f) ws ++ (if dots then ellipsis else [])) valsM
                = Good (occurrence ws valsS (render_atom a)))
      by (apply (format_atom f ws dots FH); [now rewrite Hl|exact H1|exact H2]).
    destruct (optional_type (sf_ty f)); try discriminate Hv;
      destruct (has_char lbrace (render_words (sf_name f) ws ++ (if dots then ellipsis else []))); rewrite E; reflexivity.
  - (* list *)
    destruct (optional_type (sf_ty f)) eqn:Et; try discriminate Hv.
    + (* TList *)
      apply andb_true_iff in Hv as [Hat Hv].
      assert (Hgoal : format_arg (to_field f) (render_words (sf_name f) ws ++ (if dots then ellipsis else [])) valsM
                = Good (match l with
                        | [] => if has_ph ws && negb dots then occurrence ws valsS [] else []
                        | _ => if dots then List.concat (map (fun a => occurrence ws valsS (render_atom a)) l)
                               else if la_eqb (sf_sep f) [" "%char] && negb (has_ph ws)
                                    then map (inst_word valsS []) ws ++ map render_atom l
                                    else occurrence ws valsS (join_sep (sf_sep f) (map render_atom l))
                        end)).
      { destruct dots.
        - apply andb_true_iff in Hv as [Hs Hin]. apply la_eqb_eq in Hs.
          rewrite (format_dots f ws true FH valsM valsS l eq_refl Hs) by (congruence || assumption).
          destruct l; [now rewrite andb_false_r|reflexivity].
        - destruct (la_eqb (sf_sep f) [" "%char]) eqn:Es.
          + apply la_eqb_eq in Es. apply negb_true_iff in Hv.
            rewrite (format_join_blank f ws false FH valsM valsS l eq_refl Es Hv) by (congruence || assumption).
            rewrite Hv. destruct l; reflexivity.
          + apply andb_true_iff in Hv as [Hv Hin]. apply andb_true_iff in Hv as [Hsb Hne].
            destruct l as [|a l].
            * cbn in Hne. apply negb_true_iff in Hne.
              rewrite (format_empty_list f ws false FH valsM eq_refl Hne) by congruence. now rewrite Hne.
            * rewrite (format_join_sep f ws false FH valsM valsS (a :: l) eq_refl Hsb) by (congruence || assumption).
              reflexivity. }
      destruct (has_char lbrace (render_words (sf_name f) ws ++ (if dots then ellipsis else []))); rewrite Hgoal;
        destruct l; reflexivity.
    + (* TMulti *)
      rewrite Hl.
      rewrite (format_atoms f ws dots FH valsM valsS l Hv). cbn [bind].
      destruct (has_char lbrace (render_words (sf_name f) ws ++ (if dots then ellipsis else []))); destruct l; reflexivity.
Qed.
