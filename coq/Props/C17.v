(* C17 — workflow results do not depend on worker or schedule (partial: the model covers the two
   scheduling loops, every oracle and every max_concurrent; real pool timing and cloudpickle
   transport of jobs are runtime behaviour covered by the correspondence run only). *)
From Pydra Require Import Base.Prelude Base.SchedBase Model.Sched Spec.Sched Proofs.SchedH Proofs.SchedI Proofs.SchedK Proofs.SchedL Proofs.SchedM Proofs.SchedN Proofs.SchedO.

(* job values are an uninterpreted function `body` of (node, index, values read from the results of
   the predecessor nodes' jobs when the node is started) *)
Theorem C17_confluence :
  forall (V : Type) (body : nat -> nat -> list (list (option V)) -> V) (vr : variant) (g : graph)
         (k1 k2 k3 : option nat) (o1 o2 : list oracle_step) (f1 f2 f3 : nat),
    fix14 vr = true -> wf_graph g ->
    let nofail := fun _ : job => false in
    let r1 := run_async V body nofail vr g k1 o1 f1 in
    let r2 := run_async V body nofail vr g k2 o2 f2 in
    let r3 := run_sync V body nofail vr g k3 f3 in
    o_status r1 = Finished -> o_status r2 = Finished -> o_status r3 = Finished ->
    node_outputs g r1 = reference_outputs V body g
    /\ node_outputs g r2 = reference_outputs V body g
    /\ node_outputs g r3 = reference_outputs V body g.
Proof.
  intros V body vr g k1 k2 k3 o1 o2 f1 f2 f3 F WF nofail r1 r2 r3 S1 S2 S3.
  split; [|split].
  - apply async_outputs; auto.
  - apply async_outputs; auto.
  - apply sync_outputs; auto.
Qed.
Print Assumptions C17_confluence.

(* Termination included: every node has at least one job and every max_concurrent is >= 1; then for
   EVERY pair of oracles the runs end by themselves within |jobs| + 1 iterations and agree. *)
Theorem C17_confluence_total :
  forall (V : Type) (body : nat -> nat -> list (list (option V)) -> V) (vr : variant) (g : graph)
         (k1 k2 k3 : option nat) (o1 o2 : list oracle_step) (f1 f2 f3 : nat),
    fix14 vr = true -> wf_graph g -> (forall nd, In nd g -> 1 <= njobs nd) ->
    (forall k, k1 = Some k -> 1 <= k) -> (forall k, k2 = Some k -> 1 <= k) -> (forall k, k3 = Some k -> 1 <= k) ->
    List.length (all_jobs g) + 1 <= f1 -> List.length (all_jobs g) + 1 <= f2 -> List.length (all_jobs g) + 1 <= f3 ->
    let nofail := fun _ : job => false in
    node_outputs g (run_async V body nofail vr g k1 o1 f1) = reference_outputs V body g
    /\ node_outputs g (run_async V body nofail vr g k2 o2 f2) = reference_outputs V body g
    /\ node_outputs g (run_sync V body nofail vr g k3 f3) = reference_outputs V body g.
Proof.
  intros V body vr g k1 k2 k3 o1 o2 f1 f2 f3 F WF NJ K1 K2 K3 B1 B2 B3 nofail.
  apply C17_confluence; auto.
  - apply async_terminates; auto.
  - apply async_terminates; auto.
  - apply sync_terminates; auto.
Qed.
Print Assumptions C17_confluence_total.

(* the reference semantics satisfies its defining equation: the value of job (n, i) is `body`
   applied to the reference values of every job of every predecessor node *)
Theorem C17_reference_equation :
  forall (V : Type) (body : nat -> nat -> list (list (option V)) -> V) (g : graph) (nd : node) (i : nat),
    wf_graph g -> In nd g -> i < njobs nd ->
    env_lookup V (nid nd, i) (reference V body g) =
    Some (body (nid nd) i (ref_inputs V g (reference V body g) nd)).
Proof. intros. apply Proofs.SchedSpec2.reference_char; assumption. Qed.
Print Assumptions C17_reference_equation.

Example C17_hyps_nonvacuous :
  let g := [mkNode 0 [] 2; mkNode 1 [0] 1; mkNode 2 [0] 3; mkNode 3 [1; 2] 1] in
  o_status (run_async tv T (fun _ => false) repaired g (Some 2) [mkStep [1] [true]; mkStep [0; 5] [false; true]] 40) = Finished
  /\ o_status (run_async tv T (fun _ => false) repaired g None [mkStep [0] []; mkStep [3] [true; true]] 40) = Finished
  /\ o_status (run_sync tv T (fun _ => false) repaired g (Some 1) 40) = Finished.
Proof. vm_compute. repeat split. Qed.

(* Confluence when some jobs fail: in any two asynchronous runs (any oracles, any max_concurrent) that end by
   themselves, every job that is not downstream of a failure and does not fail itself has the same value —
   the reference value.  (Runs with failures end Finished or Stalled, C14_full_total; the values are claimed
   for the Finished ones.) *)
Theorem C17_confluence_with_failures :
  forall (V : Type) (body : nat -> nat -> list (list (option V)) -> V) (fails : job -> bool) (vr : variant)
         (g : graph) (k1 k2 : option nat) (o1 o2 : list oracle_step) (f1 f2 : nat),
    fix14 vr = true -> wf_graph g ->
    let r1 := run_async V body fails vr g k1 o1 f1 in
    let r2 := run_async V body fails vr g k2 o2 f2 in
    o_status r1 = Finished -> o_status r2 = Finished ->
    forall nd i, In nd g -> i < njobs nd -> should_run_b g fails (nid nd, i) = true -> fails (nid nd, i) = false ->
    value_of (ls_w (o_final r1)) (nid nd, i) = env_lookup V (nid nd, i) (reference V body g)
    /\ value_of (ls_w (o_final r2)) (nid nd, i) = env_lookup V (nid nd, i) (reference V body g).
Proof.
  intros V body fails vr g k1 k2 o1 o2 f1 f2 F WF r1 r2 S1 S2 nd i Hnd Hi SR NFj.
  unfold should_run_b in SR. apply andb_true_iff in SR. destruct SR as [_ T]. apply negb_true_iff in T. cbn in T.
  split.
  - apply (async_values_untainted V body fails vr F g WF k1 o1 f1 S1 nd Hnd T i Hi NFj).
  - apply (async_values_untainted V body fails vr F g WF k2 o2 f2 S2 nd Hnd T i Hi NFj).
Qed.
Print Assumptions C17_confluence_with_failures.

(* non-vacuity: a failing source n0, an independent chain n1 -> n2: two different oracles, both runs Finished,
   n2 = (2,0) is not downstream of the failure and has the same (reference) value in both *)
Example C17_failures_nonvacuous :
  let g := [mkNode 0 [] 1; mkNode 1 [] 1; mkNode 2 [1] 1; mkNode 3 [0] 1] in
  let fl := fun j => job_eqb j (0, 0) in
  let r1 := run_async tv T fl repaired g None [mkStep [1] [true]; mkStep [0] []] 20 in
  let r2 := run_async tv T fl repaired g (Some 1) [] 20 in
  o_status r1 = Finished /\ o_status r2 = Finished /\ should_run_b g fl (2, 0) = true /\ fl (2, 0) = false
  /\ should_run_b g fl (3, 0) = false
  /\ option_eqb tv_eqb (value_of (ls_w (o_final r1)) (2, 0)) (value_of (ls_w (o_final r2)) (2, 0)) = true
  /\ option_eqb tv_eqb (value_of (ls_w (o_final r1)) (2, 0)) (Some (T 2 0 [[Some (T 1 0 [])]])) = true.
Proof. vm_compute. repeat split. Qed.

(* Sequential loop, graphs with zero-job nodes anywhere (no hypothesis on the number of jobs of a node):
   2 * (|jobs| + |nodes|) + 3 passes suffice and the outputs are the reference outputs. *)
Theorem C17_sync_reference_any :
  forall (V : Type) (body : nat -> nat -> list (list (option V)) -> V) (vr : variant) (g : graph) (k : option nat) (fuel : nat),
    fix14 vr = true -> wf_graph g -> (forall k', k = Some k' -> 1 <= k') ->
    2 * (List.length (all_jobs g) + List.length g) + 3 <= fuel ->
    node_outputs g (run_sync V body (fun _ => false) vr g k fuel) = reference_outputs V body g.
Proof.
  intros V body vr g k fuel F WF KP B. apply sync_outputs; auto. apply sync_terminates_any; auto.
Qed.
Print Assumptions C17_sync_reference_any.

Example C17_sync_any_nonvacuous :
  let g := [mkNode 0 [] 0; mkNode 1 [0] 2; mkNode 2 [1] 1] in
  wf_graph g /\ 2 * (List.length (all_jobs g) + List.length g) + 3 <= 15
  /\ outs_eqb (node_outputs g (run_sync tv T (fun _ => false) repaired g None 15)) (reference_outputs tv T g) = true.
Proof. vm_compute. repeat split; repeat constructor. Qed.

(* Asynchronous loop with empty nodes: fewer than ten nodes with zero jobs (the stall block allows ten empty
   polls), no failing job, max_concurrent >= 1 or none: for every oracle, |jobs| + 2 iterations suffice and the
   outputs are the reference outputs (any two such runs agree). *)
Theorem C17_async_reference_bounded_empty :
  forall (V : Type) (body : nat -> nat -> list (list (option V)) -> V) (vr : variant) (g : graph)
         (k : option nat) (orc : list oracle_step) (fuel : nat),
    fix14 vr = true -> wf_graph g -> (forall k', k = Some k' -> 1 <= k') ->
    List.length (filter (fun nd => njobs nd =? 0) g) + 2 <= 11 ->
    List.length (all_jobs g) + 2 <= fuel ->
    node_outputs g (run_async V body (fun _ => false) vr g k orc fuel) = reference_outputs V body g.
Proof.
  intros V body vr g k orc fuel F WF KP EZ B. apply async_outputs; auto.
  apply (async_terminates_bounded_empty V body (fun _ => false) vr F g WF k (fun _ => eq_refl) KP); [exact EZ|exact B].
Qed.
Print Assumptions C17_async_reference_bounded_empty.

Example C17_bounded_empty_nonvacuous :
  let g := [mkNode 0 [] 0; mkNode 1 [0] 2; mkNode 2 [1] 0; mkNode 3 [1; 2] 1] in
  wf_graph g /\ List.length (filter (fun nd => njobs nd =? 0) g) + 2 <= 11 /\ List.length (all_jobs g) + 2 <= 5
  /\ outs_eqb (node_outputs g (run_async tv T (fun _ => false) repaired g (Some 1) [mkStep [1] [true]] 5)) (reference_outputs tv T g) = true.
Proof. vm_compute. repeat split; repeat constructor. Qed.
