(* Proofs/HashChecksum.v — the Merkle argument carried through Task._compute_hashes + _checksum: equal checksums
   of two tasks whose field values lie in inj_dom mean the same task type and, field by field (matched by name),
   equal values up to set/dict order or an explicit collision of H between two byte strings hashed on the way —
   or a collision inside the outer hash of the sorted (name, hex digest) items. *)
From Coq Require Import Sorting.Permutation.
From Pydra Require Import Base.Prelude Base.PySort Model.Hash Spec.Hash Proofs.HashSort Proofs.HashCtx
     Proofs.HashInjStr Proofs.HashInj Proofs.HashTask Proofs.HashCache Proofs.HashDom.
Local Open Scope list_scope.
Local Open Scope string_scope.

(* ------------------------------------------------------------------ hex is injective *)
Lemma hexdigit_inj : forall a b, a < 16 -> b < 16 -> hexdigit a = hexdigit b -> a = b.
Proof.
  intros a b Ha Hb E. unfold hexdigit in E.
  assert (Hinj : forall x y, x < 256 -> y < 256 -> ascii_of_nat x = ascii_of_nat y -> x = y).
  { intros x y Hx Hy Exy. rewrite <- (nat_ascii_embedding x Hx), <- (nat_ascii_embedding y Hy). now rewrite Exy. }
  destruct (Nat.ltb a 10) eqn:Ea, (Nat.ltb b 10) eqn:Eb;
    try apply Nat.ltb_lt in Ea; try apply Nat.ltb_lt in Eb; try apply Nat.ltb_ge in Ea; try apply Nat.ltb_ge in Eb;
    apply Hinj in E; lia.
Qed.

Lemma hex_cons : forall c r, hex (String c r) =
    String (hexdigit (nat_of_ascii c / 16)) (String (hexdigit (nat_of_ascii c mod 16)) (hex r)).
Proof. reflexivity. Qed.

Lemma hex_inj : forall a b, hex a = hex b -> a = b.
Proof.
  induction a as [|c a IH]; intros [|c' b] E; try (cbn in E; discriminate E); [reflexivity|].
  rewrite !hex_cons in E.
  remember (nat_of_ascii c / 16) as q1. remember (nat_of_ascii c mod 16) as r1.
  remember (nat_of_ascii c' / 16) as q2. remember (nat_of_ascii c' mod 16) as r2.
  injection E as E1 E2 E3. subst q1 r1 q2 r2.
  pose proof (nat_ascii_bounded c) as Bc. pose proof (nat_ascii_bounded c') as Bc'.
  apply hexdigit_inj in E1; [|apply Nat.div_lt_upper_bound; lia|apply Nat.div_lt_upper_bound; lia].
  apply hexdigit_inj in E2; [|apply Nat.mod_upper_bound; lia|apply Nat.mod_upper_bound; lia].
  assert (En : nat_of_ascii c = nat_of_ascii c').
  { rewrite (Nat.div_mod (nat_of_ascii c) 16), (Nat.div_mod (nat_of_ascii c') 16) by lia. now rewrite E1, E2. }
  f_equal; [|auto]. rewrite <- (ascii_nat_embedding c), <- (ascii_nat_embedding c'). now rewrite En.
Qed.

Lemma hex_len : forall s, String.length (hex s) = 2 * String.length s.
Proof. induction s as [|c s IH]; cbn; [reflexivity|]. rewrite IH. lia. Qed.

Lemma sapp_suffix_inj : forall a a' b b' : string,
    String.length b = String.length b' -> a ++ b = a' ++ b' -> a = a' /\ b = b'.
Proof.
  intros a a' b b' Hl E. apply sapp_len_inj; auto.
  apply (f_equal String.length) in E. rewrite !slen_app in E. lia.
Qed.

(* ------------------------------------------------------------------ the synthesized items *)
Definition strip (v : pyval) : string * string :=
  match v with VTuple _ [VStr k; VStr h] => (k, h) | _ => (EmptyString, EmptyString) end.
Definition is_item (v : pyval) : Prop := exists n k h, v = VTuple (S n) [VStr k; VStr h].

Lemma items_val_spec : forall (fh : list (string * string)) n t, In t (items_val (S n) fh) -> is_item t /\ In (strip t) fh.
Proof.
  induction fh as [|[k h] fh IH]; intros n t Hin; cbn in Hin; [contradiction|].
  destruct Hin as [<-|Hin].
  - split; [exists n, k, h; reflexivity|now left].
  - destruct (IH (S n) t Hin) as [Hi Hs]. split; [exact Hi|now right].
Qed.

Lemma items_val_complete : forall (fh : list (string * string)) n k h, In (k, h) fh -> exists t, In t (items_val n fh) /\ strip t = (k, h).
Proof.
  induction fh as [|[k0 h0] fh IH]; intros n k h Hin; [contradiction|]. cbn.
  destruct Hin as [E|Hin].
  - inversion E; subst. eexists. split; [now left|reflexivity].
  - destruct (IH (S n) k h Hin) as (t & Ht & Hs). exists t. split; [now right|exact Hs].
Qed.

Definition idn (v : pyval) : nat := match node_id v with Some i => i | None => 0 end.

Lemma items_val_ids : forall (fh : list (string * string)) n, map idn (items_val n fh) = seq n (List.length fh).
Proof. induction fh as [|[k h] fh IH]; intros n; cbn; [reflexivity|]. now rewrite IH. Qed.

(* ------------------------------------------------------------------ the outer list is acyclic and hashable *)
Definition env_of (nodes : list pyval) (i : nat) : option pyval :=
  List.find (fun v => match node_id v with Some j => Nat.eqb i j | None => false end) nodes.

Lemma env_of_unique : forall nodes v i, NoDup (map idn nodes) -> In v nodes -> node_id v = Some i ->
    (forall x, In x nodes -> node_id x <> None) -> env_of nodes i = Some v.
Proof.
  induction nodes as [|x nodes IH]; intros v i Hnd Hin Hid Hall; [contradiction|].
  cbn. inversion Hnd as [|? ? Hnin Hnd']; subst.
  destruct Hin as [->|Hin].
  - rewrite Hid, Nat.eqb_refl. reflexivity.
  - destruct (node_id x) as [j|] eqn:Ex; [|exfalso; apply (Hall x); [now left|exact Ex]].
    destruct (Nat.eqb_spec i j) as [->|Hne].
    + exfalso. apply Hnin. replace (idn x) with (idn v); [now apply in_map|]. unfold idn. now rewrite Hid, Ex.
    + apply IH; auto. intros y Hy. apply Hall. now right.
Qed.

Section Outer.
  Variable H : string -> string.

  Lemma dig_S : forall f v, dig H (S f) v tt =
      match repr (dig H f) v tt with Err e => Err e | Ok (s, _) => Ok (D H s, tt) end.
  Proof. reflexivity. Qed.

  Lemma dig_item_ok : forall t f, is_item t -> exists d, dig H (S (S f)) t tt = Ok (d, tt).
  Proof. intros t f (n & k & h & ->). eexists. cbn. reflexivity. Qed.

  Lemma dig_items_ok : forall items, (forall t, In t items -> is_item t) ->
      forall f, exists d, dig H (S (S (S f))) (VList 0 items) tt = Ok (d, tt).
  Proof.
    intros items Hall f.
    assert (E : exists s, seq_contents (dig H (S (S f))) items tt = Ok (s, tt)).
    { induction items as [|t items IH]; [eexists; reflexivity|].
      destruct (dig_item_ok t f (Hall t (or_introl eq_refl))) as [d Ed].
      destruct IH as [s Es]; [intros x Hx; apply Hall; now right|].
      cbn [seq_contents]. rewrite Ed, Es. eexists; reflexivity. }
    destruct E as [s Es]. rewrite dig_S. unfold repr, repr_flat. cbn [atom_bytes]. rewrite Es. eexists; reflexivity.
  Qed.

  Lemma outer_acyclic : forall items,
      (forall t, In t items -> is_item t) -> NoDup (map idn items) ->
      hashable_acyclic H (env_of (VList 0 items :: items)) (VList 0 items).
  Proof.
    intros items Hall Hnd. split.
    - assert (Hpos : forall t, In t items -> exists n, node_id t = Some (S n)).
      { intros t Ht. destruct (Hall t Ht) as (n & k & h & ->). exists n. reflexivity. }
      constructor.
      + intros i; discriminate.
      + intros i E. inversion E; subst. split; [reflexivity|intros []].
      + cbn [node_id subs]. intros t Ht. destruct (Hall t Ht) as (n & k & h & ->). constructor.
        * intros i; discriminate.
        * intros i E. inversion E; subst. split; [|intros [E'|[]]; discriminate].
          change (env_of (VList 0 items :: items) (S n)) with (env_of items (S n)).
          apply (env_of_unique items); auto.
          intros x Hx. destruct (Hpos x Hx) as [m Em]. rewrite Em. discriminate.
        * cbn [node_id subs]. intros x [<-|[<-|[]]]; (constructor; [intros i; discriminate|intros i; discriminate|intros y []]).
    - unfold digest.
      assert (Hd : exists f, S (vdepth (VList 0 items)) = S (S (S f)) \/ items = []).
      { destruct items as [|t items']; [exists 0; now right|].
        destruct (Hall t (or_introl eq_refl)) as (n & k & h & ->).
        set (X := fold_right (fun (x : pyval) (n : nat) => Nat.max (vdepth x) n) 0 items').
        exists (Nat.max 2 X - 1). left.
        change (vdepth (VList 0 (VTuple (S n) [VStr k; VStr h] :: items'))) with (S (Nat.max 2 X)). lia. }
      destruct Hd as [f [Hf|Hnil]]; [|subst items].
      + rewrite Hf. destruct (dig_items_ok items Hall f) as [d Ed]. rewrite Ed. eauto.
      + eexists. cbn. reflexivity.
  Qed.
End Outer.

Section Main.
  Variable H : string -> string.

  Definition field_ok (env : nat -> option pyval) (kv : string * pyval) : Prop :=
    inj_dom (snd kv) /\ hashable_acyclic H env (snd kv).

  (* every field of the first task has a field of the same name in the second whose value is the same value
     (sets as sets, dicts as maps) or exhibits a collision of H between two byte strings hashed for them *)
  Definition fields_match (f1 f2 : list (string * pyval)) : Prop :=
    forall a, In a f1 -> exists b, In b f2 /\ fst a = fst b /\
      (veq (snd a) (snd b) \/ collision H (S (vdepth (snd a))) (snd a) (S (vdepth (snd b))) (snd b)).

  (* the list of (name, hex digest) tuples that _compute_hashes hashes last *)
  Definition outer_value (fields : list (string * pyval)) : res pyval :=
    match field_hashes H fields [] with
    | Err e => Err e
    | Ok fh => match sorted_res vlt (items_val 1 fh) with Err e => Err e | Ok items => Ok (VList 0 items) end
    end.

  Lemma compute_hash_outer : forall fields,
      compute_hash H fields =
      match outer_value fields with
      | Err e => Err e
      | Ok l => match hash_object H l [] with Ok (d, _) => Ok (hex d) | Err e => Err e end
      end.
  Proof.
    intros fields. unfold compute_hash, outer_value. destruct (field_hashes H fields []) as [fh|]; [|reflexivity].
    destruct (sorted_res vlt (items_val 1 fh)); reflexivity.
  Qed.

  Definition fh_of (fields : list (string * pyval)) : list (string * string) :=
    map (fun kv : string * pyval => (fst kv, hex (dg H (snd kv)))) fields.

  Lemma item_veq : forall g t1 t2, is_item t1 -> is_item t2 -> veqb (S (S g)) t1 t2 = true -> strip t1 = strip t2.
  Proof.
    intros g t1 t2 (n1 & k1 & h1 & ->) (n2 & k2 & h2 & ->) E. cbn in E.
    apply andb_true_iff in E. destruct E as [E1 E2]. apply andb_true_iff in E2. destruct E2 as [E2 _].
    apply String.eqb_eq in E1, E2. cbn. now subst.
  Qed.

  Lemma items_veq : forall g l1 l2, (forall t, In t l1 -> is_item t) -> (forall t, In t l2 -> is_item t) ->
      list_eqb (veqb (S (S g))) l1 l2 = true -> map strip l1 = map strip l2.
  Proof.
    induction l1 as [|t1 l1 IH]; intros [|t2 l2] A1 A2 E; cbn in E; try discriminate; [reflexivity|].
    apply andb_true_iff in E. destruct E as [E1 E2]. cbn [map]. f_equal.
    - apply (item_veq g); auto; [apply A1|apply A2]; now left.
    - apply IH; auto; intros t Ht; [apply A1|apply A2]; now right.
  Qed.

  (* one direction of the matching, from equal (name, hex digest) sequences *)
  Lemma match_from_strips : forall env1 env2 f1 f2 items1 items2,
      (forall kv, In kv f1 -> field_ok env1 kv) -> (forall kv, In kv f2 -> field_ok env2 kv) ->
      Permutation (items_val 1 (fh_of f1)) items1 -> Permutation (items_val 1 (fh_of f2)) items2 ->
      map strip items1 = map strip items2 -> fields_match f1 f2.
  Proof.
    intros env1 env2 f1 f2 items1 items2 O1 O2 P1 P2 Es a Ha.
    assert (Hfa : In (fst a, hex (dg H (snd a))) (fh_of f1)).
    { unfold fh_of. apply in_map_iff. exists a. auto. }
    destruct (items_val_complete _ 1 _ _ Hfa) as (t & Ht & Hst).
    assert (Hin1 : In (strip t) (map strip items1)) by (apply in_map; eapply Permutation_in; eauto).
    rewrite Es in Hin1. apply in_map_iff in Hin1. destruct Hin1 as (t' & Hst' & Ht').
    assert (Ht2 : In t' (items_val 1 (fh_of f2))) by (eapply Permutation_in; [symmetry; exact P2|exact Ht']).
    destruct (items_val_spec _ 0 _ Ht2) as [_ Hs2]. rewrite Hst', Hst in Hs2.
    unfold fh_of in Hs2. apply in_map_iff in Hs2. destruct Hs2 as (b & Eb & Hb).
    inversion Eb as [[En Eh]]. exists b. split; [exact Hb|]. split; [now rewrite En|].
    apply hex_inj in Eh.
    destruct (O1 a Ha) as [Ia [_ [da Da]]]. destruct (O2 b Hb) as [Ib [_ [db Db]]].
    unfold dg in Eh. rewrite Da, Db in Eh. subst db.
    exact (ser_injective H (snd a) (snd b) da Ia Ib Da Db).
  Qed.

  Lemma outer_facts : forall env fields items,
      (forall kv, In kv fields -> field_ok env kv) ->
      field_hashes H fields [] = Ok (fh_of fields) /\
      (sorted_res vlt (items_val 1 (fh_of fields)) = Ok items ->
       Permutation (items_val 1 (fh_of fields)) items /\ (forall t, In t items -> is_item t) /\
       NoDup (map idn items)).
  Proof.
    intros env fields items O. split.
    - apply (field_hashes_alone H env); [apply Inv_nil|]. intros kv Hkv. now destruct (O kv Hkv).
    - intros Es. apply sorted_res_perm in Es. split; [exact Es|]. split.
      + intros t Ht. apply (Permutation_in _ (Permutation_sym Es)) in Ht. now destruct (items_val_spec _ 0 _ Ht).
      + eapply Permutation_NoDup; [apply Permutation_map; exact Es|]. rewrite items_val_ids. apply seq_NoDup.
  Qed.

  Lemma outer_inj_dom : forall items, (forall t, In t items -> is_item t) -> inj_dom (VList 0 items).
  Proof.
    intros items Hall. constructor; [exact Logic.I|]. cbn [subs]. intros t Ht.
    destruct (Hall t Ht) as (n & k & h & ->). constructor; [exact Logic.I|]. cbn [subs].
    intros x [<-|[<-|[]]]; (constructor; [exact Logic.I|intros y []]).
  Qed.

  Theorem checksum_injective : forall env1 env2 ty1 ty2 f1 f2 c,
      (forall kv, In kv f1 -> field_ok env1 kv) -> (forall kv, In kv f2 -> field_ok env2 kv) ->
      checksum H ty1 f1 = Ok c -> checksum H ty2 f2 = Ok c ->
      ty1 = ty2 /\
      ((fields_match f1 f2 /\ fields_match f2 f1) \/
       exists l1 l2, outer_value f1 = Ok l1 /\ outer_value f2 = Ok l2 /\
                     collision H (S (vdepth l1)) l1 (S (vdepth l2)) l2).
  Proof.
    intros env1 env2 ty1 ty2 f1 f2 c O1 O2 C1 C2. unfold checksum in C1, C2.
    rewrite compute_hash_outer in C1, C2. unfold outer_value in *.
    destruct (outer_facts env1 f1) with (items := @nil pyval) as [F1 _]; auto.
    destruct (outer_facts env2 f2) with (items := @nil pyval) as [F2 _]; auto.
    rewrite F1 in *. rewrite F2 in *.
    destruct (sorted_res vlt (items_val 1 (fh_of f1))) as [items1|] eqn:S1; [|discriminate].
    destruct (sorted_res vlt (items_val 1 (fh_of f2))) as [items2|] eqn:S2; [|discriminate].
    destruct (outer_facts env1 f1 items1 O1) as [_ X1]. destruct (X1 S1) as (P1 & A1 & N1).
    destruct (outer_facts env2 f2 items2 O2) as [_ X2]. destruct (X2 S2) as (P2 & A2 & N2).
    destruct (outer_acyclic H items1 A1 N1) as [W1 [d1 D1]].
    destruct (outer_acyclic H items2 A2 N2) as [W2 [d2 D2]].
    (* hash_object under the empty Cache is the digest *)
    assert (Hh : forall env items d, wf env [] (VList 0 items) -> digest H (VList 0 items) = Ok d ->
                 exists m, hash_object H (VList 0 items) [] = Ok (d, m)).
    { intros env items d W Dg. unfold digest in Dg. unfold hash_object.
      destruct (dig H (S (vdepth (VList 0 items))) (VList 0 items) tt) as [[d' []]|] eqn:Ed; [|discriminate].
      inversion Dg; subst. destruct (hs_context_free H env _ _ [] [] d W (Inv_nil H env) Ed) as (m & Em & _). eauto. }
    destruct (Hh _ _ _ W1 D1) as [m1 E1]. destruct (Hh _ _ _ W2 D2) as [m2 E2].
    rewrite E1 in C1. rewrite E2 in C2. inversion C1 as [Ec1]. inversion C2 as [Ec2]. rewrite <- Ec2 in Ec1.
    assert (L1 : String.length d1 = 16).
    { unfold digest in D1. destruct (dig H _ (VList 0 items1) tt) as [[x []]|] eqn:Ed; [|discriminate].
      inversion D1; subst. eapply dig_len; eauto. }
    assert (L2 : String.length d2 = 16).
    { unfold digest in D2. destruct (dig H _ (VList 0 items2) tt) as [[x []]|] eqn:Ed; [|discriminate].
      inversion D2; subst. eapply dig_len; eauto. }
    apply sapp_suffix_inj in Ec1; [|cbn; rewrite !hex_len, L1, L2; reflexivity].
    destruct Ec1 as [Ety Eh]. split; [exact Ety|]. cbn in Eh. injection Eh as Eh. apply hex_inj in Eh. subst d2.
    destruct (ser_injective H _ _ d1 (outer_inj_dom items1 A1) (outer_inj_dom items2 A2) D1 D2) as [Hv|Hc].
    - left.
      assert (Es : map strip items1 = map strip items2).
      { unfold veq in Hv. destruct items1 as [|t1 r1].
        - cbn in Hv. destruct items2; [reflexivity|discriminate].
        - destruct (A1 t1 (or_introl eq_refl)) as (n & k & h & ->).
          set (X := fold_right (fun (x : pyval) (n : nat) => Nat.max (vdepth x) n) 0 r1) in *.
          change (vdepth (VList 0 (VTuple (S n) [VStr k; VStr h] :: r1))) with (S (Nat.max 2 X)) in Hv.
          replace (S (Nat.max 2 X)) with (S (S (Nat.max 2 X - 1))) in Hv by lia.
          cbn [veqb] in Hv. apply (items_veq (Nat.max 2 X - 1)); auto. }
      split.
      + eapply match_from_strips; eauto.
      + eapply match_from_strips; eauto.
    - right. exists (VList 0 items1), (VList 0 items2). auto.
  Qed.
End Main.

(* ------------------------------------------------------------------ histories *)
Section Histories.
  Context {T O : Type}.
  Variable ident : T -> string.
  Variable run : T -> O.
  Variable C : Prop.

  Theorem cache_sound_or : forall ts done s,
      store_inv ident run done s ->
      (forall t1 t2, In t1 (done ++ ts) -> In t2 (done ++ ts) -> ident t1 = ident t2 -> run t1 = run t2 \/ C) ->
      fst (submit_all ident run s ts) = map run ts \/ C.
  Proof.
    induction ts as [|t ts IH]; intros done s HI Hsep; [now left|].
    cbn [submit_all]. destruct (submit ident run s t) as [o s1] eqn:Es.
    assert (Ho : o = run t \/ C).
    { unfold submit in Es. destruct (find (ident t) s) as [o'|] eqn:Ef; inversion Es; subst; [|now left].
      destruct (HI _ _ Ef) as (t' & Hin & Hid & ->). apply Hsep; auto.
      - apply in_or_app. now left.
      - apply in_or_app. right. now left. }
    destruct Ho as [->|Hc]; [|now right].
    destruct (IH (t :: done) s1) as [E|Hc].
    - replace s1 with (snd (submit ident run s t)) by now rewrite Es. now apply submit_inv.
    - intros t1 t2 H1 H2. apply Hsep.
      + cbn in H1. destruct H1 as [<-|H1]; [apply in_or_app; right; now left|].
        apply in_app_or in H1. apply in_or_app. destruct H1; [now left|right; now right].
      + cbn in H2. destruct H2 as [<-|H2]; [apply in_or_app; right; now left|].
        apply in_app_or in H2. apply in_or_app. destruct H2; [now left|right; now right].
    - left. destruct (submit_all ident run s1 ts) as [os s2]. cbn in *. now rewrite E.
    - now right.
  Qed.
End Histories.

Section HistoryCorollary.
  Variable H : string -> string.

  (* the aspects that enter the checksum agree: same field names with equal values (sets as sets, dicts as maps) *)
  Definition fields_eq (f1 f2 : list (string * pyval)) : Prop :=
    forall a, In a f1 -> exists b, In b f2 /\ fst a = fst b /\ veq (snd a) (snd b).
  Definition same_hashed_aspects (t1 t2 : taskdef) : Prop :=
    t_type t1 = t_type t2 /\ fields_eq (t_fields t1) (t_fields t2) /\ fields_eq (t_fields t2) (t_fields t1).

  (* an explicit collision of H exhibited by two tasks: between two byte strings hashed for a pair of field values,
     or for the two outer (name, hex digest) lists *)
  Definition task_collision (t1 t2 : taskdef) : Prop :=
    (exists a b, In a (t_fields t1) /\ In b (t_fields t2) /\
                 collision H (S (vdepth (snd a))) (snd a) (S (vdepth (snd b))) (snd b)) \/
    (exists l1 l2, outer_value H (t_fields t1) = Ok l1 /\ outer_value H (t_fields t2) = Ok l2 /\
                   collision H (S (vdepth l1)) l1 (S (vdepth l2)) l2).

  Definition in_domain (t : taskdef) : Prop :=
    (exists env, forall kv, In kv (t_fields t) -> field_ok H env kv) /\ exists c, identity H t = Ok c.

  Lemma match_split : forall f1 f2, fields_match H f1 f2 ->
      fields_eq f1 f2 \/ exists a b, In a f1 /\ In b f2 /\
                                    collision H (S (vdepth (snd a))) (snd a) (S (vdepth (snd b))) (snd b).
  Proof.
    induction f1 as [|a f1 IH]; intros f2 Hm; [left; intros x []|].
    destruct (Hm a (or_introl eq_refl)) as (b & Hb & Hn & [Hv|Hc]).
    - destruct (IH f2) as [He|(x & y & Hx & Hy & Hc)].
      + intros x Hx. apply Hm. now right.
      + left. intros x [<-|Hx]; [exists b; auto|auto].
      + right. exists x, y. split; [now right|auto].
    - right. exists a, b. split; [now left|auto].
  Qed.

  Theorem identity_separates_or_collision : forall t1 t2,
      in_domain t1 -> in_domain t2 -> ident_of H t1 = ident_of H t2 ->
      same_hashed_aspects t1 t2 \/ task_collision t1 t2.
  Proof.
    intros t1 t2 [[env1 O1] [c1 C1]] [[env2 O2] [c2 C2]] E. unfold ident_of in E. rewrite C1, C2 in E. subst c2.
    unfold identity in C1, C2.
    destruct (checksum_injective H env1 env2 _ _ _ _ c1 O1 O2 C1 C2) as [Ety [[M1 M2]|Hc]].
    - destruct (match_split _ _ M1) as [E1|(a & b & Ha & Hb & Hc)].
      + destruct (match_split _ _ M2) as [E2|(a & b & Ha & Hb & Hc)].
        * left. repeat split; auto.
        * right. left. exists b, a. repeat split; auto.
          destruct Hc as (s1 & s2 & X1 & X2 & Hne & Hd). exists s2, s1. repeat split; auto.
      + right. left. exists a, b. auto.
    - right. right. exact Hc.
  Qed.

  (* every cache hit in any history over tasks of the domain returns what executing now would return, whenever
     run depends only on the aspects that enter the checksum — or two submitted tasks exhibit a collision of H *)
  Theorem history_sound_or_collision : forall (O : Type) (run : taskdef -> O) (ts : list taskdef),
      (forall t, In t ts -> in_domain t) ->
      (forall t1 t2, same_hashed_aspects t1 t2 -> run t1 = run t2) ->
      fst (submit_all (ident_of H) run [] ts) = map run ts \/
      exists t1 t2, In t1 ts /\ In t2 ts /\ task_collision t1 t2.
  Proof.
    intros O run ts Hdom Hrun.
    apply (cache_sound_or (ident_of H) run _ ts [] []); [intros d o Hf; discriminate|].
    cbn [app]. intros t1 t2 H1 H2 E.
    destruct (identity_separates_or_collision t1 t2 (Hdom _ H1) (Hdom _ H2) E) as [Hs|Hc].
    - left. now apply Hrun.
    - right. exists t1, t2. auto.
  Qed.
End HistoryCorollary.

(* ------------------------------------------------------------------ non-vacuity *)
Definition ck_task (x : Z) : taskdef :=
  {| t_type := "python";
     t_fields := [("x", VList 1 [VInt x; VStr "a"]); ("function", VStr "f"); ("Outputs", VBytes "o")];
     t_meta := [] |}.
Definition ck_env (x : Z) (i : nat) : option pyval :=
  match i with 1 => Some (VList 1 [VInt x; VStr "a"]) | _ => None end.

Ltac ck_dom x :=
  split;
  [ exists (ck_env x); intros kv [<-|[<-|[<-|[]]]]; cbn [snd];
    (split; [apply (Proofs.HashDom.inj_domb_sound 3); reflexivity|]);
    [ split; [|eexists; vm_compute; reflexivity]; constructor; [intros i; discriminate| |];
      [ intros i E; inversion E; subst; split; [reflexivity|intros []]
      | cbn [node_id subs]; intros y [<-|[<-|[]]]; (constructor; [intros i; discriminate|intros i; discriminate|intros z []]) ]
    | split; [|eexists; vm_compute; reflexivity]; constructor; [intros i; discriminate|intros i; discriminate|intros z []]
    | split; [|eexists; vm_compute; reflexivity]; constructor; [intros i; discriminate|intros i; discriminate|intros z []] ]
  | eexists; vm_compute; reflexivity ].

Example ck_in_domain1 : forall H, in_domain H (ck_task 1).
Proof. intros H. ck_dom 1%Z. Qed.
Example ck_in_domain2 : forall H, in_domain H (ck_task 2).
Proof. intros H. ck_dom 2%Z. Qed.

Example ck_history : forall H, forall t, In t [ck_task 1; ck_task 2; ck_task 1] -> in_domain H t.
Proof. intros H t [<-|[<-|[<-|[]]]]; [apply ck_in_domain1|apply ck_in_domain2|apply ck_in_domain1]. Qed.
