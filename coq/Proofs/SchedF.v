(* Proofs/SchedF.v — run_async: the loop invariant holds at every state, for every oracle. *)
From Pydra Require Import Base.Prelude Base.SchedBase Model.Sched Spec.Sched Proofs.SchedA Proofs.SchedSpec Proofs.SchedB Proofs.SchedC Proofs.SchedD Proofs.SchedE.
Local Open Scope nat_scope.

Section Inv.
Variable V : Type.
Variable body : nat -> nat -> list (list (option V)) -> V.
Variable fails : job -> bool.
Variable vr : variant.
Hypothesis F14 : fix14 vr = true.
Variable g : graph.
Hypothesis WF : wf_graph g.
Variable kmax : option nat.

Notation world := (world V).
Notation sstate := (sstate V).
Notation lstate := (lstate V).
Notation GInv := (GInv V fails g).
Notation WInv := (WInv V fails).
Notation VInv := (VInv V body g).
Notation TInv := (TInv V fails vr g kmax).
Notation task_ok := (task_ok V fails g).
Notation runs := (@runs V).
Notation wle := (wle V).

Lemma GInv_mono (w w' : world) ss : wle w w' -> GInv w ss -> GInv w' ss.
Proof.
  intros H [R N P]. constructor; auto. intros n. eapply NInv_mono; eauto.
Qed.

Lemma complete_spec (w0 : world) ss fut vis : forall cs res pend errs tr,
  GInv w0 ss -> wle w0 (mkW res vis) -> WInv (mkW res vis) -> VInv (mkW res vis) ->
  TInv (mkW res vis) fut pend errs tr ->
  (forall j, In j pend -> runs ss j) ->
  let '(res', pend', errs', tr') := complete body fails cs ss res pend errs tr in
  wle (mkW res vis) (mkW res' vis) /\ WInv (mkW res' vis) /\ VInv (mkW res' vis)
  /\ TInv (mkW res' vis) fut pend' errs' tr' /\ (forall j, In j pend' -> In j pend).
Proof.
  induction cs as [|c cs IH]; intros res pend errs tr G L W Vi T R; cbn [complete].
  - split; [apply wle_refl|split; [exact W|split; [exact Vi|split; [exact T|auto]]]].
  - destruct pend as [|j0 p0].
    + split; [apply wle_refl|split; [exact W|split; [exact Vi|split; [exact T|auto]]]].
    + remember (j0 :: p0) as pend eqn:Ep.
      assert (Hl : c mod List.length pend < List.length pend).
      { apply Nat.mod_upper_bound. rewrite Ep. cbn. lia. }
      set (i := c mod List.length pend) in *.
      set (j := nth i pend j0).
      assert (Hj : In j pend) by (apply nth_In; exact Hl).
      pose proof (finish_spec V body fails vr g WF kmax w0 ss fut res vis pend (remove_nth i pend) errs tr j
                    G L W Vi T (R j Hj) Hj (fun q Hq => remove_nth_In q pend i Hq) (remove_nth_length pend i Hl)) as FS.
      cbv zeta in FS. destruct FS as [L1 [W1 [V1 T1]]].
      specialize (IH (res ++ [(j, job_result body fails ss j)]) (remove_nth i pend)
                     (match job_result body fails ss j with None => errs ++ [j] | Some _ => errs end)
                     (EFinish j (match job_result body fails ss j with None => false | Some _ => true end) :: tr)
                     G (wle_trans V _ _ _ L L1) W1 V1 T1
                     (fun q Hq => R q (remove_nth_In q pend i Hq))).
      fold i. fold j.
      destruct (complete body fails cs ss _ _ _ _) as [[[res' pend'] errs'] tr'].
      destruct IH as [L2 [W2 [V2 [T2 S2]]]].
      split; [eapply wle_trans; eauto|split; [exact W2|split; [exact V2|split; [exact T2|]]]].
      intros q Hq. eapply remove_nth_In. apply S2. exact Hq.
Qed.

Record LInv (ls : lstate) : Prop := {
  li_g : GInv (ls_w ls) (ls_ss ls);
  li_w : WInv (ls_w ls);
  li_v : VInv (ls_w ls);
  li_tasks : forall j, In j (ls_tasks ls) -> task_ok (ls_w ls) j /\ runs (ls_ss ls) j;
  li_t : TInv (ls_w ls) (ls_futured ls) (ls_pending ls) (ls_errors ls) (ls_trace ls);
  li_pend : forall j, In j (ls_pending ls) -> runs (ls_ss ls) j
}.

Lemma poll_keeps (w : world) ss (pend : list job) :
  GInv w ss -> WInv w -> (forall j, In j pend -> runs ss j) ->
  GInv w (fst (poll vr g kmax w ss))
  /\ (forall j, In j (snd (poll vr g kmax w ss)) -> task_ok w j /\ runs (fst (poll vr g kmax w ss)) j)
  /\ (forall j, In j pend -> runs (fst (poll vr g kmax w ss)) j).
Proof.
  intros G W R. destruct (poll_spec V body fails vr F14 g WF kmax w ss G W) as [A [B C]].
  split; [exact A|split; [exact B|]]. intros j Hj. destruct (R j Hj). apply C; auto.
Qed.

Lemma stall_loop_spec (w : world) (pend : list job) : forall n ss tasks,
  GInv w ss -> WInv w ->
  (forall j, In j tasks -> task_ok w j /\ runs ss j) -> (forall j, In j pend -> runs ss j) ->
  let '(ss', tasks', _) := stall_loop vr g kmax n w ss tasks in
  GInv w ss' /\ (forall j, In j tasks' -> task_ok w j /\ runs ss' j) /\ (forall j, In j pend -> runs ss' j).
Proof.
  induction n as [|n IH]; intros ss tasks G W T R; cbn [stall_loop].
  - auto.
  - destruct (is_nil tasks && any_not_done vr g w ss && negb (raised ss)); [|auto].
    destruct (poll_keeps w ss pend G W R) as [A [B C]].
    destruct (poll vr g kmax w ss) as [ss1 t1]. cbn [fst snd] in *.
    destruct n as [|n']; [auto|]. apply IH; auto.
Qed.

Lemma TInv_vis res v1 v2 fut pend errs tr :
  TInv (mkW res v1) fut pend errs tr -> TInv (mkW res v2) fut pend errs tr.
Proof. intros [A B C D E F G' H I J K L M]. constructor; [exact A|exact B|exact C|exact D|exact E|exact F|exact G'|exact H|exact I|exact J|exact K|exact L|exact M]. Qed.

Lemma world_eta (w : world) : mkW (results w) (visible w) = w.
Proof. destruct w; reflexivity. Qed.

Lemma async_step_spec o (ls : lstate) :
  LInv ls ->
  match async_step body fails vr g kmax o ls with
  | Continue ls' => LInv ls'
  | Stop _ ls' => LInv ls'
  end.
Proof.
  intros I. pose proof I as I0. destruct I as [G W Vi T Tt P]. unfold async_step.
  destruct (raised (ls_ss ls)); [exact I0|].
  destruct (negb (loop_cond vr g ls)); [exact I0|].
  (* the stall block *)
  assert (S1 : let '(ss1, tasks1, _) :=
                 (if is_nil (ls_tasks ls) && is_nil (ls_pending ls)
                  then stall_loop vr g kmax 11 (ls_w ls) (ls_ss ls) (ls_tasks ls)
                  else (ls_ss ls, ls_tasks ls, false)) in
               GInv (ls_w ls) ss1 /\ (forall j, In j tasks1 -> task_ok (ls_w ls) j /\ runs ss1 j)
               /\ (forall j, In j (ls_pending ls) -> runs ss1 j)).
  { destruct (is_nil (ls_tasks ls) && is_nil (ls_pending ls)); [|auto].
    apply stall_loop_spec; auto. }
  destruct (if is_nil (ls_tasks ls) && is_nil (ls_pending ls) then _ else _) as [[ss1 tasks1] stalled].
  destruct S1 as [G1 [T1 P1]].
  assert (I1 : LInv (mkLS ss1 (ls_w ls) tasks1 (ls_futured ls) (ls_pending ls) (ls_errors ls) (ls_trace ls) (ls_iters ls))).
  { constructor; cbn; auto. }
  destruct (raised ss1); [exact I1|].
  destruct stalled; [exact I1|].
  (* launch *)
  pose proof (launch_spec V fails vr g kmax (ls_w ls) (ls_errors ls) tasks1 (ls_futured ls) (ls_pending ls) (ls_trace ls) []
                Tt (fun j Hj => proj1 (T1 j Hj))) as LS.
  destruct (launch vr kmax tasks1 (ls_futured ls) (ls_pending ls) (ls_trace ls) []) as [[[fut pend] tr] launched].
  destruct LS as [T2 [Hp2 _]].
  assert (P2 : forall j, In j pend -> runs ss1 j).
  { intros j Hj. destruct (Hp2 j Hj) as [X|X]; [apply P1; exact X|apply T1; exact X]. }
  (* completions *)
  assert (S3 : let '(w2, pend2, errs2, tr2) :=
                 match pend with
                 | [] => (ls_w ls, pend, ls_errors ls, tr)
                 | _ :: _ => apply_step body fails o ss1 (ls_w ls) pend (ls_errors ls) tr
                 end in
               wle (ls_w ls) w2 /\ WInv w2 /\ VInv w2 /\ TInv w2 fut pend2 errs2 tr2
               /\ (forall j, In j pend2 -> In j pend)).
  { destruct pend as [|j0 p0] eqn:Ep.
    - split; [apply wle_refl|split; [exact W|split; [exact Vi|split; [exact T2|auto]]]].
    - rewrite <- Ep in *. unfold apply_step.
      match goal with |- context [complete body fails ?cs ss1 _ _ _ _] =>
        pose proof (complete_spec (ls_w ls) ss1 fut (visible (ls_w ls)) cs (results (ls_w ls)) pend (ls_errors ls) tr) as CS;
        rewrite world_eta in CS; specialize (CS G1 (wle_refl V _) W Vi T2 P2);
        destruct (complete body fails cs ss1 (results (ls_w ls)) pend (ls_errors ls) tr) as [[[res' pend'] errs'] tr']
      end.
      destruct CS as [L2 [W2 [V2 [T3 S2]]]].
      split; [|split; [|split; [|split]]].
      + intros j v Hl. apply (L2 j v Hl).
      + exact W2.
      + exact V2.
      + eapply TInv_vis; exact T3.
      + exact S2. }
  destruct (match pend with [] => _ | _ :: _ => _ end) as [[[w2 pend2] errs2] tr2].
  destruct S3 as [L3 [W3 [V3 [T3 S3]]]].
  assert (G3 : GInv w2 ss1) by (eapply GInv_mono; eauto).
  assert (P3 : forall j, In j pend2 -> runs ss1 j) by (intros j Hj; apply P2; apply S3; exact Hj).
  destruct (poll_keeps w2 ss1 pend2 G3 W3 P3) as [G4 [T4 P4]].
  destruct (poll vr g kmax w2 ss1) as [ss3 tasks3]. cbn [fst snd] in *.
  constructor; cbn; auto.
Qed.

Lemma run_loop_inv : forall fuel orc ls, LInv ls -> LInv (o_final (run_loop body fails vr g kmax fuel orc ls)).
Proof.
  induction fuel as [|f IH]; intros orc ls I; cbn [run_loop]; [exact I|].
  destruct orc as [|o rest].
  - pose proof (async_step_spec default_step ls I) as S.
    destruct (async_step body fails vr g kmax default_step ls); cbn; auto.
  - pose proof (async_step_spec o ls I) as S.
    destruct (async_step body fails vr g kmax o ls); cbn; auto.
Qed.

Lemma GInv_init : GInv (w_init V) (ss_init V).
Proof.
  constructor; cbn.
  - reflexivity.
  - intros n. apply (NInv_ns0 V body).
  - intros nd _ H. discriminate.
Qed.

Lemma LInv_init : LInv (ls_init V vr g kmax).
Proof.
  unfold ls_init.
  assert (W0 : WInv (w_init V)). { intros j. split; unfold is_ok, is_err, probe_job; cbn; discriminate. }
  destruct (poll_keeps (w_init V) (ss_init V) [] GInv_init W0 (fun j H => match H with end)) as [A [B C]].
  destruct (poll vr g kmax (w_init V) (ss_init V)) as [ss tasks]. cbn [fst snd] in *.
  constructor; cbn [ls_ss ls_w ls_tasks ls_futured ls_pending ls_errors ls_trace].
  - exact A.
  - exact W0.
  - intros n i v H. discriminate.
  - exact B.
  - constructor.
    + intros j H. unfold is_ok, probe_job in H. cbn in H. discriminate.
    + exact I.
    + reflexivity.
    + constructor.
    + intros j [].
    + intros j [].
    + intros j H. unfold is_none, probe_job in H. cbn in H. discriminate.
    + intros j; split; intros [].
    + intros j H. unfold is_err, probe_job in H. cbn in H. discriminate.
    + intros j b [].
    + reflexivity.
    + intros; cbn; lia.
    + intros; exact I.
  - intros j [].
Qed.

Theorem run_async_inv orc fuel : LInv (o_final (run_async V body fails vr g kmax orc fuel)).
Proof. unfold run_async. apply run_loop_inv. apply LInv_init. Qed.

End Inv.
