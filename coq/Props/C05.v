(* C05 — Equivalent splitter spellings agree; ill-formed split/combine is rejected early. *)
From Pydra Require Import Base.Prelude Model.State Spec.State Proofs.State Proofs.StateSpell.

(* (1) two spellings related by one-element wrappers and re-bracketing of outer chains / inner chains run the
       same jobs with the same inputs in the same order (or are both rejected for shape);
   (2) a request is accepted by the model of Task.split / Task.combine / Submitter / combiner_validation exactly
       when it is not ill-formed in one of the listed ways, and a rejected request runs no task body. *)
Definition C05_full_statement : Prop :=
  (forall (e : env) (s t : spl), respell s t -> wfb s = true -> wfb t = true ->
     prepare_states e s = prepare_states e t) /\
  (forall r : req, (exists os, validate r = inr os) <-> ~ illformed r) /\
  (forall (e : env) (r : req), illformed r -> exists v, submit e r = Rejected v /\ bodies (submit e r) = 0).

Theorem C05_full : C05_full_statement.
Proof. split; [exact respell_same_jobs| split; [exact validate_ok_iff| exact illformed_no_job]]. Qed.
Print Assumptions C05_full.

(* a bare field, a one-element list and a one-element tuple have the same RPN *)
Theorem C05_singleton : forall s, rpn (Outer [s]) = rpn s /\ rpn (Inner [s]) = rpn s.
Proof. exact rpn_single. Qed.
Print Assumptions C05_singleton.

(* re-spelling changes neither the reference expansion nor the order of the fields *)
Theorem C05_respell_expand : forall e s t, respell s t -> expand e s = expand e t /\ leaves s = leaves t.
Proof. intros e s t R. split; [exact (respell_expand e s t R)| exact (respell_leaves s t R)]. Qed.
Print Assumptions C05_respell_expand.

Theorem C05_assoc_outer : forall e l1 m l2, m <> [] ->
  expand e (Outer (l1 ++ Outer m :: l2)) = expand e (Outer (l1 ++ m ++ l2)).
Proof. intros. apply respell_expand. now constructor. Qed.
Print Assumptions C05_assoc_outer.

Theorem C05_assoc_inner : forall e l1 m l2, m <> [] ->
  expand e (Inner (l1 ++ Inner m :: l2)) = expand e (Inner (l1 ++ m ++ l2)).
Proof. intros. apply respell_expand. now constructor. Qed.
Print Assumptions C05_assoc_inner.

Theorem C05_shape_reject_no_job : forall e r, submit e r = RejectedShape -> bodies (submit e r) = 0.
Proof. exact rejected_shape_no_job. Qed.
Print Assumptions C05_shape_reject_no_job.

(* a request is judged alike whether the task is submitted directly or added to a workflow as a node *)
Definition with_node (b : bool) (r : req) : req :=
  {| r_split_called := r_split_called r; r_split := r_split r; r_vals := r_vals r; r_nonseq := r_nonseq r;
     r_comb := r_comb r; r_task := r_task r; r_node := b |}.
Theorem C05_node_same : forall (r : req) (b : bool), validate (with_node b r) = validate r.
Proof. intros r b. rewrite !validate_eq. reflexivity. Qed.
Print Assumptions C05_node_same.

(* non-vacuity *)
Example C05_example_respell :
  respell (Outer [Fld 0; Outer [Inner [Fld 1; Inner [Fld 2; Fld 3]]; Outer [Fld 4]]])
          (Outer [Outer [Fld 0; Inner [Inner [Fld 1; Fld 2]; Fld 3]]; Fld 4]).
Proof.
  eapply rs_trans; [apply (rs_assoc_outer [Fld 0] [Inner [Fld 1; Inner [Fld 2; Fld 3]]; Outer [Fld 4]] []); discriminate|].
  cbn [app].
  eapply rs_trans; [apply (rs_cong_outer [Fld 0; Inner [Fld 1; Inner [Fld 2; Fld 3]]] (Outer [Fld 4]) (Fld 4) []); apply rs_single_outer|].
  cbn [app].
  eapply rs_trans; [apply (rs_cong_outer [Fld 0] (Inner [Fld 1; Inner [Fld 2; Fld 3]]) (Inner [Fld 1; Fld 2; Fld 3]) [Fld 4]);
                    apply (rs_assoc_inner [Fld 1] [Fld 2; Fld 3] []); discriminate|].
  cbn [app].
  apply rs_sym.
  eapply rs_trans; [apply (rs_assoc_outer [] [Fld 0; Inner [Inner [Fld 1; Fld 2]; Fld 3]] [Fld 4]); discriminate|].
  cbn [app].
  apply (rs_cong_outer [Fld 0] (Inner [Inner [Fld 1; Fld 2]; Fld 3]) (Inner [Fld 1; Fld 2; Fld 3]) [Fld 4]).
  apply (rs_assoc_inner [] [Fld 1; Fld 2] [Fld 3]); discriminate.
Qed.

Example C05_example_validate :
  let ok := {| r_split_called := true; r_split := Some (Outer [Fld 0; Inner [Fld 1; Fld 2]]); r_vals := [2; 0; 1];
               r_nonseq := []; r_comb := Some [1]; r_task := [0; 1; 2; 3]; r_node := false |} in
  validate ok = inr (Some (Outer [Fld 0; Inner [Fld 1; Fld 2]])) /\
  validate {| r_split_called := true; r_split := Some (Outer [Fld 0; Fld 0]); r_vals := [0]; r_nonseq := [];
              r_comb := None; r_task := [0; 1]; r_node := true |} = inl VDup /\
  validate {| r_split_called := true; r_split := Some (Outer [Fld 0; Fld 1]); r_vals := [0; 1]; r_nonseq := [];
              r_comb := Some [2]; r_task := [0; 1; 2]; r_node := true |} = inl VCombNotSplit /\
  validate {| r_split_called := false; r_split := None; r_vals := []; r_nonseq := [];
              r_comb := Some [0]; r_task := [0; 1]; r_node := false |} = inl VCombNoSplit /\
  validate {| r_split_called := false; r_split := None; r_vals := []; r_nonseq := [];
              r_comb := Some [0]; r_task := [0; 1]; r_node := true |} = inl VCombNoSplit.
Proof. repeat split. Qed.
