(* Proofs/Shlex.v — facts about the shlex state machine of Base/Shlex.v.
   1. split (join args) = args for CPython's shlex.quote/shlex.join, for every list of byte strings
      (started from the design spike, DESIGN Appendix A.3; extended with quote's "safe word" shortcut and '').
   2. on text without quotes and backslashes, shlex.split is plain whitespace splitting ([words]).        *)
From Pydra Require Import Base.Prelude Base.Shlex.
Local Open Scope char_scope.
Local Open Scope list_scope.

Lemma sq_neq_dq : Ascii.eqb sq dq = false. Proof. reflexivity. Qed.
Lemma sq_neq_bsl : Ascii.eqb sq bsl = false. Proof. reflexivity. Qed.

(* ------------------------------------------------------------------ single-quoted text *)
Lemma lex_esc a : forall r tok qd acc,
  lex (esc a ++ sq :: r) (SQuote sq) tok qd acc = lex r SWord (rev a ++ tok) true acc.
Proof.
  induction a as [|c a IH]; intros r tok qd acc.
  - cbn. reflexivity.
  - cbn [esc flat_map]. rewrite <- app_assoc. unfold esc1 at 1.
    destruct (Ascii.eqb c sq) eqn:E.
    + apply Ascii.eqb_eq in E. subst c.
      cbn [app]. cbn [lex]. rewrite Ascii.eqb_refl.
      cbn [is_ws sq dq bsl]. cbn.
      fold sq. fold dq. fold bsl.
      change (flat_map esc1 a) with (esc a).
      rewrite IH. cbn [rev]. rewrite <- app_assoc. reflexivity.
    + cbn [app lex]. rewrite E.
      assert (Hb: (Ascii.eqb c bsl && Ascii.eqb sq dq)%bool = false) by (rewrite sq_neq_dq, andb_false_r; reflexivity).
      rewrite Hb. change (flat_map esc1 a) with (esc a). rewrite IH.
      cbn [rev]. rewrite <- app_assoc. reflexivity.
Qed.

Lemma lex_always_quote a : forall r acc,
  lex (always_quote a ++ r) SWs [] false acc = lex r SWord (rev a) true acc.
Proof.
  intros. unfold always_quote. cbn [app lex]. cbn [is_ws sq]. cbn.
  fold sq. rewrite <- app_assoc. cbn [app]. rewrite lex_esc. rewrite app_nil_r. reflexivity.
Qed.

(* text between single quotes that contains no single quote is taken literally *)
Lemma esc_no_sq a : forallb (fun c => negb (Ascii.eqb c sq)) a = true -> esc a = a.
Proof.
  induction a as [|c a IH]; cbn; [reflexivity|].
  intros H. apply andb_true_iff in H as [H1 H2]. unfold esc1.
  apply negb_true_iff in H1. rewrite H1. cbn. f_equal. apply IH, H2.
Qed.

(* ------------------------------------------------------------------ bare words *)

Lemma plain_char_inv c : plain_char c = true ->
  is_ws c = false /\ Ascii.eqb c sq = false /\ Ascii.eqb c dq = false /\ Ascii.eqb c bsl = false.
Proof.
  unfold plain_char. intros H. apply negb_true_iff in H.
  repeat (apply orb_false_iff in H as [H ?]). auto.
Qed.

Lemma lex_plain_word w : forallb plain_char w = true -> forall r tok qd acc,
  lex (w ++ r) SWord tok qd acc = lex r SWord (rev w ++ tok) qd acc.
Proof.
  induction w as [|c w IH]; intros H r tok qd acc; [reflexivity|].
  cbn [forallb] in H. apply andb_true_iff in H as [Hc Hw].
  destruct (plain_char_inv c Hc) as (H1 & H2 & H3 & H4).
  cbn [app lex]. rewrite H1, H2, H3, H4. cbn [orb].
  rewrite IH by assumption. cbn [rev]. rewrite <- app_assoc. reflexivity.
Qed.

Lemma lex_plain_start c w : plain_char c = true -> forallb plain_char w = true -> forall r acc,
  lex ((c :: w) ++ r) SWs [] false acc = lex r SWord (rev (c :: w)) false acc.
Proof.
  intros Hc Hw r acc. destruct (plain_char_inv c Hc) as (H1 & H2 & H3 & H4).
  cbn [app lex]. rewrite H1, H2, H3, H4. cbn [orb].
  rewrite lex_plain_word by assumption. reflexivity.
Qed.

Lemma safe_plain c : safe_char c = true -> plain_char c = true.
Proof.
  destruct c as [[] [] [] [] [] [] [] []]; vm_compute; intros H; try reflexivity; discriminate H.
Qed.

Lemma forallb_safe_plain a : forallb safe_char a = true -> forallb plain_char a = true.
Proof.
  induction a as [|c a IH]; cbn; [reflexivity|]. intros H. apply andb_true_iff in H as [H1 H2].
  rewrite (safe_plain c H1), (IH H2). reflexivity.
Qed.

(* ------------------------------------------------------------------ shlex.quote, any string *)
Definition emits (tok : la) (qd : bool) : bool := negb (match tok with [] => true | _ => false end) || qd.

Lemma lex_quote a : forall r acc, exists qd,
  lex (quote a ++ r) SWs [] false acc = lex r SWord (rev a) qd acc /\ emits (rev a) qd = true.
Proof.
  intros r acc. destruct a as [|c a].
  - exists true. split; [|reflexivity]. cbn. reflexivity.
  - unfold quote. destruct (forallb safe_char (c :: a)) eqn:S.
    + exists false. apply forallb_safe_plain in S. cbn [forallb] in S. apply andb_true_iff in S as [Sc Sa].
      split; [apply lex_plain_start; assumption|].
      unfold emits. cbn [rev]. destruct (rev a ++ [c]) eqn:E; [|reflexivity].
      apply app_eq_nil in E as [_ E]. discriminate E.
    + exists true. split; [apply lex_always_quote|]. unfold emits. apply orb_true_r.
Qed.

Theorem split_join : forall args acc,
  lex (join args) SWs [] false acc = Ok (rev acc ++ args).
Proof.
  unfold join.
  induction args as [|a rest IH]; intros acc.
  - cbn. rewrite app_nil_r. reflexivity.
  - destruct rest as [|b rest'].
    + cbn [join_with]. rewrite <- (app_nil_r (quote a)).
      destruct (lex_quote a [] acc) as (qd & -> & He).
      cbn [lex]. unfold emits in He. rewrite He. rewrite rev_involutive. cbn [rev]. reflexivity.
    + change (join_with quote (a :: b :: rest')) with (quote a ++ " " :: join_with quote (b :: rest')).
      destruct (lex_quote a (" " :: join_with quote (b :: rest')) acc) as (qd & -> & He).
      cbn [lex is_ws]. unfold emits in He. rewrite He. rewrite rev_involutive.
      rewrite IH. cbn [rev]. rewrite <- app_assoc. reflexivity.
Qed.

Theorem split_join_roundtrip : forall args, split_la (join args) = Ok args.
Proof. intros. unfold split_la. rewrite split_join. reflexivity. Qed.

Theorem split_join_roundtrip_s : forall l, split (join_s l) = SOk l.
Proof.
  intros l. unfold split, join_s. rewrite la_of_str_of, split_join_roundtrip.
  f_equal. rewrite map_map. induction l as [|x l IH]; cbn; [reflexivity|].
  now rewrite str_of_la_of, IH.
Qed.

(* ------------------------------------------------------------------ text without quotes / backslashes *)
Lemma lex_words_gen s : forallb noq_char s = true -> forall tok acc,
  lex s (match tok with [] => SWs | _ => SWord end) tok false acc = Ok (rev acc ++ words_aux s tok).
Proof.
  induction s as [|c s IH]; intros H tok acc.
  - destruct tok; cbn; [rewrite app_nil_r; reflexivity|]. reflexivity.
  - cbn [forallb] in H. apply andb_true_iff in H as [Hc Hs].
    unfold noq_char in Hc. apply negb_true_iff in Hc.
    apply orb_false_iff in Hc as [Hc H3]. apply orb_false_iff in Hc as [H1 H2].
    destruct tok as [|t tok].
    + cbn [lex words_aux]. destruct (is_ws c) eqn:W.
      * apply (IH Hs [] acc).
      * rewrite H3, H1, H2. cbn [orb]. apply (IH Hs [c] acc).
    + cbn [lex words_aux]. destruct (is_ws c) eqn:W.
      * cbn [negb orb]. rewrite (IH Hs [] (rev (t :: tok) :: acc)).
        cbn [rev]. rewrite <- app_assoc. reflexivity.
      * rewrite H1, H2, H3. cbn [orb]. apply (IH Hs (c :: t :: tok) acc).
Qed.

Theorem split_noquote : forall s, forallb noq_char s = true -> split_la s = Ok (words s).
Proof. intros s H. unfold split_la, words. apply (lex_words_gen s H [] []). Qed.
