"""C09 — file hashes always reflect current file content (pydra/utils/hash.py: bytes_repr_fileset key,
PersistentCache.get_or_calculate_hash, hash_single's persistent-key branch).

Driver: histories of file-system operations on real files in a temp dir, interleaved with hash requests
served by one or two interpreters sharing a temporary PYDRA_HASH_CACHE; every step is compared with the
Coq model (Model/FileHash.v: Unix file-system model + cache layers + key) and every hash with the spec
(Spec/FileHash.v, and independently with a cache-less recomputation by pydra itself).
"""
import json
import os
import shutil
import subprocess
import sys
import tempfile
import time

from .lib import coqio
from .lib.runner import Outcome, Failure

PROP = "C09"
PROPS_FILE = "Props/C09.v"
MANIFEST = dict(
    text="Theorem C09_full (Coq, closed under the global context): on the Unix file-system model (names, symlinks, "
         "one level of directories, inode table with hard links; write / utime / rename-over / copy2 / link / unlink / "
         "symlink / mkdir) every history of operations interleaved with hash requests of any number of processes "
         "(fresh or long-lived PersistentCache object, directly or through Task._hash) and cache clean-ups returns at "
         "every request the content hash of what the file or directory holds at that moment, for the key of the "
         "current code (inode, mtime, ctime, size of every hashed file) — under the stated assumption that a later "
         "operation stamps a strictly larger st_ctime. C09_inv_under_key proves the same for ANY file system and ANY "
         "key that never recurs with different content along a history; C09_refuted_mtime_key shows the key before "
         "commit 39d1fa1f (paths + lstat mtime) does not have the property (6 witness histories, all reproduced "
         "against the pre-fix code). The model is tied to the code by executing generated histories on real files "
         "and comparing file-system snapshots, cache keys, store sizes and returned hashes step by step inside Coq.",
    note="Trusted: Coq kernel + vm_compute; hand-written model of get_or_calculate_hash / hash_single / "
         "hashed_file_stats and of the Linux file-system operations; Section hypothesis now_strict (st_ctime of a "
         "later operation is strictly larger: false for two changes inside one kernel timestamp tick when no stat "
         "intervenes — measured by the driver and reported, not hidden); blake2b kept symbolic; operations do not "
         "overlap a hash computation. Correspondence is differential testing.",
    technique="Coq proof (history invariant: every cached entry was computed from an earlier state of the same history; "
              "key soundness from a monotone-ctime argument on the inode table) + step-by-step model/impl "
              "correspondence on generated operation histories via generated cases.v",
    design="§8 Group B / C09",
)
TIE_NAME = "Model.FileHash (fstep, K_fixed, do_hash) vs real files + pydra.utils.hash (bytes_repr_fileset, PersistentCache)"
TRUSTED = [
    "Model/FileHash.v: hand-written model of PersistentCache.get_or_calculate_hash (in-memory table, key file, "
    "calculate+store), of hash_single's persistent-key branch, of the cache key built by bytes_repr_fileset / "
    "hashed_file_stats, and of the Linux semantics of open(..,'wb').write / os.utime / os.replace / shutil.copy2 / "
    "os.link / os.unlink / os.symlink / os.mkdir on names, symlinks, one directory level and an inode table",
    "Section hypothesis now_strict (Proofs/FileHash.v, Section Concrete): the kernel clock value stamped into st_ctime "
    "by a later operation is strictly larger than that of every earlier operation; utime cannot set ctime. "
    "Two content changes inside one timestamp tick (coarse kernel clock, no intervening stat on multigrain kernels) "
    "violate it; the driver waits for the clock to advance before every operation and separately measures how "
    "often back-to-back rewrites get equal ctimes on this machine (coverage.os_probe)",
    "blake2b and fileformats' byte_chunks are symbolic: the content hash is the (type, [(relative name, bytes)]) tree; "
    "the driver maps observed digests to trees through pydra's own cache-less recomputation",
    "modelled, not verified: SoftFileLock makes a hash request atomic w.r.t. other requests; file operations do not "
    "overlap a hash request (no write between the stat for the key and the read of the bytes); key files are not "
    "truncated by crashes; the id()-keyed Cache._hashes table lives for one request only (as in Task._compute_hashes)",
]
ASSUMPTIONS = [
    "every modelled operation that changes an inode gets a st_ctime strictly larger than all earlier ones (now_strict); "
    "same-tick races are outside the theorem",
    "file-system operations and hash requests are atomic with respect to each other",
    "filesets are File (regular file or symlink chain to one) or Directory with regular files directly inside",
]
RULE = ("generated histories (setup + 3..9 operations from write same/different size, utime set (past or ~10^9 s in the future)/restore, rename-over, "
        "copy2, hard link, unlink, symlink, mkdir, cache clean-up, hash request in process 0/1 with mode "
        "fresh|object|task) on 3 root names and 5 directories nested up to depth 3 (d0, d0/s0, d0/s0/t0, d1, d1/s0) x 2 names, a third of the histories hashing a directory with files rewritten one, two and three levels down; distinct = distinct operation list; "
        "non-trivial = some hash request asks for a target whose content differs from what it was at that target's "
        "previous hash request")

PY = "/venv/bin/python"
VERIF = coqio.VERIF
BASE = 1_500_000_000_000_000_000      # real ns value of logical mtime 0 for explicit utime values (< NOW0)
FUT = 3_000_000_000_000_000_000       # real ns value (year 2065, ~10^9 s ahead) of logical mtime FUT0: pinned far in the future
FUT0 = 200                            # logical future mtimes are FUT0 .. FUT0+19: later than every kernel stamp NOW0+k
NOW0 = 20                             # logical value of the kernel stamp of operation 0 (small: nat literals are unary)
TOPS = [0, 1, 2]
DIRS = [0, 1, 2, 3, 4]                 # directory ids; nesting (= parentc in the Coq cases): 2 in 0, 3 in 2, 4 in 1
# names are the harness's choice (the model knows ids only): one hidden nested directory and, inside directories,
# one dot-file, because directory walkers (glob, fnmatch-based filters) commonly skip names that start with "."
DIRPATH = {0: "d0", 1: "d1", 2: "d0/s0", 3: "d0/s0/t0", 4: "d1/.s0"}
DIRID = {v: k for k, v in DIRPATH.items()}
SUBS = [(d, n) for d in DIRS for n in (0, 1)]
SUBNAME = {0: "f0", 1: ".f1"}              # file n inside a directory
CONTENTS = ["aaaa", "bbbb", "cccc", "dd", "eeeeeeee"]
IMPORTS = ["Model.FileHash", "Spec.FileHash"]


# ============================================================================ worker (fresh interpreter)
def _worker_main():
    import traceback
    from pathlib import Path
    from fileformats.generic import File, Directory
    from pydra.compose import python
    from pydra.utils import hash as H

    @python.define
    def FileIdent(x: File) -> File:
        return x

    @python.define
    def DirIdent(x: Directory) -> Directory:
        return x

    st = {"pc": None, "cache": None}

    def mk(kind, path):
        return File(path) if kind == "file" else Directory(path)

    def jsonable(x):
        return [jsonable(y) for y in x] if isinstance(x, (tuple, list)) else x

    out_stream = sys.stdout
    sys.stdout = sys.stderr          # nothing but protocol lines on the real stdout
    for line in sys.stdin:
        req = json.loads(line)
        out = {}
        try:
            cmd = req["cmd"]
            if cmd == "reset":
                os.environ["PYDRA_HASH_CACHE"] = req["cache"]
                st["cache"] = req["cache"]
                st["pc"] = H.PersistentCache(req["cache"])
            elif cmd == "hash":
                try:
                    obj = mk(req["kind"], req["path"])
                except Exception as e:
                    out = {"err": type(e).__name__}
                else:
                    try:
                        out["key"] = jsonable(next(H.bytes_repr_fileset(obj, None)))
                    except Exception as e:
                        out["key"] = "unreadable: %r" % e
                    mode = req["mode"]
                    if mode == "fresh":
                        out["hex"] = H.hash_function(obj)
                    elif mode == "obj":
                        out["hex"] = H.hash_object(obj, persistent_cache=st["pc"]).hex()
                    else:
                        t = (FileIdent if req["kind"] == "file" else DirIdent)(x=obj)
                        t._hash
                        out["hex"] = t._hashes["x"]
                        out["checksum"] = t._checksum
            elif cmd == "oracle":        # cache-less computation: an empty persistent cache nobody else uses
                os.environ["PYDRA_HASH_CACHE"] = req["fresh_cache"]
                try:
                    try:
                        obj = mk(req["kind"], req["path"])
                    except Exception as e:
                        out = {"err": type(e).__name__}
                    else:
                        out["hex"] = H.hash_function(obj, persistent_cache=Path(req["fresh_cache"]))
                        if req.get("task"):
                            shutil.rmtree(req["fresh_cache"], ignore_errors=True)
                            t = (FileIdent if req["kind"] == "file" else DirIdent)(x=obj)
                            out["checksum"] = t._checksum
                finally:
                    os.environ["PYDRA_HASH_CACHE"] = st["cache"]
                    shutil.rmtree(req["fresh_cache"], ignore_errors=True)
            elif cmd == "cleanup":
                H.PersistentCache(st["cache"], cleanup_period=-100).clean_up()
            elif cmd == "quit":
                break
        except Exception:
            out = {"fatal": traceback.format_exc()}
        out_stream.write("@@" + json.dumps(out) + "\n")
        out_stream.flush()


class Worker:
    def __init__(self):
        env = dict(os.environ)
        env["PYTHONPATH"] = VERIF + ":" + os.environ.get("VERIF_REPO", "/repo")
        env.setdefault("PYTHONHASHSEED", "0")
        env["NO_ET"] = "1"
        env["PYTHONDONTWRITEBYTECODE"] = "1"
        self.p = subprocess.Popen([PY, "-m", "harness.c09", "worker"], stdin=subprocess.PIPE, stdout=subprocess.PIPE,
                                  stderr=subprocess.DEVNULL, text=True, env=env, cwd=VERIF)

    def call(self, **req):
        self.send(**req)
        return self.recv(req)

    def send(self, **req):
        self.p.stdin.write(json.dumps(req) + "\n")
        self.p.stdin.flush()

    def recv(self, req=None):
        while True:
            line = self.p.stdout.readline()
            if not line:
                raise RuntimeError("C09 worker died (request %r)" % (req,))
            if line.startswith("@@"):
                out = json.loads(line[2:])
                if "fatal" in out:
                    raise RuntimeError("C09 worker error: " + out["fatal"])
                return out

    def close(self):
        try:
            self.p.stdin.write('{"cmd": "quit"}\n')
            self.p.stdin.flush()
            self.p.wait(timeout=10)
        except Exception:
            self.p.kill()


# ============================================================================ Gallina encoders
def enc_path(p):
    return "(Top %d)" % p[1] if p[0] == "top" else "(Sub %d %d)" % (p[1], p[2])


def enc_target(t):
    return "(TFile %s)" % enc_path(t[1]) if t[0] == "file" else "(TDir %d)" % t[1]


def enc_tree(tree):
    """observed answer of a hash request: HErr | HOut isdir [IT name content]"""
    if tree is None:
        return None
    isdir, items = tree
    return "%s %s" % (coqio.boolean(isdir), coqio.lst(["(IT %d %d %s)" % (r[0], r[1], coqio.string(c)) for r, c in items]))


def enc_key(k):
    return coqio.lst(["(KS %d %d %d %d %d %d)" % ((e[0][0], e[0][1]) + tuple(e[1:])) for e in k])


MODE = {"fresh": "MFresh", "obj": "MObj", "task": "MTask"}


def path_code(p):
    return p[1] if p[0] == "top" else 100 + 10 * p[1] + p[2]


# ============================================================================ executing one history
class ModelGap(Exception):
    """the history left the fragment the model covers (driver guard, never an implementation fault)"""


class Exec:
    def __init__(self, root, workers):
        self.root = root
        self.fs = os.path.join(root, "fs")
        self.hc = os.path.join(root, "hc")
        os.makedirs(self.fs)
        self.workers = workers
        for w in workers:
            w.call(cmd="reset", cache=self.hc)
        self.real2log = {}
        self.ino2log = {}
        self.kmax = 0
        self.k = 0
        self.hex2tree = {}
        self.hashed_mtime = {}     # path -> real mtime it had when a target containing it was last hashed
        self.prev_tree = {}        # target -> content tree at its previous hash request
        self.probe = os.path.join(root, "probe")
        open(self.probe, "w").close()
        self.nfresh = 0
        self.prev_snap, self.prev_dsnap = {}, {}
        self.os_violations = []
        self.coq_ops, self.coq_obs, self.trace = [], [], []
        self.rehash_after_change = 0
        self.python_spec_failures = []

    # ---- naming
    def rp(self, p):
        return os.path.join(self.fs, "f%d" % p[1]) if p[0] == "top" else os.path.join(self.rd(p[1]), SUBNAME[p[2]])

    def rd(self, d):
        return os.path.join(self.fs, DIRPATH[d])

    def unpath(self, s):
        rel = os.path.relpath(s, self.fs)
        d, base = os.path.dirname(rel), os.path.basename(rel)
        if d == "" and base[:1] == "f" and base[1:].isdigit():
            return ("top", int(base[1:]))
        if d in DIRID and base in SUBNAME.values():
            return ("sub", DIRID[d], int(base.lstrip(".")[1:]))
        raise ModelGap("path outside the universe: %s" % s)

    def rel(self, tgt, path):
        """relative name of a hashed file as the model codes it: (0, n) directly in the target, (x+1, n) in nested directory x"""
        p = self.unpath(path)
        if tgt[0] == "file":
            return (0, 0)
        return (0 if p[1] == tgt[1] else p[1] + 1, p[2])

    # ---- time
    def wait_tick(self):
        """do not start an operation before the kernel clock has moved past every stamp seen so far"""
        for _ in range(400):
            os.utime(self.probe)
            if os.lstat(self.probe).st_ctime_ns > self.kmax:
                return
            time.sleep(0.0005)
        raise RuntimeError("kernel clock does not advance")

    def logical(self, v, newvals):
        if v in self.real2log:
            return self.real2log[v]
        if BASE <= v < BASE + NOW0:
            return v - BASE
        if FUT <= v < FUT + NOW0:
            return FUT0 + v - FUT
        if v <= self.kmax:
            self.os_violations.append({"op": self.k, "value": v, "kmax": self.kmax})
        newvals.append(v)
        self.real2log[v] = NOW0 + self.k
        return NOW0 + self.k

    def free_ino(self):
        used = set(self.ino2log.values())
        i = 0
        while i in used:
            i += 1
        return i

    # ---- snapshot of the whole universe, in logical values
    def snapshot(self):
        newvals = []
        snaps, present = [], {}
        raw = {}
        for p in [("top", n) for n in TOPS] + [("sub", d, n) for d, n in SUBS]:
            try:
                st = os.lstat(self.rp(p))
            except OSError:
                raw[p] = None
                continue
            raw[p] = st
            if not (os.path.islink(self.rp(p)) or os.path.isfile(self.rp(p))):
                raise ModelGap("not a file or symlink: %r" % (p,))
            if not os.path.islink(self.rp(p)):
                present[st.st_ino] = True
        for ino in list(self.ino2log):
            if ino not in present:
                del self.ino2log[ino]
        for ino in present:
            if ino not in self.ino2log:
                self.ino2log[ino] = self.free_ino()
        for p, st in raw.items():
            if st is None:
                snaps.append((p, (0, 0, "", 0, 0, 0)))
            elif os.path.islink(self.rp(p)):
                tgt = os.readlink(self.rp(p))
                snaps.append((p, (2, path_code(self.unpath(tgt)), "", self.logical(st.st_mtime_ns, newvals), 0, 0)))
            else:
                with open(self.rp(p), "rb") as f:
                    content = f.read().decode("ascii")
                snaps.append((p, (1, self.ino2log[st.st_ino], content, self.logical(st.st_mtime_ns, newvals),
                                  self.logical(st.st_ctime_ns, newvals), st.st_nlink)))
        dsn = []
        for d in DIRS:
            try:
                st = os.lstat(self.rd(d))
                dsn.append((d, (1, self.logical(st.st_mtime_ns, newvals), self.logical(st.st_ctime_ns, newvals))))
            except OSError:
                dsn.append((d, (0, 0, 0)))
        if newvals:
            self.kmax = max(self.kmax, max(newvals))
        return snaps, dsn

    def enc_snapshot(self, snaps, dsn):
        """only what changed since the previous snapshot; Coq carries the rest forward and compares everything"""
        sd = ["(SD %s %d %d %s %d %d %d)" % (enc_path(p), s[0], s[1], coqio.string(s[2]), s[3], s[4], s[5])
              for p, s in snaps if self.prev_snap.get(p, (0, 0, "", 0, 0, 0)) != s]
        dd = ["(DD %d %d %d %d)" % (d, s[0], s[1], s[2]) for d, s in dsn if self.prev_dsnap.get(d, (0, 0, 0)) != s]
        self.prev_snap = dict(snaps)
        self.prev_dsnap = dict(dsn)
        return coqio.lst(sd), coqio.lst(dd)

    # ---- content tree actually on disk
    def tree(self, tgt):
        if tgt[0] == "file":
            rp = self.rp(tgt[1])
            if not os.path.isfile(rp):
                return None
            with open(rp, "rb") as f:
                return (False, [((0, 0), f.read().decode("ascii"))])
        rd = self.rd(tgt[1])
        if not os.path.isdir(rd):
            return None
        items = []
        for m in self.members(tgt):
            with open(m, "rb") as f:
                items.append((self.rel(tgt, m), f.read().decode("ascii")))
        return (True, sorted(items))

    def members(self, tgt):
        """real paths of the files hashed for a target (a directory is walked at every depth)"""
        if tgt[0] == "file":
            return [os.path.realpath(self.rp(tgt[1]))]
        rd = self.rd(tgt[1])
        return sorted(os.path.join(d, fn) for d, _, fns in os.walk(rd) for fn in fns) if os.path.isdir(rd) else []

    # ---- one abstract operation
    def step(self, op):
        kind = op[0]
        if kind == "hash":
            return self.do_hash(op)
        if kind == "hash2":          # both processes ask at the same time (modelled as two requests in a row)
            if op[1] == "obj":
                # with long-lived PersistentCache objects the order in which the two requests get the lock decides
                # which process memoises the value: not a function of the history, so run them one after the other
                self.do_hash(["hash", 0, op[1], op[2]])
                return self.do_hash(["hash", 1 % len(self.workers), op[1], op[2]])
            return self.do_hash(["hash", 0, op[1], op[2]], concurrent=True)
        if kind == "cleanup":
            self.workers[0].call(cmd="cleanup")
            self.coq_ops.append("gcl")
            self.coq_obs.append("ONone")
            self.trace.append({"op": op})
            return
        self.wait_tick()
        newi = self.free_ino()
        err = None
        try:
            if kind == "write":
                coq = "(OWrite %s %s %d)" % (enc_path(op[1]), coqio.string(op[2]), newi)
                with open(self.rp(op[1]), "wb") as f:
                    f.write(op[2].encode())
            elif kind in ("utime", "utime_restore"):
                if kind == "utime":
                    real = FUT + op[2] - FUT0 if op[2] >= FUT0 else BASE + op[2]
                else:
                    real = self.hashed_mtime.get(os.path.realpath(self.rp(op[1])), BASE + 5)
                m = self.logical(real, [])
                coq = "(OUtime %s %d)" % (enc_path(op[1]), m)
                os.utime(self.rp(op[1]), ns=(real, real))
            elif kind == "rename":
                if os.path.islink(self.rp(op[1])) and op[2][0] == "sub":
                    raise ModelGap("symlinks live in the root only")
                coq = "(ORename %s %s)" % (enc_path(op[1]), enc_path(op[2]))
                os.replace(self.rp(op[1]), self.rp(op[2]))
            elif kind == "copy":
                coq = "(OCopy %s %s %d)" % (enc_path(op[1]), enc_path(op[2]), newi)
                shutil.copy2(self.rp(op[1]), self.rp(op[2]))
            elif kind == "link":
                if os.path.islink(self.rp(op[1])):
                    raise ModelGap("hard link to a symlink")
                coq = "(OLink %s %s)" % (enc_path(op[1]), enc_path(op[2]))
                os.link(self.rp(op[1]), self.rp(op[2]))
            elif kind == "unlink":
                coq = "(OUnlink %s)" % enc_path(op[1])
                os.unlink(self.rp(op[1]))
            elif kind == "symlink":
                coq = "(OSymlink %d %s)" % (op[1], enc_path(op[2]))
                os.symlink(self.rp(op[2]), self.rp(("top", op[1])))
            elif kind == "mkdir":
                coq = "(OMkdir %d)" % op[1]
                os.mkdir(self.rd(op[1]))
            else:
                raise ValueError(op)
        except OSError as e:
            err = type(e).__name__
        snaps, dsn = self.snapshot()
        s1, s2 = self.enc_snapshot(snaps, dsn)
        self.coq_ops.append("(gfs %s)" % coq)
        self.coq_obs.append("(OFs %s %s)" % (s1, s2))
        self.trace.append({"op": op, "oserror": err, "coq": coq})
        self.k += 1

    def parse_key(self, tgt, key):
        """CacheKey of the current code -> [(relative name, ino, mtime, ctime, size)] in logical values; None = unknown shape"""
        try:
            stats = [e for e in key if isinstance(e, list)]
            reprs = [e for e in key if isinstance(e, str)]
            if len(reprs) != 1 or len(stats) + len(reprs) != len(key):
                return None
            out = []
            for path, ino, mtime, ctime, size in stats:
                rel = (0, 0) if tgt[0] == "file" else self.rel(tgt, path)
                out.append((rel, self.ino2log[ino], self.logical(mtime, []), self.logical(ctime, []), size))
            return sorted(out)
        except Exception:
            return None

    def do_hash(self, op, concurrent=False):
        _, proc, mode, tgt = op
        w = self.workers[proc % len(self.workers)]
        if concurrent and len(self.workers) < 2:
            concurrent = False
        kind = tgt[0]
        path = self.rp(tgt[1]) if kind == "file" else self.rd(tgt[1])
        self.nfresh += 1
        oracle = w.call(cmd="oracle", kind=kind, path=path, task=(mode == "task"),
                        fresh_cache=os.path.join(self.root, "fresh%d" % self.nfresh))
        tree = self.tree(tgt)
        if "hex" in oracle:
            self.hex2tree.setdefault(oracle["hex"], tree)
        if concurrent:
            for x in self.workers[:2]:
                x.send(cmd="hash", kind=kind, path=path, mode=mode)
            res, res_b = [x.recv() for x in self.workers[:2]]
        else:
            res = w.call(cmd="hash", kind=kind, path=path, mode=mode)
        store = len([f for f in os.listdir(self.hc) if not f.endswith(".lock")]) if os.path.isdir(self.hc) else 0
        if "hex" in res:
            obs_tree = self.hex2tree.get(res["hex"], (True, [((99, 99), "unknown digest")]))
            key = self.parse_key(tgt, res.get("key"))
            obs = "(HOut %s %s %d)" % (enc_tree(obs_tree), enc_key(key) if key is not None else "[KS 98 98 98 0 0 0]", store)
            for m in self.members(tgt):
                try:
                    self.hashed_mtime[m] = os.stat(m).st_mtime_ns
                except OSError:
                    pass
        else:
            obs = "(HErr %d)" % store
        tkey = json.dumps(tgt)
        if tkey in self.prev_tree and self.prev_tree[tkey] != tree and tree is not None:
            self.rehash_after_change += 1
        self.prev_tree[tkey] = tree
        self.coq_ops.append("(ghash %d %s %s)" % (proc, MODE[mode], enc_target(tgt)))
        self.coq_obs.append(obs)
        entry = {"op": op, "hash": res.get("hex", res.get("err")), "cacheless": oracle.get("hex", oracle.get("err")),
                 "store_entries": store}
        if mode == "task":
            entry["checksum"], entry["cacheless_checksum"] = res.get("checksum"), oracle.get("checksum")
        self.trace.append(entry)
        ok = res.get("hex") == oracle.get("hex") and res.get("err") == oracle.get("err")
        if mode == "task" and "hex" in res:
            ok = ok and res.get("checksum") == oracle.get("checksum")
        if concurrent:
            ok = ok and res_b.get("hex") == res.get("hex") and res_b.get("err") == res.get("err")
            entry["hash_in_process_1"] = res_b.get("hex", res_b.get("err"))
            self.coq_ops.append("(ghash 1 %s %s)" % (MODE[mode], enc_target(tgt)))
            self.coq_obs.append(obs)
            self.trace.append({"op": ["hash", 1, mode, tgt], "hash": entry["hash_in_process_1"],
                               "cacheless": entry["cacheless"], "store_entries": store, "concurrent_with_previous": True})
        if not ok:
            self.python_spec_failures.append(len(self.trace) - 1)


def run_history(root_parent, workers, ops):
    root = tempfile.mkdtemp(prefix="c09-", dir=root_parent)
    try:
        ex = Exec(root, workers)
        gap = None
        try:
            for op in ops:
                ex.step(op)
        except ModelGap as g:
            gap = str(g)
        return ex, gap
    finally:
        shutil.rmtree(root, ignore_errors=True)


# ============================================================================ generator
def gen_history(rng):
    nproc = rng.choice([1, 2, 2])
    ops = []
    focus_kind = rng.choice(["top", "top", "sym", "dir", "sub", "link", "deep", "deep", "deep1"])
    t0, t1, t2 = ("top", 0), ("top", 1), ("top", 2)
    s00, s01 = ("sub", 0, 0), ("sub", 0, 1)
    size4 = ["aaaa", "bbbb", "cccc"]
    s20, s30, s40, s41, s10 = ("sub", 2, 0), ("sub", 3, 0), ("sub", 4, 0), ("sub", 4, 1), ("sub", 1, 0)
    if focus_kind in ("dir", "sub", "deep") or rng.random() < 0.2:
        ops.append(["mkdir", 0])
    if focus_kind == "deep" or rng.random() < 0.1:
        ops += [["mkdir", 2], ["mkdir", 3]]           # d0/s0, d0/s0/t0
    if focus_kind == "deep1":
        ops += [["mkdir", 1], ["mkdir", 4]]           # d1, d1/s0
    if focus_kind == "top":
        focus, members, other = ["file", t0], [t0], t1
    elif focus_kind == "sym":
        focus, members, other = ["file", t2], [t0], t1
    elif focus_kind == "link":
        focus, members, other = ["file", t1], [t0, t1], t2
    elif focus_kind == "dir":
        focus, members, other = ["dir", 0], [s00, s01], t1
    elif focus_kind == "deep":       # a directory input with files one, two and three levels down
        focus, members, other = ["dir", 0], [s00, s20, s30], t1
    elif focus_kind == "deep1":
        focus, members, other = ["dir", 1], [s10, s40, s41], t1
    else:
        focus, members, other = ["file", s00], [s00], s01
    mt = rng.choice([5, 6, 5, FUT0, FUT0 + 1])      # a third of the histories pin mtimes far in the future
    for p in ([members[0]] if focus_kind == "link" else members) + [other]:
        ops.append(["write", list(p), rng.choice(size4)])
        if rng.random() < 0.7:
            ops.append(["utime", list(p), mt])
    if focus_kind == "sym":
        ops.append(["symlink", 2, list(t0)])
    if focus_kind == "link":
        ops.append(["link", list(t0), list(t1)])

    def hash_op(t=None):
        return ["hash", rng.randrange(nproc), rng.choice(["fresh", "fresh", "obj", "obj", "task"]), t or focus]

    def any_path():
        return list(rng.choice([t0, t1, t2, s00, s01, s10, s20, s30, s40]))

    def any_target():
        return rng.choice([["file", list(t0)], ["file", list(t1)], ["file", list(t2)], ["file", list(s00)], ["dir", 0],
                           ["dir", 1], ["dir", 2], ["dir", 3], ["file", list(s20)], focus, focus, focus])
    ops.append(hash_op())
    for _ in range(rng.randint(2, 8)):
        r = rng.random()
        m = list(rng.choice(members))
        if r < 0.30:
            ops.append(hash_op(any_target() if rng.random() < 0.3 else None))
        elif r < 0.48:
            p = m if rng.random() < 0.8 else any_path()
            ops.append(["write", p, rng.choice(size4 if rng.random() < 0.7 else CONTENTS)])
            if rng.random() < 0.6:
                ops.append(["utime_restore", p] if rng.random() < 0.75 else ["utime", p, mt])
        elif r < 0.56:
            ops.append(["utime_restore", m] if rng.random() < 0.5 else ["utime", any_path(), rng.choice([5, 6, 7, mt, FUT0, FUT0 + 1])])
        elif r < 0.66:
            ops.append(["rename", list(other), m] if rng.random() < 0.6 else ["rename", any_path(), any_path()])
        elif r < 0.75:
            ops.append(["copy", list(other), m] if rng.random() < 0.6 else ["copy", any_path(), any_path()])
        elif r < 0.80:
            ops.append(["link", any_path(), any_path()])
        elif r < 0.85:
            ops.append(["unlink", any_path()])
        elif r < 0.90:
            ops.append(["symlink", rng.choice(TOPS), any_path()])
        elif r < 0.93:
            ops.append(["mkdir", rng.choice(DIRS)])
        elif r < 0.96:
            ops.append(["cleanup"])
        else:
            ops.append(["write", list(other), rng.choice(CONTENTS)])
        if rng.random() < 0.35:
            ops.append(hash_op())
        elif nproc == 2 and rng.random() < 0.12:
            ops.append(["hash2", rng.choice(["fresh", "task"]), focus])
    ops.append(hash_op())
    if rng.random() < 0.3:
        ops.append(hash_op(any_target()))
    return json.loads(json.dumps({"nproc": nproc, "ops": ops}))


# ============================================================================ Coq side of a case
EXTRA = """
Definition nowc (k : nat) : nat := 20 + k.
Definition parentc (d : name) : option name := match d with 2 => Some 0 | 3 => Some 2 | 4 => Some 1 | _ => None end.
Definition gfs (o : fop) : @gop target fop := GFs o.
Definition ghash (p : nat) (m : hmode) (t : target) : @gop target fop := GHash p m t.
Definition gcl : @gop target fop := GCleanup.
(* observations, with monomorphic constructors (cheap to elaborate) *)
Inductive sdelta := SD (p : path) (kind i : nat) (c : string) (m ct nl : nat).
Inductive ddelta := DD (d : name) (ex m c : nat).
Inductive item := IT (x n : nat) (c : string).
Inductive kst := KS (x n : nat) (i : ino) (m ct z : nat).
Inductive obs :=
| OFs (sd : list sdelta) (dd : list ddelta)          (* after a file-system operation: what changed on disk *)
| HOut (isdir : bool) (items : list item) (k : list kst) (store : nat)   (* a hash request answered *)
| HErr (store : nat)                                 (* a hash request that raised *)
| ONone.
Definition case_t := (hist * list obs)%type.
Definition universe : list path :=
  [Top 0; Top 1; Top 2; Sub 0 0; Sub 0 1; Sub 1 0; Sub 1 1; Sub 2 0; Sub 2 1; Sub 3 0; Sub 3 1; Sub 4 0; Sub 4 1].
Definition duniverse : list name := [0; 1; 2; 3; 4].
Definition absent : snap := (0, 0, EmptyString, 0, 0, 0).
Definition seen := (list (path * snap) * list (name * (nat * nat * nat)))%type.
Fixpoint sget (p : path) (l : list (path * snap)) : snap :=
  match l with [] => absent | (q, s) :: r => if path_eqb p q then s else sget p r end.
Fixpoint dget (d : name) (l : list (name * (nat * nat * nat))) : nat * nat * nat :=
  match l with [] => (0, 0, 0) | (e, s) :: r => if Nat.eqb d e then s else dget d r end.
Definition apply_deltas (cur : seen) (sd : list sdelta) (dd : list ddelta) : seen :=
  (map (fun x => match x with SD p k i c m ct nl => (p, (k, i, c, m, ct, nl)) end) sd ++ fst cur,
   map (fun x => match x with DD d e m c => (d, (e, m, c)) end) dd ++ snd cur).
Definition fs_matches (fs : fsys) (cur : seen) : bool :=
  forallb (fun p => snap_eqb (snap_of fs p) (sget p (fst cur))) universe &&
  forallb (fun d => triple_eqb (dsnap_of fs d) (dget d (snd cur))) duniverse.
Definition obs_digest (isdir : bool) (items : list item) : digest :=
  (isdir, map (fun x => match x with IT x n c => ((x, n), Some c) end) items).
Definition obs_key (k : list kst) : list kstat :=
  map (fun x => match x with KS x n i m ct z => ((x, n), i, Some (m, ct, z)) end) k.
Definition step_ok (cur : seen) (g : @gop target fop) (x : (fsys * cstate key digest) * option (option digest)) (o : obs)
  : bool * seen :=
  let fs := fst (fst x) in
  let nstore := List.length (c_store (snd (fst x))) in
  match o, snd x, g with
  | OFs sd dd, None, GFs _ => let cur' := apply_deltas cur sd dd in (fs_matches fs cur', cur')
  | ONone, None, GCleanup => (fs_matches fs cur && Nat.eqb nstore 0, cur)
  | HOut isdir items k n, Some (Some mo), GHash _ _ t =>
      (digest_eqb mo (obs_digest isdir items) && target_exists t fs &&
       list_eqb kstat_eqb (snd (K_fixed parentc t fs)) (obs_key k) && Nat.eqb nstore n && fs_matches fs cur, cur)
  | HErr n, Some None, GHash _ _ t => (negb (target_exists t fs) && Nat.eqb nstore n, cur)
  | _, _, _ => (false, cur)
  end.
Fixpoint first_bad (i : nat) (cur : seen) (h : hist) (xs : list ((fsys * cstate key digest) * option (option digest)))
         (os : list obs) : option nat :=
  match h, xs, os with
  | [], [], [] => None
  | g :: h', x :: xs', o :: os' =>
      let '(ok, cur') := step_ok cur g x o in if ok then first_bad (S i) cur' h' xs' os' else Some i
  | _, _, _ => Some i
  end.
Definition tie_ok (c : case_t) : bool :=
  match first_bad 0 ([], []) (fst c) (model_states nowc parentc (K_fixed parentc) (fst c)) (snd c) with None => true | Some _ => false end.
Definition obs_outs (os : list obs) : list (option digest) :=
  flat_map (fun o => match o with
                     | HOut isdir items _ _ => [Some (obs_digest isdir items)]
                     | HErr _ => [None]
                     | _ => []
                     end) os.
Definition outs_eqb := list_eqb (option_eqb digest_eqb).
Definition spec_ok (c : case_t) : bool := outs_eqb (spec_out nowc parentc (fst c)) (obs_outs (snd c)).
(* not a check of the implementation: on which histories would the key before the repair go stale? *)
Definition pinned_ok (c : case_t) : bool := outs_eqb (model_outputs nowc parentc K_pinned (fst c)) (spec_out nowc parentc (fst c)).
"""


def enc_case(ex):
    return "(%s, %s)" % (coqio.lst(ex.coq_ops), coqio.lst(ex.coq_obs))


# ============================================================================ what the OS does (measured, reported)
def os_probe(root_parent):
    d = tempfile.mkdtemp(prefix="c09-probe-", dir=root_parent)
    res = {}
    try:
        def st(p):
            return os.lstat(p)
        a, b, c = (os.path.join(d, n) for n in "abc")
        with open(a, "wb") as f:
            f.write(b"xxxx")
        os.utime(a, ns=(BASE, BASE))
        s0 = st(a)
        time.sleep(0.02)
        with open(a, "wb") as f:
            f.write(b"yyyy")
        s1 = st(a)
        res["rewrite_same_size_changes_ctime"] = s1.st_ctime_ns > s0.st_ctime_ns
        time.sleep(0.02)
        os.utime(a, ns=(BASE, BASE))
        s2 = st(a)
        res["utime_changes_ctime_not_settable"] = s2.st_ctime_ns > s1.st_ctime_ns and s2.st_mtime_ns == BASE
        time.sleep(0.02)
        os.replace(a, b)
        s3 = st(b)
        res["rename_changes_ctime_keeps_mtime"] = s3.st_ctime_ns > s2.st_ctime_ns and s3.st_mtime_ns == BASE
        time.sleep(0.02)
        os.link(b, c)
        s4 = st(b)
        res["hard_link_changes_ctime"] = s4.st_ctime_ns > s3.st_ctime_ns and s4.st_nlink == 2
        time.sleep(0.02)
        shutil.copy2(b, a)
        s5 = st(a)
        res["copy2_keeps_mtime_new_ctime"] = s5.st_mtime_ns == BASE and s5.st_ctime_ns > s4.st_ctime_ns
        time.sleep(0.02)
        os.unlink(c)
        s6 = st(b)
        res["unlink_of_other_name_changes_ctime"] = s6.st_ctime_ns > s4.st_ctime_ns and s6.st_nlink == 1
        # the race the theorem's assumption excludes: equal ctimes of back-to-back changes
        n, eq_stat, eq_nostat = 500, 0, 0
        prev = None
        for i in range(n):
            with open(a, "wb") as f:
                f.write(b"%04d" % (i % 10000))
            cur = st(a).st_ctime_ns
            eq_stat += cur == prev
            prev = cur
        for i in range(n):
            with open(a, "wb") as f:
                f.write(b"1111")
            with open(b, "wb") as f:
                f.write(b"2222")
            eq_nostat += st(a).st_ctime_ns == st(b).st_ctime_ns
        res["back_to_back_rewrites"] = n
        res["equal_ctime_same_file_stat_between"] = eq_stat
        res["equal_ctime_two_files_no_stat_between"] = eq_nostat
    finally:
        shutil.rmtree(d, ignore_errors=True)
    return res


# ============================================================================ driver
def load_case(c):
    return {"nproc": c.get("nproc", 2), "ops": c["ops"]}


def run(ctx):
    rng = ctx.rng
    n = ctx.budget(150, 1400)
    n_fresh = min(ctx.budget(4, 30), 40)          # histories served by interpreters started just for them
    root_parent = tempfile.mkdtemp(prefix="verif-c09-", dir="/tmp")
    shared = [Worker(), Worker()]
    out = Outcome(rule=RULE)
    dist = {"histories": 0, "ops": {}, "hash_requests": 0, "hash_errors": 0, "modes": {}, "one_process": 0, "two_processes": 0,
            "rehash_after_content_change": 0, "failed_os_operations": 0, "fresh_interpreter_histories": 0,
            "model_gap_histories": 0, "history_length_max": 0, "from_corpus": 0}
    cases, metas = [], []
    seen, nontrivial = set(), 0
    t_start = time.time()
    try:
        probe = os_probe(root_parent)
        t_probe = time.time()
        out.extra["os_probe"] = probe
        for k in ("rewrite_same_size_changes_ctime", "utime_changes_ctime_not_settable", "rename_changes_ctime_keeps_mtime",
                  "hard_link_changes_ctime", "copy2_keeps_mtime_new_ctime", "unlink_of_other_name_changes_ctime"):
            if not probe[k]:
                out.failures.append(Failure(case={"os_probe": k}, observed=probe, expected=True, kind="tie",
                                            note="this file system does not behave as the OS model assumes: " + k))
        corpus = [load_case(c) for c in ctx.corpus()]
        for i in range(n):
            if i < len(corpus):
                case = corpus[i]
                dist["from_corpus"] += 1
            else:
                case = gen_history(rng)
            fresh_workers = None
            if i < len(corpus) + n_fresh and i % 2 == 0 or i < min(3, len(corpus)):
                fresh_workers = [Worker() for _ in range(case["nproc"])]
                dist["fresh_interpreter_histories"] += 1
            try:
                workers = fresh_workers or shared[:case["nproc"]]
                ex, gap = run_history(root_parent, workers, case["ops"])
            finally:
                for w in fresh_workers or []:
                    w.close()
            if gap:
                dist["model_gap_histories"] += 1
            if ex.os_violations:
                out.failures.append(Failure(case=case, observed=ex.os_violations, kind="tie",
                                            note="kernel clock went backwards between operations (environment)"))
            dist["histories"] += 1
            dist["one_process" if case["nproc"] == 1 else "two_processes"] += 1
            dist["history_length_max"] = max(dist["history_length_max"], len(ex.trace))
            for t in ex.trace:
                kind = t["op"][0]
                dist["ops"][kind] = dist["ops"].get(kind, 0) + 1
                if kind == "hash":
                    dist["hash_requests"] += 1
                    dist["modes"][t["op"][2]] = dist["modes"].get(t["op"][2], 0) + 1
                    dist["hash_errors"] += t["hash"] is None or not all(ch in "0123456789abcdef" for ch in str(t["hash"]))
                elif t.get("oserror"):
                    dist["failed_os_operations"] += 1
            dist["rehash_after_content_change"] += ex.rehash_after_change
            out.evaluations += sum(1 for t in ex.trace if t["op"][0] == "hash")
            dist["concurrent_hash_pairs"] = dist.get("concurrent_hash_pairs", 0) + sum(1 for t in ex.trace if t.get("concurrent_with_previous"))
            sig = json.dumps(case["ops"])
            if sig not in seen:
                seen.add(sig)
                nontrivial += ex.rehash_after_change > 0
            cases.append(enc_case(ex))
            metas.append({"case": case, "trace": ex.trace, "pyfail": ex.python_spec_failures, "gap": gap})
            if ex.python_spec_failures:
                j = ex.python_spec_failures[0]
                out.failures.append(Failure(
                    case=case, observed={"step": j, **ex.trace[j]}, expected=ex.trace[j].get("cacheless"), kind="spec",
                    note="stale hash: differs from the cache-less recomputation of the current content"))
        t_exec = time.time()
        res = coqio.run_cases(ctx.scratch, "c09", IMPORTS, "case_t", cases,
                              {"tie": "tie_ok", "spec": "spec_ok", "pinned": "pinned_ok"}, extra=EXTRA, shard=120)
        out.extra["c09_wall_s"] = {"os_probe": round(t_probe - t_start, 1), "histories_on_real_files": round(t_exec - t_probe, 1),
                                   "coq_cases": round(time.time() - t_exec, 1)}
        dist["histories_on_which_the_pre_fix_key_is_stale_in_the_model"] = len(res["pinned"])
        pyfailed = {i for i, m in enumerate(metas) if m["pyfail"]}
        explained = 0
        for i in res["spec"]:
            if i in pyfailed:
                continue                         # already reported with the concrete step
            m = metas[i]
            explained += 1
            if explained > 6:
                break
            out.failures.append(Failure(case=m["case"], observed=m["trace"], kind="tie",
                                        expected=explain(ctx, cases[i], "x%d" % i),
                                        note="the hashes agree with pydra's cache-less recomputation but not with the "
                                             "Coq spec on the modelled file system: OS model / digest mapping mismatch"))
        for i in res["tie"]:
            if i in pyfailed or i in res["spec"]:
                continue
            m = metas[i]
            explained += 1
            if explained > 6:
                break
            out.failures.append(Failure(case=m["case"], observed=m["trace"], expected=explain(ctx, cases[i], "t%d" % i),
                                        kind="tie", note="model and implementation differ (snapshot, key, store size or hash)"))
        out.distinct_nontrivial = nontrivial
        out.traces_validated = len(metas)
        out.distribution = dist
        out.samples = [{"nproc": m["case"]["nproc"], "ops": m["case"]["ops"],
                        "hashes": [[t["hash"], t["cacheless"]] for t in m["trace"] if t["op"][0] == "hash"]} for m in metas[:4]]
        out.extra["c09_python_level_stale_hashes"] = len(pyfailed)
        out.extra["c09_histories_failing_tie"] = len(res["tie"])
        out.extra["c09_histories_failing_coq_spec"] = len(res["spec"])
        return out
    finally:
        for w in shared:
            w.close()
        shutil.rmtree(root_parent, ignore_errors=True)


def explain(ctx, case_term, name):
    """first failing step of a case and the model / spec outputs (for replay files)"""
    extra = EXTRA + """
Definition the_case : case_t := %s.
""" % case_term
    try:
        vals = coqio.eval_terms(ctx.scratch, name, IMPORTS,
                                ["first_bad 0 ([], []) (fst the_case) (model_states nowc parentc (K_fixed parentc) (fst the_case)) (snd the_case)",
                                 "model_outputs nowc parentc (K_fixed parentc) (fst the_case)", "spec_out nowc parentc (fst the_case)",
                                 "obs_outs (snd the_case)",
                                 "map (fun x => (map (fun p => snap_of (fst (fst x)) p) universe, "
                                 "map (dsnap_of (fst (fst x))) duniverse, List.length (c_store (snd (fst x))))) "
                                 "(model_states nowc parentc (K_fixed parentc) (fst the_case))"],
                                extra=extra)
        return {"first_step_where_model_and_observation_differ": vals[0], "model_outputs": vals[1], "spec_outputs": vals[2],
                "observed_outputs": vals[3], "model_snapshots": vals[4]}
    except Exception as e:          # pragma: no cover
        return {"coq_error": repr(e)[-1500:]}


def replay(ctx, payload):
    case = load_case(payload["case"])
    root_parent = tempfile.mkdtemp(prefix="verif-c09-", dir="/tmp")
    workers = [Worker() for _ in range(case["nproc"])]
    try:
        ex, gap = run_history(root_parent, workers, case["ops"])
    finally:
        for w in workers:
            w.close()
        shutil.rmtree(root_parent, ignore_errors=True)
    print("implementation (fresh interpreters, %d process(es)):" % case["nproc"])
    for i, t in enumerate(ex.trace):
        if t["op"][0] == "hash":
            print("  step %2d %-60s -> %s   cache-less: %s%s" % (i, json.dumps(t["op"]), t["hash"], t["cacheless"],
                                                                "   STALE" if t["hash"] != t["cacheless"] else ""))
        else:
            print("  step %2d %-60s %s" % (i, json.dumps(t["op"]), t.get("oserror") or ""))
    info = explain(ctx, enc_case(ex), "replay")
    print("model (K_fixed) outputs:", info.get("model_outputs"))
    print("spec outputs          :", info.get("spec_outputs"))
    print("observed outputs      :", info.get("observed_outputs"))
    print("first step where model and observation differ:", info.get("first_step_where_model_and_observation_differ"))
    return 1 if ex.python_spec_failures else 0


if __name__ == "__main__":
    if len(sys.argv) > 1 and sys.argv[1] == "worker":
        _worker_main()
