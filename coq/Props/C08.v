(* C08 — value hashing is deterministic, discriminating and context-free. *)
From Coq Require Import Sorting.Permutation.
From Pydra Require Import Base.Prelude Base.PySort Model.Hash Spec.Hash Proofs.HashSort Proofs.HashCtx
     Proofs.HashInj Proofs.HashOrder Proofs.HashDom Proofs.HashRefuted Proofs.HashExamples Proofs.HashOrderDeep.

(* The property at full strength, for every hash function H standing for blake2b:
   (1) context-free: hashing v after anything else under one shared Cache gives the digest of v alone;
   (2) deterministic: equal values (sets as sets, dicts as maps) have equal digests;
   (3) discriminating: equal digests mean equal values, or an explicit collision of H between two byte
       strings hashed on the way. *)
Definition C08_context_free_statement : Prop :=
  forall H ctx v, hash_in H ctx v = hash_in H [] v.
Definition C08_order_statement : Prop :=
  forall H a b, veq a b -> digest H a = digest H b.
Definition C08_discriminating_statement : Prop :=
  forall H a b d, digest H a = Ok d -> digest H b = Ok d ->
                  veq a b \/ collision H (S (vdepth a)) a (S (vdepth b)) b.
Definition C08_full_statement : Prop :=
  C08_context_free_statement /\ C08_order_statement /\ C08_discriminating_statement.

(* ---- what the unchanged code violates (each witness is replayed on the implementation by the driver) *)
Theorem C08_refuted_cycle : ~ C08_context_free_statement.
Proof. intros S. exact (cycle_context_dependent (S toyH [cyc_b] cyc_a)). Qed.
Print Assumptions C08_refuted_cycle.

Theorem C08_refuted_partial_order : ~ C08_order_statement.
Proof. intros S. destruct partial_order_insertion_dependent as [E N]. exact (N (S toyH _ _ E)). Qed.
Print Assumptions C08_refuted_partial_order.

Theorem C08_refuted_pathkey : ~ C08_discriminating_statement.
Proof.
  intros S. destruct pathkey_not_discriminated as (Hne & (d & D1 & D2) & Hnc).
  destruct (S toyH pk_a pk_b d D1 D2); contradiction.
Qed.
Print Assumptions C08_refuted_pathkey.

Theorem C08_refuted : ~ C08_full_statement.
Proof. intros [S _]. exact (C08_refuted_cycle S). Qed.
Print Assumptions C08_refuted.

(* ---- the strongest positive statements; the excluded input classes are the computable predicates of
   Proofs/HashDom.v (norefb / sortableb / inj_domb), mirrored by the driver's finding classifiers *)

(* values without reference cycles (identities consistent with some env: aliasing allowed): any sequence of
   hash_object calls sharing one Cache returns for each value the digest it has alone *)
Theorem C08_context_free_acyclic :
  forall H env ctx v, (forall x, In x (ctx ++ [v]) -> hashable_acyclic H env x) -> hash_in H ctx v = digest H v.
Proof. exact context_free_acyclic. Qed.
Print Assumptions C08_context_free_acyclic.

(* the Cache memo never changes a digest: hash_single under any Cache whose finished entries are right *)
Theorem C08_memo_sound :
  forall H env f v opened m d, wf env opened v -> Inv H env opened m -> dig H f v tt = Ok (d, tt) ->
                               exists m', hs H f v m = Ok (d, m') /\ Inv H env opened m'.
Proof. exact hs_context_free. Qed.
Print Assumptions C08_memo_sound.

(* permuting the elements of any set / the insertion order of any dict or attribute dict, anywhere in the value,
   does not change the digest when `<` is a strict total order on the elements of each such container *)
Theorem C08_order_invariant :
  forall H f v1 v2, reorder v1 v2 -> sortable v1 -> dig H f v1 tt = dig H f v2 tt.
Proof. exact dig_reorder. Qed.
Print Assumptions C08_order_invariant.

(* CPython's sort, as modelled, returns a strictly sorted permutation whatever the input order *)
Theorem C08_sort_perm_invariant :
  forall l1 l2, keys_ok l1 -> Permutation l1 l2 -> sorted_res vlt l1 = sorted_res vlt l2.
Proof. exact sorted_set_perm. Qed.
Print Assumptions C08_sort_perm_invariant.

Theorem C08_ser_injective :
  forall H v1 v2 d, inj_dom v1 -> inj_dom v2 -> digest H v1 = Ok d -> digest H v2 = Ok d ->
                    veq v1 v2 \/ collision H (S (vdepth v1)) v1 (S (vdepth v2)) v2.
Proof. exact ser_injective. Qed.
Print Assumptions C08_ser_injective.

Theorem C08_partial :
  (forall H env ctx v, (forall x, In x (ctx ++ [v]) -> hashable_acyclic H env x) -> hash_in H ctx v = digest H v) /\
  (forall H f v1 v2, reorder v1 v2 -> sortable v1 -> dig H f v1 tt = dig H f v2 tt) /\
  (forall H v1 v2 d, inj_dom v1 -> inj_dom v2 -> digest H v1 = Ok d -> digest H v2 = Ok d ->
                     veq v1 v2 \/ collision H (S (vdepth v1)) v1 (S (vdepth v2)) v2).
Proof. exact (conj context_free_acyclic (conj dig_reorder ser_injective)). Qed.
Print Assumptions C08_partial.

(* the hypotheses are met by non-trivial values *)
Theorem C08_examples :
  inj_dom ex_val /\ sortable ex_val2 /\ (forall H, hashable_acyclic H ex_env ex_v) /\
  (let v1 := VDict 1 [(VStr "b", VSet 2 [VInt 3; VInt 1; VInt 2]); (VStr "a", VList 3 [VBytes "x"])] in
   let v2 := VDict 7 [(VStr "a", VList 8 [VBytes "x"]); (VStr "b", VSet 9 [VInt 2; VInt 3; VInt 1])] in
   reorder v1 v2 /\ sortable v1).
Proof. exact (conj ex_inj_dom (conj ex_sortable (conj ex_hashable_acyclic reorder_example))). Qed.
Print Assumptions C08_examples.

(* order invariance with sets re-ordered at EVERY nesting level simultaneously ([operm]: the elements of a
   re-ordered set may themselves be re-ordered values; lists/tuples/dict values/attribute values recursively).
   `sorted` compares the elements themselves (sets) / the keys themselves (dicts) with Python's `<`; the conditions
   carried by [operm] at each set node are therefore about its elements: pairwise distinct and in a class `<` orders
   totally ([keys_ok]), with `<` answering alike on the elements as the other session sees them ([compat]).
   Two incomparable frozensets fail [keys_ok]: F07 / F08d stay outside. *)
Theorem C08_order_invariant_deep : forall H f v1 v2, operm v1 v2 -> dig H f v1 tt = dig H f v2 tt.
Proof. exact dig_operm. Qed.
Print Assumptions C08_order_invariant_deep.

(* non-vacuity: {fs{1,2}, fs{1,2,3}} (a chain under proper subset) vs {fs{3,1,2}, fs{2,1}}: both levels re-ordered *)
Theorem C08_order_invariant_deep_example :
  operm nx_v1 nx_v2 /\ forall H, digest H nx_v1 = digest H nx_v2.
Proof.
  split; [exact nested_operm|]. intros H. unfold digest.
  change (vdepth nx_v2) with (vdepth nx_v1). now rewrite (dig_operm H _ _ _ nested_operm).
Qed.
Print Assumptions C08_order_invariant_deep_example.
