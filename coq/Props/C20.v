(* C20 — Accepted field values conform to the declared type.
   [live] = the coercion tables and issubclass matrix translated from the live source on every run. *)
From Pydra Require Import Base.Prelude Model.Typing Spec.Typing Proofs.Typing Proofs.TypingIdem Proofs.TypingNss.
From Pydra Require Import Generated.TypingTables Proofs.TypingLive Proofs.TypingSpec.

(* every accepted value conforms to the declared type, element types included: all types, all values,
   both superclass_auto_cast settings, any file system *)
Theorem C20_conforms :
  forall (W : world) (sac : bool) (t : ty) (v v' : val), coerce live W sac t v = Ok v' -> conforms live t v'.
Proof. exact live_conforms. Qed.
Print Assumptions C20_conforms.

(* the task-field converter (make_converter, run by attrs at construction and on every assignment) *)
Theorem C20_at_assignment :
  forall (W : world) (t : ty) (v v' : val), assign live W t v = Ok v' -> conforms live t v'.
Proof. exact live_assign_conforms. Qed.
Print Assumptions C20_at_assignment.

(* over every history of assignments the field holds a conforming value; a rejected assignment raises at the
   assignment and leaves the field as it was *)
Theorem C20_field_history :
  forall (W : world) (t : ty) (vs : list val) (v0 : val),
    conforms live t v0 -> conforms live t (fold_left (set_field live W t) vs v0).
Proof. exact live_field_history. Qed.
Print Assumptions C20_field_history.

Theorem C20_rejected_assignment_keeps_value :
  forall (W : world) (t : ty) (old v : val) (e : err), assign live W t v = Err e -> set_field live W t old v = old.
Proof. intros W. exact (set_field_rejected live W). Qed.
Print Assumptions C20_rejected_assignment_keeps_value.

(* coercing an accepted value again leaves it unchanged — at full strength this is false on the pinned tree *)
Definition C20_idempotent_full_statement : Prop :=
  forall (W : world) (sac : bool) (t : ty) (v v' : val),
    coerce live W sac t v = Ok v' -> coerce live W sac t v' = Ok v'.
Theorem C20_idempotent_refuted : ~ C20_idempotent_full_statement.
Proof. exact idem_refuted. Qed.
Print Assumptions C20_idempotent_refuted.

(* ... but it holds for every type whose only unions are Optional[...] (a two-armed union with None) *)
Theorem C20_idempotent_union_free :
  forall (W : world) (sac : bool) (t : ty), union_free t = true ->
    forall v v', coerce live W sac t v = Ok v' -> coerce live W sac t v' = Ok v'.
Proof. exact live_idem. Qed.
Print Assumptions C20_idempotent_union_free.

(* strings are never split into collections nor collections joined into strings: the stored value is related
   to the input by [nss no_pairs] (no tolerated conversion). Needs [tables_nss no_pairs live], recomputed on the live
   tables on every run.  (Before the repair of finding F20 this was refuted by 'abc' -> set[str] etc.) *)
Definition C20_full_statement : Prop :=
  forall (W : world) (sac : bool) (t : ty) (v v' : val),
    scalar_based t = true -> coerce live W sac t v = Ok v' -> nss live no_pairs v v' = true.
Theorem C20_full : C20_full_statement.
Proof. intros W sac t v v' Ht. exact (live_nss_full W sac t Ht v v'). Qed.
Print Assumptions C20_full.

(* the executable spec evaluated on the correspondence cases decides [conforms] *)
Theorem C20_spec_decides : forall (t : ty) (v : val), conformsb live t v = true <-> conforms live t v.
Proof. exact (conformsb_spec live). Qed.
Print Assumptions C20_spec_decides.
