(* Spec/StateWf.v — C03 reference semantics: nested-loop evaluation of a workflow over origin coordinates.

   Every own split field of every node is an *origin axis*; its coordinate ranges over the positions of
   the split list.  A node is evaluated once per assignment of coordinates to its axes:
     axes(n)   = the axes still open (not combined away) in the outputs it consumes — an axis arriving
                 through several inputs is ONE axis (aligned, not multiplied) — followed by its own
                 split fields in splitter order;
     value(n, rho) = the task applied to: constants; element rho(n.f) of an own split list; for an input
                 bound to node j, j's output at the same coordinates rho;
     output(j, rho) = value(j, rho) when j has no combiner, otherwise the list of value(j, rho') over all
                 coordinate assignments rho' of j's axes that agree with rho on j's un-combined axes, in
                 loop order (first axis slowest);
     the workflow output of n lists output(n, rho) over all assignments of n's un-combined axes, first
     axis slowest (the single value when there is no such axis).
   Nothing here mentions other_states, prev-state splitters, RPN or index tables. *)
From Pydra Require Import Base.Prelude Model.StateWf.

Local Open Scope nat_scope.

Record sentry := {
  s_axes : list key;          (* axes(n), outermost loop first *)
  s_faxes : list key;         (* axes left after the node's combiner *)
  s_sem : row -> val;         (* value(n, rho) *)
  s_out : row -> val          (* output(n, rho) *)
}.

(* all coordinate assignments of the axes [ks], first axis slowest *)
Definition box (wf : workflow) (ks : list key) : list row :=
  map (combine ks) (box_idx (map (key_len wf) ks)).
Definition agree (ks : list key) (r1 r2 : row) : bool :=
  forallb (fun k => option_eqb Nat.eqb (lookup r1 k) (lookup r2 k)) ks.
Definition add_new (acc ks : list key) : list key :=
  fold_left (fun a k => if memk k a then a else a ++ [k]) ks acc.

Definition s_faxes_of (tab : list sentry) (j : nat) : list key :=
  match nth_error tab j with Some e => s_faxes e | None => [] end.
Definition s_out_of (tab : list sentry) (j : nat) (rho : row) : val :=
  match nth_error tab j with Some e => s_out e rho | None => VList [] end.

Fixpoint sem_args (tab : list sentry) (n : nat) (nd : node) (f : nat) (fields : list binding) (rho : row) : list val :=
  match fields with
  | [] => []
  | b :: r =>
      (match b with
       | BConst z => VInt z
       | BSplit vs => VInt (nth (match lookup rho (n, leader_of nd f) with Some i => i | None => 0 end) vs 0%Z)
       | BUp j => outsel (osel_of nd f) (s_out_of tab j rho)
       end) :: sem_args tab n nd (S f) r rho
  end.

Definition up_axes (tab : list sentry) (fields : list binding) : list key :=
  fold_left (fun a b => match b with BUp j => add_new a (s_faxes_of tab j) | _ => a end) fields [].

Definition spec_entry (wf : workflow) (tab : list sentry) (n : nat) (nd : node) : sentry :=
  let axes := up_axes tab (n_fields nd) ++ map (fun f => (n, f)) (n_split nd) in
  let faxes := filter (fun k => negb (memk k (n_comb nd))) axes in
  let sem := fun rho => VTag n (sem_args tab n nd 0 (n_fields nd) rho) in
  {| s_axes := axes; s_faxes := faxes; s_sem := sem;
     s_out := fun rho => if is_nil (n_comb nd) then sem rho
                         else VList (map sem (filter (agree faxes rho) (box wf axes))) |}.

Fixpoint spec_from (wf : workflow) (tab : list sentry) (nodes : list node) : list sentry :=
  match nodes with
  | [] => tab
  | nd :: r => spec_from wf (tab ++ [spec_entry wf tab (List.length tab) nd]) r
  end.
Definition spec_table (wf : workflow) : list sentry := spec_from wf [] wf.

Definition spec_output (wf : workflow) (e : sentry) : val :=
  if is_nil (s_faxes e) then s_out e [] else VList (map (s_out e) (box wf (s_faxes e))).

(* the nested-loop value of every node's output, in node order *)
Definition spec_run (wf : workflow) : list val := map (spec_output wf) (spec_table wf).

(* number of times node n runs according to the nested-loop reading *)
Definition spec_njobs (wf : workflow) : list nat :=
  map (fun e => List.length (box wf (s_axes e))) (spec_table wf).

(* ---------- the class of workflows for which C03_partial is proved (computable) ---------- *)
(* upstream nodes whose output still carries open axes, in order of first use *)
Definition ups (tab : list sentry) (fields : list binding) : list nat :=
  fold_left (fun a b => match b with
                        | BUp j => if is_nil (s_faxes_of tab j) || memn j a then a else a ++ [j]
                        | _ => a end) fields [].
Definition parents (wf : workflow) (tab : list sentry) (j : nat) : list nat := ups tab (n_fields (node_at wf j)).
Definition disjointk (a b : list key) : bool := forallb (fun k => negb (memk k b)) a.

Fixpoint pairwise {A} (ok : A -> A -> bool) (l : list A) : bool :=
  match l with [] => true | x :: r => forallb (fun y => ok x y && ok y x) r && pairwise ok r end.

(* y hands x's state on unchanged: x starts its own state, y has x as only state-carrying input,
   no splitter and no combiner of its own *)
Definition relays (wf : workflow) (tab : list sentry) (x y : nat) : bool :=
  is_nil (parents wf tab x)
  && list_eqb Nat.eqb (parents wf tab y) [x]
  && is_nil (n_split (node_at wf y)) && is_nil (n_comb (node_at wf y)).

(* the inputs of a node carry separate origins: no open axis in common, none an input of another *)
Definition sep_ok (wf : workflow) (tab : list sentry) (x y : nat) : bool :=
  disjointk (s_faxes_of tab x) (s_faxes_of tab y) && negb (memn x (parents wf tab y)).
Definition separate_ok (wf : workflow) (tab : list sentry) (nd : node) : bool :=
  pairwise (sep_ok wf tab) (ups tab (n_fields nd)).
(* ... or they are exactly a state and its relay (the one shared-origin case the code aligns) *)
Definition sharing_ok (wf : workflow) (tab : list sentry) (nd : node) : bool :=
  separate_ok wf tab nd
  || match ups tab (n_fields nd) with [x; y] => relays wf tab x y || relays wf tab y x | _ => false end.
(* well-formed description: inputs refer to earlier nodes, the splitter is a duplicate-free list of
   exactly the fields that carry split lists, the combiner a duplicate-free list of axes of the node *)
Definition node_wf (n : nat) (e : sentry) (nd : node) : bool :=
  forallb (fun b => match b with BUp j => Nat.ltb j n | _ => true end) (n_fields nd)
  && nodupk (map (fun f => (n, f)) (n_split nd))
  && forallb (fun fb => match snd fb with
                        | BSplit _ => memn (leader_of nd (fst fb)) (n_split nd)
                        | _ => negb (memn (fst fb) (n_split nd)) end)
             (combine (seq 0 (List.length (n_fields nd))) (n_fields nd))
  && forallb (fun f => Nat.ltb f (List.length (n_fields nd))) (n_split nd)
  && forallb (fun p => match nth_error (n_fields nd) (fst p) with Some (BSplit _) => true | _ => false end) (n_zip nd)
  && nodupk (n_comb nd) && forallb (fun k => memk k (s_axes e)) (n_comb nd).

Definition on_nodes (wf : workflow) (p : nat -> sentry -> node -> bool) : bool :=
  forallb (fun x => p (fst (fst x)) (snd (fst x)) (snd x))
          (combine (combine (seq 0 (List.length wf)) (spec_table wf)) wf).

Definition wf_ok (wf : workflow) : bool := on_nodes wf node_wf.
Definition separate_class (wf : workflow) : bool := on_nodes wf (fun _ _ nd => separate_ok wf (spec_table wf) nd).
Definition share_class (wf : workflow) : bool := on_nodes wf (fun _ _ nd => sharing_ok wf (spec_table wf) nd).
(* the class of C03_partial *)
Definition c03_domain (wf : workflow) : bool :=
  wf_ok wf && separate_class wf.
(* the same plus the relay pattern: outside it the unchanged code is known to misbehave (F03) *)
Definition c03_aligned (wf : workflow) : bool :=
  wf_ok wf && share_class wf.

(* ---------- zip groups, both outputs ---------- *)
Definition zip_len_ok (wf : workflow) : bool := forallb zip_ok_node wf.
(* remove_inp_from_splitter_rpn is known (C02 / F02) to mishandle an inner pair that stays when fields around it
   are combined; the model does not reproduce that: a node with a combiner keeps no zip group open *)
Definition has_followers (wf : workflow) (k : key) : bool :=
  existsb (fun p => Nat.eqb (snd p) (snd k)) (n_zip (node_at wf (fst k))).
Definition zipcomb_class (wf : workflow) : bool :=
  on_nodes wf (fun _ e nd => is_nil (n_comb nd) || negb (existsb (has_followers wf) (s_faxes e))).
(* the combiner names whole zip groups.  Naming only some fields of a group still combines the whole group at
   run time (combiner_all), but splitter_rpn_final / depth() used while the workflow is constructed only remove the
   named fields: downstream nodes are wired against a stale final splitter (known finding F03y) *)
Definition group_members (wf : workflow) (k : key) : list key :=
  let nd := node_at wf (fst k) in
  let l := leader_of nd (snd k) in
  (fst k, l) :: map (fun p => (fst k, fst p)) (filter (fun p => Nat.eqb (snd p) l) (n_zip nd)).
Definition comb_closed_class (wf : workflow) : bool :=
  forallb (fun nd => forallb (fun k => forallb (fun m => memk m (n_comb nd)) (group_members wf k)) (n_comb nd)) wf.
(* inner splitters: zipped fields of different length are rejected (None) *)
Definition spec_run2 (wf : workflow) : option (list val) :=
  if zip_len_ok wf then Some (outs2 (spec_run (normalize wf))) else None.
(* the class of C03_partial2 *)
Definition c03_class2 (wf : workflow) : bool :=
  c03_aligned (normalize wf) && zip_len_ok wf && zipcomb_class (normalize wf) && comb_closed_class wf.

(* ---------- third pass: explicit pairing ("_A", "_B") of two upstream states with one open axis each ----------
   The two axes are aligned by position: the pair node has ONE axis for them (named by A's axis ka); an input
   bound to B reads B's output at the coordinate kb := rho(ka).  Unequal lengths are rejected. *)
Definition first_ups (tab : list sentry) (fields : list binding) : option (nat * nat) :=
  match ups tab fields with [a; b] => Some (a, b) | _ => None end.
Fixpoint sem_args_pair (tab : list sentry) (n : nat) (nd : node) (xb : nat) (ka kb : key) (f : nat) (fields : list binding) (rho : row) : list val :=
  match fields with
  | [] => []
  | b :: r =>
      (match b with
       | BConst z => VInt z
       | BSplit vs => VInt (nth (match lookup rho (n, leader_of nd f) with Some i => i | None => 0 end) vs 0%Z)
       | BUp j => outsel (osel_of nd f)
                    (s_out_of tab j (if Nat.eqb j xb then (kb, match lookup rho ka with Some i => i | None => 0 end) :: rho else rho))
       end) :: sem_args_pair tab n nd xb ka kb (S f) r rho
  end.
Definition spec_entry_pair (wf : workflow) (tab : list sentry) (n : nat) (nd : node) : sentry :=
  match first_ups tab (n_fields nd) with
  | Some (xa, xb) =>
      match s_faxes_of tab xa, s_faxes_of tab xb with
      | [ka], [kb] =>
          let axes := ka :: map (fun f => (n, f)) (n_split nd) in
          let sem := fun rho => VTag n (sem_args_pair tab n nd xb ka kb 0 (n_fields nd) rho) in
          {| s_axes := axes; s_faxes := axes; s_sem := sem; s_out := sem |}
      | _, _ => spec_entry wf tab n nd
      end
  | None => spec_entry wf tab n nd
  end.
Fixpoint spec_from3 (wf : workflow) (tab : list sentry) (nodes : workflow3) : list sentry :=
  match nodes with
  | [] => tab
  | (nd, pr) :: r =>
      spec_from3 wf (tab ++ [if pr then spec_entry_pair wf tab (List.length tab) nd else spec_entry wf tab (List.length tab) nd]) r
  end.
(* the pairing is well-formed for the spec: two state-carrying inputs with one open axis each, of equal length,
   no combiner on the pair node *)
Definition pair_ok (wf : workflow) (tab : list sentry) (nd : node) : bool :=
  match first_ups tab (n_fields nd) with
  | Some (xa, xb) =>
      match s_faxes_of tab xa, s_faxes_of tab xb with
      | [ka], [kb] => is_nil (n_comb nd)
      | _, _ => false
      end
  | None => false
  end.
Definition pair_len_ok (wf : workflow) (tab : list sentry) (nd : node) : bool :=
  match first_ups tab (n_fields nd) with
  | Some (xa, xb) =>
      match s_faxes_of tab xa, s_faxes_of tab xb with
      | [ka], [kb] => Nat.eqb (key_len wf ka) (key_len wf kb)
      | _, _ => true
      end
  | None => true
  end.
Definition on_pairs (w3 : workflow3) (p : workflow -> list sentry -> node -> bool) : bool :=
  let wf := normalize (map fst w3) in
  let tab := spec_from3 wf [] (combine wf (map snd w3)) in
  forallb (fun x => negb (snd x) || p wf tab (fst x)) (combine wf (map snd w3)).
Definition has_pair (w3 : workflow3) : bool := existsb snd w3.
Definition spec_run3 (w3 : workflow3) : option (list val) :=
  let wf := normalize (map fst w3) in
  if zip_len_ok wf && on_pairs w3 pair_len_ok
  then Some (outs2 (map (spec_output wf) (spec_from3 wf [] (combine wf (map snd w3)))))
  else None.
(* pair nodes are supported (compared with model and spec) when they are well-formed and every later node that
   combines anything removes the paired axis by naming both of its fields; no theorem covers them *)
Definition pair_supported (w3 : workflow3) : bool := on_pairs w3 pair_ok.
Definition c03_class3 (w3 : workflow3) : bool := negb (has_pair w3) && c03_class2 (map fst w3).
