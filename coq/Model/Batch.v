(* Model/Batch.v — pydra/workers/slurm.py SlurmWorker.run / _poll_job / _verify_exit_code as a function
   of the sbatch_args string and of the scheduler's answers, and pydra/workers/sge.py
   SgeWorker._verify_exit_code as a function of qacct's answers.

   The scheduler is scripted: one stream of answers per command (sbatch: one answer; squeue, sacct:
   lists consumed in order; scontrol requeue: answer ignored by the code).  sacct's raw stdout is parsed by
   parse_sacct, an exact backtracking model of the regex _sacct_re (search), into sacct_ans.  The three option regexes, str.split, `in`, str.replace
   and the first-digits search are modelled exactly on ASCII byte strings. *)
From Pydra Require Import Base.Prelude.
Local Open Scope string_scope.
Local Open Scope list_scope.
Local Infix "^^" := String.append (at level 60, right associativity).

Definition chars := list ascii.
Definition is_space (c : ascii) : bool :=
  let n := nat_of_ascii c in (Nat.leb 9 n && Nat.leb n 13) || (Nat.leb 28 n && Nat.leb n 32).
Definition is_digit (c : ascii) : bool := let n := nat_of_ascii c in Nat.leb 48 n && Nat.leb n 57.

(* str.split() *)
Fixpoint py_split (l cur : chars) : list string :=
  match l with
  | [] => match cur with [] => [] | _ => [str_of (rev cur)] end
  | c :: r => if is_space c then match cur with [] => py_split r [] | _ => str_of (rev cur) :: py_split r [] end
              else py_split r (c :: cur)
  end.
Definition split_ws (s : string) : list string := py_split (la_of s) [].

(* needle in haystack *)
Fixpoint contains_l (n l : chars) : bool :=
  match l with
  | [] => match n with [] => true | _ => false end
  | _ :: r => is_prefix Ascii.eqb n l || contains_l n r
  end.
Definition contains (needle hay : string) : bool := contains_l (la_of needle) (la_of hay).

(* str.replace(old, new) for a non-empty old: leftmost, non-overlapping *)
Fixpoint replace_l (old new l : chars) (skip : nat) : chars :=
  match l with
  | [] => []
  | c :: r => match skip with
              | S k => replace_l old new r k
              | O => if is_prefix Ascii.eqb old l then new ++ replace_l old new r (List.length old - 1)
                     else c :: replace_l old new r 0
              end
  end.
Definition replace (old new s : string) : string := str_of (replace_l (la_of old) (la_of new) (la_of s) 0).

Fixpoint take_while (f : ascii -> bool) (l : chars) : chars :=
  match l with c :: r => if f c then c :: take_while f r else [] | [] => [] end.

(* re.search(r"\d+", s) *)
Fixpoint first_digits_l (l : chars) : option chars :=
  match l with
  | [] => None
  | c :: r => if is_digit c then Some (take_while is_digit l) else first_digits_l r
  end.
Definition first_digits (s : string) : option string := option_map str_of (first_digits_l (la_of s)).

(* re.search(r"(?<=-X )\S+|(?<=--long=)\S+", s): leftmost position whose preceding text ends with
   "-X " or with "--long=" and which holds a non-space character; the match is the run of non-space
   characters from there.  [before] is the text before the position, reversed. *)
Fixpoint opt_search (rshort rlong : chars) (l before : chars) : option chars :=
  match l with
  | [] => None
  | c :: r =>
      if negb (is_space c) && (is_prefix Ascii.eqb rshort before || is_prefix Ascii.eqb rlong before)
      then Some (take_while (fun x => negb (is_space x)) l)
      else opt_search rshort rlong r (c :: before)
  end.
Definition find_opt (short long s : string) : option string :=
  option_map str_of (opt_search (rev (la_of (short ^^ " "))) (rev (la_of long)) (la_of s) []).

(* ---- the submission ---- *)
Record submit_ctx := {
  sc_args : string;          (* SlurmWorker.sbatch_args *)
  sc_default_name : string;  (* job.name + "." + job.uid *)
  sc_script_dir : string;    (* str(cache_root / "slurm_scripts" / uid) *)
  sc_batch_script : string   (* str(batch_script) *)
}.

Definition sbatch_argv (c : submit_ctx) : list string :=
  split_ws (sc_args c) ++
  (match find_opt "-J" "--job-name=" (sc_args c) with Some _ => [] | None => ["--job-name=" ^^ sc_default_name c] end) ++
  (match find_opt "-o" "--output=" (sc_args c) with Some _ => [] | None => ["--output=" ^^ sc_script_dir c ^^ "/slurm-%j.out"] end) ++
  (match find_opt "-e" "--error=" (sc_args c) with Some _ => [] | None => ["--error=" ^^ sc_script_dir c ^^ "/slurm-%j.err"] end) ++
  [sc_batch_script c].

(* the error file read when the job failed (since the fix commit: the user's file when one was given) *)
Definition error_file (c : submit_ctx) (jobid : string) : string :=
  replace "%j" jobid (match find_opt "-e" "--error=" (sc_args c) with
                      | Some f => f
                      | None => sc_script_dir c ^^ "/slurm-%j.err"
                      end).
(* the tree before the fix commit: None.replace raised AttributeError *)
Definition error_file_pinned (c : submit_ctx) (jobid : string) : option string :=
  match find_opt "-e" "--error=" (sc_args c) with
  | Some _ => None
  | None => Some (replace "%j" jobid (sc_script_dir c ^^ "/slurm-%j.err"))
  end.

(* ---- polling ---- *)
Inductive sacct_ans := SaNone | SaLine (status : string) (exit_code : nat) | SaGarbage.
Record squeue_ans := { sq_stdout : string; sq_stderr : string }.

(* ---- _sacct_re : jobid = digits-star, spaces-plus, status = word-star, optional plus sign, spaces-plus,
   exit_code = digits-plus, colon, digits-plus; applied with .search(stdout) ----
   Exact backtracking semantics on ASCII text.  From a start position: the digit run (fewer digits cannot be
   followed by a space), then the run of m >= 1 spaces.  First choice: all m spaces, the maximal word, an
   optional plus, spaces, digits ':' digit.  The only other parse that can succeed gives up k >= 1 of the m
   spaces (m >= 2): the status is then empty and the exit code starts right after the spaces. *)
Definition is_word (c : ascii) : bool :=
  let n := nat_of_ascii c in
  (Nat.leb 48 n && Nat.leb n 57) || (Nat.leb 65 n && Nat.leb n 90) || (Nat.leb 97 n && Nat.leb n 122) || Nat.eqb n 95.
Definition is_sp (c : ascii) : bool := Ascii.eqb c " "%char.

Fixpoint span (p : ascii -> bool) (l : chars) : chars * chars :=
  match l with
  | c :: r => if p c then let '(a, b) := span p r in (c :: a, b) else ([], l)
  | [] => ([], [])
  end.

Definition exit_code_at (r : chars) : option chars :=
  let '(ds, r6) := span is_digit r in
  match ds with
  | [] => None
  | _ => match r6 with
         | colon :: c :: _ => if Ascii.eqb colon ":"%char && is_digit c then Some ds else None
         | _ => None
         end
  end.

Definition after_status (r : chars) : option chars :=
  let '(sp2, r5) := span is_sp r in
  match sp2 with [] => None | _ => exit_code_at r5 end.

Definition match_at (l : chars) : option (chars * chars) :=
  let '(_, r1) := span is_digit l in
  let '(sp, r2) := span is_sp r1 in
  match sp with
  | [] => None
  | _ =>
      let '(w, r3) := span is_word r2 in
      let r4 := match r3 with c :: r => if Ascii.eqb c "+"%char then r else r3 | [] => r3 end in
      match after_status r4 with
      | Some ds => Some (w, ds)
      | None => if Nat.leb 2 (List.length sp)
                then match exit_code_at r2 with Some ds => Some ([], ds) | None => None end
                else None
      end
  end.

Fixpoint sacct_search (l : chars) : option (chars * chars) :=
  match match_at l with
  | Some r => Some r
  | None => match l with [] => None | _ :: r => sacct_search r end
  end.

Fixpoint nat_of_digits_acc (l : chars) (acc : nat) : nat :=
  match l with [] => acc | c :: r => nat_of_digits_acc r (10 * acc + (nat_of_ascii c - 48)) end.
Definition nat_of_digits (l : chars) : nat := nat_of_digits_acc l 0.

(* what _verify_exit_code makes of sacct's stdout *)
Definition parse_sacct (stdout : string) : sacct_ans :=
  if String.eqb stdout "" then SaNone
  else match sacct_search (la_of stdout) with
       | None => SaGarbage
       | Some (w, ds) => SaLine (str_of w) (nat_of_digits ds)
       end.

Record state_lists := {
  sl_requeue_verify : list string;   (* _verify_exit_code: returned as a string *)
  sl_active : list string;           (* _verify_exit_code: still pending/running *)
  sl_requeue_run : list string       (* run: statuses that are requeued *)
}.
Definition mem (s : string) (l : list string) : bool := existsb (String.eqb s) l.

Inductive verdict :=
| Complete                     (* run returns True *)
| Failed (message : string)    (* Exception(message) raised from the error file *)
| InfoMissing                  (* RuntimeError("Job information not found") *)
| Unparsable                   (* sacct text the regex does not match: AttributeError *)
| ErrFileUnreadable            (* error file missing or with fewer than two lines *)
| SubmitError                  (* sbatch returned non-zero *)
| NoJobId                      (* no digits in sbatch's stdout *)
| Crash                        (* pinned tree only: AttributeError before polling *)
| StillPolling.                (* the script ran out: the worker is still in its loop *)

Inductive cmd := CSqueue | CSacct | CRequeue.

Inductive vstep := VTrue | VFalse | VStatus (s : string) | VRaise (v : verdict).

(* error_line = text.split("\n")[-2] ; the content is given as the list text.split("\n") *)
Definition error_message (lines : option (list string)) : verdict :=
  match lines with
  | None => ErrFileUnreadable
  | Some ls =>
      match rev ls with
      | _ :: line :: _ =>
          if contains "Exception" line then Failed (replace "Exception: " "" line)
          else if contains "Error" line then Failed (replace "Exception: " "" line)
          else Failed "Job failed (unknown reason - TODO)"
      | _ => ErrFileUnreadable
      end
  end.

Definition verify (sl : state_lists) (errfile : option (list string)) (a : sacct_ans) : vstep :=
  match a with
  | SaNone => VRaise InfoMissing
  | SaGarbage => VRaise Unparsable
  | SaLine st code =>
      if negb (Nat.eqb code 0) || negb (String.eqb st "COMPLETED") then
        if mem st (sl_requeue_verify sl) then VStatus st
        else if mem st (sl_active sl) then VFalse
        else VRaise (error_message errfile)
      else VTrue
  end.

(* the while-loop of run; one squeue answer is consumed per iteration *)
Fixpoint poll_loop (sl : state_lists) (norequeue : bool) (errfile : option (list string))
         (sq : list squeue_ans) (sa : list sacct_ans) : verdict * list cmd :=
  match sq with
  | [] => (StillPolling, [])
  | q :: sq' =>
      if negb (String.eqb (sq_stdout q) "") && negb (contains "slurm_load_jobs error" (sq_stderr q))
      then let '(v, t) := poll_loop sl norequeue errfile sq' sa in (v, CSqueue :: t)
      else match sa with
           | [] => (StillPolling, [CSqueue])
           | a :: sa' =>
               match verify sl errfile a with
               | VTrue => (Complete, [CSqueue; CSacct])
               | VFalse => let '(v, t) := poll_loop sl norequeue errfile sq' sa' in (v, CSqueue :: CSacct :: t)
               | VStatus st =>
                   if mem st (sl_requeue_run sl) && negb norequeue
                   then let '(v, t) := poll_loop sl norequeue errfile sq' sa' in (v, CSqueue :: CSacct :: CRequeue :: t)
                   else (Complete, [CSqueue; CSacct])
               | VRaise v => (v, [CSqueue; CSacct])
               end
           end
  end.

Record scheduler := {
  sb_rc : nat; sb_stdout : string;          (* sbatch *)
  s_squeue : list squeue_ans; s_sacct : list string;     (* sacct: raw stdout of each call *)
  s_errfile : option (list string)          (* content of the error file, split at newlines *)
}.

(* SlurmWorker.run: the sbatch vector, the verdict, the commands issued after sbatch *)
Definition slurm_run (sl : state_lists) (c : submit_ctx) (s : scheduler) : list string * verdict * list cmd :=
  let argv := sbatch_argv c in
  if negb (Nat.eqb (sb_rc s) 0) then (argv, SubmitError, [])
  else match first_digits (sb_stdout s) with
       | None => (argv, NoJobId, [])
       | Some _ =>
           let '(v, t) := poll_loop sl (contains "--no-requeue" (sc_args c)) (s_errfile s) (s_squeue s) (map parse_sacct (s_sacct s)) in
           (argv, v, t)
       end.

Definition slurm_run_pinned (sl : state_lists) (c : submit_ctx) (s : scheduler) : list string * verdict * list cmd :=
  let argv := sbatch_argv c in
  if negb (Nat.eqb (sb_rc s) 0) then (argv, SubmitError, [])
  else match first_digits (sb_stdout s) with
       | None => (argv, NoJobId, [])
       | Some j =>
           match error_file_pinned c j with
           | None => (argv, Crash, [])
           | Some _ =>
               let '(v, t) := poll_loop sl (contains "--no-requeue" (sc_args c)) (s_errfile s) (s_squeue s) (map parse_sacct (s_sacct s)) in
               (argv, v, t)
           end
       end.

(* ---- SGE: SgeWorker._verify_exit_code ---- *)
Record qacct_ans := { qa_lines : list string;       (* stdout.splitlines(); [] = empty stdout *)
                      qa_notfound : bool }.         (* stderr matches "error: job id .* not found" *)
Inductive sge_verdict := SgePending | SgeErrored | SgeDone.

Definition all_digits (s : string) : bool :=
  match la_of s with [] => false | l => forallb is_digit l end.
Definition is_zero (s : string) : bool := forallb (fun c => Ascii.eqb c "0"%char) (la_of s).

Fixpoint failed_line (lines : list string) : bool :=
  match lines with
  | [] => false
  | l :: r =>
      match split_ws l with
      | k :: v :: _ => if String.eqb k "failed" then
                         (if negb (all_digits v) then true else if negb (is_zero v) then true else failed_line r)
                       else failed_line r
      | _ => failed_line r
      end
  end.

(* first answer; if its stdout is empty the command is repeated (after a sleep) and the second answer used *)
Definition sge_verify (a1 a2 : qacct_ans) : sge_verdict :=
  let a := match qa_lines a1 with [] => a2 | _ => a1 end in
  if qa_notfound a then SgePending
  else match qa_lines a with
       | [] => SgeErrored
       | ls => if failed_line ls then SgeErrored else SgeDone
       end.
