(* Spec/FileHash.v — C09 reference semantics.  Never mentions keys, stores or in-memory tables:
   whenever a file or directory is hashed, the answer is the content hash of what is on disk at
   that moment (or an error when the path is not there). *)
From Pydra Require Import Base.Prelude Model.FileHash.

Section Spec.
  Variables FS Target Digest Fop : Type.
  Variable texists : Target -> FS -> bool.
  Variable chash : Target -> FS -> Digest.
  Variable fstep : FS -> Fop -> FS.

  Fixpoint spec_outputs (fs : FS) (h : list (@gop Target Fop)) : list (option Digest) :=
    match h with
    | [] => []
    | GFs o :: r => spec_outputs (fstep fs o) r
    | GHash _ _ t :: r => (if texists t fs then Some (chash t fs) else None) :: spec_outputs fs r
    | GCleanup :: r => spec_outputs fs r
    end.
End Spec.

(* the property, for an implementation given by the list of answers it produces for a history *)
Definition hashes_reflect_content (now : nat -> nat) (parent : name -> option name)
           (impl : hist -> list (option digest)) : Prop :=
  forall h : hist,
    impl h = spec_outputs fsys target digest fop target_exists (content_hash parent) (fstep now parent) fs_empty h.

(* executable version used on the correspondence cases *)
Definition spec_out (now : nat -> nat) (parent : name -> option name) (h : hist) : list (option digest) :=
  spec_outputs fsys target digest fop target_exists (content_hash parent) (fstep now parent) fs_empty h.
