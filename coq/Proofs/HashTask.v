(* Proofs/HashTask.v — Task._compute_hashes / _checksum (Model.Hash.compute_hash / checksum) on top of the value
   theorems: the checksum is a function of the field names and of the digests the field values have alone
   (the Cache shared between the fields does not matter for acyclic values), hence it does not depend on set
   iteration order / dict insertion order / object identities (C07), and two tasks whose fields have pairwise
   equal digests share their checksum (C06). *)
From Coq Require Import Sorting.Permutation.
From Pydra Require Import Base.Prelude Base.PySort Model.Hash Spec.Hash Proofs.HashSort Proofs.HashCtx Proofs.HashOrder.
Local Open Scope list_scope.

Section Task.
  Variable H : string -> string.
  Variable env : nat -> option pyval.

  Definition dg (v : pyval) : string := match digest H v with Ok d => d | Err _ => EmptyString end.

  Lemma field_hashes_alone : forall fields m,
      Inv H env [] m ->
      (forall kv, In kv fields -> hashable_acyclic H env (snd kv)) ->
      field_hashes H fields m = Ok (map (fun kv : string * pyval => (fst kv, hex (dg (snd kv)))) fields).
  Proof.
    induction fields as [|[k v] fields IH]; intros m HI Hall; [reflexivity|].
    destruct (Hall (k, v) (or_introl eq_refl)) as [Hwf [d Hd]]. cbn [snd] in *.
    cbn [field_hashes map fst snd]. unfold dg at 1. rewrite Hd.
    unfold digest in Hd. unfold hash_object.
    destruct (dig H (S (vdepth v)) v tt) as [[d' []]|] eqn:Ed; [|discriminate]. inversion Hd; subst d'.
    destruct (hs_context_free H env _ v [] m d Hwf HI Ed) as (m' & Ehs & HI'). rewrite Ehs.
    rewrite (IH m' HI'); auto. intros kv Hkv. apply Hall. now right.
  Qed.

  (* the checksum as a function of (name, digest alone) pairs *)
  Definition hash_of_items (fh : list (string * string)) : res string :=
    match sorted_res vlt (items_val 1 fh) with
    | Err e => Err e
    | Ok items => match hash_object H (VList 0 items) [] with Ok (d, _) => Ok (hex d) | Err e => Err e end
    end.

  Theorem compute_hash_alone : forall fields,
      (forall kv, In kv fields -> hashable_acyclic H env (snd kv)) ->
      compute_hash H fields = hash_of_items (map (fun kv : string * pyval => (fst kv, hex (dg (snd kv)))) fields).
  Proof.
    intros fields Hall. unfold compute_hash. rewrite (field_hashes_alone fields [] (Inv_nil H env) Hall). reflexivity.
  Qed.
End Task.

(* two sessions: the same field names, values equal up to set iteration order, dict insertion order and object
   identities *)
Definition session_variant (f1 f2 : list (string * pyval)) : Prop :=
  Forall2 (fun a b : string * pyval => fst a = fst b /\ reorder (snd a) (snd b)) f1 f2.

Lemma dg_reorder : forall H v1 v2 d1 d2,
    reorder v1 v2 -> sortable v1 -> digest H v1 = Ok d1 -> digest H v2 = Ok d2 -> dg H v1 = dg H v2.
Proof.
  intros H v1 v2 d1 d2 Hr Hs D1 D2. unfold dg. rewrite D1, D2. unfold digest in D1, D2.
  destruct (dig H (S (vdepth v1)) v1 tt) as [[e1 []]|] eqn:E1; [|discriminate].
  destruct (dig H (S (vdepth v2)) v2 tt) as [[e2 []]|] eqn:E2; [|discriminate].
  inversion D1; subst. inversion D2; subst.
  rewrite (dig_reorder H _ v1 v2 Hr Hs) in E1. eapply dig_det; eauto.
Qed.

Theorem checksum_session_independent : forall H env1 env2 ty f1 f2,
    session_variant f1 f2 ->
    (forall kv, In kv f1 -> sortable (snd kv) /\ hashable_acyclic H env1 (snd kv)) ->
    (forall kv, In kv f2 -> hashable_acyclic H env2 (snd kv)) ->
    checksum H ty f1 = checksum H ty f2.
Proof.
  intros H env1 env2 ty f1 f2 Hv H1 H2. unfold checksum.
  rewrite (compute_hash_alone H env1 f1), (compute_hash_alone H env2 f2);
    [|intros kv Hkv; now apply H2|intros kv Hkv; now apply H1].
  enough (E : map (fun kv : string * pyval => (fst kv, hex (dg H (snd kv)))) f1 =
              map (fun kv : string * pyval => (fst kv, hex (dg H (snd kv)))) f2) by now rewrite E.
  induction Hv as [|a b f1 f2 [Hn Hr] Hv IH]; [reflexivity|]. cbn [map]. f_equal.
  - destruct (H1 a (or_introl eq_refl)) as [Hs [_ [d1 D1]]]. destruct (H2 b (or_introl eq_refl)) as [_ [d2 D2]].
    rewrite Hn. f_equal. f_equal. eapply dg_reorder; eauto.
  - apply IH; intros kv Hkv; [apply H1|apply H2]; now right.
Qed.

(* C06: tasks whose fields have the same names and pairwise the same digests share the checksum, whatever else
   differs between them *)
Theorem checksum_only_sees_digests : forall H env1 env2 ty f1 f2,
    Forall2 (fun a b : string * pyval => fst a = fst b /\ dg H (snd a) = dg H (snd b)) f1 f2 ->
    (forall kv, In kv f1 -> hashable_acyclic H env1 (snd kv)) ->
    (forall kv, In kv f2 -> hashable_acyclic H env2 (snd kv)) ->
    checksum H ty f1 = checksum H ty f2.
Proof.
  intros H env1 env2 ty f1 f2 Hv H1 H2. unfold checksum.
  rewrite (compute_hash_alone H env1 f1 H1), (compute_hash_alone H env2 f2 H2).
  enough (E : map (fun kv : string * pyval => (fst kv, hex (dg H (snd kv)))) f1 =
              map (fun kv : string * pyval => (fst kv, hex (dg H (snd kv)))) f2) by now rewrite E.
  induction Hv as [|a b f1 f2 [Hn Hr] Hv IH]; [reflexivity|]. cbn [map]. f_equal.
  - now rewrite Hn, Hr.
  - apply IH; intros kv Hkv; [apply H1|apply H2]; now right.
Qed.
