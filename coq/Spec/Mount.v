(* Spec/Mount.v — C38 reference semantics: the mount of a path is a longest table entry whose
   mount point is a path-component prefix of the path; the default when there is none. *)
From Pydra Require Import Base.Prelude Base.PyPath Model.Mount.

(* m is a component prefix of p: same kind of root, and p's components extend m's *)
Definition comp_prefix (m p : string) : Prop :=
  p_anchor (parse (la_of m)) = p_anchor (parse (la_of p)) /\
  exists rest, p_comps (parse (la_of p)) = (p_comps (parse (la_of m)) ++ rest)%list.

Definition is_mount_of (t : table) (path : string) (e : option entry) : Prop :=
  match e with
  | Some e => In e t /\ comp_prefix (fst e) path /\
              forall e', In e' t -> comp_prefix (fst e') path ->
                         String.length (fst e') <= String.length (fst e)
  | None => forall e', In e' t -> ~ comp_prefix (fst e') path
  end.

(* executable version used on the correspondence cases *)
Definition comp_prefixb (m p : string) : bool := rel_to (parse (la_of p)) (parse (la_of m)).
Definition spec_mount (t : table) (path : string) : entry :=
  let cands := filter (fun e => comp_prefixb (fst e) path) t in
  match cands with
  | [] => default_mount
  | c :: cs =>
      let best := fold_left (fun b e => if Nat.ltb (String.length (fst b)) (String.length (fst e)) then e else b) cs c in
      (str_of (render (parse (la_of (fst best)))), snd best)
  end.
