(* Proofs/SchedK.v — when no job fails, a poll that finds no future pending either returns a job or has
   found every node done; hence the asynchronous loop ends by itself (status Finished) within
   |jobs| + 1 iterations, for every oracle. *)
From Pydra Require Import Base.Prelude Base.SchedBase Model.Sched Spec.Sched Proofs.SchedA Proofs.SchedSpec Proofs.SchedSpec2 Proofs.SchedB Proofs.SchedC Proofs.SchedD Proofs.SchedE Proofs.SchedF Proofs.SchedG Proofs.SchedJ.
Local Open Scope nat_scope.

Lemma remove_nth_other {A} (l : list A) : forall i d q,
  i < List.length l -> q <> nth i l d -> In q l -> In q (remove_nth i l).
Proof.
  induction l as [|x l IH]; intros i d q Hl Q Hq; [destruct Hq|].
  destruct i; cbn in *.
  - destruct Hq as [<-|Hq]; [congruence|exact Hq].
  - destruct Hq as [<-|Hq]; [left; reflexivity|right; apply (IH i d); auto; lia].
Qed.

Section Live.
Variable V : Type.
Variable body : nat -> nat -> list (list (option V)) -> V.
Variable fails : job -> bool.
Variable vr : variant.
Hypothesis F14 : fix14 vr = true.
Variable g : graph.
Hypothesis WF : wf_graph g.
Variable kmax : option nat.
Hypothesis NF : forall j, fails j = false.
Hypothesis NJ : forall nd, In nd g -> 1 <= njobs nd.
Hypothesis KP : forall k, kmax = Some k -> 1 <= k.

Notation world := (world V).
Notation nstate := (nstate V).
Notation sstate := (sstate V).
Notation lstate := (lstate V).
Notation GInv := (GInv V fails g).
Notation WInv := (WInv V fails).
Notation NInv := (NInv V fails g).
Notation Fresh := (@Fresh V).

(* with no failing job, nothing is errored or unrunnable *)
Lemma clean_node (w : world) n (s : nstate) : WInv w -> NInv w n s -> errored s = [] /\ unrunnable s = false.
Proof.
  intros W I. split.
  - destruct (errored s) as [|i l] eqn:E; [reflexivity|]. exfalso.
    assert (Hi : In i (errored s)) by (rewrite E; left; reflexivity).
    pose proof (ni_err _ _ _ _ _ _ I i Hi) as X. destruct (W (n, i)) as [_ B]. rewrite NF in B. specialize (B X). discriminate.
  - destruct (unrunnable s) eqn:E; [|reflexivity].
    pose proof (ni_taint_unr _ _ _ _ _ _ I E) as X. rewrite (no_fail_no_taint g fails WF n NF) in X. discriminate.
Qed.

Lemma all_done_true (w : world) ps : forall ss,
  GInv w ss -> (forall p, In p ps -> Fresh w p (nst ss p) /\ done_ns (nst ss p) = true) ->
  snd (all_done vr w ss ps) = true.
Proof.
  induction ps as [|p ps IH]; intros ss G H; cbn; [reflexivity|].
  destruct (update_spec V body fails vr F14 g w ss p G) as [G1 [F1 [O1 [K1 _]]]].
  destruct (H p (or_introl eq_refl)) as [Fp Dp].
  rewrite (K1 p Fp), Dp. apply IH; [exact G1|].
  intros q Hq. destruct (H q (or_intror Hq)) as [Fq Dq]. rewrite (K1 q Fq). auto.
Qed.

(* the first node that is not done yields at least one job *)
Lemma node_runnable_nonempty (w : world) ss nd :
  GInv w ss -> WInv w -> In nd g ->
  (forall p, In p (npreds nd) -> Fresh w p (nst ss p) /\ done_ns (nst ss p) = true) ->
  Fresh w (nid nd) (nst ss (nid nd)) ->
  done_ns (nst ss (nid nd)) = false -> running (nst ss (nid nd)) = [] ->
  snd (node_runnable vr g w ss nd) <> [].
Proof.
  intros G W Hnd Hp Fn D R. unfold node_runnable.
  assert (EX : existsb (fun p => negb (is_nil (errored (nst ss p))) || unrunnable (nst ss p)) (npreds nd) = false).
  { destruct (existsb _ (npreds nd)) eqn:X; [|reflexivity]. exfalso.
    apply existsb_exists in X. destruct X as [p [_ X]].
    destruct (clean_node w p (nst ss p) W (gi_node _ _ _ _ _ G p)) as [A B]. rewrite A, B in X. discriminate. }
  rewrite EX.
  destruct (all_done_spec V body fails vr F14 g w (npreds nd) ss G) as [G1 [K1 _]].
  pose proof (all_done_true w (npreds nd) ss G Hp) as AT.
  assert (Hsame : forall m, nst (fst (all_done vr w ss (npreds nd))) m = nst ss m).
  { intros m. apply K1. destruct (in_dec Nat.eq_dec m (npreds nd)) as [Hin|Hnin]; [right; apply Hp; exact Hin|left; exact Hnin]. }
  destruct (all_done vr w ss (npreds nd)) as [ss1 alld]. cbn [fst snd] in *. subst alld.
  rewrite Hsame. set (s := nst ss (nid nd)) in *.
  pose proof (gi_node _ _ _ _ _ G (nid nd)) as In_. fold s in In_.
  destruct (is_started s) eqn:St; cbn [snd queued].
  - (* started and not done: something is queued *)
    unfold done_ns in D. rewrite St, R, (ni_blocked _ _ _ _ _ _ In_) in D. cbn in D.
    rewrite !andb_true_r in D. apply is_nil_false in D.
    destruct (queued s) as [|i l]; [congruence|]. cbn. discriminate.
  - pose proof (NJ nd Hnd) as Hn. unfold start_ns. cbn [queued blocked].
    destruct (njobs nd) as [|k]; [lia|]. cbn [seq].
    intros X. apply map_eq_nil in X. apply app_eq_nil in X. destruct X as [_ X]. discriminate.
Qed.

Lemma scan_progress (w : world) : forall rest pre ss,
  g = pre ++ rest -> GInv w ss -> WInv w ->
  (forall n i, In i (running (nst ss n)) -> is_none w (n, i) = false) ->
  (forall j, mem_job j (visible w) = false) ->
  (forall nd, In nd pre -> Fresh w (nid nd) (nst ss (nid nd)) /\ done_ns (nst ss (nid nd)) = true) ->
  snd (scan vr g w rest ss [] []) <> []
  \/ (forall nd, In nd g -> Fresh w (nid nd) (nst (fst (scan vr g w rest ss [] [])) (nid nd))
                          /\ done_ns (nst (fst (scan vr g w rest ss [] [])) (nid nd)) = true).
Proof.
  induction rest as [|nd rest IH]; intros pre ss E G W RF NV Hpre.
  - right. cbn. rewrite app_nil_r in E. subst pre. exact Hpre.
  - cbn [scan].
    assert (Hnd : In nd g). { rewrite E. apply in_or_app. right; left; reflexivity. }
    pose proof WF as WF'. unfold wf_graph in WF'. rewrite E in WF'.
    destruct (topo_b_split _ _ _ _ WF') as [Hpp [_ Hnpre]].
    destruct (update_spec V body fails vr F14 g w ss (nid nd) G) as [G1 [F1 [O1 [K1 U1]]]].
    pose proof (update_run_from V body vr F14 w ss (nid nd)) as RU.
    set (ss1 := update vr w ss (nid nd)) in *.
    assert (R1 : running (nst ss1 (nid nd)) = []).
    { apply nil_of_no_mem. intros i Hi. destruct F1 as [_ Fr]. pose proof (Fr i Hi) as X.
      destruct (RU (nid nd) i Hi) as [Y|Y]; [rewrite (RF _ _ Y) in X; discriminate|rewrite NV in Y; discriminate]. }
    assert (Hpre1 : forall nd', In nd' pre -> Fresh w (nid nd') (nst ss1 (nid nd')) /\ done_ns (nst ss1 (nid nd')) = true).
    { intros nd' H'. destruct (Hpre nd' H') as [A B]. rewrite (K1 _ A). auto. }
    assert (E' : g = (pre ++ [nd]) ++ rest). { rewrite <- app_assoc. exact E. }
    destruct (done_ns (nst ss1 (nid nd))) eqn:D.
    + apply (IH (pre ++ [nd]) ss1 E' G1 W); auto.
      * intros n i Hi. destruct (RU n i Hi) as [Y|Y]; [apply RF; exact Y|rewrite NV in Y; discriminate].
      * intros nd' H'. apply in_app_or in H'. destruct H' as [H'|[<-|[]]]; auto.
    + left. cbn [existsb].
      assert (BR : existsb (fun p => mem_nat p []) (npreds nd) = false).
      { clear. induction (npreds nd) as [|p l IHl]; [reflexivity|]. cbn [existsb]. unfold mem_nat at 1. cbn [existsb orb]. exact IHl. }
      rewrite BR.
      assert (Hp : forall p, In p (npreds nd) -> Fresh w p (nst ss1 p) /\ done_ns (nst ss1 p) = true).
      { intros p Hp. destruct (Hpp p Hp) as [[]|H]. apply in_map_iff in H. destruct H as [nd' [<- H']]. apply Hpre1; exact H'. }
      pose proof (node_runnable_nonempty w ss1 nd G1 W Hnd Hp F1 D R1) as NE.
      destruct (node_runnable vr g w ss1 nd) as [ss2 tl]. cbn [snd] in NE.
      destruct (scan_acc_prefix V vr g w rest ss2 (if is_started (nst ss1 (nid nd)) then [] else [nid nd]) ([] ++ tl)) as [l El].
      rewrite El. cbn. intros X. apply app_eq_nil in X. destruct X; contradiction.
Qed.

Lemma firstn_nonempty {A} k (l : list A) : 1 <= k -> l <> [] -> firstn k l <> [].
Proof. destruct k; [lia|]. destruct l; [congruence|]. cbn. discriminate. Qed.

Lemma poll_progress (w : world) ss :
  GInv w ss -> WInv w ->
  (forall n i, In i (running (nst ss n)) -> is_none w (n, i) = false) ->
  (forall j, mem_job j (visible w) = false) ->
  snd (poll vr g kmax w ss) <> [] \/ any_not_done vr g w (fst (poll vr g kmax w ss)) = false.
Proof.
  intros G W RF NV. unfold poll.
  destruct (scan_progress w g [] ss eq_refl G W RF NV (fun nd (H : In nd []) => match H with end)) as [A|A].
  - left. destruct (scan vr g w g ss [] []) as [ss1 tasks]. cbn [snd] in *. unfold truncate.
    destruct kmax as [k|] eqn:K; [apply firstn_nonempty; auto|exact A].
  - right. destruct (scan vr g w g ss [] []) as [ss1 tasks]. cbn [fst snd] in *.
    unfold any_not_done. destruct (existsb _ g) eqn:X; [|reflexivity]. exfalso.
    apply existsb_exists in X. destruct X as [nd [Hnd X]]. cbn in X.
    destruct (A nd Hnd) as [Fr D].
    destruct (update_ns_fresh V vr F14 w (nid nd) (nst ss1 (nid nd)) Fr) as [Eq _]. rewrite Eq, D in X. discriminate.
Qed.

(* ---- structure of launch / complete, no invariants needed *)
Lemma launch_struct tasks : forall fut pend tr acc,
  let '(f, p, t, a) := launch vr kmax tasks fut pend tr acc in
  exists new, f = fut ++ new /\ p = pend ++ new /\ (forall j, In j new -> In j tasks)
              /\ count_finish t = count_finish tr
              /\ (forall j r, tasks = j :: r -> mem_job j fut = false -> below_limit vr kmax pend = true -> new <> []).
Proof.
  induction tasks as [|j tasks IH]; intros fut pend tr acc; cbn [launch].
  - exists []. rewrite !app_nil_r. split; [reflexivity|split; [reflexivity|split; [intros j []|split; [reflexivity|intros j r X; discriminate]]]].
  - destruct (negb (mem_job j fut) && below_limit vr kmax pend) eqn:C.
    + specialize (IH (fut ++ [j]) (pend ++ [j]) (ELaunch j :: tr) (acc ++ [j])).
      destruct (launch vr kmax tasks (fut ++ [j]) (pend ++ [j]) (ELaunch j :: tr) (acc ++ [j])) as [[[f p'] t] a].
      destruct IH as [new [A [B [C' [D _]]]]]. exists (j :: new).
      rewrite A, B, <- !app_assoc. cbn.
      split; [reflexivity|split; [reflexivity|split; [|split; [exact D|intros; discriminate]]]].
      intros q [<-|Hq]; auto.
    + specialize (IH fut pend tr acc).
      destruct (launch vr kmax tasks fut pend tr acc) as [[[f p'] t] a].
      destruct IH as [new [A [B [C' [D _]]]]]. exists new.
      split; [exact A|split; [exact B|split; [intros q Hq; right; apply C'; exact Hq|split; [exact D|]]]].
      intros j0 r X M BL. inversion X; subst j0 r. rewrite M, BL in C. discriminate.
Qed.

Lemma complete_struct ss : forall cs (res : list (job * option V)) pend errs tr,
  let '(res', pend', errs', tr') := complete body fails cs ss res pend errs tr in
  (forall j, In j pend -> In j pend' \/ lookup j res' <> None)
  /\ (forall j, lookup j res <> None -> lookup j res' <> None)
  /\ count_finish tr <= count_finish tr'
  /\ (cs <> [] -> pend <> [] -> S (count_finish tr) <= count_finish tr').
Proof.
  induction cs as [|c cs IH]; intros res pend errs tr; cbn [complete].
  - repeat split; auto. congruence.
  - destruct pend as [|j0 p0] eqn:Ep.
    + repeat split; auto. congruence.
    + rewrite <- Ep. set (i := c mod List.length pend). set (j := nth i pend j0).
      specialize (IH (res ++ [(j, job_result body fails ss j)]) (remove_nth i pend)
                     (match job_result body fails ss j with None => errs ++ [j] | Some _ => errs end)
                     (EFinish j (match job_result body fails ss j with None => false | Some _ => true end) :: tr)).
      destruct (complete body fails cs ss _ _ _ _) as [[[res' pend'] errs'] tr'].
      destruct IH as [A [B [C _]]]. rewrite count_finish_cons_f in C.
      assert (Hl : i < List.length pend). { apply Nat.mod_upper_bound. rewrite Ep. cbn. lia. }
      assert (Hnew : lookup j (res ++ [(j, job_result body fails ss j)]) <> None).
      { rewrite lookup_app. destruct (lookup j res); [discriminate|]. rewrite job_eqb_refl. discriminate. }
      split; [|split; [|split]].
      * intros q Hq. destruct (job_eqb q j) eqn:Q.
        -- apply job_eqb_eq in Q. subst q. right. apply B. exact Hnew.
        -- apply job_eqb_neq in Q. apply A. apply (remove_nth_other pend i j0 q Hl Q Hq).
      * intros q Hq. apply B. rewrite lookup_app. destruct (lookup q res); [discriminate|congruence].
      * lia.
      * intros _ _. lia.
Qed.

Lemma vis_sub (pend : list job) bits j : In j (map fst (filter snd (combine pend bits))) -> In j pend.
Proof.
  intros H. apply in_map_iff in H. destruct H as [[q b] [E H]]. cbn in E. subst q.
  apply filter_In in H. destruct H as [H _]. apply in_combine_l in H. exact H.
Qed.

Notation LInv := (LInv V body fails vr g kmax).
Notation runs := (@runs V).

Record PInv (ls : lstate) : Prop := {
  pi_vp : forall j, In j (visible (ls_w ls)) -> In j (ls_pending ls);
  pi_fp : forall j, In j (ls_futured ls) -> is_none (ls_w ls) j = true -> In j (ls_pending ls);
  pi_run : forall n i, In i (running (nst (ls_ss ls) n)) -> In (n, i) (ls_futured ls);
  pi_fs : forall j, In j (ls_futured ls) -> runs (ls_ss ls) j;
  pi_none : forall j, In j (ls_tasks ls) -> is_none (ls_w ls) j = true;
  pi_q : ls_pending ls = [] -> ls_tasks ls = [] -> any_not_done vr g (ls_w ls) (ls_ss ls) = false
}.

Lemma mem_job_false_nil j : mem_job j [] = false. Proof. reflexivity. Qed.

Lemma is_none_anti (w w' : world) j : wle V w w' -> is_none w' j = true -> is_none w j = true.
Proof.
  unfold is_none, probe_job. intros H. destruct (lookup j (results w)) as [x|] eqn:E; [|reflexivity].
  rewrite (H _ _ E). destruct x; auto.
Qed.

Lemma async_step_prog o (ls : lstate) :
  LInv ls -> PInv ls ->
  match async_step body fails vr g kmax o ls with
  | Stop Finished _ => True
  | Stop _ _ => False
  | Continue ls' => PInv ls' /\ S (count_finish (ls_trace ls)) <= count_finish (ls_trace ls')
  end.
Proof.
  intros I P. destruct I as [G W Vi T Tt Pr]. destruct P as [VP FP RU FS NO Q]. unfold async_step.
  rewrite (gi_raised _ _ _ _ _ G).
  destruct (loop_cond vr g ls) eqn:LC; cbn [negb]; [|exact I].
  (* tasks or pending is non-empty *)
  assert (NE : is_nil (ls_tasks ls) && is_nil (ls_pending ls) = false).
  { destruct (is_nil (ls_tasks ls)) eqn:A, (is_nil (ls_pending ls)) eqn:B; try reflexivity.
    apply is_nil_true in A, B. unfold loop_cond in LC. rewrite A, B, (Q B A) in LC. discriminate. }
  rewrite NE. rewrite (gi_raised _ _ _ _ _ G).
  (* launch *)
  pose proof (launch_spec V fails vr g kmax (ls_w ls) (ls_errors ls) (ls_tasks ls) (ls_futured ls) (ls_pending ls) (ls_trace ls) []
                Tt (fun j Hj => proj1 (T j Hj))) as LS.
  pose proof (launch_struct (ls_tasks ls) (ls_futured ls) (ls_pending ls) (ls_trace ls) []) as LT.
  destruct (launch vr kmax (ls_tasks ls) (ls_futured ls) (ls_pending ls) (ls_trace ls) []) as [[[fut pend] tr] launched].
  destruct LS as [T2 [Hp2 _]]. destruct LT as [new [Ef [Ep [Hnew [Cf Hfirst]]]]].
  assert (P2 : forall j, In j pend -> runs (ls_ss ls) j).
  { intros j Hj. destruct (Hp2 j Hj) as [X|X]; [apply Pr; exact X|apply T; exact X]. }
  assert (Hpne : pend <> []).
  { rewrite Ep. destruct (ls_pending ls) as [|p0 pl] eqn:Epd; [|discriminate]. cbn.
    destruct (ls_tasks ls) as [|j r] eqn:Et; [cbn in NE; discriminate|].
    apply (Hfirst j r eq_refl).
    - destruct (mem_job j (ls_futured ls)) eqn:M; [|reflexivity]. apply mem_job_In in M.
      exfalso. apply (FP j M). apply NO. left; reflexivity.
    - unfold below_limit. destruct (fix16 vr); [|reflexivity]. destruct kmax as [k|] eqn:K; [|reflexivity].
      apply Nat.ltb_lt. cbn. apply (KP k eq_refl). }
  destruct pend as [|pj pr] eqn:Epend; [congruence|]. rewrite <- Epend in *. clear Epend.
  (* completions *)
  unfold apply_step.
  match goal with |- context [complete body fails ?cs (ls_ss ls) _ _ _ _] =>
    assert (Hcs : cs <> []) by (destruct (comps o); discriminate);
    pose proof (complete_spec V body fails vr g WF kmax (ls_w ls) (ls_ss ls) fut (visible (ls_w ls)) cs (results (ls_w ls)) pend (ls_errors ls) tr) as CS;
    rewrite world_eta in CS; specialize (CS G (wle_refl V _) W Vi T2 P2);
    pose proof (complete_struct (ls_ss ls) cs (results (ls_w ls)) pend (ls_errors ls) tr) as CT;
    destruct (complete body fails cs (ls_ss ls) (results (ls_w ls)) pend (ls_errors ls) tr) as [[[res' pend'] errs'] tr']
  end.
  destruct CS as [L2 [W2 [V2 [T3 S2]]]]. destruct CT as [CA [CB [_ CC]]].
  set (w2 := mkW res' (map fst (filter snd (combine pend' (visbits o))))).
  assert (L3 : wle V (ls_w ls) w2). { intros j v Hl. apply (L2 j v Hl). }
  assert (G3 : GInv w2 (ls_ss ls)) by (eapply GInv_mono; eauto).
  assert (T4 : TInv V fails vr g kmax w2 fut pend' errs' tr') by (eapply TInv_vis; exact T3).
  (* the new invariants before the poll *)
  assert (VP' : forall j, In j (visible w2) -> In j pend') by (intros j Hj; apply (vis_sub pend' (visbits o) j Hj)).
  assert (FP' : forall j, In j fut -> is_none w2 j = true -> In j pend').
  { intros j Hj Hn. assert (Hp : In j pend).
    { rewrite Ef in Hj. apply in_app_or in Hj. rewrite Ep. apply in_or_app. destruct Hj as [Hj|Hj]; [left|right; exact Hj].
      apply FP; [exact Hj|]. eapply is_none_anti; eauto. }
    destruct (CA j Hp) as [X|X]; [exact X|]. exfalso. unfold is_none, probe_job in Hn. cbn in Hn.
    destruct (lookup j res'); [destruct o0; discriminate|congruence]. }
  assert (FS' : forall j, In j fut -> runs (ls_ss ls) j).
  { intros j Hj. rewrite Ef in Hj. apply in_app_or in Hj. destruct Hj as [Hj|Hj]; [apply FS; exact Hj|apply T; apply Hnew; exact Hj]. }
  assert (Hfin : forall j, is_none w2 j = false -> started_flag (nst (ls_ss ls) (fst j)) = true).
  { intros j Hj. apply FS'. apply (ti_res_fut _ _ _ _ _ _ _ _ _ _ T4 j Hj). }
  pose proof (poll_keeps V body fails vr F14 g WF kmax w2 (ls_ss ls) fut G3 W2 FS') as [G4 [T5 FS4]].
  pose proof (poll_run_from V body vr F14 g kmax w2 (ls_ss ls)) as RF4.
  pose proof (poll_none V body fails vr F14 g WF kmax w2 (ls_ss ls) G3 W2 Hfin) as NO4.
  assert (PP : pend' = [] -> snd (poll vr g kmax w2 (ls_ss ls)) <> [] \/ any_not_done vr g w2 (fst (poll vr g kmax w2 (ls_ss ls))) = false).
  { intros Hp0. apply (poll_progress w2 (ls_ss ls) G3 W2).
    - intros n i Hi. destruct (is_none w2 (n, i)) eqn:Nn; [|reflexivity]. exfalso.
      assert (Hf : In (n, i) fut). { rewrite Ef. apply in_or_app. left. apply RU. exact Hi. }
      pose proof (FP' _ Hf Nn) as X. rewrite Hp0 in X. destruct X.
    - intros j. destruct (mem_job j (visible w2)) eqn:M; [|reflexivity]. apply mem_job_In in M.
      apply VP' in M. rewrite Hp0 in M. destruct M. }
  destruct (poll vr g kmax w2 (ls_ss ls)) as [ss3 tasks3]. cbn [fst snd] in *.
  split.
  - constructor; cbn [ls_ss ls_w ls_tasks ls_futured ls_pending ls_errors ls_trace].
    + exact VP'.
    + exact FP'.
    + intros n i Hi. destruct (RF4 n i Hi) as [X|X].
      * rewrite Ef. apply in_or_app. left. apply RU. exact X.
      * apply mem_job_In in X. apply VP' in X. apply (ti_pend_fut _ _ _ _ _ _ _ _ _ _ T4). exact X.
    + exact FS4.
    + exact NO4.
    + intros Hp0 Ht0. destruct (PP Hp0) as [X|X]; [contradiction|exact X].
  - cbn [ls_trace]. rewrite <- Cf. apply CC; [exact Hcs|]. intros X. rewrite X in Hpne. congruence.
Qed.

Lemma finish_bound (ls : lstate) : LInv ls -> count_finish (ls_trace ls) <= List.length (all_jobs g).
Proof.
  intros I. pose proof (li_t _ _ _ _ _ _ _ I) as T.
  pose proof (ti_count _ _ _ _ _ _ _ _ _ _ T) as C.
  assert (L : count_launch (ls_trace ls) = List.length (ls_futured ls)).
  { rewrite <- (ti_fut _ _ _ _ _ _ _ _ _ _ T). symmetry. apply count_launch_rev. }
  assert (B : List.length (ls_futured ls) <= List.length (all_jobs g)).
  { apply NoDup_incl_length; [apply (ti_nodup _ _ _ _ _ _ _ _ _ _ T)|].
    intros j Hj. apply (ti_fut_ok _ _ _ _ _ _ _ _ _ _ T j Hj). }
  lia.
Qed.

Lemma run_loop_terminates : forall fuel orc ls,
  LInv ls -> PInv ls ->
  List.length (all_jobs g) + 1 <= fuel + count_finish (ls_trace ls) ->
  o_status (run_loop body fails vr g kmax fuel orc ls) = Finished.
Proof.
  induction fuel as [|f IH]; intros orc ls I P B.
  - pose proof (finish_bound ls I). lia.
  - cbn [run_loop].
    set (o := match orc with [] => (default_step, []) | o :: r => (o, r) end). destruct o as [o rest].
    pose proof (async_step_spec V body fails vr F14 g WF kmax o ls I) as S1.
    pose proof (async_step_prog o ls I P) as S2.
    destruct (async_step body fails vr g kmax o ls) as [ls'|st ls'].
    + destruct S2 as [P' C]. apply IH; auto. lia.
    + destruct st; try contradiction. reflexivity.
Qed.

Lemma PInv_init : PInv (ls_init V vr g kmax).
Proof.
  unfold ls_init.
  assert (W0 : WInv (w_init V)). { intros j. split; unfold is_ok, is_err, probe_job; cbn; discriminate. }
  pose proof (poll_run_from V body vr F14 g kmax (w_init V) (ss_init V)) as RF.
  pose proof (poll_none V body fails vr F14 g WF kmax (w_init V) (ss_init V) (GInv_init V body fails g) W0) as NO.
  pose proof (poll_progress (w_init V) (ss_init V) (GInv_init V body fails g) W0) as PP.
  destruct (poll vr g kmax (w_init V) (ss_init V)) as [ss tasks]. cbn [fst snd] in *.
  constructor; cbn [ls_ss ls_w ls_tasks ls_futured ls_pending ls_errors ls_trace].
  - intros j [].
  - intros j [].
  - intros n i Hi. destruct (RF n i Hi) as [X|X]; [destruct X|discriminate].
  - intros j [].
  - apply NO. intros j Hj. unfold is_none, probe_job in Hj. cbn in Hj. discriminate.
  - intros _ Ht. destruct PP as [X|X]; [intros n i []|reflexivity|contradiction|exact X].
Qed.

Theorem async_terminates orc fuel :
  List.length (all_jobs g) + 1 <= fuel -> o_status (run_async V body fails vr g kmax orc fuel) = Finished.
Proof.
  intros B. unfold run_async. apply run_loop_terminates.
  - apply LInv_init; assumption.
  - apply PInv_init.
  - lia.
Qed.

End Live.
