(* Model/Graph.v — pydra/engine/graph.py: class DiGraph.
   __init__, nodes/edges setters, _create_connections, add_nodes, add_edges, sorting(presorted),
   _sorting, remove_nodes (incl. the hasattr(self, "sorted_nodes") property access and the
   head-of-list fast path), remove_nodes_connections, remove_previous_connections,
   _checking_successors_nodes, remove_successors_nodes, copy.
   Nodes are identified by their name (a nat): the harness uses one object per name.
   Dictionaries are association lists in insertion order.  Exceptions are the enum [err];
   an operation that raises ends the history (the partially mutated object is not modelled).
   No proofs in this file. *)
From Pydra Require Import Base.Prelude.
Local Open Scope nat_scope.
Local Open Scope list_scope.

Definition node := nat.
Definition edge := (node * node)%type.
Definition dict := list (node * list node).

Inductive err :=
| EDupName      (* ValueError: Duplicate node names found in graph *)
| EEdgeNodes    (* Exception: edge ... can't be added to the graph *)
| ENotPresent   (* Exception: ... is not present in the graph *)
| ENotReady     (* Exception: this node shouldn't be run, has to wait *)
| EKey          (* KeyError from a predecessors/successors lookup *)
| ERemove       (* ValueError: list.remove(x): x not in list *)
| ECycle        (* Exception raised by sorting when a pass sorts nothing *)
| ERecursion    (* RecursionError in _checking_successors_nodes *)
| EFuel.        (* never produced: see Proofs (sorting needs at most |notsorted| passes) *)

Inductive result (A : Type) := Ok (a : A) | Err (e : err).
Arguments Ok {A} a.
Arguments Err {A} e.

Definition bind {A B} (r : result A) (f : A -> result B) : result B :=
  match r with Ok a => f a | Err e => Err e end.
Notation "x <- r ;; k" := (bind r (fun x => k)) (at level 61, r at next level, right associativity).

Definition of_opt {A} (e : err) (o : option A) : result A :=
  match o with Some a => Ok a | None => Err e end.

Definition edge_eqb (x y : edge) : bool := Nat.eqb (fst x) (fst y) && Nat.eqb (snd x) (snd y).
Definition memb (x : node) (l : list node) : bool := existsb (Nat.eqb x) l.

(* list.remove(x): first occurrence; None = ValueError *)
Fixpoint remove_one {A} (eqb : A -> A -> bool) (x : A) (l : list A) : option (list A) :=
  match l with
  | [] => None
  | y :: r => if eqb x y then Some r
              else match remove_one eqb x r with Some r' => Some (y :: r') | None => None end
  end.

Fixpoint has_dup (l : list node) : bool :=
  match l with [] => false | x :: r => memb x r || has_dup r end.

(* ---- dictionaries keyed by node name *)
Fixpoint dget (d : dict) (k : node) : option (list node) :=
  match d with [] => None | (k', v) :: r => if Nat.eqb k k' then Some v else dget r k end.
Fixpoint dset (d : dict) (k : node) (v : list node) : dict :=
  match d with
  | [] => [(k, v)]
  | (k', v') :: r => if Nat.eqb k k' then (k', v) :: r else (k', v') :: dset r k v
  end.
Fixpoint dpop (d : dict) (k : node) : option dict :=
  match d with
  | [] => None
  | (k', v') :: r => if Nat.eqb k k' then Some r
                     else match dpop r k with Some r' => Some ((k', v') :: r') | None => None end
  end.
Definition dkeys (d : dict) : list node := map fst d.
(* d[k].append(x) *)
Definition dappend (d : dict) (k x : node) : result dict :=
  match dget d k with Some v => Ok (dset d k (v ++ [x])) | None => Err EKey end.
(* d[k].remove(x) *)
Definition dremove (d : dict) (k x : node) : result dict :=
  match dget d k with
  | None => Err EKey
  | Some v => match remove_one Nat.eqb x v with Some v' => Ok (dset d k v') | None => Err ERemove end
  end.

Record graph := mkG {
  g_nodes : list node;          (* self._nodes *)
  g_edges : list edge;          (* self._edges *)
  g_preds : dict;               (* self.predecessors *)
  g_succs : dict;               (* self.successors *)
  g_sorted : option (list node);(* self._sorted_nodes *)
  g_wip : list node             (* self._node_wip *)
}.

Definition set_sorted (g : graph) (s : option (list node)) : graph :=
  mkG (g_nodes g) (g_edges g) (g_preds g) (g_succs g) s (g_wip g).

(* generic left-to-right loop that stops at the first exception *)
Fixpoint foldM {A S} (f : S -> A -> result S) (l : list A) (s : S) : result S :=
  match l with [] => Ok s | x :: r => s' <- f s x ;; foldM f r s' end.

(* ---- sorting *)

(* _sorting: nodes without remaining predecessors go to sorted_part, the others stay *)
Fixpoint sort_pass (w : dict) (ns : list node) : result (list node * list node) :=
  match ns with
  | [] => Ok ([], [])
  | n :: r =>
      match dget w n with
      | None => Err EKey
      | Some p =>
          pr <- sort_pass w r ;;
          Ok (match p with [] => (n :: fst pr, snd pr) | _ :: _ => (fst pr, n :: snd pr) end)
      end
  end.

(* for nd_out in outs: for nd_in in self.successors[nd_out.name]: predecessors[nd_in.name].remove(nd_out) *)
Definition release_one (succs : dict) (w : dict) (nd_out : node) : result dict :=
  sl <- of_opt EKey (dget succs nd_out) ;;
  foldM (fun w nd_in => dremove w nd_in nd_out) sl w.
Definition release (succs : dict) (outs : list node) (w : dict) : result dict :=
  foldM (release_one succs) outs w.

(* while notsorted_nodes: ... ; a pass that sorts nothing raises (repair F18).
   [fuel] = number of passes allowed; |notsorted| always suffices. *)
Fixpoint sort_loop (fuel : nat) (succs : dict) (acc ns : list node) (w : dict) : result (list node) :=
  match ns with
  | [] => Ok acc
  | _ :: _ =>
      match fuel with
      | 0 => Err EFuel
      | S fuel' =>
          pr <- sort_pass w ns ;;
          match fst pr with
          | [] => Err ECycle
          | _ :: _ =>
              w' <- release succs (fst pr) w ;;
              sort_loop fuel' succs (acc ++ fst pr) (snd pr) w'
          end
      end
  end.

Definition nonempty {A} (l : list A) : bool := match l with [] => false | _ => true end.

(* sorting(presorted): `if presorted:` is false for None and for [] *)
Definition sorting (g : graph) (presorted : list node) : result graph :=
  let ns := if nonempty presorted then presorted else g_nodes g in
  w0 <- release (g_succs g) (g_wip g) (g_preds g) ;;
  l <- sort_loop (List.length ns) (g_succs g) [] ns w0 ;;
  Ok (set_sorted g (Some l)).

(* the sorted_nodes property *)
Definition sorted_nodes (g : graph) : result (graph * list node) :=
  match g_sorted g with
  | Some s => Ok (g, s)
  | None => g' <- sorting g [] ;;
            Ok (g', match g_sorted g' with Some s => s | None => [] end)
  end.

(* ---- construction *)

Definition edges_in_nodes (ns : list node) (es : list edge) : bool :=
  forallb (fun e => memb (fst e) ns && memb (snd e) ns) es.

Definition connect (pd sd : dict) (e : edge) : result (dict * dict) :=
  pd' <- dappend pd (snd e) (fst e) ;;
  sd' <- dappend sd (fst e) (snd e) ;;
  Ok (pd', sd').
Definition connect_all (es : list edge) (pd sd : dict) : result (dict * dict) :=
  foldM (fun ps e => connect (fst ps) (snd ps) e) es (pd, sd).

(* DiGraph(nodes=ns, edges=es) *)
Definition init (ns : list node) (es : list edge) : result graph :=
  if nonempty ns && has_dup ns then Err EDupName else
  if nonempty es && negb (edges_in_nodes ns es) then Err EEdgeNodes else
  let empty := map (fun n => (n, @nil node)) ns in
  ps <- connect_all es empty empty ;;
  Ok (mkG ns es (fst ps) (snd ps) None []).

Definition add_nodes (g : graph) (new : list node) : result graph :=
  let all := g_nodes g ++ new in
  if nonempty all && has_dup all then Err EDupName else
  let pd := fold_left (fun d n => dset d n []) new (g_preds g) in
  let sd := fold_left (fun d n => dset d n []) new (g_succs g) in
  let g1 := mkG all (g_edges g) pd sd (g_sorted g) (g_wip g) in
  match g_sorted g with
  | Some s => sorting g1 (s ++ new)
  | None => Ok g1
  end.

Definition add_edges (g : graph) (new : list edge) : result graph :=
  let all := g_edges g ++ new in
  if nonempty all && negb (edges_in_nodes (g_nodes g) all) then Err EEdgeNodes else
  ps <- connect_all new (g_preds g) (g_succs g) ;;
  let g1 := mkG (g_nodes g) all (fst ps) (snd ps) (g_sorted g) (g_wip g) in
  match g_sorted g with
  | Some s => sorting g1 s
  | None => Ok g1
  end.

(* ---- removal *)

Definition mark_removed (check_ready : bool) (g : graph) (nd : node) : result graph :=
  if negb (memb nd (g_nodes g)) then Err ENotPresent else
  p <- of_opt EKey (dget (g_preds g) nd) ;;
  if nonempty p && check_ready then Err ENotReady else
  ns <- of_opt ERemove (remove_one Nat.eqb nd (g_nodes g)) ;;
  Ok (mkG ns (g_edges g) (g_preds g) (g_succs g) (g_sorted g) (g_wip g ++ [nd])).

Definition remove_all (l : list node) (s : list node) : result (list node) :=
  foldM (fun s nd => of_opt ERemove (remove_one Nat.eqb nd s)) l s.

(* the tail of remove_nodes once the graph is known to be sorted *)
Definition finish_remove (g2 : graph) (l s : list node) : result graph :=
  if list_eqb Nat.eqb l (firstn (List.length l) s)
  then Ok (set_sorted g2 (Some (skipn (List.length l) s)))
  else
    s' <- remove_all l s ;;
    sorting (set_sorted g2 (Some s')) s'.

Definition remove_nodes (g : graph) (l : list node) (check_ready : bool) : result graph :=
  g1 <- foldM (mark_removed check_ready) l g ;;
  (* `if self._sorted_nodes is not None:` (repair F37b) *)
  match g_sorted g1 with
  | None => Ok g1
  | Some s => finish_remove g1 l s
  end.

Definition disconnect_succ (nd : node) (st : dict * list edge) (nd_in : node) : result (dict * list edge) :=
  pd <- dremove (fst st) nd_in nd ;;
  es <- of_opt ERemove (remove_one edge_eqb (nd, nd_in) (snd st)) ;;
  Ok (pd, es).

Definition pop_node (g : graph) (pd sd : dict) (es : list edge) (nd : node) : result graph :=
  sd' <- of_opt EKey (dpop sd nd) ;;
  pd' <- of_opt EKey (dpop pd nd) ;;
  wip <- of_opt ERemove (remove_one Nat.eqb nd (g_wip g)) ;;
  Ok (mkG (g_nodes g) es pd' sd' (g_sorted g) wip).

Definition remove_connections_one (g : graph) (nd : node) : result graph :=
  sl <- of_opt EKey (dget (g_succs g) nd) ;;
  st <- foldM (disconnect_succ nd) sl (g_preds g, g_edges g) ;;
  pop_node g (fst st) (g_succs g) (snd st) nd.
Definition remove_nodes_connections (g : graph) (l : list node) : result graph :=
  foldM remove_connections_one l g.

Definition disconnect_pred (nd : node) (st : dict * list edge) (nd_out : node) : result (dict * list edge) :=
  sd <- (if memb nd_out (dkeys (fst st)) then dremove (fst st) nd_out nd else Ok (fst st)) ;;
  es <- of_opt ERemove (remove_one edge_eqb (nd_out, nd) (snd st)) ;;
  Ok (sd, es).
Definition remove_previous_one (g : graph) (nd : node) : result graph :=
  pl <- of_opt EKey (dget (g_preds g) nd) ;;
  st <- foldM (disconnect_pred nd) pl (g_succs g, g_edges g) ;;
  pop_node g (g_preds g) (fst st) (snd st) nd.
Definition remove_previous_connections (g : graph) (l : list node) : result graph :=
  foldM remove_previous_one l g.

(* _checking_successors_nodes: depth-first, no visited set, appends every successor met.
   A path longer than the number of keys repeats a node, i.e. Python recurses for ever
   (RecursionError); [depth] = |keys| + 1 is therefore exact. *)
Fixpoint succ_all (depth : nat) (sd : dict) (n : node) : result (list node) :=
  match depth with
  | 0 => Err ERecursion
  | S d =>
      sl <- of_opt EKey (dget sd n) ;;
      foldM (fun acc x => sx <- succ_all d sd x ;; Ok (acc ++ x :: sx)) sl []
  end.

(* followers: `if nd in self.nodes and nd not in followers` over _successors_all *)
Fixpoint collect_followers (ns : list node) (all acc : list node) : list node :=
  match all with
  | [] => acc
  | nd :: r => collect_followers ns r (if memb nd ns && negb (memb nd acc) then acc ++ [nd] else acc)
  end.

(* repair F37: all followers are marked for removal first, then disconnected *)
Definition remove_successors_nodes (g : graph) (n : node) : result graph :=
  all <- succ_all (S (List.length (g_succs g))) (g_succs g) n ;;
  g1 <- remove_nodes_connections g [n] ;;
  let followers := collect_followers (g_nodes g1) all [] in
  g2 <- foldM (fun g nd => remove_nodes g [nd] false) followers g1 ;;
  foldM (fun g nd => remove_previous_connections g [nd]) followers g2.

(* copy(): `if self._sorted_nodes:` — an empty sorted list is copied as "not sorted" *)
Definition copy_graph (g : graph) : graph :=
  match g_sorted g with Some [] => set_sorted g None | _ => g end.

(* ---- histories *)
Inductive op :=
| AddNodes (l : list node)
| AddEdges (l : list edge)
| RemoveNodes (l : list node) (check_ready : bool)
| RemoveNodesConnections (l : list node)
| RemovePreviousConnections (l : list node)
| RemoveSuccessorsNodes (n : node)
| Sort            (* g.sorting() *)
| GetSorted       (* g.sorted_nodes *)
| Copy.           (* g = g.copy() *)

Definition step (g : graph) (o : op) : result graph :=
  match o with
  | AddNodes l => add_nodes g l
  | AddEdges l => add_edges g l
  | RemoveNodes l c => remove_nodes g l c
  | RemoveNodesConnections l => remove_nodes_connections g l
  | RemovePreviousConnections l => remove_previous_connections g l
  | RemoveSuccessorsNodes n => remove_successors_nodes g n
  | Sort => sorting g []
  | GetSorted => gs <- sorted_nodes g ;; Ok (fst gs)
  | Copy => Ok (copy_graph g)
  end.

Definition run (g : graph) (ops : list op) : result graph := foldM step ops g.

(* the whole trace, for the step-by-step comparison with the implementation *)
Fixpoint trace (g : graph) (ops : list op) : list (result graph) :=
  match ops with
  | [] => []
  | o :: r => match step g o with
              | Ok g' => Ok g' :: trace g' r
              | Err e => [Err e]
              end
  end.

(* the predecessors dictionary read as a list of connections (a, b): a is listed in predecessors[b] *)
Definition pred_edges (pd : dict) : list edge :=
  flat_map (fun kv => map (fun a => (a, fst kv)) (snd kv)) pd.

(* ---- the domain of the edge-level theorem (C37_reachable): add_nodes is only given nodes that
   are not marked for removal and that no recorded edge points to *)
Definition fresh_for (g : graph) (new : list node) : bool :=
  forallb (fun n => negb (memb n (g_wip g)) && negb (existsb (fun e => Nat.eqb (snd e) n) (g_edges g))) new.
Definition dom_ok (g : graph) (o : op) : bool :=
  match o with AddNodes new => fresh_for g new | _ => true end.
Fixpoint run_dom (g : graph) (ops : list op) : bool :=
  match ops with
  | [] => true
  | o :: r => dom_ok g o && match step g o with Ok g' => run_dom g' r | Err _ => true end
  end.

(* ---- what the driver observes after the constructor and after each operation *)
Inductive obs :=
| OState (g : graph)
| OErr (e : err)
| OHang            (* the watchdog fired *)
| OOther.          (* an exception outside the enum *)

Definition full_trace (ns : list node) (es : list edge) (ops : list op) : list (result graph) :=
  match init ns es with
  | Ok g0 => Ok g0 :: trace g0 ops
  | Err e => [Err e]
  end.

Definition err_eqb (a b : err) : bool :=
  match a, b with
  | EDupName, EDupName | EEdgeNodes, EEdgeNodes | ENotPresent, ENotPresent | ENotReady, ENotReady
  | EKey, EKey | ERemove, ERemove | ECycle, ECycle | ERecursion, ERecursion | EFuel, EFuel => true
  | _, _ => false
  end.
Definition nodes_eqb := list_eqb Nat.eqb.
Definition dict_eqb := list_eqb (pair_eqb Nat.eqb nodes_eqb).
Definition graph_eqb (a b : graph) : bool :=
  nodes_eqb (g_nodes a) (g_nodes b) && list_eqb edge_eqb (g_edges a) (g_edges b) &&
  dict_eqb (g_preds a) (g_preds b) && dict_eqb (g_succs a) (g_succs b) &&
  option_eqb nodes_eqb (g_sorted a) (g_sorted b) && nodes_eqb (g_wip a) (g_wip b).
Definition obs_matches (r : result graph) (o : obs) : bool :=
  match r, o with
  | Ok g, OState g' => graph_eqb g g'
  | Err e, OErr e' => err_eqb e e'
  | _, _ => false
  end.
Fixpoint all2 {A B} (f : A -> B -> bool) (l : list A) (m : list B) : bool :=
  match l, m with
  | [], [] => true
  | x :: l', y :: m' => f x y && all2 f l' m'
  | _, _ => false
  end.
(* the model reproduces the observed history step by step *)
Definition tie_ok (c : list node * list edge * list op * list obs) : bool :=
  let '(ns, es, ops, observed) := c in all2 obs_matches (full_trace ns es ops) observed.

(* ---- construction histories (what Workflow._create_graph does: add_nodes, add_edges, then
   sorted_nodes): add_nodes is only given nodes that have no dictionary entry yet *)
Definition new_keys_ok (g : graph) (new : list node) : bool :=
  forallb (fun n => negb (memb n (dkeys (g_preds g))) && negb (memb n (dkeys (g_succs g)))) new.
Definition build_ok (g : graph) (o : op) : bool :=
  match o with
  | AddNodes new => new_keys_ok g new
  | AddEdges _ | Sort | GetSorted | Copy => true
  | _ => false
  end.
Fixpoint run_build (g : graph) (ops : list op) : bool :=
  match ops with
  | [] => true
  | o :: r => build_ok g o && match step g o with Ok g' => run_build g' r | Err _ => true end
  end.

(* ==========================================================================================
   GraphSched — the two submitter loops of pydra/engine/submitter.py, as far as their termination
   is concerned (C18): Submitter.get_runnable_tasks + NodeExecution.get_runnable_tasks (the
   scan of graph.sorted_nodes with the `not_started` break), expand_workflow (synchronous) and
   expand_workflow_async (futures, max_concurrent, the 10-poll stall detector).
   One job per node (no splitting); "running" jobs (lock file seen) are not distinguished from
   queued ones: both are not done, and a running job is always a pending future. *)
Inductive nstat := NotStarted | Queued | Succ | Errored | Unrunnable.
Definition smap := node -> nstat.
Definition sset (m : smap) (n : node) (s : nstat) : smap := fun x => if Nat.eqb x n then s else m x.
Definition done_st (s : nstat) : bool := match s with Succ | Errored | Unrunnable => true | _ => false end.
Definition started_st (s : nstat) : bool := match s with NotStarted => false | _ => true end.
Definition failed_st (s : nstat) : bool := match s with Errored | Unrunnable => true | _ => false end.
Definition plist (pd : dict) (n : node) : list node := match dget pd n with Some l => l | None => [] end.

(* NodeExecution.get_runnable_tasks for one node *)
Definition node_poll (pd : dict) (m : smap) (n : node) : smap :=
  let ps := plist pd n in
  if existsb (fun p => failed_st (m p)) ps then
    match m n with NotStarted => sset m n Unrunnable | _ => m end
  else if forallb (fun p => done_st (m p)) ps then
    match m n with NotStarted => sset m n Queued | _ => m end
  else m.

(* Submitter.get_runnable_tasks: returns the new statuses and the queued jobs met by the scan *)
Fixpoint poll_scan (pd : dict) (order : list node) (m : smap) (not_started tasks : list node) : smap * list node :=
  match order with
  | [] => (m, tasks)
  | n :: r =>
      if done_st (m n) then poll_scan pd r m not_started tasks else
      if existsb (fun p => memb p not_started) (plist pd n) then (m, tasks) else
      let ns' := if started_st (m n) then not_started else n :: not_started in
      let m' := node_poll pd m n in
      poll_scan pd r m' ns' (match m' n with Queued => tasks ++ [n] | _ => tasks end)
  end.
Definition poll (pd : dict) (order : list node) (m : smap) : smap * list node := poll_scan pd order m [] [].

Definition all_done (order : list node) (m : smap) : bool := forallb (fun n => done_st (m n)) order.

Inductive outcome :=
| Finished (ran : list node) (final : list (node * nstat))   (* the loop condition became false *)
| JobError (ran : list node)                                 (* debug worker: the failing job's exception propagates *)
| StallError                                                 (* RuntimeError of the stall detector *)
| OutOfFuel.

Definition snapshot_of (order : list node) (m : smap) : list (node * nstat) := map (fun n => (n, m n)) order.

(* expand_workflow: `fails n` says whether the body of node n raises *)
Fixpoint run_tasks (fails : node -> bool) (tasks : list node) (m : smap) (ran : list node) : smap * list node * bool :=
  match tasks with
  | [] => (m, ran, false)
  | j :: r => if fails j then (sset m j Errored, ran ++ [j], true)
              else run_tasks fails r (sset m j Succ) (ran ++ [j])
  end.
Fixpoint sync_loop (fuel : nat) (pd : dict) (order : list node) (fails : node -> bool)
         (m : smap) (tasks ran : list node) : outcome :=
  if nonempty tasks || negb (all_done order m) then
    match fuel with
    | 0 => OutOfFuel
    | S f =>
        let '(m1, ran1, raised) := run_tasks fails tasks m ran in
        if raised then JobError ran1 else
        let (m2, tasks2) := poll pd order m1 in
        sync_loop f pd order fails m2 tasks2 ran1
    end
  else Finished ran (snapshot_of order m).
Definition run_sync (fuel : nat) (pd : dict) (order : list node) (fails : node -> bool) : outcome :=
  let m0 : smap := fun _ => NotStarted in
  let (m1, tasks) := poll pd order m0 in
  sync_loop fuel pd order fails m1 tasks [].

(* the stall detector: `while not tasks and any(not n.done ...): tasks = poll; ii += 1; if ii > 10: raise` *)
Fixpoint stall (polls : nat) (pd : dict) (order : list node) (m : smap) (tasks : list node) : option (smap * list node) :=
  if nonempty tasks || all_done order m then Some (m, tasks) else
  match polls with
  | 0 => None                                   (* ii > 10 *)
  | S p => let (m', tasks') := poll pd order m in stall p pd order m' tasks'
  end.

Fixpoint launch (k : nat) (tasks futures futured : list node) : list node * list node :=
  match tasks with
  | [] => (futures, futured)
  | j :: r => if negb (memb j futured) && Nat.ltb (List.length futures) k
              then launch k r (futures ++ [j]) (futured ++ [j])
              else launch k r futures futured
  end.

(* oracle i = (which pending future completes at the i-th wake-up, does it fail) *)
Fixpoint async_loop (fuel : nat) (pd : dict) (order : list node) (k : nat) (oracle : nat -> nat * bool)
         (i : nat) (m : smap) (tasks futures futured ran : list node) : outcome :=
  if nonempty tasks || nonempty futures || negb (all_done order m) then
    match fuel with
    | 0 => OutOfFuel
    | S f =>
        match (if nonempty tasks || nonempty futures then Some (m, tasks) else stall 11 pd order m tasks) with
        | None => StallError
        | Some (m1, tasks1) =>
            let (futures1, futured1) := launch k tasks1 futures futured in
            match futures1 with
            | [] => let (m2, tasks2) := poll pd order m1 in
                    async_loop f pd order k oracle i m2 tasks2 futures1 futured1 ran
            | _ :: _ =>
                let c := oracle i in
                let j := nth (fst c mod List.length futures1) futures1 0 in
                let m1' := sset m1 j (if snd c then Errored else Succ) in
                let futures2 := match remove_one Nat.eqb j futures1 with Some l => l | None => futures1 end in
                let (m2, tasks2) := poll pd order m1' in
                async_loop f pd order k oracle (S i) m2 tasks2 futures2 futured1 (ran ++ [j])
            end
        end
    end
  else Finished ran (snapshot_of order m).
Definition run_async (fuel : nat) (pd : dict) (order : list node) (k : nat) (oracle : nat -> nat * bool) : outcome :=
  let m0 : smap := fun _ => NotStarted in
  let (m1, tasks) := poll pd order m0 in
  async_loop fuel pd order k oracle 0 m1 tasks [] [] [].

(* DiGraph(name=...) followed by a construction history; None when a call raised or left the
   construction domain *)
Definition run_build_from_empty (ops : list op) : option graph :=
  match init [] [] with
  | Ok g0 => if run_build g0 ops then match run g0 ops with Ok g => Some g | Err _ => None end else None
  | Err _ => None
  end.
