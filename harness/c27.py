"""C27 — container environments run the native command with remapped, mounted paths
(pydra/environments/base.py Container.get_bindings, docker.py, singularity.py)."""
import os
import re
import shutil
import tempfile
import typing as ty
from pathlib import Path

from .lib import coqio
from .lib.runner import Outcome, Failure

PROP = "C27"
PROPS_FILE = "Props/C27.v"
MANIFEST = dict(
    text="Coq theorems, closed under the global context. C27_full: for every list of task fields (FileSet-typed or "
         "not, single path / list of paths / empty, read-write (copied input or output) or read-only), every command "
         "template, both runtimes, every image/tag/xargs, every normalised absolute cache root/dir and every root that "
         "is empty or a normalised absolute path optionally followed by slashes, the model's argument vector is "
         "runtime words ++ xargs ++ mounts ++ [workdir flag; <root><cache_dir>; image:tag] ++ (the native vector with "
         "every host path p of a FileSet field replaced by <root>p), where the mounts are one -v/-B argument pair per "
         "directory, each required directory (parent of an input/output path, or the cache root) exactly once at "
         "<root><dir>, read-write iff it is the cache root or holds a copied input/output, and nothing else. "
         "C27_argv_shape, C27_mounts_cover, C27_paths_remapped are its components; C27_pinned_refuted_mode_overwrite and "
         "C27_pinned_refuted_space show the model of the pinned tree violated it (repaired by four fix: commits). "
         "The model is tied to the code on every run by executing Docker/Singularity.execute on generated shell tasks "
         "with pydra.environments.base.execute patched to capture the vector, and evaluating model and executable spec "
         "on the same cases in Coq.",
    note="_command_args (C22-C25) is not modelled here: it enters as the token template the harness extracts from the live "
         "function by marker substitution, checked to be parametric in the paths on every case. No container runtime is "
         "ever executed. Multi-file FileSets (tuples of paths) are outside the model.",
    technique="Coq proof (induction over the field list with an invariant on the insertion-ordered bindings; pathlib "
              "normalisation lemmas) + model/impl correspondence via generated cases.v",
    design="§8 Group G / C27",
)
TIE_NAME = "Model.Container.container_argv vs Docker.execute / Singularity.execute (argv captured at base.execute)"
TRUSTED = [
    "Model/Container.v + Base/PyPath.v: hand-written model of Container.get_bindings (dict as insertion-ordered "
    "association list, map_path, cache-root binding), of the argv assembly in Docker.execute and Singularity.execute, and "
    "of pathlib (parse, parent, name, /, str)",
    "job.task._command_args is represented by a token template extracted from the live function by substituting marker "
    "paths (harness); the harness checks on every case that instantiating it with the host paths gives the native argv",
    "the field attributes (FileSet-typed?, copy_mode == copy or outarg?) are read from the live field objects by the harness",
]
ASSUMPTIONS = [
    "host paths, cache root and cache dir are normalised absolute paths (they come from File objects / Path.absolute())",
    "values of FileSet-typed fields are single paths or lists of single paths (no multi-file FileSets)",
]
RULE = ("generated shell tasks: 1-5 input fields (File, File|None, list[File], int; copy_mode any/copy/link; argstr "
        "flag or none) and 0-2 outargs with path templates, files spread over 1-4 host directories (names with spaces, "
        "UTF-8, nested, shared between fields), roots '/mnt/pydra', with trailing slashes, '', nested; xargs lists; both "
        "runtimes; 35% of the tasks have an input directly in the cache root, in its parent or in a sub-directory of it "
        "(copied inputs land in the job directory). Non-trivial = at least two FileSet paths AND (two fields share a directory OR a directory name contains "
        "a space OR a list-of-file field is present); distinct by (fields, root, runtime)")

DIRS = ["d1", "d2", "d 3", "sub/deep", "café", "d1/in", "x.y"]
SPECIAL = ["@cache_root", "@cache_root", "@cache_parent", "@cache_root/upstream-abc"]
ROOTS = ["/mnt/pydra", "/mnt/pydra", "/mnt/pydra/", "/r", "/r//", "", "/a/b.c", "/mnt/é"]
XARGS = [[], [], ["--rm"], ["--rm", "-e", "A=1"], "--net none", ["-u", "1000:1000"]]
MARK = re.compile(r"/@@([A-Za-z0-9_]+)@(\d+)@@")


def gen_task_spec(rng):
    """A JSON-able description of one task: fields, values, environment."""
    ndirs = rng.choice([1, 2, 2, 3, 4])
    dirs = rng.sample(DIRS, ndirs)
    # special locations (round 3): directly in the cache root, in its parent, in a sub-directory of the cache root
    # (an upstream job directory); copied inputs already end up in the job directory itself
    if rng.random() < 0.35:
        dirs[rng.randrange(len(dirs))] = rng.choice(SPECIAL)
    if rng.random() < 0.15:
        dirs.append(rng.choice(SPECIAL))
    nin = rng.randrange(1, 6)
    fields = []
    for i in range(nin):
        name = rng.choice(["a", "b", "in_file", "ref", "zz", "mask", "c2"]) + str(i)
        kind = rng.choice(["file", "file", "file", "optfile", "list", "list", "int"])
        mode = rng.choice(["any", "any", "copy", "link"])
        argstr = rng.choice(["-" + name[0], "--" + name, None, "--%s={%s}" % (name, name)])
        if kind in ("file", "optfile"):
            val = None if (kind == "optfile" and rng.random() < 0.4) else [rng.choice(dirs), "f%d.txt" % i]
        elif kind == "list":
            val = [[rng.choice(dirs), "l%d_%d.dat" % (i, j)] for j in range(rng.choice([0, 1, 2, 3]))]
            if argstr and "{" in argstr:
                argstr = "-" + name[0]
        else:
            val = rng.randrange(100)
        # _command_args shlex-splits every formatted value (C23's territory): a path with a space is only
        # given to fields that do not appear on the command line; it still has to be mounted
        used = [val] if kind in ("file", "optfile") and val else (val if kind == "list" else [])
        if any(" " in v[0] for v in used):
            argstr = None
        fields.append(dict(name=name, kind=kind, mode=mode, argstr=argstr, value=val))
    outs = []
    for i in range(rng.choice([0, 1, 1, 2])):
        outs.append(dict(name="out%d" % i, argstr=rng.choice(["-o", "--out%d" % i, None]),
                         template=rng.choice(["out%d.txt" % i, "res_%d.nii" % i])))
    return dict(fields=fields, outs=outs, root=rng.choice(ROOTS), xargs=rng.choice(XARGS),
                runtime=rng.choice(["docker", "singularity"]), image=rng.choice(["busybox", "repo/img", "localhost:5000/x"]),
                tag=rng.choice(["latest", "1.2", None]))


def build_and_run(spec, work):
    """Run the implementation on one task description. Returns a dict of observations."""
    from fileformats.generic import File, FileSet
    from pydra.compose import shell
    from pydra.engine.job import Job
    from pydra.engine.submitter import Submitter
    from pydra.environments import base, docker, singularity
    from pydra.utils.general import get_fields
    from pydra.utils.typing import TypeParser

    modes = {"any": File.CopyMode.any, "copy": File.CopyMode.copy, "link": File.CopyMode.link}
    data = Path(work) / "data"
    inputs, kwargs = {}, {}

    cache_root = Path(work) / "cache"
    cache_root.mkdir(exist_ok=True)

    def mk(rel):
        d = rel[0]
        if d.startswith("@cache_root"):
            base = cache_root / d[len("@cache_root"):].lstrip("/")
        elif d == "@cache_parent":
            base = Path(work)
        else:
            base = data / d
        p = base / rel[1]
        p.parent.mkdir(parents=True, exist_ok=True)
        p.write_text("x")
        return p

    for f in spec["fields"]:
        kw = dict(argstr=f["argstr"]) if f["argstr"] else dict(argstr=None)
        if f["kind"] == "int":
            inputs[f["name"]] = shell.arg(type=int, **kw)
            kwargs[f["name"]] = f["value"]
        elif f["kind"] == "list":
            inputs[f["name"]] = shell.arg(type=list[File], copy_mode=modes[f["mode"]], **kw)
            kwargs[f["name"]] = [mk(v) for v in f["value"]]
        else:
            t = File if f["kind"] == "file" else (File | None)
            extra = {} if f["kind"] == "file" else dict(default=None)
            inputs[f["name"]] = shell.arg(type=t, copy_mode=modes[f["mode"]], **extra, **kw)
            if f["value"] is not None:
                kwargs[f["name"]] = mk(f["value"])
    outputs = {o["name"]: shell.outarg(type=File, argstr=o["argstr"], path_template=o["template"]) for o in spec["outs"]}
    Task = shell.define("cmd27", inputs=inputs, outputs=outputs, name="T27")
    task = Task(**kwargs)
    job = Job(task=task, submitter=Submitter(cache_root=cache_root), name="c27")
    ins = job.inputs
    envmod = docker if spec["runtime"] == "docker" else singularity
    ekw = dict(image=spec["image"], root=spec["root"], xargs=spec["xargs"])
    if spec["tag"] is not None:
        ekw["tag"] = spec["tag"]
    env = envmod.Environment(**ekw)

    def sval(v):
        if isinstance(v, (list, tuple)):
            if all(isinstance(x, (os.PathLike, FileSet)) for x in v):
                return ["many", [os.fspath(x) for x in v]]
            return ["none"]
        if isinstance(v, (os.PathLike, FileSet)):
            return ["one", os.fspath(v)]
        return ["none"]

    fobs, marked = [], dict(ins)
    for fld in get_fields(task):
        is_fs = bool(TypeParser.contains_type(FileSet, fld.type))
        rw = (getattr(fld, "copy_mode", None) == FileSet.CopyMode.copy) or isinstance(fld, shell.outarg)
        v = sval(ins[fld.name]) if is_fs else ["none"]
        fobs.append(dict(name=fld.name, fileset=is_fs, rw=bool(rw), value=v))
        if v[0] == "one":
            marked[fld.name] = Path("/@@%s@0@@" % fld.name)
        elif v[0] == "many":
            marked[fld.name] = [Path("/@@%s@%d@@" % (fld.name, i)) for i in range(len(v[1]))]
    native = [str(a) for a in task._command_args(values=ins)]
    tmpl = []
    for tok in task._command_args(values=marked):
        tok, pieces, pos = str(tok), [], 0
        for m in MARK.finditer(tok):
            if m.start() > pos:
                pieces.append(["lit", tok[pos:m.start()]])
            pieces.append(["ref", m.group(1), int(m.group(2))])
            pos = m.end()
        if pos < len(tok) or not pieces:
            pieces.append(["lit", tok[pos:]])
        tmpl.append(pieces)
    captured = []
    orig = base.execute
    base.execute = lambda cmd, strip=False, **kw: (captured.append([str(c) for c in cmd]), (0, "", ""))[1]
    try:
        err = None
        try:
            env.execute(job)
        except Exception as e:       # the pinned tree raises for list-of-file inputs
            err = "%s: %s" % (type(e).__name__, str(e)[:200])
    finally:
        base.execute = orig
    return dict(fields=fobs, tmpl=tmpl, native=native, argv=captured[0] if captured else None, error=err,
                cache_root=str(job.cache_root), cache_dir=str(job.cache_dir.absolute()),
                xargs=list(env.xargs), tag=env.tag, root=env.root, work=str(work))


def inst(tmpl, fields):
    vals = {f["name"]: f["value"] for f in fields}
    out = []
    for tok in tmpl:
        s = ""
        for p in tok:
            if p[0] == "lit":
                s += p[1]
            else:
                v = vals[p[1]]
                s += v[1] if v[0] == "one" else v[1][p[2]]
        out.append(s)
    return out


# ------------------------------------------------------------------ Coq encoding
def enc_val(v):
    if v[0] == "one":
        return "(VOne %s)" % coqio.string(v[1])
    if v[0] == "many":
        return "(VMany %s)" % coqio.lst([coqio.string(p) for p in v[1]])
    return "VNone"


def enc_fields(fs):
    return coqio.lst(["{| f_name := %s; f_fileset := %s; f_rw := %s; f_value := %s |}" % (
        coqio.string(f["name"]), coqio.boolean(f["fileset"]), coqio.boolean(f["rw"]), enc_val(f["value"])) for f in fs])


def enc_tmpl(t):
    return coqio.lst([coqio.lst(["(Lit %s)" % coqio.string(p[1]) if p[0] == "lit" else
                                 "(Ref %s %s)" % (coqio.string(p[1]), coqio.nat(p[2])) for p in tok]) for tok in t])


def enc_config(spec, obs):
    return ("{| c_runtime := %s; c_image := %s; c_tag := %s; c_root := %s; c_xargs := %s; c_cache_root := %s; "
            "c_cache_dir := %s |}") % ("Docker" if spec["runtime"] == "docker" else "Singularity",
                                     coqio.string(spec["image"]), coqio.string(obs["tag"]), coqio.string(obs["root"]),
                                     coqio.lst([coqio.string(x) for x in obs["xargs"]]),
                                     coqio.string(obs["cache_root"]), coqio.string(obs["cache_dir"]))


EXTRA = """
Definition case_t := (config * list field * list token * list string)%type.
Definition in_domain (c : case_t) : bool :=
  let '(cfg, fs, tmpl, argv) := c in
  root_ok (c_root cfg) && fields_ok fs && abs_norm (c_cache_root cfg) && abs_norm (c_cache_dir cfg).
Definition tie_ok (c : case_t) : bool :=
  let '(cfg, fs, tmpl, argv) := c in list_eqb String.eqb (container_argv cfg fs tmpl) argv.
Definition spec_ok_c (c : case_t) : bool :=
  let '(cfg, fs, tmpl, argv) := c in negb (in_domain c) || spec_ok cfg fs tmpl argv.
Definition dom_ok (c : case_t) : bool := in_domain c.
"""
IMPORTS = ["Base.PyPath", "Model.Container", "Spec.Container"]


def nontrivial(obs):
    paths = []
    for f in obs["fields"]:
        if f["value"][0] == "one":
            paths.append((f["name"], f["value"][1]))
        elif f["value"][0] == "many":
            paths += [(f["name"], p) for p in f["value"][1]]
    if len(paths) < 2:
        return False
    dirs = {}
    for n, p in paths:
        dirs.setdefault(os.path.dirname(p), set()).add(n)
    return (any(len(v) > 1 for v in dirs.values()) or any(" " in d for d in dirs)
            or any(f["value"][0] == "many" for f in obs["fields"]))


def run(ctx):
    rng = ctx.rng
    n = ctx.budget(150, 1500)
    out = Outcome(rule=RULE)
    dist = {"input_directly_in_cache_root": 0, "input_in_parent_of_cache_root": 0, "docker": 0, "singularity": 0, "list_fields": 0, "dirs_with_space": 0, "shared_dir_rw_and_ro": 0,
            "root_trailing_slash": 0, "root_empty": 0, "raised": 0, "outside_domain": 0, "paths": 0}
    work = tempfile.mkdtemp(prefix="c27-", dir="/tmp")
    specs = [c for c in ctx.corpus()]
    while len(specs) < n:
        specs.append(gen_task_spec(rng))
    enc, keep, seen = [], [], set()
    try:
        for i, spec in enumerate(specs):
            w = os.path.join(work, "w")
            os.makedirs(w)
            try:
                try:
                    obs = build_and_run(spec, w)
                except Exception as e:
                    out.failures.append(Failure(case=spec, observed="%s: %s" % (type(e).__name__, str(e)[:300]),
                                                expected="task builds and the environment assembles a command",
                                                kind="tie", note="driver could not build the case"))
                    continue
            finally:
                shutil.rmtree(w, ignore_errors=True)
            dist[spec["runtime"]] += 1
            dist["list_fields"] += sum(1 for f in obs["fields"] if f["value"][0] == "many")
            allp = [p for f in obs["fields"] for p in ([f["value"][1]] if f["value"][0] == "one" else f["value"][1] if f["value"][0] == "many" else [])]
            dist["paths"] += len(allp)
            dist["dirs_with_space"] += any(" " in os.path.dirname(p) for p in allp)
            dist["root_trailing_slash"] += obs["root"].endswith("/")
            dist["root_empty"] += obs["root"] == ""
            dist["input_directly_in_cache_root"] += any(os.path.dirname(p) == obs["cache_root"] for p in allp)
            dist["input_in_parent_of_cache_root"] += any(os.path.dirname(p) == os.path.dirname(obs["cache_root"]) for p in allp)
            byd = {}
            for f in obs["fields"]:
                ps = [f["value"][1]] if f["value"][0] == "one" else f["value"][1] if f["value"][0] == "many" else []
                for p in ps:
                    byd.setdefault(os.path.dirname(p), set()).add(f["rw"])
            dist["shared_dir_rw_and_ro"] += any(len(v) == 2 for v in byd.values())
            if obs["argv"] is None:
                dist["raised"] += 1
                out.failures.append(Failure(case=spec, observed=obs["error"], expected="an argument vector handed to base.execute",
                                            kind="spec", note="environment raised before running the command"))
                continue
            if inst(obs["tmpl"], obs["fields"]) != obs["native"]:
                out.failures.append(Failure(case=spec, observed=obs["native"], expected=inst(obs["tmpl"], obs["fields"]),
                                            kind="tie", note="_command_args is not parametric in the paths (template extraction)"))
                continue
            enc.append(coqio.pair(enc_config(spec, obs), enc_fields(obs["fields"]), enc_tmpl(obs["tmpl"]),
                                  coqio.lst([coqio.string(a) for a in obs["argv"]])))
            keep.append((spec, obs))
            key = repr((obs["fields"], obs["root"], spec["runtime"])).replace(obs["work"], "")
            if key not in seen:
                seen.add(key)
                out.distinct_nontrivial += nontrivial(obs)
    finally:
        shutil.rmtree(work, ignore_errors=True)
    res = coqio.run_cases(ctx.scratch, "c27", IMPORTS, "case_t", enc,
                          {"tie": "tie_ok", "spec": "spec_ok_c", "dom": "dom_ok"}, extra=EXTRA, shard=100)
    dist["outside_domain"] = len(res["dom"])
    out.evaluations = len(enc)
    out.traces_validated = len(enc)
    out.distribution = dist
    out.samples = [{"fields": o["fields"], "root": o["root"], "runtime": s["runtime"], "argv": o["argv"]} for s, o in keep[:3]]
    todo = [(k, i) for k in ("spec", "tie") for i in res[k][:10]]
    if todo:
        vals = coqio.eval_terms(ctx.scratch, "fails", IMPORTS,
                                ["container_argv %s %s %s" % (enc_config(*keep[i]), enc_fields(keep[i][1]["fields"]), enc_tmpl(keep[i][1]["tmpl"])) for _, i in todo]
                                + ["expected_mounts %s %s" % (enc_config(*keep[i]), enc_fields(keep[i][1]["fields"])) for _, i in todo])
        for j, (kind, i) in enumerate(todo):
            spec, obs = keep[i]
            out.failures.append(Failure(case=spec, observed={"argv": obs["argv"], "fields": obs["fields"], "root": obs["root"]},
                                        expected={"model_argv": vals[j], "spec_mounts": vals[len(todo) + j]}, kind=kind,
                                        note="container argv: mounts / workdir / remapped command" if kind == "spec" else "model/impl"))
    return out


def replay(ctx, payload):
    work = tempfile.mkdtemp(prefix="c27r-", dir="/tmp")
    try:
        obs = build_and_run(payload["case"], work)
    finally:
        shutil.rmtree(work, ignore_errors=True)
    print("implementation argv:", obs["argv"], obs["error"] or "")
    vals = coqio.eval_terms(ctx.scratch, "replay", IMPORTS,
                            ["container_argv %s %s %s" % (enc_config(payload["case"], obs), enc_fields(obs["fields"]), enc_tmpl(obs["tmpl"])),
                             "expected_mounts %s %s" % (enc_config(payload["case"], obs), enc_fields(obs["fields"])),
                             "spec_ok %s %s %s %s" % (enc_config(payload["case"], obs), enc_fields(obs["fields"]), enc_tmpl(obs["tmpl"]),
                                                       coqio.lst([coqio.string(a) for a in (obs["argv"] or [])]))])
    print("model argv:", vals[0])
    print("spec mounts:", vals[1])
    print("spec accepts the implementation's argv:", vals[2])
