(* Spec/WfCache.v — C30 reference semantics: every construct / run of a history shows what a fresh
   process would construct / compute for the task as it is at that moment.  Nothing here knows
   about caches, hashes or earlier operations: an observation depends on the task's current
   attribute values (and the `lazy` argument) only. *)
From Pydra Require Import Base.Prelude Model.WfCache.
Local Open Scope string_scope.
Local Open Scope list_scope.

Section Spec.
  Variable V : Type.
  Variable T : Type.
  Variable G : Type.
  Variable R : Type.
  Variable type_name : T -> string.
  Variable fields : T -> list fname.
  Variable default : T -> fname -> attr V.
  Variable ctor : T -> list (fname * arg V) -> G.
  Variable subst : list (fname * V) -> G -> G.
  Variable eval : G -> R.

  Let wf := wf V G.

  (* the inputs of a freshly constructed workflow: the requester's own values; a field is lazy iff
     the requester asked for it (`lazy=`) or its value is a lazy field of an enclosing workflow *)
  Definition spec_inputs (attrs : list (fname * attr V)) (lazy : list fname) : list (fname * arg V) :=
    map (fun fa => (fst fa, match snd fa with
                            | AVal v => if mem (fst fa) lazy then LzIn (fst fa) else Conc v
                            | ALazy => LzIn (fst fa)
                            end)) attrs.

  (* `fresh t`: what a fresh process constructs for task class t with these attributes *)
  Definition fresh (t : T) (attrs : list (fname * attr V)) (lazy : list fname) : wf :=
    {| wname := type_name t;
       winputs := spec_inputs attrs lazy;
       wgraph := ctor t (spec_inputs attrs lazy) |}.

  Fixpoint given_values (inputs : list (fname * arg V)) : list (fname * V) :=
    match inputs with
    | [] => []
    | (f, Conc v) :: r => (f, v) :: given_values r
    | (_, LzIn _) :: r => given_values r
    end.

  (* what can be observed of a workflow object: its name, its inputs, and its graph with the
     lazy-in bindings resolved from those inputs (that is what gets executed) *)
  Definition view (w : wf) : string * list (fname * arg V) * G :=
    (wname w, winputs w, subst (given_values (winputs w)) (wgraph w)).

  Inductive sobs :=
  | SNone
  | SWf (v : string * list (fname * arg V) * G)
  | SOut (r : R)
  | SErr.

  Definition sobj := (T * list (fname * attr V))%type.

  (* the result a fresh process computes for a fully specified task *)
  Definition fresh_result (t : T) (vals : list (fname * V)) : R :=
    eval (subst vals (ctor t (map (fun fv => (fst fv, Conc (snd fv))) vals))).

  (* the operations' effect on the task objects (plain Python object semantics) *)
  Definition obj_step (os : list sobj) (o : op V T) : list sobj :=
    match o with
    | ONew t given => os ++ [(t, new_attrs V T fields default t given)]
    | OSet i f a =>
        match nth_error os i with
        | Some (t, attrs) =>
            if mem f (map fst attrs) then replace_nth os i (t, set_attr V attrs f a) else os
        | None => os
        end
    | OCopy i => match nth_error os i with Some ob => os ++ [ob] | None => os end
    | OEvolve i changes =>
        match nth_error os i with
        | Some (t, attrs) => os ++ [(t, set_attrs V attrs changes)]
        | None => os
        end
    | _ => os
    end.

  Definition spec_obs (os : list sobj) (o : op V T) : sobs :=
    match o with
    | ONew _ _ => SNone
    | OSet i f _ =>
        match nth_error os i with
        | Some (_, attrs) => if mem f (map fst attrs) then SNone else SErr
        | None => SErr
        end
    | OCopy i | OEvolve i _ => match nth_error os i with Some _ => SNone | None => SErr end
    | OConstruct i =>
        match nth_error os i with
        | Some (t, attrs) => SWf (view (fresh t attrs []))
        | None => SErr
        end
    | OWConstruct i lazy _ =>
        match nth_error os i with
        | Some (t, attrs) => SWf (view (fresh t attrs lazy))
        | None => SErr
        end
    | ORun i _ =>
        match nth_error os i with
        | Some (t, attrs) =>
            match all_vals V attrs with
            | Some vals => SOut (fresh_result t vals)
            | None => SErr
            end
        | None => SErr
        end
    | OClear _ => SNone
    end.

  Definition spec_step (os : list sobj) (o : op V T) : list sobj * sobs := (obj_step os o, spec_obs os o).

  Fixpoint spec_run (os : list sobj) (ops : list (op V T)) : list sobs :=
    match ops with
    | [] => []
    | o :: r => let '(os', ob) := spec_step os o in ob :: spec_run os' r
    end.

  Definition spec_history (ops : list (op V T)) : list sobs := spec_run [] ops.

  (* what the model's observation shows (the hit kind is not observable) *)
  Definition abs_obs (o : obs V G R) : sobs :=
    match o with
    | NoObs => SNone
    | ObsWf w _ => SWf (view w)
    | ObsOut r _ => SOut r
    | ObsErr => SErr
    end.

  (* ---- the input class outside the positive theorem (finding F30b), as a computable predicate:
     a construction request whose constructor builds a different (resolved) graph when some of
     the request's concrete inputs -- those outside the non-lazy key set of an EARLIER request of
     the history -- are handed to it as lazy fields. ---- *)
  Variable g_eqb : G -> G -> bool.

  Definition lazy_except (attrs : list (fname * attr V)) (lazy ks : list fname) : list (fname * arg V) :=
    map (fun fa => (fst fa, match snd fa with
                            | AVal v => if mem (fst fa) lazy then LzIn (fst fa)
                                        else if mem (fst fa) ks then Conc v else LzIn (fst fa)
                            | ALazy => LzIn (fst fa)
                            end)) attrs.

  Definition nonparam_at (t : T) (attrs : list (fname * attr V)) (lazy ks : list fname) : bool :=
    let full := spec_inputs attrs lazy in
    negb (g_eqb (subst (given_values full) (ctor t (lazy_except attrs lazy ks)))
                (subst (given_values full) (ctor t full))).

  Definition req_keys (attrs : list (fname * attr V)) (lazy : list fname) : list fname :=
    map fst (given_values (spec_inputs attrs lazy)).

  Definition excluded_req (earlier : list (list fname)) (t : T) (attrs : list (fname * attr V))
             (lazy : list fname) : bool :=
    existsb (fun ks => subset ks (req_keys attrs lazy) && nonparam_at t attrs lazy ks) earlier.

  (* the construction request an operation makes, if any *)
  Definition req_of (os : list sobj) (o : op V T) : option (T * list (fname * attr V) * list fname) :=
    match o with
    | OConstruct i => match nth_error os i with Some (t, a) => Some (t, a, []) | None => None end
    | OWConstruct i lazy _ => match nth_error os i with Some (t, a) => Some (t, a, lazy) | None => None end
    | ORun i _ => match nth_error os i with
                  | Some (t, a) => match all_vals V a with Some _ => Some (t, a, []) | None => None end
                  | None => None
                  end
    | _ => None
    end.

  Definition earlier_after (os : list sobj) (o : op V T) (earlier : list (list fname)) : list (list fname) :=
    match req_of os o with
    | Some (_, a, lazy) => earlier ++ [req_keys a lazy]
    | None => earlier
    end.

  (* walk a history: `earlier` = key sets of the construction requests made so far *)
  Fixpoint excluded_from (os : list sobj) (earlier : list (list fname)) (ops : list (op V T)) : bool :=
    match ops with
    | [] => false
    | o :: r =>
        match req_of os o with
        | Some (t, a, lazy) => excluded_req earlier t a lazy
        | None => false
        end || excluded_from (obj_step os o) (earlier_after os o earlier) r
    end.

  Definition excluded (ops : list (op V T)) : bool := excluded_from [] [] ops.

  (* a constructor treats lazy inputs parametrically: building with some inputs lazy and resolving
     them afterwards gives the graph built from the values *)
  Definition inst (s : list (fname * V)) (args : list (fname * arg V)) : list (fname * arg V) :=
    map (fun fa => (fst fa, match snd fa with
                            | LzIn g => match lookup s g with Some v => Conc v | None => LzIn g end
                            | Conc v => Conc v
                            end)) args.
  Definition parametric : Prop :=
    forall t s args, subst s (ctor t args) = subst s (ctor t (inst s args)).
End Spec.

Arguments SNone {V G R}.
Arguments SWf {V G R} v.
Arguments SOut {V G R} r.
Arguments SErr {V G R}.

(* the spec on the concrete family of Model/WfCache.v *)
Definition c_spec_history (ops : list cop) : list (sobs val graph (option val)) :=
  spec_history val wfdef graph (option val) wd_name wd_names wd_default
               ctor_of subst_graph eval_graph ops.

Definition c_abs (o : cobs) : sobs val graph (option val) := abs_obs val graph (option val) subst_graph o.

Definition c_excluded (ops : list cop) : bool :=
  excluded val wfdef graph wd_names wd_default ctor_of subst_graph
           (eqb_of_dec graph_dec) ops.
