(* C30 — Workflow construction caching and repeated runs are transparent.
   Model: Model/WfCache.v (Workflow.construct's class-level cache, clear_cache, task objects, result store);
   Spec: Spec/WfCache.v (every construct / run shows what a fresh process shows for the task as it is now).
   The per-task `_constructed` memo (finding F30) has been removed from pydra and from the model. *)
From Pydra Require Import Base.Prelude Model.WfCache Spec.WfCache Proofs.WfCache.
Local Open Scope string_scope.
Local Open Scope list_scope.

(* The property at full strength on the modelled family of workflow classes: every history of
   new / setattr / copy / evolve / construct / Workflow.construct(lazy, dont_cache) / run / clear_cache
   operations is observationally equal to the cache-free reference. *)
Definition C30_full_statement : Prop :=
  forall ops : list cop, map c_abs (c_history ops) = c_spec_history ops.

(* refuted (finding F30b): t = Inner(x=5, flag=0) whose constructor says `if flag: Add else: Sub`;
   Workflow.construct(t, lazy=["flag"]); run t  -->  105 instead of -95 *)
Theorem C30_refuted_nonparametric : ~ C30_full_statement.
Proof. exact full_statement_refuted. Qed.
Print Assumptions C30_refuted_nonparametric.

(* strongest positive statement on the same family: outside the computable class `c_excluded`
   (a request whose constructor builds a different resolved graph when inputs that were lazy in an
   earlier request are handed to it lazily) every history is transparent *)
Theorem C30_partial :
  forall ops : list cop, c_excluded ops = false -> map c_abs (c_history ops) = c_spec_history ops.
Proof. exact concrete_partial. Qed.
Print Assumptions C30_partial.

Example C30_partial_example :
  c_excluded [ ONew W_cond [("x", AVal (VInt 5%Z)); ("flag", AVal (VInt 1%Z))];
               OWConstruct 0 ["flag"] false; ORun 0 false; OSet 0 "x" (AVal (VInt 7%Z)); ORun 0 false ] = false.
Proof. vm_compute. reflexivity. Qed.

(* ... and in that history the run really goes through a superset-of-lazy hit (the theorem is not
   vacuous on the interesting path): model and spec both give 105 *)
Example C30_superset_path_example :
  let h := [ ONew W_cond [("x", AVal (VInt 5%Z)); ("flag", AVal (VInt 1%Z))];
             OWConstruct 0 ["flag"] false; ORun 0 false ] in
  nth 2 (c_history h) NoObs = ObsOut (Some (VInt 105%Z)) (Some Superset) /\
  nth 2 (c_spec_history h) SNone = SOut (Some (VInt 105%Z)).
Proof. vm_compute. split; reflexivity. Qed.

(* the same for ANY value type, class type, constructor, resolution and execution function and
   any digests, under the explicit hypotheses: digest comparison is equality, no collisions,
   distinct field names *)
Theorem C30_partial_abstract :
  forall (V T G R HT HD HC : Type) (ht_eqb : HT -> HT -> bool) (hd_eqb : HD -> HD -> bool) (hc_eqb : HC -> HC -> bool)
         (hash_type : T -> HT) (hash_dict : list (fname * V) -> HD) (checksum : T -> list (fname * V) -> HC)
         (type_name : T -> string) (fields : T -> list fname) (default : T -> fname -> attr V)
         (ctor : T -> list (fname * arg V) -> G) (subst : list (fname * V) -> G -> G) (eval : G -> R)
         (g_eqb : G -> G -> bool),
    (forall a b : HT, ht_eqb a b = true <-> a = b) ->
    (forall a b : HD, hd_eqb a b = true <-> a = b) ->
    (forall a b : HC, hc_eqb a b = true <-> a = b) ->
    (forall a b : G, g_eqb a b = true <-> a = b) ->
    (forall a b : T, hash_type a = hash_type b -> a = b) ->
    (forall a b : list (fname * V), hash_dict a = hash_dict b -> a = b) ->
    (forall (t : T) (l : list (fname * V)) (t' : T) (l' : list (fname * V)),
        checksum t l = checksum t' l' -> t = t' /\ l = l') ->
    (forall t : T, NoDup (fields t)) ->
    forall ops : list (op V T),
      excluded V T G fields default ctor subst g_eqb ops = false ->
      map (abs_obs V G R subst)
          (history V T G R HT HD HC ht_eqb hd_eqb hc_eqb hash_type hash_dict checksum type_name fields default
                   ctor subst eval ops)
      = spec_history V T G R type_name fields default ctor subst eval ops.
Proof. exact history_transparent. Qed.
Print Assumptions C30_partial_abstract.

(* full transparency for constructors that treat lazy inputs parametrically *)
Theorem C30_parametric_full :
  forall (V T G R HT HD HC : Type) (ht_eqb : HT -> HT -> bool) (hd_eqb : HD -> HD -> bool) (hc_eqb : HC -> HC -> bool)
         (hash_type : T -> HT) (hash_dict : list (fname * V) -> HD) (checksum : T -> list (fname * V) -> HC)
         (type_name : T -> string) (fields : T -> list fname) (default : T -> fname -> attr V)
         (ctor : T -> list (fname * arg V) -> G) (subst : list (fname * V) -> G -> G) (eval : G -> R)
         (g_eqb : G -> G -> bool),
    (forall a b : HT, ht_eqb a b = true <-> a = b) ->
    (forall a b : HD, hd_eqb a b = true <-> a = b) ->
    (forall a b : HC, hc_eqb a b = true <-> a = b) ->
    (forall a b : G, g_eqb a b = true <-> a = b) ->
    (forall a b : T, hash_type a = hash_type b -> a = b) ->
    (forall a b : list (fname * V), hash_dict a = hash_dict b -> a = b) ->
    (forall (t : T) (l : list (fname * V)) (t' : T) (l' : list (fname * V)),
        checksum t l = checksum t' l' -> t = t' /\ l = l') ->
    (forall t : T, NoDup (fields t)) ->
    parametric V T G ctor subst ->
    forall ops : list (op V T),
      map (abs_obs V G R subst)
          (history V T G R HT HD HC ht_eqb hd_eqb hc_eqb hash_type hash_dict checksum type_name fields default
                   ctor subst eval ops)
      = spec_history V T G R type_name fields default ctor subst eval ops.
Proof. exact parametric_transparent. Qed.
Print Assumptions C30_parametric_full.

(* the hypotheses are met by a non-trivial instance: the generated classes without `if <field>:`
   (digests = the hashed things themselves) *)
Theorem C30_family_full : forall ops : list cop, map c_abs (pf_history ops) = pf_spec_history ops.
Proof. exact family_transparent. Qed.
Print Assumptions C30_family_full.

(* after ANY history: an exact hit returns precisely the fresh construction of the request *)
Theorem C30_exact_hit_sound :
  forall (V T G R HT HD HC : Type) (ht_eqb : HT -> HT -> bool) (hd_eqb : HD -> HD -> bool) (hc_eqb : HC -> HC -> bool)
         (hash_type : T -> HT) (hash_dict : list (fname * V) -> HD) (checksum : T -> list (fname * V) -> HC)
         (type_name : T -> string) (fields : T -> list fname) (default : T -> fname -> attr V)
         (ctor : T -> list (fname * arg V) -> G) (subst : list (fname * V) -> G -> G) (eval : G -> R)
         (g_eqb : G -> G -> bool),
    (forall a b : HT, ht_eqb a b = true <-> a = b) ->
    (forall a b : HD, hd_eqb a b = true <-> a = b) ->
    (forall a b : G, g_eqb a b = true <-> a = b) ->
    (forall a b : T, hash_type a = hash_type b -> a = b) ->
    (forall a b : list (fname * V), hash_dict a = hash_dict b -> a = b) ->
    (forall t : T, NoDup (fields t)) ->
    forall (ops : list (op V T)) (t : T) (attrs : list (fname * attr V)) (lazy : list fname) (dc : bool)
           (c' : cache V G HT HD) (w : wf V G),
      map fst attrs = fields t ->
      construct V T G HT HD ht_eqb hd_eqb hash_type hash_dict type_name ctor
        (wcache V T G R HT HD HC
           (state_after V T G R HT HD HC ht_eqb hd_eqb hc_eqb hash_type hash_dict checksum type_name fields
                        default ctor subst eval (st0 V T G R HT HD HC) ops))
        t attrs lazy dc = (c', w, Exact) ->
      w = fresh V T G type_name ctor t attrs lazy.
Proof. exact exact_hit_sound. Qed.
Print Assumptions C30_exact_hit_sound.

(* after ANY history: a superset-of-lazy hit shows the fresh construction, provided the constructor
   is parametric at this request (pointwise, computable hypothesis) *)
Theorem C30_superset_hit_sound :
  forall (V T G R HT HD HC : Type) (ht_eqb : HT -> HT -> bool) (hd_eqb : HD -> HD -> bool) (hc_eqb : HC -> HC -> bool)
         (hash_type : T -> HT) (hash_dict : list (fname * V) -> HD) (checksum : T -> list (fname * V) -> HC)
         (type_name : T -> string) (fields : T -> list fname) (default : T -> fname -> attr V)
         (ctor : T -> list (fname * arg V) -> G) (subst : list (fname * V) -> G -> G) (eval : G -> R)
         (g_eqb : G -> G -> bool),
    (forall a b : HT, ht_eqb a b = true <-> a = b) ->
    (forall a b : HD, hd_eqb a b = true <-> a = b) ->
    (forall a b : G, g_eqb a b = true <-> a = b) ->
    (forall a b : T, hash_type a = hash_type b -> a = b) ->
    (forall a b : list (fname * V), hash_dict a = hash_dict b -> a = b) ->
    (forall t : T, NoDup (fields t)) ->
    forall (ops : list (op V T)) (t : T) (attrs : list (fname * attr V)) (lazy : list fname) (dc : bool)
           (c' : cache V G HT HD) (w : wf V G),
      map fst attrs = fields t ->
      (forall ks : list fname, nonparam_at V T G ctor subst g_eqb t attrs lazy ks = false) ->
      construct V T G HT HD ht_eqb hd_eqb hash_type hash_dict type_name ctor
        (wcache V T G R HT HD HC
           (state_after V T G R HT HD HC ht_eqb hd_eqb hc_eqb hash_type hash_dict checksum type_name fields
                        default ctor subst eval (st0 V T G R HT HD HC) ops))
        t attrs lazy dc = (c', w, Superset) ->
      view V G subst w = view V G subst (fresh V T G type_name ctor t attrs lazy).
Proof. exact superset_hit_sound. Qed.
Print Assumptions C30_superset_hit_sound.

(* after ANY history and for ANY constructor (no parametricity): whatever path construct takes,
   the returned workflow carries the requester's own input values, lazy exactly where the
   requester is lazy -- no construction's inputs leak into another's *)
Theorem C30_no_leak :
  forall (V T G R HT HD HC : Type) (ht_eqb : HT -> HT -> bool) (hd_eqb : HD -> HD -> bool) (hc_eqb : HC -> HC -> bool)
         (hash_type : T -> HT) (hash_dict : list (fname * V) -> HD) (checksum : T -> list (fname * V) -> HC)
         (type_name : T -> string) (fields : T -> list fname) (default : T -> fname -> attr V)
         (ctor : T -> list (fname * arg V) -> G) (subst : list (fname * V) -> G -> G) (eval : G -> R)
         (g_eqb : G -> G -> bool),
    (forall a b : HT, ht_eqb a b = true <-> a = b) ->
    (forall a b : HD, hd_eqb a b = true <-> a = b) ->
    (forall a b : G, g_eqb a b = true <-> a = b) ->
    (forall a b : T, hash_type a = hash_type b -> a = b) ->
    (forall a b : list (fname * V), hash_dict a = hash_dict b -> a = b) ->
    (forall t : T, NoDup (fields t)) ->
    forall (ops : list (op V T)) (t : T) (attrs : list (fname * attr V)) (lazy : list fname) (dc : bool)
           (c' : cache V G HT HD) (w : wf V G) (h : hit),
      map fst attrs = fields t ->
      construct V T G HT HD ht_eqb hd_eqb hash_type hash_dict type_name ctor
        (wcache V T G R HT HD HC
           (state_after V T G R HT HD HC ht_eqb hd_eqb hc_eqb hash_type hash_dict checksum type_name fields
                        default ctor subst eval (st0 V T G R HT HD HC) ops))
        t attrs lazy dc = (c', w, h) ->
      wname w = type_name t /\ winputs w = spec_inputs V attrs lazy.
Proof. exact no_leak. Qed.
Print Assumptions C30_no_leak.

(* object identity (Model: `ids`, allocation numbers of task objects): in EVERY history, for ANY digests
   and constructors and without any hypothesis, the `inputs` object of a returned workflow is never one
   of the user's task objects (new / copy.copy / attrs.evolve), and a setattr never writes to an object
   held by the class-level cache.  So a later setattr on a task that was used for a construction cannot
   change a cached workflow (what `lazy_spec = copy(task)` is for). *)
Theorem C30_no_alias :
  forall (V T G R HT HD HC : Type) (ht_eqb : HT -> HT -> bool) (hd_eqb : HD -> HD -> bool) (hc_eqb : HC -> HC -> bool)
         (hash_type : T -> HT) (hash_dict : list (fname * V) -> HD) (checksum : T -> list (fname * V) -> HC)
         (type_name : T -> string) (fields : T -> list fname) (default : T -> fname -> attr V)
         (ctor : T -> list (fname * arg V) -> G) (subst : list (fname * V) -> G -> G) (eval : G -> R)
         (ops : list (op V T)),
    Forall (fun o : idobs =>
              (forall n, id_ret o = Some n -> ~ In n (id_user o)) /\
              (forall n, id_written o = Some n -> ~ In n (id_cached o)))
           (id_history V T G R HT HD HC ht_eqb hd_eqb hc_eqb hash_type hash_dict checksum type_name fields
                       default ctor subst eval ops).
Proof. exact history_no_alias. Qed.
Print Assumptions C30_no_alias.
