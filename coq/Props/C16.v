(* C16 — with max_concurrent = k, at no instant are more than k jobs launched and unfinished. *)
From Pydra Require Import Base.Prelude Base.SchedBase Model.Sched Spec.Sched Proofs.SchedG Proofs.SchedI Proofs.SchedTermA.

Definition C16_statement (vr : variant) : Prop :=
  forall (V : Type) (body : nat -> nat -> list (list (option V)) -> V) (fails : job -> bool)
         (g : graph) (k : nat) (orc : list oracle_step) (fuel : nat),
    wf_graph g ->
    concurrency_bounded k (event_log (run_async V body fails vr g (Some k) orc fuel)).

Definition C16_full_statement : Prop := C16_statement repaired.

Theorem C16_full : C16_full_statement.
Proof. intros V body fails g k orc fuel WF. apply async_concurrency; auto. Qed.
Print Assumptions C16_full.

(* the sequential loop runs one job at a time whatever max_concurrent is *)
Theorem C16_sync :
  forall (V : Type) (body : nat -> nat -> list (list (option V)) -> V) (fails : job -> bool)
         (vr : variant) (g : graph) (kmax : option nat) (fuel : nat),
    fix14 vr = true -> wf_graph g ->
    concurrency_bounded 1 (event_log (run_sync V body fails vr g kmax fuel)).
Proof. intros. apply sync_one_at_a_time; assumption. Qed.
Print Assumptions C16_sync.

(* Finding F16 (repaired by a fix: commit): on the code as pinned the statement is false.
   One node split 4 ways, k = 2: both launched jobs are launched, one completes while the other is
   seen running (it leaves `queued`), the next poll returns two more jobs: 3 unfinished launches. *)
Definition f16_graph : graph := [mkNode 0 [] 4].
Definition f16_oracle : list oracle_step := [mkStep [0] [true]].

Theorem C16_refuted : ~ C16_statement pinned.
Proof.
  intros H.
  pose proof (H unit (fun _ _ _ => tt) (fun _ => false) f16_graph 2 f16_oracle 2 eq_refl) as B.
  specialize (B [ELaunch (0, 0); ELaunch (0, 1); EFinish (0, 0) true; ELaunch (0, 2); ELaunch (0, 3)]
                [EFinish (0, 1) true]).
  vm_compute in B. specialize (B eq_refl). lia.
Qed.
Print Assumptions C16_refuted.

Example C16_repaired_same_oracle :
  peak (event_log (run_async unit (fun _ _ _ => tt) (fun _ => false) repaired f16_graph (Some 2) f16_oracle 20)) = 2.
Proof. vm_compute. reflexivity. Qed.

(* Total version: with fuel >= |jobs| + 2 the run has ended (Finished or Stalled; termination with failing
   jobs: Proofs/SchedTermA.v), so the bound holds at every instant of the COMPLETE start/finish log. *)
Theorem C16_full_total :
  forall (V : Type) (body : nat -> nat -> list (list (option V)) -> V) (fails : job -> bool)
         (g : graph) (k : nat) (orc : list oracle_step) (fuel : nat),
    wf_graph g -> 1 <= k -> List.length (all_jobs g) + 2 <= fuel ->
    let o := run_async V body fails repaired g (Some k) orc fuel in
    (o_status o = Finished \/ o_status o = Stalled) /\ concurrency_bounded k (event_log o).
Proof.
  intros V body fails g k orc fuel WF K B o. split.
  - apply (async_terminates_full V body fails repaired eq_refl g WF (Some k)); [|exact B].
    intros k' E. inversion E; subst; exact K.
  - apply C16_full; exact WF.
Qed.
Print Assumptions C16_full_total.

Example C16_total_nonvacuous :
  wf_graph f16_graph /\ 1 <= 2 /\ List.length (all_jobs f16_graph) + 2 <= 20
  /\ o_status (run_async unit (fun _ _ _ => tt) (fun _ => false) repaired f16_graph (Some 2) f16_oracle 20) = Finished.
Proof. vm_compute. repeat split; repeat constructor. Qed.
