"""C26 — output path templates resolve inside the job directory (pydra/compose/shell/templating.py, task.py)."""
import decimal
import json
import os
import re
from pathlib import Path

from .lib import coqio
from .lib.runner import Outcome, Failure

PROP = "C26"
PROPS_FILE = "Props/C26.v"
MANIFEST = dict(
    text="Coq theorems (closed under the global context) about a faithful model of template_update / "
         "template_update_single / _template_formatting / _single_template_formatting / _element_formatting and of "
         "the output-side ShellOutputs._resolve_value: C26_inside (partial: for every outarg, template, input values "
         "and job directory, every resolved path is job_dir / last-component-of-the-filled-in-template, and lies "
         "lexically strictly inside the job directory unless that component is empty or '..'), "
         "C26_refuted_dotdot / C26_refuted_jobdir (the unguarded statement is false: a template or value that "
         "formats to '..' resolves to the cache root, one that formats to '', '.' or '/' resolves to the job directory "
         "itself — finding F26), C26_deterministic (the result depends only on the fields the template references), "
         "C26_explicit_as_given, C26_ext_dropped / C26_ext_kept (extension placement). The model is tied to the "
         "code on every run by differential execution of template_update and ShellOutputs._resolve_value on "
         "generated outargs, evaluated against model and executable spec inside Coq (vm_compute).",
    note="partial: the unchanged code violates the full statement on the input class of F26 (known finding). "
         "Trusted: Coq kernel + vm_compute; hand-written model of the templating code, of PurePosixPath and of the "
         "{name}/{name:.Nf} fragment of str.format; callable templates, `requires`, and format syntax outside that "
         "fragment are not modelled; correspondence is differential testing.",
    technique="Coq proof (pathlib component lemmas, frame lemma over the referenced fields, str.format suffix "
              "lemma) + model/impl correspondence via generated cases.v",
    design="§8 Group F / C26",
)
TIE_NAME = "Model.Template.resolve_input/resolve_output vs templating.template_update / ShellOutputs._resolve_value"
TRUSTED = [
    "Model/Template.v: hand-written model of template_update (one outarg), template_update_single, "
    "_template_formatting, _single_template_formatting (incl. both regexes), _element_formatting",
    "Base/PyFormat.v + Base/PyPath.v: model of PurePosixPath (parse, name, parent, /, str), of str()/repr() for "
    "str/int/exact-decimal float/Path/list values and of str.format for {name}, {name:.Nf}, {{, }}",
    "not modelled: callable path templates (evaluated before the model starts), `requires`, TypeParser coercion of "
    "the outarg's own value, format syntax beyond the fragment above (model answers EUnsupported; never generated)",
]
ASSUMPTIONS = ["template text is ASCII; values are byte strings without NUL; floats are exact decimals in [1e-4, 1e16)",
               "'inside' is lexical (path components); symlinks are out of scope"]
RULE = ("generated outargs: template built from literal chunks and 0-3 field references ({n} / {n:.Nf}) over inputs "
        "that are files/paths with 0-3 extensions (incl. hidden files, '..', absolute, nested dirs), strings, ints, "
        "floats, lists, None, missing; str or tuple templates; File or MultiOutputFile; keep_extension on/off; outarg "
        "value True/False/explicit path; several job directories. Non-trivial = the template references at least one "
        "input and the implementation resolved at least one path; distinct by (template, keep, multi, values, given)")

FINDING = "F26"


def run_cases_sep(scratch, name, imports, case_type, cases, checks, extra="", shard=250, timeout=900, maxpar=6):
    """Like coqio.run_cases, but every case is its own `Definition` (elaborating one 300-element list literal of
    large tuples is several times slower than 300 small definitions) ."""
    import subprocess
    files = []
    for k in range(0, max(len(cases), 1), shard):
        part = cases[k:k + shard]
        path = os.path.join(scratch.dir, "cases_%s_%d.v" % (name, k // shard))
        with open(path, "w") as f:
            f.write("From Pydra Require Import Base.Prelude %s.\n" % " ".join(imports))
            f.write("Set Printing Width 1000000.\nSet Printing Depth 1000000.\n")
            f.write(extra + "\n")
            for j, c in enumerate(part):
                f.write("Definition c%d : %s := %s.\n" % (j, case_type, c))
            f.write("Definition cases : list (%s) := [%s]%%list.\n" % (case_type, "; ".join("c%d" % j for j in range(len(part)))))
            for cname, fn in checks.items():
                f.write("Eval vm_compute in (bad (%s) cases).\n" % fn)
        files.append((k, path))
    results = {c: [] for c in checks}
    pending, running, errors = list(files), [], []
    while pending or running:
        while pending and len(running) < maxpar:
            k, path = pending.pop(0)
            pr = subprocess.Popen(["timeout", str(timeout), "coqc"] + coqio.COQFLAGS + [path], stdout=subprocess.PIPE,
                                  stderr=subprocess.STDOUT, text=True, cwd=os.path.dirname(path))
            running.append((k, path, pr))
        k, path, pr = running.pop(0)
        out, _ = pr.communicate()
        if pr.returncode != 0:
            errors.append((path, out[-2000:]))
            continue
        vals = coqio.split_evals(out)
        if len(vals) != len(checks):
            errors.append((path, "expected %d evals, got %r" % (len(checks), out[-2000:])))
            continue
        for cname, v in zip(checks, vals):
            results[cname].extend(k + i for i in coqio.parse_nat_list(v))
    if errors:
        raise coqio.CoqCaseError(errors)
    for c in results:
        results[c].sort()
    return results


# ------------------------------------------------------------------ generator
NAMES = ["a", "b", "c"]
STEMS = ["x", "data", "sub-01_T1w", "a b", "", "v", "ünï"]
EXTS = ["", ".txt", ".nii.gz", ".tar.gz.bak", ".", ".b"]
DIRS = ["/data/in", "/data/in/d.v1", "/", "/x/..", "/data/s p"]
PATHS = ["out/x.txt", "/abs/y.nii.gz", "..", ".", "x/..", "a//b.c", "noext", ".hid", "dir.d/", "", "/", "../..", "a/./b.txt",
         "//net/share/f.gz", "..x", "x..y", "../up.txt"]
STRS = ["sub01", "a.b", "x/y", "..", "", " sp ace", "/abs", "it's", "{weird}", "q\"uo'te", ".", "tab\there", "ünï", "a/..", "/"]
INTS = [-3, 0, 7, 12345]
FLOATS = [0.5, 1.25, -0.125, 2.0, 3.375, 10.0, -7.75, 0.0625]
LITS = ["out", "_", "-", ".", ".nii", ".txt", "/", "sub/", "..", "../", "v1.2", " ", "{{", "}}", "x", "_brain", ".tar.gz", "./"]
CACHE_DIRS = ["/cache/job", "/cache/root/shell-0a1b2c", "/tmp/w/../w2/job", "work/job", "/", "/c//d/./e"]


def gen_value(rng, kind):
    if kind == "file":
        return rng.choice(DIRS).rstrip("/") + "/" + rng.choice(STEMS) + rng.choice(EXTS)
    if kind == "path":
        return rng.choice(PATHS) if rng.random() < 0.7 else (rng.choice(STEMS) + rng.choice(EXTS))
    if kind == "str":
        return rng.choice(STRS) if rng.random() < 0.7 else (rng.choice(STEMS) + rng.choice(EXTS))
    if kind == "int":
        return rng.choice(INTS)
    if kind == "float":
        return rng.choice(FLOATS)
    if kind in ("liststr", "multistr"):
        return [rng.choice(STRS + ["1", "2", "k"]) for _ in range(rng.choice([0, 1, 2, 2, 3]))]
    if kind == "listint":
        return [rng.choice(INTS) for _ in range(rng.choice([0, 1, 2, 3]))]
    if kind == "listpath":
        return [rng.choice(PATHS) for _ in range(rng.choice([1, 2, 3]))]
    if kind == "none":
        return None
    raise ValueError(kind)


KINDS = ["file"] * 6 + ["path"] * 3 + ["str"] * 4 + ["int"] * 2 + ["float"] * 2 + ["liststr", "multistr", "listint", "listpath", "none"]


def gen_template(rng, names):
    """A template string: literal chunks and references to `names` (possibly also an undefined name)."""
    shape = rng.random()
    refs = list(names)
    rng.shuffle(refs)
    if shape < 0.08:
        refs = []
    elif shape < 0.55:
        refs = refs[:1]
    elif shape < 0.9:
        refs = refs[:2]
    if rng.random() < 0.03:
        refs.append("zz")                      # not an input: AttributeError expected
    if refs and rng.random() < 0.04:
        refs.append(refs[0])                   # repeated reference
    parts = []
    if rng.random() < 0.45:
        parts.append(rng.choice(LITS))
    for i, n in enumerate(refs):
        if rng.random() < 0.12:
            parts.append("{%s:.%df}" % (n, rng.choice([0, 1, 2, 3])))
        else:
            parts.append("{%s}" % n)
        if i + 1 < len(refs) or rng.random() < 0.6:
            parts.append(rng.choice(LITS))
            if rng.random() < 0.25:
                parts.append(rng.choice(LITS))
    t = "".join(parts)
    return t or rng.choice(["out", "..", "out.txt"])


def gen_case(rng):
    nfields = rng.choice([0, 1, 1, 2, 2, 2, 3])
    names = NAMES[:nfields]
    fields = []
    for n in names:
        kind = rng.choice(KINDS)
        fields.append({"name": n, "kind": kind, "value": gen_value(rng, kind)})
    if rng.random() < 0.12:
        template = [gen_template(rng, names) for _ in range(rng.choice([1, 2, 2, 3]))]
    else:
        template = gen_template(rng, names)
    r = rng.random()
    given = True if r < 0.8 else (False if r < 0.87 else rng.choice(PATHS + ["/abs/explicit.txt", "rel/e.nii.gz"]))
    if given == "":
        given = "."
    return {"fields": fields, "template": template, "keep": rng.random() < 0.6,
            "multi": rng.random() < 0.3, "given": given, "cache_dir": rng.choice(CACHE_DIRS)}


# ------------------------------------------------------------------ implementation side
_CLASS_CACHE = {}


def build_task(case, executable="cmd", out_argstr="--out", real_files=None):
    import typing as ty
    from pydra.compose import shell
    from pydra.utils.typing import MultiInputObj, MultiOutputFile
    from fileformats.generic import File

    tmap = {"file": File, "path": Path, "str": str, "int": int, "float": float, "liststr": list[str],
            "multistr": MultiInputObj[str], "listint": list[int], "listpath": list[Path], "none": ty.Optional[str]}
    tmpl = case["template"]
    key = json.dumps([[f["name"], f["kind"]] for f in case["fields"]] + [tmpl, case["keep"], case["multi"], executable, out_argstr])
    klass = _CLASS_CACHE.get(key)
    if klass is None:
        inputs = {}
        for f in case["fields"]:
            kw = dict(type=tmap[f["kind"]], argstr=None, help="")
            if f["kind"] == "none":
                kw["default"] = None
            inputs[f["name"]] = shell.arg(**kw)
        klass = shell.define(
            executable, inputs=inputs,
            outputs={"out": shell.outarg(type=MultiOutputFile if case["multi"] else File,
                                         path_template=tuple(tmpl) if isinstance(tmpl, list) else tmpl,
                                         keep_extension=case["keep"], argstr=out_argstr, help="")})
        if len(_CLASS_CACHE) > 4000:
            _CLASS_CACHE.clear()
        _CLASS_CACHE[key] = klass
    kwargs = {}
    for f in case["fields"]:
        if f["kind"] == "file":
            kwargs[f["name"]] = File(f["value"]) if real_files else File.mock(f["value"])
        elif f["kind"] != "none":
            kwargs[f["name"]] = f["value"]
    g = case["given"]
    kwargs["out"] = g if isinstance(g, bool) else Path(g)
    return klass, klass(**kwargs)


def classify_exc(e):
    msg = str(e)
    if isinstance(e, AttributeError) and "is not provided in the input" in msg:
        return "EMissing"
    if "can't have multiple paths" in msg:
        return "EMultiPath"
    if "have to have the same length" in msg:
        return "ELength"
    if isinstance(e, AttributeError) and "'list' object has no attribute 'name'" in msg:
        return "ENested"
    if isinstance(e, (KeyError, IndexError, ValueError, TypeError)):
        return "EFormat"
    return "EOther:%s:%s" % (type(e).__name__, msg[:80])


def canon(v):
    """observation -> ["abs"] | ["none"] | ["one", s] | ["many", [s..]]"""
    if v is None:
        return ["none"]
    if isinstance(v, (list, tuple)):
        return ["many", [str(x) for x in v]]
    return ["one", str(v)]


class _Job:
    pass


def observe(case):
    """Run the current implementation: (values actually held by the task, obs_in, obs_out)."""
    from pydra.compose.shell.templating import template_update
    from pydra.utils.general import get_fields, attrs_values
    klass, task = build_task(case)
    vals = attrs_values(task)
    actual = [(f["name"], vals[f["name"]]) for f in case["fields"]]
    cd = Path(case["cache_dir"])
    try:
        d = template_update(task, cache_dir=cd)
        obs_in = canon(d["out"]) if "out" in d else ["abs"]
    except Exception as e:  # noqa
        obs_in = ["err", classify_exc(e)]
    job = _Job()
    job.task = task
    job.cache_dir = cd
    try:
        obs_out = canon(klass.Outputs._resolve_value(get_fields(klass.Outputs).out, job))
    except Exception as e:  # noqa
        obs_out = ["err", classify_exc(e)]
    return actual, obs_in, obs_out



# ------------------------------------------------------------------ metamorphic variants (implementation only)
def referenced(case):
    tt = case["template"] if isinstance(case["template"], str) else " ".join(case["template"])
    return set(re.findall(r"{(\w+)[}:]", tt))


def variant_unreferenced(case, rng):
    """Same outarg; every input the template does not reference gets a new value, plus one more unrelated input."""
    v = json.loads(json.dumps(case))
    refs = referenced(case)
    for f in v["fields"]:
        if f["name"] not in refs:
            f["value"] = gen_value(rng, f["kind"])
    v["fields"].append({"name": "zextra", "kind": "str", "value": rng.choice(STRS)})
    return v


def _swap_ext(path, rng):
    head, sep, last = path.rpartition("/")
    if last in ("", ".", "..") or last.startswith("."):
        return None
    stem = last.split(".", 1)[0]
    return head + sep + stem + rng.choice([e for e in EXTS if e != "."] + [".zip", ".a.b.c"])


def variant_ext(case, rng):
    """keep_extension=False: change only the extensions of scalar file/path inputs."""
    if case["keep"]:
        return None
    v = json.loads(json.dumps(case))
    changed = False
    for f in v["fields"]:
        if f["kind"] in ("file", "path"):
            nv = _swap_ext(f["value"], rng)
            if nv is not None and nv != f["value"]:
                f["value"] = nv
                changed = True
    return v if changed else None


# ------------------------------------------------------------------ end to end: run the task, read outputs.out
E2E_STRS = ["sub01", "a.b", "k", "v1.2", "x..y", "q-r_s"]


def gen_e2e_case(rng, root):
    nfields = rng.choice([1, 1, 2, 2, 3])
    fields = []
    for n in NAMES[:nfields]:
        kind = rng.choice(["file", "file", "file", "str", "int", "float", "multistr", "listint"])
        if kind == "file":
            name = rng.choice(["x", "data", "sub-01_T1w"]) + rng.choice(["", ".txt", ".nii.gz", ".tar.gz.bak"])
            sub = rng.choice(["in", "in/d.v1"])
            p = os.path.join(root, sub, name)
            os.makedirs(os.path.dirname(p), exist_ok=True)
            with open(p, "w") as fh:      # distinct contents: file hashes are content based
                fh.write(p)
            val = p
        elif kind == "str":
            val = rng.choice(E2E_STRS)
        elif kind == "multistr":
            val = [rng.choice(E2E_STRS) for _ in range(rng.choice([1, 2, 3]))]
        elif kind == "listint":
            val = [rng.choice(INTS) for _ in range(rng.choice([1, 2, 3]))]
        else:
            val = gen_value(rng, kind)
        fields.append({"name": n, "kind": kind, "value": val})
    lits = ["out", "_", "-", ".nii", ".txt", "sub/", "v1.2", "x", "_brain", ".tar.gz"]
    refs = [f["name"] for f in fields]
    rng.shuffle(refs)
    refs = refs[:rng.choice([1, 1, 2])]
    t = rng.choice(["", "pre_", "out"]) + "".join("{%s}" % n + rng.choice(lits + [""]) for n in refs)
    # a list formatted with str() contains ", " and would be split into several arguments (C23): lists only element-wise
    multi = any(f["kind"] in ("multistr", "listint") and f["name"] in refs for f in fields)
    given = True
    if not multi and rng.random() < 0.15:
        os.makedirs(os.path.join(root, "explicit"), exist_ok=True)
        given = os.path.join(root, "explicit", rng.choice(["given.txt", "g.nii.gz"]))
    return {"fields": fields, "template": t, "keep": rng.random() < 0.6, "multi": multi, "given": given}


def observe_e2e(case, cache_root):
    from pydra.engine.submitter import Submitter
    from pydra.utils.general import attrs_values
    klass, task = build_task(case, executable="touch", out_argstr="", real_files=True)
    vals = attrs_values(task)
    actual = [(f["name"], vals[f["name"]]) for f in case["fields"]]
    with Submitter(worker="debug", cache_root=cache_root) as sub:
        res = sub(task, raise_errors=False)
    if res.errored:
        return actual, None, None
    return actual, str(res.cache_dir), canon(res.outputs.out)


# ------------------------------------------------------------------ Coq encoding
def S(s):
    return "(S %s)" % coqio.string(s)


def enc_float(x):
    r = repr(float(x))
    m = re.fullmatch(r"(-?)(\d+)\.(\d+)", r)
    if not m or decimal.Decimal(float(x)) != decimal.Decimal(r):
        raise ValueError("float outside the modelled exact-decimal class: %r" % x)
    return "(ADec %s %d%%N %s)" % (coqio.boolean(bool(m.group(1))), int(m.group(2) + m.group(3)), coqio.nat(len(m.group(3))))


def enc_atom(x):
    if isinstance(x, bool):
        raise ValueError("bool value not modelled")
    if isinstance(x, os.PathLike):
        return "(APath %s)" % S(os.fspath(x))
    if isinstance(x, str):
        return "(AStr %s)" % S(x)
    if isinstance(x, int):
        return "(AInt %s)" % coqio.z(x)
    if isinstance(x, float):
        return enc_float(x)
    raise ValueError("value not modelled: %r" % (x,))


def enc_value(v):
    if v is None:
        return "VNone"
    if isinstance(v, list):
        return "(VList %s)" % coqio.lst([enc_atom(a) for a in v])
    return "(VAtom %s)" % enc_atom(v)


def enc_obs(o):
    if o[0] == "err":
        if o[1].startswith("EOther"):
            return "(Err EUnsupported)"      # never equal to a model answer inside the modelled fragment
        return "(Err %s)" % o[1]
    if o[0] == "abs":
        return "(Ok RAbsent)"
    if o[0] == "none":
        return "(Ok RNone)"
    if o[0] == "one":
        return "(Ok (ROne %s))" % S(o[1])
    return "(Ok (RMany %s))" % coqio.lst([S(x) for x in o[1]])


def enc_case(case, actual, obs_in, obs_out):
    t = case["template"]
    tm = "(TMany %s)" % coqio.lst([S(x) for x in t]) if isinstance(t, list) else "(TOne %s)" % S(t)
    o = "(Build_outarg %s %s %s)" % (coqio.boolean(case["multi"]), coqio.boolean(case["keep"]), tm)
    g = case["given"]
    gv = "GTrue" if g is True else "GFalse" if g is False else "(GPath %s)" % S(g)
    env = coqio.lst([coqio.pair(S(n), enc_value(v)) for n, v in actual])
    return coqio.pair(o, gv, env, S(case["cache_dir"]), enc_obs(obs_in), enc_obs(obs_out))


IMPORTS = ["Base.PyPath", "Base.PyFormat", "Model.Template", "Spec.Template"]
EXTRA = r"""
Definition S (s : string) : list ascii := la_of s.
Definition case_t := (outarg * given * env * list ascii * res resolved * res resolved)%type.
Definition lla_eqb := list_eqb la_eqb.
Definition resolved_eqb (a b : resolved) : bool :=
  match a, b with
  | RAbsent, RAbsent | RNone, RNone => true
  | ROne x, ROne y => la_eqb x y
  | RMany x, RMany y => lla_eqb x y
  | _, _ => false
  end.
Definition err_eqb (a b : err) : bool :=
  match a, b with
  | EMissing, EMissing | EMultiPath, EMultiPath | ELength, ELength | EFormat, EFormat | ENested, ENested => true
  | _, _ => false
  end.
Definition res_eqb (a b : res resolved) : bool :=
  match a, b with
  | Ok x, Ok y => resolved_eqb x y
  | Err x, Err y => err_eqb x y
  | _, _ => false
  end.
Definition unsupported (r : res resolved) : bool := match r with Err EUnsupported => true | _ => false end.
(* model = implementation, on both resolution points *)
Definition tie_ok (c : case_t) : bool :=
  let '(o, g, vals, cd, oin, oout) := c in
  (unsupported (resolve_output o vals cd) || (res_eqb (resolve_input o g vals cd) oin && res_eqb (resolve_output o vals cd) oout)).
Definition in_model (c : case_t) : bool :=
  let '(o, g, vals, cd, oin, oout) := c in negb (unsupported (resolve_output o vals cd)).
Definition obs_inside (cd : list ascii) (r : res resolved) : bool :=
  match r with Ok x => all_insideb cd x | Err _ => true end.
(* the property's own reading: every path produced from the template lies inside the job directory *)
Definition inside_ok (c : case_t) : bool :=
  let '(o, g, vals, cd, oin, oout) := c in
  obs_inside cd oout && match g with GTrue => obs_inside cd oin | _ => true end.
(* ... it is the reference reading of the template, and an explicit path is used as given *)
Definition value_ok (c : case_t) : bool :=
  let '(o, g, vals, cd, oin, oout) := c in
  match spec_resolve o vals cd with
  | Some r => res_eqb oout (Ok r) && match g with GTrue => res_eqb oin (Ok r) | _ => true end
  | None => true
  end &&
  match g with
  | GPath s => match oin with Ok (ROne x) => same_pathb x s | _ => false end
  | GFalse => match oin with Ok RAbsent => true | _ => false end
  | GTrue => true
  end.
Definition spec_ok (c : case_t) : bool := inside_ok c && value_ok c.
(* end-to-end cases: oin = oout = the value of outputs.out after running the task in job directory cd *)
(* the output type coercion (MultiOutputFile = File | list[File]) turns a list of identical paths into one File *)
Definition collapse (r : res resolved) : res resolved :=
  match r with
  | Ok (RMany (p :: l)) => if forallb (la_eqb p) l then Ok (ROne p) else r
  | _ => r
  end.
Definition e2e_ok (c : case_t) : bool :=
  let '(o, g, vals, cd, oin, oout) := c in
  res_eqb (output_value o g vals cd) oout || res_eqb (collapse (output_value o g vals cd)) oout.
Definition e2e_inside (c : case_t) : bool :=
  let '(o, g, vals, cd, oin, oout) := c in match g with GTrue => obs_inside cd oout | _ => true end.
(* input class of finding F26 (the excluded class of C26_inside) *)
Definition not_f26 (c : case_t) : bool :=
  let '(o, g, vals, cd, oin, oout) := c in negb (degenerate_name o vals).
"""


def run(ctx):
    import shutil
    import tempfile
    rng = ctx.rng
    n = min(ctx.budget(900, 8000), 16000)      # the widened search (x10) is capped: ~25 min of coqc at most
    cases, meta = [], []
    dist = {"kinds": {}, "templates_tuple": 0, "multi": 0, "keep": 0, "given_true": 0, "given_false": 0,
            "given_explicit": 0, "obs_path": 0, "obs_list": 0, "obs_none": 0, "obs_error": {}, "refs": {},
            "variants_unreferenced": 0, "variants_ext": 0, "e2e_runs": 0, "e2e_errored": 0}
    seen = set()
    nontrivial = 0
    corpus = [c["case"] if "case" in c else c for c in ctx.corpus()]
    skipped = 0
    out = Outcome(rule=RULE)
    for i in range(n):
        case = corpus[i] if i < len(corpus) else gen_case(rng)
        try:
            actual, obs_in, obs_out = observe(case)
            enc = enc_case(case, actual, obs_in, obs_out)
        except Exception as e:  # construction of the task itself refused the case (type coercion etc.)
            skipped += 1
            dist.setdefault("skipped_examples", [])
            if len(dist["skipped_examples"]) < 3:
                dist["skipped_examples"].append("%s: %s" % (type(e).__name__, str(e)[:100]))
            continue
        cases.append(enc)
        meta.append({"case": case, "obs_in": obs_in, "obs_out": obs_out})
        for f in case["fields"]:
            dist["kinds"][f["kind"]] = dist["kinds"].get(f["kind"], 0) + 1
        dist["templates_tuple"] += isinstance(case["template"], list)
        dist["multi"] += case["multi"]
        dist["keep"] += case["keep"]
        g = case["given"]
        dist["given_true" if g is True else "given_false" if g is False else "given_explicit"] += 1
        k = obs_out[0]
        if k == "err":
            dist["obs_error"][obs_out[1][:20]] = dist["obs_error"].get(obs_out[1][:20], 0) + 1
        else:
            dist[{"one": "obs_path", "many": "obs_list", "none": "obs_none", "abs": "obs_none"}[k]] += 1
        nref = len(referenced(case))
        dist["refs"][str(min(nref, 3))] = dist["refs"].get(str(min(nref, 3)), 0) + 1
        key = json.dumps(case, sort_keys=True)
        if key not in seen:
            seen.add(key)
            if nref >= 1 and k in ("one", "many"):
                nontrivial += 1
        # metamorphic checks on the implementation alone (the Coq counterparts are C26_deterministic / C26_ext_dropped)
        if i % 4 == 0:
            for kind, var in (("unreferenced", variant_unreferenced(case, rng)), ("ext", variant_ext(case, rng))):
                if var is None:
                    continue
                try:
                    _, vin, vout = observe(var)
                except Exception:
                    continue
                dist["variants_" + kind] += 1
                if (vin, vout) != (obs_in, obs_out):
                    out.failures.append(Failure(
                        case=case, observed={"job_inputs": obs_in, "outputs": obs_out, "variant": var,
                                             "variant_job_inputs": vin, "variant_outputs": vout},
                        expected="the same resolved path", kind="spec",
                        note="resolved path depends on an input the template does not reference" if kind == "unreferenced"
                        else "keep_extension=False but the resolved path depends on the input file's extension"))
    dist["skipped_at_construction"] = skipped
    res = run_cases_sep(ctx.scratch, "c26", IMPORTS, "case_t", cases,
                        {"tie": "tie_ok", "inside": "inside_ok", "value": "value_ok", "cls": "not_f26", "dom": "in_model"},
                        extra=EXTRA)
    in_class = set(res["cls"])
    outside_model = set(res["dom"])
    dist["in_F26_class"] = len(in_class)
    dist["outside_modelled_format_fragment"] = len(outside_model)

    # ---- end to end: run real tasks (executable `touch`) and compare outputs.out with the model
    ne = min(ctx.budget(6, 60), 120)
    root = tempfile.mkdtemp(prefix="verif-c26-", dir="/tmp")
    e_cases, e_meta = [], []
    try:
        for k in range(ne):
            case = gen_e2e_case(rng, root)
            try:
                # a fresh cache root per run: the task checksum ignores path_template / keep_extension (C06), so a
                # shared root would serve the outputs of an earlier, differently templated task
                actual, cd, obs = observe_e2e(case, os.path.join(root, "cache%d" % k))
            except Exception as e:  # noqa
                dist["e2e_errored"] += 1
                dist.setdefault("e2e_error_examples", [])
                if len(dist["e2e_error_examples"]) < 3:
                    dist["e2e_error_examples"].append("%s: %s" % (type(e).__name__, str(e)[:120]))
                continue
            if cd is None:
                dist["e2e_errored"] += 1
                continue
            dist["e2e_runs"] += 1
            c2 = dict(case, cache_dir=cd)
            e_cases.append(enc_case(c2, actual, obs, obs))
            e_meta.append({"case": c2, "obs_in": obs, "obs_out": obs, "end_to_end": True})
    finally:
        shutil.rmtree(root, ignore_errors=True)
    eres = {"e2e": [], "e2e_inside": []}
    if e_cases:
        eres = run_cases_sep(ctx.scratch, "c26e", IMPORTS, "case_t", e_cases,
                             {"e2e": "e2e_ok", "e2e_inside": "e2e_inside"}, extra=EXTRA)

    out.evaluations = 2 * len(meta) + dist["variants_unreferenced"] * 2 + dist["variants_ext"] * 2 + len(e_meta)
    out.distinct_nontrivial = nontrivial
    out.samples = [m for m in meta[:5]] + e_meta[:2]
    out.distribution = dist
    out.traces_validated = len(meta) + len(e_meta)
    reported = 0
    for i in res["inside"]:
        m = meta[i]
        if i in in_class:
            out.failures.append(Failure(case=m["case"], observed={"job_inputs": m["obs_in"], "outputs": m["obs_out"]},
                                        expected="a path strictly inside " + m["case"]["cache_dir"],
                                        note="resolved path is not inside the job directory", finding=FINDING, kind="spec"))
        elif reported < 20:
            reported += 1
            out.failures.append(Failure(case=m["case"], observed={"job_inputs": m["obs_in"], "outputs": m["obs_out"]},
                                        expected="a path strictly inside " + m["case"]["cache_dir"],
                                        note="resolved path is not inside the job directory (outside the F26 class)", kind="spec"))
    for kind, name in (("spec", "value"), ("tie", "tie")):
        for i in res[name][:4]:
            m = meta[i]
            exp = explain(ctx, m["case"], "x%s%d" % (name, i))
            out.failures.append(Failure(case=m["case"], observed={"job_inputs": m["obs_in"], "outputs": m["obs_out"]},
                                        expected=exp, kind=kind,
                                        note="resolved path differs from the reference reading of the template / explicit path not used as given"
                                        if kind == "spec" else "model/impl"))
    for i in eres["e2e_inside"][:10]:
        m = e_meta[i]
        out.failures.append(Failure(case=m["case"], observed={"outputs.out": m["obs_out"]}, kind="spec",
                                    expected="a path strictly inside " + m["case"]["cache_dir"],
                                    note="end-to-end: outputs.out is not inside the job directory"))
    for i in eres["e2e"][:10]:
        m = e_meta[i]
        out.failures.append(Failure(case=m["case"], observed={"outputs.out": m["obs_out"]}, kind="tie",
                                    expected="Model.Template.output_value", note="end-to-end model/impl"))
    return out


def explain(ctx, case, tag):
    actual, _, _ = observe(case)
    c = enc_case(case, actual, ["abs"], ["abs"])
    show = r"""
Definition show_r (r : resolved) : list string :=
  match r with RAbsent => ["<absent>"%string] | RNone => ["<None>"%string] | ROne s => [str_of s] | RMany l => map str_of l end.
Definition show (r : res resolved) := match r with Ok x => ("ok"%string, show_r x) | Err EMissing => ("EMissing"%string, []) | Err EMultiPath => ("EMultiPath"%string, [])
  | Err ELength => ("ELength"%string, []) | Err EFormat => ("EFormat"%string, []) | Err ENested => ("ENested"%string, []) | Err EUnsupported => ("EUnsupported"%string, []) end.
"""
    vals = coqio.eval_terms(ctx.scratch, tag, IMPORTS, [
        "let '(o, g, vals, cd, _, _) := %s in (show (resolve_input o g vals cd), show (resolve_output o vals cd))" % c,
        "let '(o, g, vals, cd, _, _) := %s in match spec_resolve o vals cd with Some r => show (Ok r) | None => (\"spec: undetermined\"%%string, []) end" % c,
        "let '(o, g, vals, cd, _, _) := %s in degenerate_name o vals" % c], extra=EXTRA + show)
    return {"model(job_inputs, outputs)": vals[0], "spec": vals[1], "in_F26_class": vals[2]}


def replay(ctx, payload):
    case = payload["case"]
    actual, obs_in, obs_out = observe(case)
    print("case:", json.dumps(case))
    print("implementation: Job.inputs['out'] =", obs_in, "; ShellOutputs._resolve_value =", obs_out)
    exp = explain(ctx, case, "replay")
    print("model :", exp["model(job_inputs, outputs)"])
    print("spec  :", exp["spec"], " in F26 class:", exp["in_F26_class"])
