"""C10 — concurrent submitters of one job share a single execution (Job.run lock/check/run/save protocol)."""
import concurrent.futures as cf
import json
import os

from .lib import coqio, procs
from .lib.runner import Outcome, Failure

PROP = "C10"
PROPS_FILE = "Props/C10.v"
IMPORTS = ["Model.CacheProto", "Spec.CacheProto"]
MANIFEST = dict(
    text="Coq theorems on a small-step model of Job.run/run_async + result.save/load_result/record_error "
         "(Model/CacheProto.v: one program counter per process over the checkpoint labels of the hook commit, shared "
         "directory/lock-marker state), proved by invariants for every trace, i.e. every interleaving of any number "
         "of processes and submissions: C10_mutex (at most one live process between acquire and release), C10_once "
         "(succeeding body, no kill, no rerun: body runs at most once, exactly once as soon as somebody has an answer, "
         "every answer is the body's value), C10_same_outputs, C10_read_sound and C10_no_partial_read (a partially "
         "written result exists only while its writer holds the lock; whatever is read back is the body's value). "
         "partial: the model cannot exhibit the OS scheduler, filelock's O_EXCL/stale-marker behaviour or cloudpickle - "
         "those are hypotheses (interleaving at checkpoint granularity, codec_ok); the tie to the code is differential: "
         "2-4 real processes are driven through $VERIF_PLAN gates so that chosen interleavings are forced, and every "
         "recorded trace must be accepted by the model (accepts = true in Coq) with the same final observations.",
    note="Trusted: Coq kernel + vm_compute; hand-written model; filelock SoftFileLock (atomic create, dead-owner "
         "markers broken), cloudpickle (codec_ok), step atomicity at checkpoint granularity. Thread submitters are "
         "gated and traced like processes (one model process per thread) except for the working directory, which "
         "belongs to the process.",
    technique="Coq invariant proofs over arbitrary traces of a transition system + trace acceptance of gated multi-process runs",
    design="§8 Group C / C10",
)
TIE_NAME = "Model.CacheProto.accepts/final_matches vs traces of real processes running Job.run (pydra/engine/job.py, result.py)"
TRUSTED = [
    "Model/CacheProto.v: hand-written transition system of Job.run / run_async / _populate_filesystem / save / "
    "load_result / record_error / Submitter.__call__'s final job.result(); one step per checkpoint label",
    "Section variables pickle/unpickle with hypothesis Spec.CacheProto.codec_ok (round trip, strict prefixes rejected "
    "with UnpicklingError/EOFError, non-empty) - instantiated by toy_pickle for evaluation (toy_codec_ok proved)",
    "filelock 3.32 SoftFileLock: creation is atomic, a marker naming a dead pid on this host is broken (Model: free)",
    "the OS scheduler interleaves at the granularity of the modelled steps; ARelease (leaving the with block) has "
    "no label and is inserted by the acceptor where the code must already have released",
    "harness: harness/lib/procs.py (children, gates, trace translation, cache observation)",
]
ASSUMPTIONS = ["one checksum per model instance (a workflow's node jobs are separate instances), one cache root (no read-only caches: C11)", "task body deterministic and succeeding "
               "for C10_once/C10_same_outputs; rerun=False", "submitters are processes (debug or cf worker); cf runs are not gated"]
RULE = ("gated or free-running rounds of 2-4 fresh interpreters submitting the same task to one cache root (with / "
        "without an existing result or a stored failure, fast / slow body, python / shell / two-node workflow task, "
        "submitters = processes or 2-4 threads of one interpreter, "
        "debug worker (Job.run) or cf worker (Job.run_async, PydraFileLock, node jobs in pool processes), random / "
        "burst / round-robin / scripted gate policies; the traces of a workflow's node jobs are checked per checksum); distinct = distinct sequence of (process, label) in the recorded trace; non-trivial = at least "
        "two processes recorded job.lock_acquired and the trace alternates between processes at least 3 times")

EXTRA = """
(* the trace, the body executions before the concurrent round, the submitters of the round, and for a workflow the
   number of executions of its node bodies (the same for every node, else 0 or the maximum when above 1) *)
Definition c10_case := (trace_case * nat * list nat * option nat)%type.
Definition tie_accepts (c : c10_case) : bool := accepts (fst (fst (fst c))).
Definition tie_final (c : c10_case) : bool := final_matches (fst (fst (fst c))).
Definition node_accepts (c : trace_case) : bool := accepts c.
Definition set_runs (g : gobs) (k : nat) : gobs :=
  let '(a, b, c, d, e, f, r, i) := g in (a, b, c, d, e, f, k, i).
Definition minus_runs (g : gobs) (k : nat) : gobs :=
  let '(a, b, c, d, e, f, r, i) := g in (a, b, c, d, e, f, r - k, i).
Definition spec_ok (c : c10_case) : bool :=
  let '(pre, bv, tr, go, pos, before, who, nodes) := c in
  c10_specb bv (match nodes with Some k => set_runs go k | None => minus_runs go before end)
            (filter (fun po => existsb (Nat.eqb (pobs_pid po)) who) pos).
"""


def errored_first(rng, k, script):
    """A stored FAILURE of the task (body failed once, the cause is gone), then two concurrent submitters.
    script=True pins: A takes the lock and checks, B is let go from job.pre_run_done (it can only wait for the
    lock - or peek at the stored failure if the code looks before locking), then A re-executes, then B."""
    gate = dict(policy=rng.choice(["random", "bursts", "roundrobin"]), seed=rng.randrange(10 ** 6))
    if script:
        gate = dict(policy="roundrobin", seed=0, script=[[0, 2, 0], [1, 1, 1.5], [0, 400, 0]])
    return dict(name="c10-errored-first-%d" % k, pre=False, task=dict(task="python", x=rng.randrange(1, 40), flaky=True),
                stages=[dict(children=[dict(subs=[{"_body_raises": True}])], gate=None),
                        dict(children=[dict(subs=[{}]) for _ in range(2 if script else rng.choice([2, 3]))], gate=gate)],
                timeout=150)


def wf_scenario(rng, k, worker):
    """Two or three submitters of one WORKFLOW (two chained nodes, each node job takes its own lock); worker cf =
    Job.run_async + PydraFileLock for the workflow, node jobs in pool processes (free-running: no gates there)."""
    nproc = rng.choice([2, 2, 3])
    gate = None if worker == "cf" else dict(policy=rng.choice(["random", "bursts", "roundrobin"]), seed=rng.randrange(10 ** 6))
    return dict(name="c10-wf-%s-%d" % (worker, k), pre=rng.random() < 0.2,
                task=dict(task="workflow", x=rng.randrange(1, 40), worker=worker, delay=rng.choice([0.0, 0.1])),
                stages=[dict(children=[dict(subs=[{}]) for _ in range(nproc)], gate=gate)],
                timeout=(480 if worker == "cf" else 240))


def cf_python(rng, k):
    return dict(name="c10-py-cf-%d" % k, pre=False, task=dict(task="python", x=rng.randrange(1, 40), worker="cf"),
                stages=[dict(children=[dict(subs=[{}]) for _ in range(rng.choice([2, 3]))], gate=None)], timeout=480)


def thread_scenario(rng, k, forced):
    """The submitters are 2-4 THREADS of one interpreter (own Submitter / Job each, one cache root), gated like
    processes (the checkpoints carry pid.tid).  forced: thread T0 is taken to job.body_enter (inside the with
    block, about to run the body) and only then T1 is let go from job.pre_run_done, then the policy decides."""
    n = rng.choice([2, 3, 4])
    gate = dict(policy=rng.choice(["random", "bursts", "roundrobin"]), seed=rng.randrange(10 ** 6))
    if forced:
        gate["script"] = [[0, 17, 0], [1, 1, 1.0]]
    return dict(name="c10-threads-%d" % k, pre=(not forced) and rng.random() < 0.25,
                task=dict(task="python", x=rng.randrange(1, 40), delay=rng.choice([0.0, 0.1])),
                stages=[dict(children=[dict(subs=[{}], threads=n)], gate=gate)], timeout=150)


def routes_scenario(rng, k, forced):
    """One checksum reached by different routes at the same time: 1-2 processes submit the python task directly
    (job name "main"), another one submits a workflow whose first node IS that task (job name "a").  The model
    instance is the shared checksum (focus_prefix); body executions are counted per checksum (side lines `pid x`).
    forced: the direct submitter is taken to job.body_enter, then the workflow runs until it blocks on the node."""
    nd = rng.choice([1, 1, 2])
    gate = dict(policy=rng.choice(["random", "bursts", "roundrobin"]), seed=rng.randrange(10 ** 6))
    if forced:
        gate["script"] = [[0, 17, 0, 30.0], [nd, 26, 1.0, 1.5]]
    return dict(name="c10-routes-%d" % k, pre=False, focus_prefix="python-",
                task=dict(task="python", x=rng.randrange(1, 40), delay=rng.choice([0.0, 0.1])),
                stages=[dict(children=[dict(subs=[{}]) for _ in range(nd)] + [dict(subs=[{"task": "workflow"}])],
                             gate=gate)], timeout=200)


def gen_scenarios(rng, n, corpus):
    out = [c["scenario"] for c in corpus if "scenario" in c]
    out.append(errored_first(rng, 0, True))
    out.append(thread_scenario(rng, 0, True))
    out.append(routes_scenario(rng, 0, True))
    out.append(wf_scenario(rng, 0, "debug"))
    out.append(wf_scenario(rng, 1, "cf") if rng.random() < 0.5 else cf_python(rng, 1))
    if n > 20:
        out += [wf_scenario(rng, 10 + j, "debug") for j in range(6)] + [wf_scenario(rng, 20 + j, "cf") for j in range(3)]
        out += [cf_python(rng, 30 + j) for j in range(3)]
        out += [thread_scenario(rng, 40 + j, j % 2 == 0) for j in range(8)]
        out += [routes_scenario(rng, 50 + j, j % 2 == 0) for j in range(6)]
    k = 0
    while len(out) < n:
        if k % 9 == 5:
            out.append(errored_first(rng, k, rng.random() < 0.5))
            k += 1
            continue
        nproc = rng.choice([2, 2, 3, 3, 4])
        kind = "shell" if rng.random() < 0.2 else "python"
        pol = rng.choice([None, "random", "random", "bursts", "bursts", "roundrobin"])
        sc = dict(name="c10-%d" % k, pre=rng.random() < 0.3,
                  task=dict(task=kind, x=rng.randrange(1, 40), delay=rng.choice([0.0, 0.0, 0.15])),
                  stages=[dict(children=[dict(subs=[{}] * rng.choice([1, 1, 2])) for _ in range(nproc)],
                               gate=(dict(policy=pol, seed=rng.randrange(10 ** 6)) if pol else None))],
                  timeout=150)
        out.append(sc)
        k += 1
    return out[:n]


def alternations(ev):
    seq = [i for i, _ in ev]
    return sum(1 for a, b in zip(seq, seq[1:]) if a != b)


def run(ctx):
    n = ctx.budget(9, 74)
    scs = gen_scenarios(ctx.rng, n, ctx.corpus())
    with cf.ThreadPoolExecutor(max_workers=6) as ex:
        results = list(ex.map(procs.run_scenario, scs))
    cases, seen = [], set()
    node_cases, node_of = [], []
    dist = {"processes": {}, "with_existing_result": 0, "gated": 0, "slow_body": 0, "shell": 0, "hangs": 0,
            "events": 0}
    nontrivial = 0
    out = Outcome(rule=RULE)
    for sc, res in zip(scs, results):
        bv = procs.expected_value(sc["task"])
        before = res["runs_stage"][-2] if len(res["runs_stage"]) >= 2 else 0
        nlast = sum(max(1, int(cd.get("threads", 0))) for cd in sc["stages"][-1]["children"])
        who = [c["idx"] for c in res["children"][-nlast:] if c.get("direct") is not False]
        if sc.get("focus_prefix"):
            dist["different_routes"] = dist.get("different_routes", 0) + 1
            x = sc["task"].get("x", 3)
            wf = [c for c in res["children"] if c.get("direct") is False]
            wf_ok = all(c["report"] and c["report"][-1].get("out") == 2 * (2 * x + 1) + 1 for c in wf)
            if res["runs_by_x"].get(str(2 * x + 1), 0) != 1 or not wf_ok:
                out.failures.append(Failure(case={"scenario": sc}, observed=_obs(res),
                                            expected="the workflow returns %d and its second node body runs once" % (2 * (2 * x + 1) + 1),
                                            note="C10 spec: workflow sharing a node with a direct submission", kind="spec"))
        nodes = "None"
        if sc["task"]["task"] == "workflow":
            x = sc["task"].get("x", 3)
            cnts = [res["runs_by_x"].get(str(x), 0), res["runs_by_x"].get(str(2 * x + 1), 0)]
            nodes = "(Some %d)" % (max(cnts) if min(cnts) >= 1 else 0)
            dist["workflow"] = dist.get("workflow", 0) + 1
        dist["cf_worker"] = dist.get("cf_worker", 0) + (sc["task"].get("worker") == "cf")
        dist["thread_submitters"] = dist.get("thread_submitters", 0) + any(cd.get("threads") for cd in sc["stages"][-1]["children"])
        for key, nev in res["node_events"].items():
            node_cases.append("(false, 1, %s, (false, false, false, 0, 0, 0, 0, 0), [])" % procs.coq_events(nev))
            node_of.append((len(cases), key))
        cases.append("(%s, %d, %s, %s)" % (procs.case_literal(sc, res, bv), before,
                                           coqio.lst([coqio.nat(i) for i in who]), nodes))
        np_ = nlast
        dist["processes"][str(np_)] = dist["processes"].get(str(np_), 0) + 1
        dist["with_existing_result"] += bool(sc.get("pre"))
        dist["gated"] += bool(sc["stages"][0].get("gate"))
        dist["slow_body"] += bool(sc["task"].get("delay"))
        dist["shell"] += sc["task"]["task"] == "shell"
        dist["hangs"] += bool(res["hang"])
        dist["events"] += len(res["events"])
        sig = tuple(res["events"])
        acq = len({i for i, a in res["events"] if a == "AAcquire"})
        if sig not in seen:
            seen.add(sig)
            if acq >= 2 and alternations(res["events"]) >= 3:
                nontrivial += 1
        dist["stored_failure_first"] = dist.get("stored_failure_first", 0) + (len(sc["stages"]) > 1)
        if res["hang"] or any(c["rc"] != 0 for c in res["children"]):
            out.failures.append(Failure(case={"scenario": sc}, observed=_obs(res), expected="every submitter returns",
                                        note="a submitter hung or died", kind="spec"))
    chk = coqio.run_cases(ctx.scratch, "c10", IMPORTS, "c10_case", cases,
                          {"accepts": "tie_accepts", "final": "tie_final", "spec": "spec_ok"}, extra=EXTRA, shard=20)
    if node_cases:
        nchk = coqio.run_cases(ctx.scratch, "c10n", IMPORTS, "trace_case", node_cases, {"accepts": "node_accepts"},
                               extra=EXTRA, shard=40)
        for j in nchk["accepts"]:
            i, key = node_of[j]
            out.failures.append(Failure(case={"scenario": scs[i], "node_job": key}, observed=_obs(results[i]),
                                        expected={"node job trace (model events)": node_cases[j][:3000]},
                                        note="trace of a workflow's node job not accepted by the model", kind="tie"))
        out.extra["node_job_traces_validated"] = len(node_cases) - len(nchk["accepts"])
    for i in chk["spec"]:
        out.failures.append(Failure(case={"scenario": scs[i]}, observed=_obs(results[i]),
                                    expected="body executions in the concurrent round = 1 (0 if a result was there) and "
                                             "every outcome = Returned(errored=False, out=%d)"
                                             % procs.expected_value(scs[i]["task"]),
                                    note="C10 spec: single execution, identical correct outputs", kind="spec"))
    for i in sorted(set(chk["accepts"]) | set(chk["final"])):
        if i in chk["spec"]:
            continue
        out.failures.append(Failure(case={"scenario": scs[i]}, observed=_obs(results[i]),
                                    expected=_model_view(ctx, cases[i], "t%d" % i),
                                    note="trace not accepted by the model" if i in chk["accepts"] else
                                    "final observations differ from the model's", kind="tie"))
    out.evaluations = len(scs)
    out.traces_validated = len(scs) - len(set(chk["accepts"]))
    out.distinct_nontrivial = nontrivial
    out.distribution = dist
    out.samples = [{"scenario": scs[i]["name"], "processes": len(results[i]["children"]),
                    "interleaving": "".join(str(p) for p, _ in results[i]["events"])[:160],
                    "body_executions": results[i]["runs"],
                    "outcomes": [c["report"][-1] if c["report"] else None for c in results[i]["children"]]}
                   for i in range(min(3, len(scs)))]
    if ctx.tier == "thorough":
        thr = thread_round(ctx)          # free-running threads without any gate, spec only
        out.extra["ungated_thread_rounds"] = thr["rounds"]
        out.failures += thr["failures"]
    return out


def _obs(res):
    return {"body_executions": res["runs"], "body_executions_per_stage": res["runs_stage"],
            "executions_by_body_input": res.get("runs_by_x"), "cache": res["cache"],
            "hang": res["hang"],
            "children": [{"idx": c["idx"], "rc": c["rc"], "report": c["report"], "tail": c["tail"]} for c in res["children"]],
            "events": ["%d:%s" % e for e in res["events"]]}


def _model_view(ctx, case, name):
    try:
        v = coqio.eval_terms(ctx.scratch, name, IMPORTS, [
            "let '(pre, bv, tr, go, pos, before, who, nodes) := %s in (first_reject bv (init bv pre) tr 0, List.length tr, "
            "match accept_run bv (init bv pre) tr with Some s => Some (observe_g s (map pobs_pid pos), map (fun po => observe_p s (pobs_pid po)) pos) | None => None end)" % case])
        return {"first_rejected_event_index, trace_length, model_final_observation": v[0]}
    except Exception as e:  # pragma: no cover
        return {"model_evaluation_failed": str(e)[-500:]}


# ---- threads in one interpreter: spec only (the trace hooks identify threads, but cwd is per process)
THREAD_CHILD = r"""
import json, sys, threading, os
cfg = json.load(open(sys.argv[1]))
from harness.lib import procs
from pydra.engine.submitter import Submitter
outs = [None] * cfg["n"]
def work(i):
    try:
        with Submitter(worker="debug", cache_root=cfg["cache_root"]) as sub:
            r = sub(procs.build_task(cfg["task"]))
        outs[i] = ["returned", bool(r.errored), procs._outputs_value(cfg["task"], r.outputs)]
    except Exception as e:
        outs[i] = ["raised", type(e).__name__, str(e)[:200]]
ts = [threading.Thread(target=work, args=(i,)) for i in range(cfg["n"])]
[t.start() for t in ts]; [t.join() for t in ts]
json.dump(outs, open(cfg["report"], "w"))
"""


def thread_round(ctx):
    import shutil
    import subprocess
    import tempfile
    rounds, failures = [], []
    for k in range(ctx.budget(1, 4)):
        wd = tempfile.mkdtemp(prefix="verif-c10t-")
        try:
            n = ctx.rng.choice([2, 3, 4])
            side = os.path.join(wd, "side")
            open(side, "w").close()
            task = dict(task="python", x=ctx.rng.randrange(1, 30), delay=ctx.rng.choice([0.0, 0.1]), side=side)
            cfg = dict(n=n, cache_root=os.path.join(wd, "cache"), task=task, report=os.path.join(wd, "rep.json"))
            os.makedirs(cfg["cache_root"])
            json.dump(cfg, open(os.path.join(wd, "cfg.json"), "w"))
            env = dict(os.environ)
            env.update(PYTHONPATH=procs.VERIF + ":" + os.environ.get("VERIF_REPO", "/repo"), NO_ET="1",
                       PYTHONHASHSEED="0", NIPYPE_PYDRA_VERIF="1")
            env.pop("VERIF_PLAN", None)
            env.pop("VERIF_TRACE", None)
            try:
                p = subprocess.run([procs.PY, "-c", THREAD_CHILD, os.path.join(wd, "cfg.json")], cwd=wd, env=env,
                                   stdout=subprocess.PIPE, stderr=subprocess.STDOUT, timeout=150)
                outs = json.load(open(cfg["report"])) if os.path.exists(cfg["report"]) else None
                tail = p.stdout.decode("utf-8", "replace")[-400:]
            except subprocess.TimeoutExpired:
                outs, tail = None, "timeout"
            runs = len(open(side).read().splitlines())
            good = ["returned", False, procs.expected_value(task)]
            ok = outs is not None and runs == 1 and all(o == good for o in outs)
            rounds.append({"threads": n, "body_executions": runs, "outcomes": outs})
            if not ok:
                failures.append(Failure(case={"threads": n, "task": {k: v for k, v in task.items() if k != "side"}},
                                        observed={"body_executions": runs, "outcomes": outs, "tail": tail},
                                        expected="1 execution, every thread gets %r" % (good,),
                                        note="C10 spec (threads of one interpreter)", kind="spec"))
        finally:
            shutil.rmtree(wd, ignore_errors=True)
    return {"rounds": rounds, "failures": failures}


def replay(ctx, payload):
    case = payload["case"]
    if "scenario" not in case:
        print(json.dumps(payload, indent=1))
        return 0
    sc = case["scenario"]
    res = procs.run_scenario(sc)
    bv = procs.expected_value(sc["task"])
    before = res["runs_stage"][-2] if len(res["runs_stage"]) >= 2 else 0
    nlast = sum(max(1, int(cd.get("threads", 0))) for cd in sc["stages"][-1]["children"])
    who = [c["idx"] for c in res["children"][-nlast:] if c.get("direct") is not False]
    nodes = "None"
    if sc["task"]["task"] == "workflow":
        x = sc["task"].get("x", 3)
        cnts = [res["runs_by_x"].get(str(x), 0), res["runs_by_x"].get(str(2 * x + 1), 0)]
        nodes = "(Some %d)" % (max(cnts) if min(cnts) >= 1 else 0)
    lit = "(%s, %d, %s, %s)" % (procs.case_literal(sc, res, bv), before, coqio.lst([coqio.nat(i) for i in who]), nodes)
    print("implementation:", json.dumps(_obs(res), indent=1, default=repr))
    vals = coqio.eval_terms(ctx.scratch, "replay", IMPORTS, ["tie_accepts %s" % lit, "tie_final %s" % lit, "spec_ok %s" % lit],
                            extra=EXTRA)
    print("model accepts trace:", vals[0], " final observations match:", vals[1])
    print("model:", _model_view(ctx, lit, "replay2"))
    print("spec (c10_specb on the observations):", vals[2])
    return 0
