"""C14 — a failing job never stops independent jobs (asynchronous workers)
(pydra/engine/submitter.py: expand_workflow_async error collection, NodeExecution.update_status)."""
from .lib import coqio, fakes
from .lib.runner import Outcome, Failure

PROP = "C14"
PROPS_FILE = "Props/C14.v"
MANIFEST = dict(
    text="Coq theorems over the model of Submitter.expand_workflow_async and NodeExecution (Model/Sched.v), for every "
         "oracle (completion order, several completions per wake-up, which jobs are seen running at each poll), "
         "every max_concurrent, every set of failing jobs, every topologically listed graph: C14_full (no exception "
         "escapes the scheduling loop; a run that ends by itself has launched exactly the jobs that are not "
         "downstream of a failing job and its error names exactly the failed jobs), C14_never_downstream (at no "
         "point of any run is a job downstream of a failed job launched). C14_full_total (with D1's termination proof Proofs/SchedTermA.v on this model: fuel >= |jobs|+2, max_concurrent >= 1 or none => the run ENDS, Finished with the exact c14 outcome or Stalled by the ten-poll stall detector, in which case every launched job was allowed to run and every named error is a launched failed job; completeness is not claimed for Stalled). C14_refuted_running_then_fail shows the "
         "statement is false for the model of the code as pinned (finding F14: a job seen running that then fails "
         "aborts the loop) — repaired in /repo by a fix: commit, after which the model follows the repaired code. "
         "Tie: fake asynchronous Worker dictating completion order, failures and lock-file visibility; every poll, "
         "launch list, start/finish log, error names compared inside Coq with run_async on the same oracle.",
    note="Trusted: Coq kernel + vm_compute; hand-written model; dependency is node-level as in pydra (a job depends on "
         "all jobs of its predecessor nodes); termination of the loop is not part of the theorem (a chain of >10 "
         "consecutive unrunnable nodes can trip the 10-poll stall detector: status Stalled, outside C14_full's "
         "Finished clause).",
    technique="Coq proof by loop invariant over an oracle-driven model + refutation witness for the pinned variant + differential execution under a controlled fake worker",
    design="§8 Group D / C14",
)
TIE_NAME = "Model.Sched.run_async vs Submitter.expand_workflow_async under the controlled fake worker"
TRUSTED = [
    "Model/Sched.v (+Base/SchedBase.v): hand-written model of NodeExecution status sets, update_status, "
    "get_runnable_tasks (node and submitter), expand_workflow_async incl. error collection and the stall detector",
    "modelled-not-verified: world frozen during one poll; job identity (node, state index); asyncio wake-ups = oracle; "
    "graph.sorted_nodes taken from the implementation; the error *message* is parsed for the job names only",
    "Section variables: body (uninterpreted), fails (failing set) — no hypotheses",
    "harness/lib/fakeworker.py (fake Worker, hooks)",
]
ASSUMPTIONS = ["wf_graph: predecessors listed earlier, distinct node names", "fresh cache per run; combined split nodes"]
RULE = ("an observed asynchronous run of a generated workflow (2-6 nodes, some split, <=10 jobs) with 1-2 failing jobs "
        "(some runs without) under a generated oracle incl. jobs seen running before they fail; distinct = different "
        "(workflow, k, failing set, observed log, visibility pattern); non-trivial = >=2 nodes, >=1 edge, >=3 jobs")

SPEC = """
Definition spec_ok (c : case_t) : bool :=
  (c_status c =? 0)
  && c14_outcome_b (c_graph c) (fails_of (c_fails c)) (launches_of (c_log c)) (c_errs c)
  && same_set job_eqb (launches_of (c_log c)) (finishes_of (c_log c)).
"""


def burst_fail_cases(ctx, n):
    """Several failing jobs whose completions are collected in the same wake-up (2-4 completions per oracle
    step), failing sets of size 2-4: the error must still name every failed job."""
    rng = ctx.rng
    out = []
    for _ in range(n):
        shape = rng.random()
        if shape < 0.4:
            nj = rng.choice([3, 4, 5])
            nodes = [dict(id=0, preds=[], split=nj), dict(id=1, preds=[0], split=None), dict(id=2, preds=[], split=None)]
        elif shape < 0.7:
            nodes = [dict(id=i, preds=[], split=None) for i in range(rng.choice([3, 4, 5]))]
            nodes.append(dict(id=len(nodes), preds=[0], split=2))
        else:
            nodes = fakes.gen_nodes(rng, nmin=3, nmax=6)
        jobs = fakes.all_jobs(nodes)
        nj = len(jobs)
        fail = [list(j) for j in rng.sample(jobs, min(len(jobs), rng.choice([2, 2, 3, 4])))]
        steps = [dict(c=[rng.randrange(max(nj, 1)) for _ in range(rng.choice([2, 2, 3, 4]))],
                      vis=[1 if rng.random() < 0.4 else 0 for _ in range(nj)]) for _ in range(2 * nj + 4)]
        out.append(dict(nodes=nodes, k=rng.choice([None, None, 3, nj]), fail=fail, oracle=steps, mode="async",
                        burst=True))
    return out


def run(ctx):
    extra = burst_fail_cases(ctx, fakes.bud(ctx, 14, 200))
    out, cases, obs, usable, bad = fakes.drive(
        ctx, "c14", SPEC, fakes.bud(ctx, 24, 350), 0, fakes.bud(ctx, 12, 768), RULE,
        "an exception escaped the scheduling loop / an independent job was not executed / a downstream job was "
        "executed / the error does not name exactly the failed jobs", fail_p=0.85, extra_cases=extra)
    two = [i for i in usable if any(sum(1 for j in s["done"] if list(j) in [["n%d" % f[0], f[1]] for f in cases[i].get("fail") or []]) >= 2
                                    for s in obs[i].get("steps") or [])]
    out.distribution["runs_with_two_or_more_failures_collected_in_one_wakeup"] = len(two)
    return out


def replay(ctx, payload):
    fakes.replay_case(ctx, payload, SPEC)
