(* C03 — workflow state propagation = nested-loop reference evaluation. *)
From Pydra Require Import Base.Prelude Model.StateWf Spec.StateWf Proofs.StateWf.

Definition C03_full_statement : Prop :=
  forall wf : workflow, wf_ok wf = true -> model_run wf = Some (spec_run wf).

Theorem C03_refuted : ~ C03_full_statement.
Proof. exact refuted. Qed.
Print Assumptions C03_refuted.

Theorem C03_diamond_multiplies :
  option_map (map (fun v => match v with VList l => List.length l | _ => 0 end)) (model_run diamond) = Some [3; 3; 3; 9]
  /\ spec_njobs diamond = [3; 3; 3; 3].
Proof. exact diamond_counts. Qed.
Print Assumptions C03_diamond_multiplies.
