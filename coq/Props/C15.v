(* C15 — jobs start only after the jobs they consume have succeeded; every job exactly once.
   Both execution loops of pydra.engine.submitter.Submitter, for every oracle (= every completion
   order, several completions per wake-up, every pattern of jobs "seen running"), every
   max_concurrent, every set of failing jobs, every graph listed in topological order. *)
From Pydra Require Import Base.Prelude Base.SchedBase Model.Sched Spec.Sched Proofs.SchedG Proofs.SchedH Proofs.SchedI Proofs.SchedK Proofs.SchedL Proofs.SchedN Proofs.SchedTermA Proofs.SchedO.

Section C15.
Variable V : Type.
Variable body : nat -> nat -> list (list (option V)) -> V.
Variable fails : job -> bool.
Variable vr : variant.
Variable g : graph.
Variable kmax : option nat.
Hypothesis F14 : fix14 vr = true.      (* the model of the code after the F14 repair; see C14.v *)
Hypothesis WF : wf_graph g.

Theorem C15_safety :
  forall orc fuel, starts_after_upstream g (event_log (run_async V body fails vr g kmax orc fuel)).
Proof. intros. apply async_safety; assumption. Qed.

Theorem C15_at_most_once :
  forall orc fuel, at_most_once (event_log (run_async V body fails vr g kmax orc fuel)).
Proof. intros. apply async_at_most_once; assumption. Qed.

Theorem C15_all_run :
  (forall j, fails j = false) ->
  forall orc fuel, o_status (run_async V body fails vr g kmax orc fuel) = Finished ->
  every_job_once g (event_log (run_async V body fails vr g kmax orc fuel)).
Proof. intros. apply async_all_run; assumption. Qed.

Theorem C15_sync_safety :
  forall fuel, starts_after_upstream g (event_log (run_sync V body fails vr g kmax fuel)).
Proof. intros. apply sync_safety; assumption. Qed.

Theorem C15_sync_at_most_once :
  forall fuel, at_most_once (event_log (run_sync V body fails vr g kmax fuel)).
Proof. intros. apply sync_at_most_once; assumption. Qed.

Theorem C15_sync_all_run :
  (forall j, fails j = false) ->
  forall fuel, o_status (run_sync V body fails vr g kmax fuel) = Finished ->
  every_job_once g (event_log (run_sync V body fails vr g kmax fuel)).
Proof. intros. apply sync_all_run; assumption. Qed.

(* Termination included: when no job fails (every node has at least one job, max_concurrent >= 1), for
   EVERY oracle the asynchronous loop ends by itself within |jobs| + 1 iterations, and then every job
   has been launched exactly once and has finished successfully; same for the sequential loop. *)
Hypothesis NF : forall j, fails j = false.
Hypothesis NJ : forall nd, In nd g -> 1 <= njobs nd.
Hypothesis KP : forall k, kmax = Some k -> 1 <= k.

Theorem C15_every_job_exactly_once :
  forall orc fuel, List.length (all_jobs g) + 1 <= fuel ->
  o_status (run_async V body fails vr g kmax orc fuel) = Finished
  /\ every_job_once g (event_log (run_async V body fails vr g kmax orc fuel)).
Proof.
  intros orc fuel B.
  assert (S : o_status (run_async V body fails vr g kmax orc fuel) = Finished) by (apply async_terminates; assumption).
  split; [exact S|apply async_all_run; assumption].
Qed.

Theorem C15_sync_every_job_exactly_once :
  forall fuel, List.length (all_jobs g) + 1 <= fuel ->
  o_status (run_sync V body fails vr g kmax fuel) = Finished
  /\ every_job_once g (event_log (run_sync V body fails vr g kmax fuel)).
Proof.
  intros fuel B.
  assert (S : o_status (run_sync V body fails vr g kmax fuel) = Finished) by (apply sync_terminates; assumption).
  split; [exact S|apply sync_all_run; assumption].
Qed.
End C15.

Print Assumptions C15_safety.
Print Assumptions C15_at_most_once.
Print Assumptions C15_all_run.
Print Assumptions C15_sync_safety.
Print Assumptions C15_sync_at_most_once.
Print Assumptions C15_sync_all_run.
Print Assumptions C15_every_job_exactly_once.
Print Assumptions C15_sync_every_job_exactly_once.

(* ------------------------------------------------------------------------------------------------
   Full strength and what is excluded.  The property quantifies over every submission, including a
   second submission with rerun=True over a cache that already holds results.  run_async_warm starts
   the same loop over an arbitrary cache content w0. *)
Definition C15_full_statement : Prop :=
  forall (V : Type) (body : nat -> nat -> list (list (option V)) -> V) (fails : job -> bool)
         (g : graph) (kmax : option nat) (w0 : world V) (orc : list oracle_step) (fuel : nat),
    wf_graph g ->
    starts_after_upstream g (event_log (run_async_warm V body fails repaired g kmax w0 orc fuel)).

(* excluded input class (mirrored by the driver's classifier for finding F15): the cache is warm *)
Definition warm_cache {V : Type} (w0 : world V) : bool :=
  negb (is_nil (results w0)) || negb (is_nil (visible w0)).

(* Finding F15 (known, not repaired): n0, n1 independent, n2 consumes n0; the cache holds a result for
   every job; n1 completes while n0 is still pending: n0's stale result is taken for its completion
   and n2 is launched before n0 finishes. *)
Definition f15_graph : graph := [mkNode 0 [] 1; mkNode 1 [] 1; mkNode 2 [0] 1].
Definition f15_cache : world unit := mkW [((0, 0), Some tt); ((1, 0), Some tt); ((2, 0), Some tt)] [].

Definition f15_run : outcome unit :=
  run_async_warm unit (fun _ _ _ => tt) (fun _ => false) repaired f15_graph None f15_cache [mkStep [1] []] 20.

Theorem C15_refuted_warm_rerun : ~ C15_full_statement.
Proof.
  intros H.
  assert (E : event_log f15_run =
              [ELaunch (0, 0); ELaunch (1, 0); EFinish (1, 0) true; ELaunch (2, 0); EFinish (0, 0) true; EFinish (2, 0) true])
    by (vm_compute; reflexivity).
  assert (B : starts_after_upstream f15_graph (event_log f15_run)).
  { unfold f15_run. apply H. reflexivity. }
  rewrite E in B.
  specialize (B [ELaunch (0, 0); ELaunch (1, 0); EFinish (1, 0) true] (2, 0) [EFinish (0, 0) true; EFinish (2, 0) true]
                eq_refl (0, 0) (or_introl eq_refl)).
  cbn in B. destruct B as [B|[B|[B|[]]]]; discriminate.
Qed.
Print Assumptions C15_refuted_warm_rerun.

Theorem C15_partial :
  forall (V : Type) (body : nat -> nat -> list (list (option V)) -> V) (fails : job -> bool)
         (g : graph) (kmax : option nat) (w0 : world V) (orc : list oracle_step) (fuel : nat),
    wf_graph g -> warm_cache w0 = false ->
    starts_after_upstream g (event_log (run_async_warm V body fails repaired g kmax w0 orc fuel))
    /\ at_most_once (event_log (run_async_warm V body fails repaired g kmax w0 orc fuel)).
Proof.
  intros V body fails g kmax w0 orc fuel WF C.
  assert (E : w0 = w_init V).
  { unfold warm_cache in C. apply orb_false_iff in C. destruct C as [A B].
    destruct w0 as [r v]. cbn in A, B. destruct r; [|discriminate]. destruct v; [|discriminate]. reflexivity. }
  subst w0. split.
  - apply (C15_safety V body fails repaired g kmax eq_refl WF).
  - apply (C15_at_most_once V body fails repaired g kmax eq_refl WF).
Qed.
Print Assumptions C15_partial.

(* Nodes with ZERO jobs (a split over an empty list).  The termination theorems above assume >= 1 job per
   node; for a zero-job node the model says: the poll that starts it returns nothing for it and hides its
   consumers (they break on a node recorded as not started), the sequential loop goes round once more because
   some node is not done, the asynchronous loop polls again inside its stall block (one extra poll per
   consecutive zero-job node, at most ten) — and the consumers are then started.  Safety, at-most-once and the
   Finished-state theorems (C15_all_run, C15_sync_all_run) hold for such graphs as stated (no njobs hypothesis). *)
Example C15_zero_job_node :
  let g := [mkNode 0 [] 1; mkNode 1 [0] 0; mkNode 2 [1] 1; mkNode 3 [2] 1] in
  let rs := run_sync unit (fun _ _ _ => tt) (fun _ => false) repaired g None 20 in
  let ra := run_async unit (fun _ _ _ => tt) (fun _ => false) repaired g None [] 20 in
  o_status rs = Finished /\ launches rs = [(0, 0); (2, 0); (3, 0)]
  /\ o_status ra = Finished /\ launches ra = [(0, 0); (2, 0); (3, 0)].
Proof. vm_compute. repeat split. Qed.

(* the hypotheses are met by the repaired code on a diamond with split nodes, and such a run does
   end by itself (status Finished) with all 7 jobs launched *)
Example C15_hyps_nonvacuous :
  let g := [mkNode 0 [] 2; mkNode 1 [0] 1; mkNode 2 [0] 3; mkNode 3 [1; 2] 1] in
  fix14 repaired = true /\ wf_graph g /\
  o_status (run_async unit (fun _ _ _ => tt) (fun _ => false) repaired g (Some 2)
              [mkStep [1] [true]; mkStep [0; 5] [false; true]] 40) = Finished /\
  List.length (launches (run_async unit (fun _ _ _ => tt) (fun _ => false) repaired g (Some 2)
              [mkStep [1] [true]; mkStep [0; 5] [false; true]] 40)) = 7.
Proof. vm_compute. repeat split. Qed.

(* ------------------------------------------------------------------------------------------------
   Nodes with ZERO jobs anywhere, general statements (no hypothesis on the number of jobs of a node).

   Sequential loop: every zero-job node costs one pass that runs nothing, so the bound becomes
   2 * (|jobs| + |nodes|) + 3 passes (potential 2*finished + 2*started nodes + [a task is waiting]); then
   the loop has ended by itself and every job ran exactly once.  (C15_sync_every_job_exactly_once, for
   graphs without empty nodes, keeps its tighter bound |jobs| + 1.) *)
Theorem C15_sync_every_job_exactly_once_any :
  forall (V : Type) (body : nat -> nat -> list (list (option V)) -> V) (fails : job -> bool)
         (vr : variant) (g : graph) (kmax : option nat),
    fix14 vr = true -> wf_graph g -> (forall j, fails j = false) -> (forall k, kmax = Some k -> 1 <= k) ->
    forall fuel, 2 * (List.length (all_jobs g) + List.length g) + 3 <= fuel ->
    o_status (run_sync V body fails vr g kmax fuel) = Finished
    /\ every_job_once g (event_log (run_sync V body fails vr g kmax fuel)).
Proof.
  intros V body fails vr g kmax F WF NF KP fuel B.
  assert (S : o_status (run_sync V body fails vr g kmax fuel) = Finished) by (apply sync_terminates_any; assumption).
  split; [exact S|apply sync_all_run; assumption].
Qed.
Print Assumptions C15_sync_every_job_exactly_once_any.

Example C15_sync_any_nonvacuous :
  let g := [mkNode 0 [] 0; mkNode 1 [0] 0; mkNode 2 [1] 2; mkNode 3 [] 1; mkNode 4 [2; 3] 0; mkNode 5 [4] 1] in
  wf_graph g /\ 2 * (List.length (all_jobs g) + List.length g) + 3 <= 23
  /\ o_status (run_sync unit (fun _ _ _ => tt) (fun _ => false) repaired g (Some 1) 23) = Finished
  /\ launches (run_sync unit (fun _ _ _ => tt) (fun _ => false) repaired g (Some 1) 23) = [(2, 0); (2, 1); (3, 0); (5, 0)].
Proof. vm_compute. repeat split; repeat constructor. Qed.

(* Asynchronous loop: WITHOUT a hypothesis on empty nodes the corresponding statement is FALSE.  Each
   zero-job node met while nothing is pending costs one poll of the stall block, and the stall detector
   gives up after ten: eleven consecutive empty nodes end the run Stalled although no job fails, and their
   consumer is never launched.  (On the real code the same workflow, 12 empty nodes under an asynchronous
   worker, fails inside the stall detector's message builder: TypeError 'NoneType' object is not iterable;
   the debug worker runs it.)  What does hold without the hypothesis: the run ends Finished or Stalled
   (C14_full_total / SchedTermA.async_terminates_full), and C15_safety / C15_at_most_once / C15_all_run. *)
Definition C15_async_any_statement : Prop :=
  forall (V : Type) (body : nat -> nat -> list (list (option V)) -> V) (g : graph) (kmax : option nat)
         (orc : list oracle_step) (fuel : nat),
    wf_graph g -> (forall k, kmax = Some k -> 1 <= k) ->
    2 * (List.length (all_jobs g) + List.length g) + 3 <= fuel ->
    o_status (run_async V body (fun _ => false) repaired g kmax orc fuel) = Finished.

Definition zero_chain : graph :=
  map (fun i => mkNode i (match i with 0 => [] | S p => [p] end) 0) (seq 0 11) ++ [mkNode 11 [10] 1].

Theorem C15_async_zero_chain_refuted : ~ C15_async_any_statement.
Proof.
  intros H.
  pose proof (H unit (fun _ _ _ => tt) zero_chain None [] 40 eq_refl) as B.
  assert (S : o_status (run_async unit (fun _ _ _ => tt) (fun _ => false) repaired zero_chain None [] 40) = Stalled)
    by (vm_compute; reflexivity).
  rewrite S in B. assert (X : Stalled = Finished); [|discriminate X].
  apply B; [intros k E; discriminate E|vm_compute; repeat constructor].
Qed.
Print Assumptions C15_async_zero_chain_refuted.

Example C15_async_zero_chain_detail :
  let o := run_async unit (fun _ _ _ => tt) (fun _ => false) repaired zero_chain None [] 40 in
  o_status o = Stalled /\ launches o = [] /\ mem_job (11, 0) (all_jobs zero_chain) = true.
Proof. vm_compute. repeat split. Qed.

(* ------------------------------------------------------------------------------------------------
   Positive counterpart of C15_async_zero_chain_refuted.  The stall block polls at most eleven times and
   gives up when ten polls in a row (nothing launched, nothing pending) returned no job; without failing
   jobs such a poll always starts a node with ZERO jobs that was not started before (Proofs/SchedO.v,
   poll_progressZ).  Side condition the proof needs, computable on the graph: fewer than ten empty nodes
   (empty_nodes g <= stall_limit - 2 with stall_limit = 11, the argument of stall_loop) — it bounds every run
   of consecutive empty polls, whatever chains the empty nodes form.  Then, for EVERY oracle, |jobs| + 2
   iterations suffice, the run ends Finished, and every job is launched exactly once and finishes. *)
Definition empty_nodes (g : graph) : nat := List.length (filter (fun nd => njobs nd =? 0) g).
Definition stall_limit : nat := 11.

Theorem C15_async_every_job_exactly_once_bounded_empty :
  forall (V : Type) (body : nat -> nat -> list (list (option V)) -> V) (fails : job -> bool)
         (vr : variant) (g : graph) (kmax : option nat),
    fix14 vr = true -> wf_graph g -> (forall j, fails j = false) -> (forall k, kmax = Some k -> 1 <= k) ->
    empty_nodes g + 2 <= stall_limit ->
    forall orc fuel, List.length (all_jobs g) + 2 <= fuel ->
    o_status (run_async V body fails vr g kmax orc fuel) = Finished
    /\ every_job_once g (event_log (run_async V body fails vr g kmax orc fuel)).
Proof.
  intros V body fails vr g kmax F WF NF KP EZ orc fuel B.
  assert (S : o_status (run_async V body fails vr g kmax orc fuel) = Finished).
  { apply (async_terminates_bounded_empty V body fails vr F g WF kmax NF KP); [exact EZ|exact B]. }
  split; [exact S|apply async_all_run; assumption].
Qed.
Print Assumptions C15_async_every_job_exactly_once_bounded_empty.

(* non-vacuity: three empty nodes (two of them consecutive), k = 1, an oracle with multi-completions;
   and the side condition is sharp in kind: zero_chain has 11 empty nodes and is the refutation above *)
Example C15_bounded_empty_nonvacuous :
  let g := [mkNode 0 [] 0; mkNode 1 [0] 0; mkNode 2 [1] 2; mkNode 3 [] 1; mkNode 4 [2; 3] 0; mkNode 5 [4] 1] in
  let o := run_async unit (fun _ _ _ => tt) (fun _ => false) repaired g (Some 1) [mkStep [1; 0] [true]] 6 in
  wf_graph g /\ empty_nodes g = 3 /\ List.length (all_jobs g) + 2 <= 6
  /\ o_status o = Finished /\ List.length (launches o) = 4 /\ empty_nodes zero_chain = 11.
Proof. vm_compute. repeat split; repeat constructor. Qed.
