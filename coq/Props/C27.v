(* C27 — Container environments run the native command with remapped, mounted paths. *)
From Pydra Require Import Base.Prelude Base.PyPath Model.Container Spec.Container Proofs.Container.

(* The property at full strength, for every task, template, runtime, image, xargs, cache root/dir and
   every root that is empty or a normalised absolute path optionally followed by slashes.
   Since the four fix commits it holds of the model of the current tree. *)
Definition C27_full_statement : Prop :=
  forall (c : config) (fs : list field) (tmpl : list token),
    root_ok (c_root c) = true -> fields_ok fs = true -> NoDup (map f_name fs) ->
    container_spec c fs tmpl (container_argv c fs tmpl).

Theorem C27_full : C27_full_statement.
Proof. exact full. Qed.
Print Assumptions C27_full.

(* every path of every FileSet field has its directory bound at <root><dir>, read-write when the field needs it *)
Theorem C27_mounts_cover : forall root fs cr f p,
  root_ok root = true -> fields_ok fs = true -> In f fs -> In p (paths_of f) ->
  exists m, b_lookup (dir_of p) (fst (get_bindings true root fs cr)) = Some (remap root (dir_of p), m) /\
            (f_rw f = true -> m = true).
Proof. exact mounts_cover. Qed.
Print Assumptions C27_mounts_cover.

(* the cache root is always bound read-write at <root><cache_root> (no hypothesis at all) *)
Theorem C27_cache_root_rw : forall root fs cr,
  b_lookup cr (fst (get_bindings true root fs cr)) = Some (remap root cr, true).
Proof. exact cache_root_rw. Qed.
Print Assumptions C27_cache_root_rw.

(* the command: the native vector with every host path of a FileSet field replaced by <root>p *)
Theorem C27_paths_remapped : forall root fs tmpl cr,
  root_ok root = true -> fields_ok fs = true -> NoDup (map f_name fs) ->
  instantiate (updated fs (snd (get_bindings true root fs cr))) tmpl = remapped_argv root fs tmpl.
Proof. exact paths_remapped. Qed.
Print Assumptions C27_paths_remapped.

(* the tree before the fix commits: a later read-only field overwrote the read-write mode … *)
Theorem C27_pinned_refuted_mode_overwrite : ~ pinned_statement.
Proof. exact pinned_refuted_mode_overwrite. Qed.
Print Assumptions C27_pinned_refuted_mode_overwrite.

(* … and a directory containing a space was split into several arguments *)
Theorem C27_pinned_refuted_space : ~ pinned_statement.
Proof. exact pinned_refuted_space. Qed.
Print Assumptions C27_pinned_refuted_space.
