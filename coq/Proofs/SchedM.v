(* Proofs/SchedM.v — additions for the total versions of C14 / C17: what the invariant gives about the
   reported errors at any point of a run, and the values of the jobs that are not downstream of a failure
   in a run that ended by itself while some jobs failed. *)
From Pydra Require Import Base.Prelude Base.SchedBase Model.Sched Spec.Sched Proofs.SchedA Proofs.SchedSpec Proofs.SchedSpec2 Proofs.SchedB Proofs.SchedC Proofs.SchedD Proofs.SchedE Proofs.SchedF Proofs.SchedG Proofs.SchedH.
Local Open Scope nat_scope.

Section M.
Variable V : Type.
Variable body : nat -> nat -> list (list (option V)) -> V.
Variable fails : job -> bool.
Variable vr : variant.
Hypothesis F14 : fix14 vr = true.
Variable g : graph.
Hypothesis WF : wf_graph g.
Variable kmax : option nat.

Notation run := (run_async V body fails vr g kmax).

(* at any point of any run: a job named in the errors was launched, was allowed to run, and is a failing job *)
Theorem async_errors_should_fail orc fuel j :
  In j (error_names (run orc fuel)) -> should_fail g fails j /\ In j (launches (run orc fuel)).
Proof.
  intros H. pose proof (run_async_inv V body fails vr F14 g WF kmax orc fuel) as I.
  pose proof (li_t _ _ _ _ _ _ _ I) as T. unfold error_names in H.
  apply (ti_err_fut _ _ _ _ _ _ _ _ _ _ T) in H.
  destruct (ti_fin_fails _ _ _ _ _ _ _ _ _ _ T j false H) as [A B]. cbn in B.
  assert (L : In j (launches (run orc fuel))).
  { unfold launches. change (In j (launches_of (rev (ls_trace (o_final (run orc fuel)))))).
    rewrite (ti_fut _ _ _ _ _ _ _ _ _ _ T). exact A. }
  split; [|exact L]. split; [|exact B].
  apply (async_launched_should_run V body fails vr F14 g WF kmax orc fuel j L).
Qed.

(* a run that ended by itself: a job that is not downstream of a failure and does not fail itself has the
   reference value *)
Theorem async_values_untainted orc fuel :
  o_status (run orc fuel) = Finished ->
  forall nd, In nd g -> tainted_b g fails (nid nd) = false ->
  forall i, i < njobs nd -> fails (nid nd, i) = false ->
  value_of (ls_w (o_final (run orc fuel))) (nid nd, i) = env_lookup V (nid nd, i) (reference V body g).
Proof.
  intros St. pose proof (run_async_inv V body fails vr F14 g WF kmax orc fuel) as I.
  pose proof (run_loop_finished V body fails vr g kmax _ _ _ St) as C. fold (run orc fuel) in C.
  set (w := ls_w (o_final (run orc fuel))).
  apply (topo_ind g (fun nd => tainted_b g fails (nid nd) = false -> forall i, i < njobs nd ->
            fails (nid nd, i) = false -> value_of w (nid nd, i) = env_lookup V (nid nd, i) (reference V body g)) WF).
  intros nd0 Hnd IH Ht i Hi Hf.
  assert (Ok : is_ok w (nid nd0, i) = true).
  { destruct (end_job V body fails vr F14 g WF kmax _ I C nd0 i Hnd Hi Ht) as [X|X]; [exact X|].
    destruct (li_w _ _ _ _ _ _ _ I (nid nd0, i)) as [_ W2]. fold w in W2. rewrite (W2 X) in Hf. discriminate. }
  rewrite (reference_char V body g WF nd0 i Hnd Hi).
  unfold is_ok, probe_job in Ok. unfold value_of.
  destruct (lookup (nid nd0, i) (results w)) as [[v|]|] eqn:L; try discriminate.
  destruct (li_v _ _ _ _ _ _ _ I (nid nd0) i v L) as [nd' [Fn [_ Ev]]].
  rewrite (topo_b_find [] g nd0 WF Hnd) in Fn. inversion Fn; subst nd'.
  f_equal. rewrite Ev. f_equal.
  rewrite (tainted_char g fails WF nd0 Hnd) in Ht.
  unfold inputs_from, ref_inputs. apply map_ext_in. intros p Hp. apply map_ext_in. intros k Hk.
  apply in_seq in Hk.
  assert (Hpk : tainted_b g fails p = false /\ has_fail_b g fails p = false).
  { destruct (tainted_b g fails p || has_fail_b g fails p) eqn:X.
    - assert (existsb (fun p => tainted_b g fails p || has_fail_b g fails p) (npreds nd0) = true)
        by (apply existsb_exists; exists p; auto). congruence.
    - apply orb_false_iff in X. exact X. }
  destruct Hpk as [Tp Fp].
  destruct (find_node g p) as [nd'|] eqn:Fpn.
  - destruct (find_node_some g p nd' Fpn) as [Hnd' Hid].
    assert (Hk' : k < njobs nd'). { unfold njobs_of in Hk. rewrite Fpn in Hk. lia. }
    rewrite <- Hid. apply (IH p nd' Hp Hnd' Hid); [rewrite Hid; exact Tp|exact Hk'|].
    rewrite Hid. unfold has_fail_b in Fp.
    destruct (fails (p, k)) eqn:Fk; [|reflexivity].
    assert (existsb (fun i => fails (p, i)) (seq 0 (njobs_of g p)) = true).
    { apply existsb_exists. exists k. split; [apply in_seq; lia|exact Fk]. }
    congruence.
  - unfold njobs_of in Hk. rewrite Fpn in Hk. lia.
Qed.

End M.
