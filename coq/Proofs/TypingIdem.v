(* Proofs/TypingIdem.v — C20: task-field histories, and idempotence of coercion on union-free types. *)
From Pydra Require Import Base.Prelude Model.Typing Spec.Typing Proofs.Typing.
Local Open Scope string_scope.

(* ------------------------------------------------------------------ the task field (make_converter) *)
Section Field.
Variable T : tables.
Variable W : world.
Hypothesis WF : tables_wf T = true.

Theorem assign_conforms t v v' : assign T W t v = Ok v' -> conforms T t v'.
Proof. unfold assign. apply coerce_conforms, WF. Qed.

Theorem set_field_conforms t old v : conforms T t old -> conforms T t (set_field T W t old v).
Proof.
  intros H. unfold set_field. destruct (assign T W t v) eqn:E; [|exact H]. eapply assign_conforms; eassumption.
Qed.

(* every history of assignments: the field only ever holds a conforming value *)
Theorem field_history t vs : forall v0, conforms T t v0 -> conforms T t (fold_left (set_field T W t) vs v0).
Proof. induction vs as [|v vs IH]; intros v0 H; cbn; [exact H|]. apply IH, set_field_conforms, H. Qed.

(* a rejected assignment changes nothing *)
Theorem set_field_rejected t old v e : assign T W t v = Err e -> set_field T W t old v = old.
Proof. intros H. unfold set_field. now rewrite H. Qed.
End Field.

(* ------------------------------------------------------------------ set() / dict keys are duplicate-free *)
Inductive nd : list val -> list val -> Prop :=
  | nd_nil acc : nd acc []
  | nd_cons acc x r : existsb (fun y => py_eq y x) acc = false -> nd (x :: acc) r -> nd acc (x :: r).

Lemma dedupe_nd l : forall acc, exists r, dedupe l acc = (rev acc ++ r)%list /\ nd acc r.
Proof.
  induction l as [|x l IH]; intros acc; cbn.
  - exists []. rewrite app_nil_r. split; [reflexivity|constructor].
  - destruct (existsb (fun y => py_eq y x) acc) eqn:E.
    + apply IH.
    + destruct (IH (x :: acc)) as [r [Hr Hn]]. exists (x :: r). split.
      * rewrite Hr. cbn. now rewrite <- app_assoc.
      * now constructor.
Qed.

Lemma nd_dedupe r : forall acc, nd acc r -> dedupe r acc = (rev acc ++ r)%list.
Proof.
  induction r as [|x r IH]; intros acc H; cbn.
  - now rewrite app_nil_r.
  - inversion H; subst. rewrite H3. rewrite IH by assumption. cbn. now rewrite <- app_assoc.
Qed.

Lemma dedupe_idem l : dedupe (dedupe l []) [] = dedupe l [].
Proof.
  destruct (dedupe_nd l []) as [r [Hr Hn]]. cbn in Hr. rewrite Hr. now apply (nd_dedupe r []).
Qed.

Lemma dedupe_in l : forall acc x, In x (dedupe l acc) -> In x l \/ In x acc.
Proof. exact (dedupe_incl l). Qed.

(* keys of a dict built by dict_set are pairwise different (in the sense dict_set compares them) *)
Definition key_ne (p q : val * val) : Prop := py_eq (fst p) (fst q) = false.

Lemma dict_set_keys (Q : val -> Prop) d k x :
  Forall (fun q => Q (fst q)) d -> Q k -> Forall (fun q => Q (fst q)) (dict_set d k x).
Proof.
  induction d as [|[k' x'] d IH]; cbn; intros H Hk.
  - constructor; [exact Hk|constructor].
  - inversion H; subst. destruct (py_eq k' k); constructor; auto.
Qed.

Lemma dict_set_nd d : forall k x, ForallOrdPairs key_ne d -> ForallOrdPairs key_ne (dict_set d k x).
Proof.
  induction d as [|[k' x'] d IH]; intros k x H; cbn.
  - constructor; constructor.
  - inversion H as [|? ? Hall Hd]; subst. destruct (py_eq k' k) eqn:E.
    + constructor; assumption.
    + constructor; [|apply IH; assumption].
      apply (dict_set_keys (fun q => py_eq k' q = false)); assumption.
Qed.

Lemma dict_set_fresh d k x :
  Forall (fun p => key_ne p (k, x)) d -> dict_set d k x = (d ++ [(k, x)])%list.
Proof.
  induction d as [|[k' x'] d IH]; cbn; intros H; [reflexivity|].
  inversion H as [|? ? Hk Hd]; subst. unfold key_ne in Hk. cbn in Hk. rewrite Hk. now rewrite IH.
Qed.

Lemma FOP_app_inv {A} (R : A -> A -> Prop) l1 : forall y l2,
  ForallOrdPairs R (l1 ++ y :: l2) -> Forall (fun p => R p y) l1.
Proof.
  induction l1 as [|a l1 IH]; intros y l2 H; cbn in H; [constructor|].
  inversion H as [|? ? Hall Hr]; subst. constructor.
  - rewrite Forall_forall in Hall. apply Hall. apply in_or_app. right; left; reflexivity.
  - eapply IH; eassumption.
Qed.

Section DictIdem.
Variables fk fx : val -> result val.
Hypothesis Hk : forall a a', fk a = Ok a' -> fk a' = Ok a'.
Hypothesis Hx : forall b b', fx b = Ok b' -> fx b' = Ok b'.

Definition entry_fixed (p : val * val) : Prop :=
  fk (fst p) = Ok (fst p) /\ hashable (fst p) = true /\ fx (snd p) = Ok (snd p).
Definition dict_inv (d : list (val * val)) : Prop := ForallOrdPairs key_ne d /\ Forall entry_fixed d.

Lemma dict_set_fixed d k x : Forall entry_fixed d -> entry_fixed (k, x) -> Forall entry_fixed (dict_set d k x).
Proof.
  induction d as [|[k' x'] d IH]; cbn; intros H He.
  - constructor; [exact He|constructor].
  - inversion H as [|? ? Hp Hd]; subst. destruct (py_eq k' k).
    + constructor; [|assumption]. destruct Hp as [A [B _]], He as [_ [_ C]]. repeat split; assumption.
    + constructor; auto.
Qed.

Lemma dict_res_inv : forall kv acc d, dict_inv acc -> dict_res fk fx kv acc = Ok d -> dict_inv d.
Proof.
  induction kv as [|[a b] kv IH]; cbn; intros acc d Hacc H.
  - now inversion H; subst.
  - destruct (fk a) as [a'|] eqn:Ea; [|discriminate].
    destruct (fx b) as [b'|] eqn:Eb; [|discriminate].
    destruct (hashable a') eqn:Eh; [|discriminate].
    eapply IH; [|exact H]. destruct Hacc as [H1 H2]. split.
    + now apply dict_set_nd.
    + apply dict_set_fixed; [assumption|]. repeat split; cbn; eauto.
Qed.

Lemma dict_res_fixed : forall d2 d1,
  ForallOrdPairs key_ne (d1 ++ d2) -> Forall entry_fixed d2 -> dict_res fk fx d2 d1 = Ok (d1 ++ d2)%list.
Proof.
  induction d2 as [|[k x] d2 IH]; intros d1 Hnd Hfix; cbn.
  - now rewrite app_nil_r.
  - inversion Hfix as [|? ? [A [B C]] Hd]; subst. cbn in A, B, C. rewrite A, C, B.
    rewrite dict_set_fresh by (eapply FOP_app_inv; eassumption).
    rewrite IH; [now rewrite <- app_assoc| now rewrite <- app_assoc |assumption].
Qed.
End DictIdem.

(* ------------------------------------------------------------------ idempotence on union-free types *)
Section Idem.
Variable T : tables.
Variable W : world.
Variable sac : bool.
Hypothesis WF : tables_wf T = true.

Lemma map_res_fixed {A} (f : A -> result A) l : Forall (fun y => f y = Ok y) l -> map_res f l = Ok l.
Proof. induction 1 as [|y l Hy Hl IH]; cbn; [reflexivity|]. now rewrite Hy, IH. Qed.

Lemma coerce_basic_idem c v v' : coerce_basic T W sac c v = Ok v' -> coerce_basic T W sac c v' = Ok v'.
Proof.
  unfold coerce_basic. destruct (is_instance T v c) eqn:E.
  - inversion 1; subst. now rewrite E.
  - destruct (check_coercible T sac v c); [|discriminate]. intros H.
    apply (construct_class T) in H. destruct H as [<- _]. now rewrite (is_instance_self T WF).
Qed.

(* the None arm of an Optional never converts: it returns its input or raises TypeError *)
Lemma none_id v v' : coerce_basic T W sac CNone v = Ok v' -> v' = v.
Proof.
  unfold coerce_basic. destruct (is_instance T v CNone); [now inversion 1|].
  destruct (check_coercible T sac v CNone); discriminate.
Qed.

Lemma none_err v e : coerce_basic T W sac CNone v = Err e -> e = ETypeError.
Proof.
  unfold coerce_basic. destruct (is_instance T v CNone); [discriminate|].
  destruct (check_coercible T sac v CNone) as [u|e'] eqn:E; [cbn; now inversion 1|].
  inversion 1; subst. unfold check_coercible in E. destruct (_ && _); [discriminate|].
  unfold check_type_coercible, check_type_coercible_gen in E.
  assert (forall crit, exists m, matches_criteria T (SCls (class_of T v)) CNone crit = Ok m) as Hm.
  { induction crit as [|[x y] crit [m Hm]]; cbn; [eauto|]. rewrite Hm. eauto. }
  destruct (cls_eqb _ _); [discriminate|]. destruct (sac && _); [discriminate|].
  destruct (Hm (t_coercible T)) as [m1 E1]. rewrite E1 in E. destruct m1; [|now inversion E].
  destruct (Hm (t_not_coercible T)) as [m2 E2]. rewrite E2 in E. destruct m2; [now inversion E|discriminate].
Qed.

Lemma forallb_dedupe (p : val -> bool) l : forallb p l = true -> forallb p (dedupe l []) = true.
Proof.
  rewrite !forallb_forall. intros H x Hx. apply dedupe_incl in Hx. destruct Hx as [Hx|[]]. auto.
Qed.

Lemma Forall2_fixed {A} (f : A -> result A) l l' :
  (forall x y, f x = Ok y -> f y = Ok y) -> Forall2 (fun x y => f x = Ok y) l l' -> Forall (fun y => f y = Ok y) l'.
Proof. intros Hf H. eapply Forall2_right; [exact H|]. intros x y _ HR. exact (Hf _ _ HR). Qed.

Lemma enter_inst o v : is_instance T v o = true -> enter T sac o v = Ok true.
Proof. unfold enter. now intros ->. Qed.

Lemma coerce_seq_idem o f v v' :
  In o [CList; CTuple; CSet; CFrozenset] ->
  (forall x y, f x = Ok y -> f y = Ok y) ->
  coerce_seq T sac o f v = Ok v' -> coerce_seq T sac o f v' = Ok v'.
Proof.
  intros Ho Hf H. apply (coerce_seq_shape T WF) in H.
  destruct H as [Hi [items [l [_ [Hl [Hs Hh]]]]]].
  apply map_res_ok in Hl. pose proof (Forall2_fixed f items l Hf Hl) as Hfix.
  assert (Forall (fun y => f y = Ok y) (stored o l)) as Hfix'.
  { rewrite Forall_forall in *. intros y Hy. apply Hfix. now apply (stored_incl o l). }
  unfold coerce_seq. rewrite (enter_inst _ _ Hi).
  destruct Ho as [<-|[<-|[<-|[<-|[]]]]]; destruct Hs as [k ->]; cbn [iter stored is_setc] in *;
    rewrite (map_res_fixed f _ Hfix'); cbn [build keep]; try reflexivity.
  - rewrite (forallb_dedupe hashable l (Hh eq_refl)), dedupe_idem. reflexivity.
  - rewrite (forallb_dedupe hashable l (Hh eq_refl)), dedupe_idem. reflexivity.
Qed.

Lemma zip_res_fixed (g : ty -> val -> result val) : forall ts items l,
  Forall (fun a => forall x y, g a x = Ok y -> g a y = Ok y) ts ->
  List.length ts = List.length items ->
  zip_res (map g ts) items = Ok l ->
  zip_res (map g ts) l = Ok l /\ List.length l = List.length ts.
Proof.
  induction ts as [|a ts IH]; intros items l HF Hlen H; destruct items as [|x items]; try discriminate; cbn in H.
  - inversion H; subst. split; reflexivity.
  - inversion HF as [|? ? Ha Hts]; subst.
    destruct (g a x) as [y|] eqn:E; [|discriminate].
    destruct (zip_res (map g ts) items) as [ys|] eqn:E2; [|discriminate].
    inversion H; subst. cbn in Hlen. destruct (IH items ys Hts ltac:(lia) E2) as [H1 H2].
    cbn. rewrite (Ha _ _ E), H1. split; [reflexivity|]. now rewrite H2.
Qed.

Lemma coerce_multi_idem f v v' :
  (forall x y, f x = Ok y -> f y = Ok y) -> coerce_multi T f v = Ok v' -> coerce_multi T f v' = Ok v'.
Proof.
  intros Hf. unfold coerce_multi at 1.
  assert (forall r, wrap1 r = Ok v' -> r = f v -> coerce_multi T f v' = Ok v') as Hw.
  { intros r Hr ->. destruct (f v) as [x|] eqn:E; [|discriminate]. inversion Hr; subst.
    unfold coerce_multi. rewrite (plain_list_not_vstr T WF). cbn. now rewrite (Hf _ _ E). }
  destruct (is_vstr T v).
  - intros H. eapply Hw; [exact H|reflexivity].
  - destruct (match iter v with Ok items => map_res f items | Err e => Err e end) as [l|e] eqn:E.
    + inversion 1; subst. destruct (iter v) as [items|]; [|discriminate]. apply map_res_ok in E.
      unfold coerce_multi. rewrite (plain_list_not_vstr T WF). cbn.
      now rewrite (map_res_fixed f l (Forall2_fixed f items l Hf E)).
    + destruct e; try discriminate. intros H. eapply Hw; [exact H|reflexivity].
Qed.

Theorem coerce_idempotent_union_free :
  forall t, union_free t = true -> forall v v', coerce T W sac t v = Ok v' -> coerce T W sac t v' = Ok v'.
Proof.
  induction t as [c|a IHa|ts IHts|a IHa|k x IHk IHx|fr a IHa|ts IHts|a IHa] using ty_ind';
    intros U v v' H; cbn [coerce] in *; cbn [union_free] in U.
  - eapply coerce_basic_idem; eassumption.
  - eapply coerce_seq_idem; [cbn; tauto|apply IHa, U|exact H].
  - (* fixed-length tuple *)
    destruct (coerce_tuple_shape T WF sac _ _ _ H) as [Hi [items [l [k [_ [Hlen [Hz ->]]]]]]].
    rewrite map_length in Hlen.
    assert (Forall (fun a => forall x y, coerce T W sac a x = Ok y -> coerce T W sac a y = Ok y) ts) as HF.
    { rewrite forallb_forall in U. rewrite Forall_forall in *. intros a Ha. apply IHts; auto. }
    destruct (zip_res_fixed (coerce T W sac) ts items l HF Hlen Hz) as [H1 H2].
    unfold coerce_tuple. rewrite (enter_inst _ _ Hi). cbn [iter].
    rewrite map_length, H2, Nat.eqb_refl, H1. reflexivity.
  - eapply coerce_seq_idem; [cbn; tauto|apply IHa, U|exact H].
  - (* dict *)
    apply andb_true_iff in U. destruct U as [Uk Ux].
    destruct (coerce_dict_shape T WF sac _ _ _ _ H) as [Hi [g0 [kv [g [d [-> [Hd ->]]]]]]].
    pose proof (dict_res_inv _ _ (IHk Uk) (IHx Ux) kv [] d) as Hinv.
    destruct Hinv as [Hnd Hfix]; [split; constructor|exact Hd|].
    unfold coerce_dict. rewrite (enter_inst _ _ Hi).
    now rewrite (dict_res_fixed _ _ d [] Hnd Hfix).
  - destruct fr; (eapply coerce_seq_idem; [cbn; tauto|apply IHa, U|exact H]).
  - (* Optional[...] *)
    destruct ts as [|a [|b [|c r]]]; try discriminate.
    inversion IHts as [|? ? IHa' IHr]; subst. inversion IHr as [|? ? IHb' _]; subst.
    cbn [first_ok] in *.
    apply orb_true_iff in U. destruct U as [U|U]; apply andb_true_iff in U; destruct U as [Un Uf].
    + (* [a; None] *)
      destruct b as [[]| | | | | | |]; try discriminate. cbn [coerce] in *.
      destruct (coerce T W sac a v) as [y|e] eqn:Ea.
      * inversion H; subst. now rewrite (IHa' Uf _ _ Ea).
      * destruct e; try discriminate.
        destruct (coerce_basic T W sac CNone v) as [y|e] eqn:En; [|destruct e; discriminate].
        inversion H; subst. pose proof (none_id _ _ En) as ->. now rewrite Ea, En.
    + (* [None; b] *)
      destruct a as [[]| | | | | | |]; try discriminate. cbn [coerce] in *.
      destruct (coerce_basic T W sac CNone v) as [y|e] eqn:En.
      * inversion H; subst. pose proof (none_id _ _ En) as ->. now rewrite En.
      * destruct e; try discriminate.
        destruct (coerce T W sac b v) as [y|e] eqn:Eb; [|destruct e; discriminate].
        inversion H; subst.
        destruct (coerce_basic T W sac CNone v') as [y|e] eqn:En'.
        -- now rewrite (none_id _ _ En').
        -- rewrite (none_err _ _ En'). now rewrite (IHb' Uf _ _ Eb).
  - eapply coerce_multi_idem; [apply IHa, U|exact H].
Qed.

End Idem.
