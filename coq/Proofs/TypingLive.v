(* Proofs/TypingLive.v — the C20 lemmas instantiated with the tables translated from the live source
   (Generated/TypingTables.v, rewritten on every run): the table conditions are re-checked by computation,
   the refutation witnesses are re-evaluated on the live tables. *)
From Pydra Require Import Base.Prelude Model.Typing Spec.Typing Proofs.Typing Proofs.TypingIdem Proofs.TypingNss.
From Pydra Require Import Generated.TypingTables.
Local Open Scope string_scope.

Lemma live_wf : tables_wf live = true.
Proof. vm_compute. reflexivity. Qed.

Lemma live_nss : tables_nss no_pairs live = true.
Proof. vm_compute. reflexivity. Qed.

(* a world in which every path exists and suits every format *)
Definition W_all : world := {| w_abs := fun p => p; w_check := fun _ _ => None |}.

Lemma live_conforms W sac t v v' : coerce live W sac t v = Ok v' -> conforms live t v'.
Proof. apply coerce_conforms, live_wf. Qed.

Lemma live_assign_conforms W t v v' : assign live W t v = Ok v' -> conforms live t v'.
Proof. apply assign_conforms, live_wf. Qed.

Lemma live_field_history W t vs v0 :
  conforms live t v0 -> conforms live t (fold_left (set_field live W t) vs v0).
Proof. apply field_history, live_wf. Qed.

Lemma live_idem W sac t :
  union_free t = true -> forall v v', coerce live W sac t v = Ok v' -> coerce live W sac t v' = Ok v'.
Proof. apply coerce_idempotent_union_free, live_wf. Qed.

Lemma live_nss_full W sac t :
  scalar_based t = true -> forall v v', coerce live W sac t v = Ok v' -> nss live no_pairs v v' = true.
Proof. apply coerce_nss; [apply live_wf|apply live_nss]. Qed.

(* ---- the theorems are not vacuous: conversions do happen *)
Example ex_convert :
  coerce live W_all false (TList (TBase CFloat)) (VTuple None [VInt None 1; VBool true]) = Ok (VList None [VFloat None 1; VFloat None 1]).
Proof. vm_compute. reflexivity. Qed.
Example ex_reject : coerce live W_all false (TList (TBase CInt)) (VStr None "abc") = Err ETypeError.
Proof. vm_compute. reflexivity. Qed.
Example ex_nested :
  coerce live W_all true (TDict (TBase CPath) (TSet false (TBase CFloat)))
         (VDict None [(VStr None "a//b", VList None [VInt None 1; VFloat None 1; VInt None 2])])
  = Ok (VDict None [(VPath None "a/b", VSet None false [VFloat None 1; VFloat None 2])]).
Proof. vm_compute. reflexivity. Qed.

(* ---- instances of registered subclasses (KSub 0 = class StrSub(str), KSub 5 = class ListSub(list), KSub 12 =
   numpy.int64): a str subclass is wrapped, not split, by a MultiInputObj field; a list subclass keeps its class;
   a numpy.int64 is converted by int() *)
Example ex_sub_str_multi :
  coerce live W_all false (TMulti (TBase CStr)) (VStr (Some 0) "abc") = Ok (VList None [VStr (Some 0) "abc"]).
Proof. vm_compute. reflexivity. Qed.
Example ex_sub_list :
  coerce live W_all false (TList (TBase CFloat)) (VList (Some 5) [VInt None 1])
  = Ok (VList (Some 5) [VFloat None 1]).
Proof. vm_compute. reflexivity. Qed.
Example ex_numpy_int :
  coerce live W_all false (TBase CInt) (VInt (Some 12) 3) = Ok (VInt None 3).
Proof. vm_compute. reflexivity. Qed.

(* ---- refutations on the live tables *)
Definition idem_statement : Prop :=
  forall W sac t v v', coerce live W sac t v = Ok v' -> coerce live W sac t v' = Ok v'.

Lemma idem_refuted : ~ idem_statement.
Proof.
  intros H.
  specialize (H W_all false (TUnion [TSet false (TBase CInt); TMulti (TBase CInt)]) (VSet None true [VInt None 1])
                (VList None [VInt None 1]) ltac:(vm_compute; reflexivity)).
  vm_compute in H. discriminate.
Qed.

(* the conversions finding F20 was about are now rejected *)
Example ex_str_to_set : coerce live W_all false (TSet false (TBase CStr)) (VStr None "abc") = Err ETypeError.
Proof. vm_compute. reflexivity. Qed.
Example ex_set_to_str : coerce live W_all false (TBase CStr) (VSet None false [VStr None "a"]) = Err ETypeError.
Proof. vm_compute. reflexivity. Qed.
Example ex_bytes_to_list : coerce live W_all false (TList (TBase CInt)) (VBytes None "ab") = Err ETypeError.
Proof. vm_compute. reflexivity. Qed.
Example ex_multi_bytes : coerce live W_all false (TMulti (TBase CBytes)) (VBytes None "ab") = Ok (VList None [VBytes None "ab"]).
Proof. vm_compute. reflexivity. Qed.
